(* LemmasD.v (C11) — proofs about the dataset-level value model (C11/Dataset.v). *)
From Coq Require Import List Arith ZArith QArith Bool Lia.
Import ListNotations.
From SV Require Import C11.Values C11.LemmasV C11.Dataset.

(* ------------------------------------------------------------ filtering -- *)

Lemma filter_idem : forall A (g : A -> bool) l, filter g (filter g l) = filter g l.
Proof.
  induction l as [|a t IH]; simpl; auto.
  destruct (g a) eqn:E; simpl; [rewrite E; f_equal|]; auto.
Qed.

Lemma filter_len_le : forall A (g : A -> bool) l, (length (filter g l) <= length l)%nat.
Proof. induction l as [|a t IH]; simpl; auto. destruct (g a); simpl; lia. Qed.

Lemma rebind_idem_l : forall uo fr, rebind uo (rebind uo fr) = rebind uo fr.
Proof.
  intros [|] fr; unfold rebind; auto.
  destruct (filter li_user fr) as [|u us] eqn:E.
  - rewrite E. reflexivity.
  - assert (H : filter li_user (u :: us) = u :: us) by (rewrite <- E; apply filter_idem).
    rewrite H. reflexivity.
Qed.

Lemma rebind_in : forall uo fr li, In li (rebind uo fr) -> In li fr.
Proof.
  intros [|] fr li; unfold rebind; auto.
  destruct (filter li_user fr) as [|u us] eqn:E; auto.
  intro H. rewrite <- E in H. apply filter_In in H. tauto.
Qed.

Lemma rebind_len : forall uo fr, (length (rebind uo fr) <= length fr)%nat.
Proof.
  intros [|] fr; unfold rebind; auto.
  destruct (filter li_user fr) as [|u us] eqn:E; auto.
  rewrite <- E. apply filter_len_le.
Qed.

(* with user_instances_only and at least one user instance: exactly the user instances *)
Lemma rebind_users_l : forall fr, existsb li_user fr = true -> rebind true fr = filter li_user fr.
Proof.
  intros fr H. unfold rebind. destruct (filter li_user fr) as [|u us] eqn:E; auto.
  exfalso. apply existsb_exists in H. destruct H as [x [Hin Hu]].
  assert (In x (filter li_user fr)) by (apply filter_In; auto). rewrite E in H. inversion H.
Qed.

(* without any user instance (or with user_instances_only off) every instance is considered *)
Lemma rebind_no_users_l : forall uo fr, existsb li_user fr = false -> rebind uo fr = fr.
Proof.
  intros [|] fr H; unfold rebind; auto.
  destruct (filter li_user fr) as [|u us] eqn:E; auto. exfalso.
  assert (Hin : In u (filter li_user fr)) by (rewrite E; left; reflexivity).
  apply filter_In in Hin. destruct Hin as [Hin Hu].
  assert (existsb li_user fr = true) by (apply existsb_exists; eauto). congruence.
Qed.

Lemma considered_rebind : forall uo fr, considered uo (rebind uo fr) = considered uo fr.
Proof. intros. unfold considered. rewrite rebind_idem_l. reflexivity. Qed.

(* nothing is invented: a considered instance is the keypoint array of an instance of the frame *)
Lemma considered_from_labels_l : forall uo fr inst, In inst (considered uo fr) ->
  exists li, In li fr /\ li_pts li = inst.
Proof.
  intros uo fr inst H. unfold considered in H. apply in_map_iff in H.
  destruct H as [li [E Hin]]. exists li. split; auto. eapply rebind_in; eauto.
Qed.

(* ----------------------------------------------------------- process_lf -- *)

Lemma all_missing_nan_row : forall n, all_missing (nan_row n) = true.
Proof. induction n; simpl; auto. Qed.

Lemma process_lf_num_l : forall uo maxi fr,
  snd (process_lf uo maxi fr) = length (filter nonempty (considered uo fr)).
Proof. reflexivity. Qed.

Lemma process_lf_row_l : forall uo maxi fr j, (j < snd (process_lf uo maxi fr))%nat ->
  nth_error (fst (process_lf uo maxi fr)) j = nth_error (filter nonempty (considered uo fr)) j.
Proof.
  intros uo maxi fr j H. unfold process_lf in *; simpl in *.
  destruct (Nat.eqb maxi 1); auto. apply nth_error_app1; auto.
Qed.

Lemma process_lf_pad_l : forall uo maxi fr j row, (snd (process_lf uo maxi fr) <= j)%nat ->
  nth_error (fst (process_lf uo maxi fr)) j = Some row -> all_missing row = true.
Proof.
  intros uo maxi fr j row H Hn. unfold process_lf in *; simpl in *.
  destruct (Nat.eqb maxi 1).
  - apply nth_error_None in H. congruence.
  - rewrite nth_error_app2 in Hn by assumption. apply nth_error_In in Hn.
    apply repeat_spec in Hn. subst. apply all_missing_nan_row.
Qed.

Lemma process_lf_len_l : forall uo maxi fr, Nat.eqb maxi 1 = false ->
  (snd (process_lf uo maxi fr) <= maxi)%nat -> length (fst (process_lf uo maxi fr)) = maxi.
Proof.
  intros uo maxi fr H Hle. unfold process_lf in *; simpl in *. rewrite H.
  rewrite app_length, repeat_length. unfold absdiff. lia.
Qed.

Lemma list_max_ge : forall l x, In x l -> (x <= list_max l)%nat.
Proof.
  intros l x H. assert (F : Forall (fun k => (k <= list_max l)%nat) l) by (apply list_max_le; lia).
  rewrite Forall_forall in F. auto.
Qed.

Lemma num_le_max_instances_l : forall uo frames fr, In fr frames ->
  (snd (process_lf uo (max_instances frames) (rebind uo fr)) <= max_instances frames)%nat.
Proof.
  intros uo frames fr Hin. rewrite process_lf_num_l, considered_rebind.
  eapply Nat.le_trans; [apply filter_len_le|]. unfold considered. rewrite map_length.
  eapply Nat.le_trans; [apply rebind_len|]. unfold max_instances.
  apply list_max_ge. apply in_map. assumption.
Qed.

(* --------------------------------------------------------- frame samples -- *)

Lemma nth_error_map' : forall A B (g : A -> B) l n,
  nth_error (map g l) n = option_map g (nth_error l n).
Proof. induction l as [|a t IH]; intros [|n]; simpl; auto. Qed.

Lemma ds_frames_nth : forall uo frames f fr, nth_error (ds_frames uo frames) f = Some fr ->
  fr = considered uo (nth f frames []) /\ (f < length frames)%nat.
Proof.
  intros uo frames f fr H. unfold ds_frames in H. rewrite nth_error_map' in H.
  destruct (nth_error frames f) as [x|] eqn:E; simpl in H; [|discriminate]. inversion H; subst.
  split; [|apply nth_error_Some; congruence].
  rewrite (nth_error_nth _ _ _ E). reflexivity.
Qed.

Lemma frame_sample_defined_l : forall uo s frames k,
  (k < length (lf_idx_list (ds_frames uo frames)))%nat <-> frame_sample uo s frames k <> None.
Proof.
  intros. unfold frame_sample. destruct (nth_error (lf_idx_list (ds_frames uo frames)) k) eqn:E.
  - split; [discriminate|]. intros _. apply nth_error_Some. congruence.
  - split; [|congruence]. intro H. apply nth_error_None in E. lia.
Qed.

Lemma existsb_filter_pos : forall A (g : A -> bool) l, existsb g l = true -> (0 < length (filter g l))%nat.
Proof.
  induction l as [|a t IH]; simpl; [discriminate|]. destruct (g a); simpl; [lia|auto].
Qed.

(* every sample of the frame-level datasets: its first num_instances rows are
   exactly the non-empty considered label instances of its frame, in label
   order, times the scale; every further row is all-NaN padding; there is at
   least one row; the frame is a frame of the labels *)
Lemma frame_sample_rows_l : forall uo s frames k rows n,
  frame_sample uo s frames k = Some (rows, n) ->
  exists f, nth_error (lf_idx_list (ds_frames uo frames)) k = Some f /\ (f < length frames)%nat /\
    let labs := filter nonempty (considered uo (nth f frames [])) in
    n = length labs /\ (0 < n)%nat /\
    (forall j lab, nth_error labs j = Some lab -> nth_error rows j = Some (map (scale_kp s) lab)) /\
    (forall j row, (n <= j)%nat -> nth_error rows j = Some row -> all_missing row = true).
Proof.
  intros uo s frames k rows n H. unfold frame_sample in H.
  destruct (nth_error (lf_idx_list (ds_frames uo frames)) k) as [f|] eqn:E; [|discriminate].
  cbv zeta in H.
  assert (Hr : scale_rows s (fst (process_lf uo (max_instances frames) (rebind uo (nth f frames [])))) = rows)
    by congruence.
  assert (Hn : snd (process_lf uo (max_instances frames) (rebind uo (nth f frames []))) = n) by congruence.
  clear H. subst rows n. exists f. split; auto.
  assert (Hin : In f (lf_idx_list (ds_frames uo frames))) by (eapply nth_error_In; eauto).
  apply frame_idx_list_sound_l in Hin. destruct Hin as [fr [Hfr Hex]].
  destruct (ds_frames_nth _ _ _ _ Hfr) as [-> Hlt]. split; auto.
  set (fr0 := nth f frames []) in *.
  rewrite process_lf_num_l, considered_rebind. cbv zeta. split; [reflexivity|].
  split. { apply existsb_filter_pos. exact Hex. }
  split.
  - intros j lab Hj. unfold scale_rows. rewrite nth_error_map'.
    rewrite process_lf_row_l.
    + rewrite considered_rebind. fold fr0. rewrite Hj. reflexivity.
    + rewrite process_lf_num_l, considered_rebind. apply nth_error_Some. fold fr0. congruence.
  - intros j row Hj Hn. unfold scale_rows in Hn. rewrite nth_error_map' in Hn.
    match type of Hn with option_map _ ?t = _ => destruct t as [r0|] eqn:E0 end;
      simpl in Hn; [|discriminate].
    inversion Hn; subst. rewrite all_missing_scale.
    eapply process_lf_pad_l; [|exact E0]. rewrite process_lf_num_l, considered_rebind. exact Hj.
Qed.

Lemma scaled_missing_iff_l : forall s (inst : instance) k,
  nth k (map (scale_kp s) inst) None = None <-> nth k inst None = None.
Proof.
  intros s inst k. rewrite nth_map_kp by reflexivity.
  destruct (nth k inst None) as [[x y]|]; simpl; split; auto; discriminate.
Qed.

(* width of `instances`: max_instances rows (unless max_instances = 1) *)
Lemma frame_sample_width_l : forall uo s frames k rows n,
  frame_sample uo s frames k = Some (rows, n) -> Nat.eqb (max_instances frames) 1 = false ->
  length rows = max_instances frames.
Proof.
  intros uo s frames k rows n H Hm. unfold frame_sample in H.
  destruct (nth_error (lf_idx_list (ds_frames uo frames)) k) as [f|] eqn:E; [|discriminate].
  cbv zeta in H.
  assert (Hr : scale_rows s (fst (process_lf uo (max_instances frames) (rebind uo (nth f frames [])))) = rows)
    by congruence.
  clear H. subst rows. unfold scale_rows. rewrite map_length.
  apply process_lf_len_l; auto.
  assert (Hin : In f (lf_idx_list (ds_frames uo frames))) by (eapply nth_error_In; eauto).
  apply frame_idx_list_sound_l in Hin. destruct Hin as [fr [Hfr _]].
  destruct (ds_frames_nth _ _ _ _ Hfr) as [_ Hlt].
  apply num_le_max_instances_l. apply nth_In. assumption.
Qed.

(* --------------------------------------------------- centered-instance -- *)

(* sample k is cut around the k-th non-empty considered instance: the row that
   `_fill_cache` takes from the stacked frame is the instance that
   `_get_instance_idx_list` enumerated, and it is not empty *)
Lemma centered_source_l : forall uo frames k,
  (k < length (instance_idx_list (ds_frames uo frames)))%nat ->
  exists f i inst, nth_error (instance_idx_list (ds_frames uo frames)) k = Some (f, i) /\
    (f < length frames)%nat /\
    centered_source uo frames k = Some inst /\
    nth_error (considered uo (nth f frames [])) i = Some inst /\ nonempty inst = true.
Proof.
  intros uo frames k Hk. unfold centered_source.
  destruct (nth_error (instance_idx_list (ds_frames uo frames)) k) as [[f i]|] eqn:E.
  2:{ apply nth_error_None in E. lia. }
  assert (Hin : In (f, i) (instance_idx_list (ds_frames uo frames))) by (eapply nth_error_In; eauto).
  apply instance_idx_list_sound_l in Hin. destruct Hin as [fr [inst [Hfr [Hi Hb]]]].
  destruct (ds_frames_nth _ _ _ _ Hfr) as [-> Hlt].
  exists f, i, inst. repeat split; auto.
  unfold nonempty. rewrite Hb. reflexivity.
Qed.

Lemma centered_sample_defined_l : forall fixed anchor uo s frames k,
  (k < length (instance_idx_list (ds_frames uo frames)))%nat <->
  centered_sample fixed anchor uo s frames k <> None.
Proof.
  intros. split.
  - intro H. destruct (centered_source_l uo frames k H) as [f [i [inst [_ [_ [Hs _]]]]]].
    unfold centered_sample. rewrite Hs. discriminate.
  - intro H. unfold centered_sample, centered_source in H.
    destruct (nth_error (instance_idx_list (ds_frames uo frames)) k) eqn:E; [|congruence].
    apply nth_error_Some. congruence.
Qed.

(* with generate_centroids repaired: the keypoints kept in sample k are the label
   instance times the scale (nothing invented, nothing dropped), and the sample
   has a centroid *)
Lemma centered_sample_fixed_l : forall anchor uo s frames k c kept,
  centered_sample true anchor uo s frames k = Some (c, kept) ->
  exists f i inst, nth_error (instance_idx_list (ds_frames uo frames)) k = Some (f, i) /\
    nth_error (considered uo (nth f frames [])) i = Some inst /\ nonempty inst = true /\
    kept = map (scale_kp s) inst /\ c <> None.
Proof.
  intros anchor uo s frames k c kept H.
  assert (Hk : (k < length (instance_idx_list (ds_frames uo frames)))%nat).
  { apply (centered_sample_defined_l true anchor uo s). congruence. }
  destruct (centered_source_l uo frames k Hk) as [f [i [inst [Hi [_ [Hs [Hn Hne]]]]]]].
  exists f, i, inst. unfold centered_sample in H. rewrite Hs in H. inversion H as [E]; clear H.
  repeat split; auto.
  - pose proof (gen_centroid_fixed_preserves anchor (map (scale_kp s) inst)) as P.
    rewrite E in P. simpl in P. assumption.
  - intro Hc. pose proof (proj1 (centroid_missing_iff_empty_l true anchor (map (scale_kp s) inst))) as P.
    rewrite E in P. simpl in P. specialize (P Hc). rewrite all_missing_scale in P.
    unfold nonempty in Hne. rewrite P in Hne. discriminate.
Qed.

(* ------------------------------------------------------------- lengths -- *)

Lemma filter_user_nonempty : forall fr,
  length (filter nonempty (map li_pts (filter li_user fr))) = length (filter user_nonempty fr).
Proof.
  induction fr as [|li t IH]; simpl; auto.
  assert (E : user_nonempty li = li_user li && nonempty (li_pts li)) by reflexivity.
  destruct (li_user li); simpl in *; rewrite E; [|exact IH].
  destruct (nonempty (li_pts li)); simpl; rewrite IH; reflexivity.
Qed.

(* user_instances_only and every frame has a user instance: the centered-instance
   dataset has one sample per non-empty USER instance *)
Lemma centered_len_user_l : forall frames,
  (forall fr, In fr frames -> existsb li_user fr = true) ->
  length (instance_idx_list (ds_frames true frames)) = count_user_nonempty frames.
Proof.
  intros frames H. rewrite centered_len_counts_nonempty_l.
  unfold count_nonempty_instances, count_user_nonempty, ds_frames. rewrite map_map.
  induction frames as [|fr t IH]; simpl; auto.
  rewrite IH by (intros; apply H; right; assumption). f_equal.
  unfold considered. rewrite rebind_users_l by (apply H; left; reflexivity).
  apply filter_user_nonempty.
Qed.

(* in general: one sample per non-empty considered instance *)
Lemma centered_len_considered_l : forall uo frames,
  length (instance_idx_list (ds_frames uo frames)) =
  list_sum (map (fun fr => length (filter nonempty (considered uo fr))) frames).
Proof.
  intros. rewrite centered_len_counts_nonempty_l. unfold count_nonempty_instances, ds_frames.
  rewrite map_map. reflexivity.
Qed.

Lemma lf_idx_length_aux : forall (g : frame -> bool) (frames : list frame) s,
  length (filter (fun p : nat * frame => g (snd p)) (enum_from s frames)) = length (filter g frames).
Proof. intros. apply enum_filter_length. Qed.

(* the frame-level datasets have one sample per frame with a non-empty considered instance *)
Lemma frame_len_l : forall uo frames,
  length (lf_idx_list (ds_frames uo frames)) =
  length (filter (fun fr => existsb nonempty (considered uo fr)) frames).
Proof.
  intros. unfold lf_idx_list. rewrite map_length, lf_idx_length_aux.
  unfold ds_frames. induction frames as [|fr t IH]; simpl; auto.
  destruct (existsb nonempty (considered uo fr)); simpl; rewrite IH; reflexivity.
Qed.

(* ------------------------------------- the caller's labels afterwards (F110) -- *)

Lemma filter_all_id : forall A (g : A -> bool) l, forallb g l = true -> filter g l = l.
Proof.
  induction l as [|a t IH]; simpl; auto. intro H. apply andb_true_iff in H. destruct H as [Ha Ht].
  rewrite Ha. f_equal. auto.
Qed.

Lemma filter_id_all : forall A (g : A -> bool) l, filter g l = l -> forallb g l = true.
Proof.
  induction l as [|a t IH]; simpl; auto. destruct (g a) eqn:E; intro H.
  - inversion H as [H1]. rewrite H1. simpl. apply IH. exact H1.
  - exfalso. pose proof (filter_len_le A g t) as L. rewrite H in L. simpl in L. lia.
Qed.

Lemma existsb_negb_forallb : forall A (g : A -> bool) l,
  existsb (fun x => negb (g x)) l = negb (forallb g l).
Proof. induction l as [|a t IH]; simpl; auto. rewrite IH. destruct (g a); reflexivity. Qed.

(* outside the selector the user filter keeps every instance of the frame ... *)
Lemma rebind_same_l : forall uo fr, selector_F110 uo fr = false -> rebind uo fr = fr.
Proof.
  intros [|] fr H; [|reflexivity]. unfold selector_F110, mixed in H. simpl in H.
  destruct (existsb li_user fr) eqn:E.
  - simpl in H. rewrite existsb_negb_forallb in H. apply negb_false_iff in H.
    rewrite rebind_users_l by assumption. apply filter_all_id. assumption.
  - apply rebind_no_users_l. assumption.
Qed.

(* ... and under it at least one (predicted) instance is dropped *)
Lemma rebind_diff_l : forall uo fr, selector_F110 uo fr = true -> rebind uo fr <> fr.
Proof.
  intros uo fr H. unfold selector_F110, mixed in H.
  apply andb_true_iff in H. destruct H as [-> H]. apply andb_true_iff in H. destruct H as [Hu Hp].
  rewrite rebind_users_l by assumption. intro E. apply filter_id_all in E.
  rewrite existsb_negb_forallb, E in Hp. discriminate.
Qed.

Lemma rebind_changes_iff_l : forall uo fr, rebind uo fr <> fr <-> selector_F110 uo fr = true.
Proof.
  intros uo fr. split.
  - intro H. destruct (selector_F110 uo fr) eqn:E; auto. exfalso. apply H. apply rebind_same_l. assumption.
  - apply rebind_diff_l.
Qed.

Lemma rebind_drops_l : forall uo fr, selector_F110 uo fr = true ->
  (length (rebind uo fr) < length fr)%nat /\
  (forall li, In li (rebind uo fr) -> li_user li = true) /\
  exists li, In li fr /\ li_user li = false /\ ~ In li (rebind uo fr).
Proof.
  intros uo fr H. pose proof (rebind_diff_l uo fr H) as D. unfold selector_F110, mixed in H.
  apply andb_true_iff in H. destruct H as [-> H]. apply andb_true_iff in H. destruct H as [Hu Hp].
  rewrite rebind_users_l in * by assumption.
  assert (Hall : forall li, In li (filter li_user fr) -> li_user li = true).
  { intros li Hin. apply filter_In in Hin. tauto. }
  split; [|split; auto].
  - clear - Hp. induction fr as [|a t IH]; simpl in *; [discriminate|].
    destruct (li_user a) eqn:E; simpl in *.
    + apply IH in Hp. lia.
    + pose proof (filter_len_le _ li_user t). lia.
  - apply existsb_exists in Hp. destruct Hp as [li [Hin Hn]]. apply negb_true_iff in Hn.
    exists li. repeat split; auto. intro Hc. apply Hall in Hc. congruence.
Qed.

Lemma map_id_on : forall A (g : A -> A) l, (forall x, In x l -> g x = x) -> map g l = l.
Proof. induction l as [|a t IH]; simpl; auto. intro H. f_equal; auto. Qed.

Lemma labels_unchanged_partial_l : forall uo frames,
  (forall fr, In fr frames -> selector_F110 uo fr = false) -> labels_after false uo frames = frames.
Proof. intros uo frames H. apply map_id_on. intros fr Hin. apply rebind_same_l. auto. Qed.

Lemma labels_changed_iff_l : forall uo frames,
  labels_after false uo frames <> frames <-> exists fr, In fr frames /\ selector_F110 uo fr = true.
Proof.
  intros uo frames. split.
  - induction frames as [|fr t IH]; [intro H; exfalso; apply H; reflexivity|]. intro H.
    change (rebind uo fr :: labels_after false uo t <> fr :: t) in H.
    destruct (selector_F110 uo fr) eqn:E; [exists fr; simpl; auto|].
    destruct IH as [x [Hin Hx]].
    + intro Ht. apply H. rewrite Ht. f_equal. apply rebind_same_l. assumption.
    + exists x. simpl; auto.
  - intros [fr [Hin Hs]] E. apply (rebind_diff_l uo fr Hs).
    clear Hs. induction frames as [|a t IH]; [inversion Hin|].
    change (rebind uo a :: labels_after false uo t = a :: t) in E. inversion E as [[Ea Et]].
    destruct Hin as [->|Hin]; auto.
Qed.

Lemma labels_unchanged_fixed_l : forall uo frames, labels_after true uo frames = frames.
Proof. intros. apply map_id_on. reflexivity. Qed.

(* a dataset built over labels another dataset (same user_instances_only) was built over before
   selects the same frames and instances: the filter is idempotent *)
Lemma frame_after_considered : forall b uo fr, considered uo (frame_after b uo fr) = considered uo fr.
Proof. intros [|] uo fr; [reflexivity|apply considered_rebind]. Qed.

Lemma ds_frames_after_l : forall b uo frames, ds_frames uo (labels_after b uo frames) = ds_frames uo frames.
Proof.
  intros. unfold ds_frames, labels_after. rewrite map_map. apply map_ext. apply frame_after_considered.
Qed.

Lemma rebind_nil : forall uo, rebind uo [] = [].
Proof. intros [|]; reflexivity. Qed.

Lemma nth_labels_after : forall b uo frames f,
  rebind uo (nth f (labels_after b uo frames) []) = rebind uo (nth f frames []).
Proof.
  intros b uo frames f. unfold labels_after.
  assert (E : [] = frame_after b uo []) by (destruct b; [reflexivity|symmetry; apply rebind_nil]).
  rewrite E at 1. rewrite map_nth. destruct b; [reflexivity|apply rebind_idem_l].
Qed.

Lemma second_dataset_centered_same_l : forall b fixed anchor uo s frames k,
  centered_sample fixed anchor uo s (labels_after b uo frames) k = centered_sample fixed anchor uo s frames k.
Proof.
  intros. unfold centered_sample, centered_source. rewrite ds_frames_after_l.
  destruct (nth_error (instance_idx_list (ds_frames uo frames)) k) as [[f i]|]; auto.
  rewrite nth_labels_after. reflexivity.
Qed.

Lemma max_instances_after_le_l : forall b uo frames,
  (max_instances (labels_after b uo frames) <= max_instances frames)%nat.
Proof.
  intros. unfold max_instances, labels_after. rewrite map_map.
  induction frames as [|fr t IH]; simpl; auto.
  assert (length (frame_after b uo fr) <= length fr)%nat by (destruct b; [auto|apply rebind_len]). lia.
Qed.

(* the second dataset's frame samples: same frame, same num_instances, same rows below it; only the
   number of all-NaN padding rows follows the (possibly smaller) max_instances of the altered labels *)
Lemma second_dataset_frame_rows_l : forall b uo s frames k rows1 n1 rows2 n2,
  frame_sample uo s frames k = Some (rows1, n1) ->
  frame_sample uo s (labels_after b uo frames) k = Some (rows2, n2) ->
  n2 = n1 /\ (forall j, (j < n1)%nat -> nth_error rows2 j = nth_error rows1 j) /\
  (forall j row, (n1 <= j)%nat -> nth_error rows2 j = Some row -> all_missing row = true).
Proof.
  intros b uo s frames k rows1 n1 rows2 n2 H1 H2.
  pose proof (frame_sample_rows_l _ _ _ _ _ _ H2) as [f2 [_ [_ P2]]].
  cbv zeta in P2. destruct P2 as [_ [_ [_ P2]]].
  unfold frame_sample in H1, H2. rewrite ds_frames_after_l in *.
  destruct (nth_error (lf_idx_list (ds_frames uo frames)) k) as [f|] eqn:E; [|discriminate].
  cbv zeta in H1, H2. rewrite nth_labels_after in H2.
  set (fr := rebind uo (nth f frames [])) in *.
  assert (R1 : scale_rows s (fst (process_lf uo (max_instances frames) fr)) = rows1) by congruence.
  assert (N1 : snd (process_lf uo (max_instances frames) fr) = n1) by congruence.
  assert (R2 : scale_rows s (fst (process_lf uo (max_instances (labels_after b uo frames)) fr)) = rows2)
    by congruence.
  assert (N2 : snd (process_lf uo (max_instances (labels_after b uo frames)) fr) = n2) by congruence.
  clear H1 H2. rewrite process_lf_num_l in N1, N2.
  assert (En : n2 = n1) by congruence.
  split; [exact En|]. split.
  - intros j Hj. rewrite <- R1, <- R2. unfold scale_rows. rewrite !nth_error_map'.
    rewrite !process_lf_row_l by (rewrite process_lf_num_l, N1; exact Hj). reflexivity.
  - intros j row Hj Hr. apply (P2 j row); [rewrite En; exact Hj|exact Hr].
Qed.

Lemma second_dataset_frame_sample_partial_l : forall b uo s frames k,
  max_instances (labels_after b uo frames) = max_instances frames ->
  frame_sample uo s (labels_after b uo frames) k = frame_sample uo s frames k.
Proof.
  intros b uo s frames k Hm. unfold frame_sample. rewrite ds_frames_after_l, Hm.
  destruct (nth_error (lf_idx_list (ds_frames uo frames)) k) as [f|]; auto.
  cbv zeta. rewrite nth_labels_after. reflexivity.
Qed.

(* ------------------- sample_instance is what centered_sample keeps (review finding 4) -- *)

(* the off-path definition Values.sample_instance and the evaluated Dataset.centered_sample agree:
   the keypoints of sample k, shifted by any crop offset, are sample_instance of the source instance *)
Lemma centered_sample_is_sample_instance_l : forall fixed anchor uo s frames k c kept,
  centered_sample fixed anchor uo s frames k = Some (c, kept) ->
  exists inst, centered_source uo frames k = Some inst /\
    c = fst (gen_centroid fixed anchor (map (scale_kp s) inst)) /\
    forall off, sample_instance fixed anchor s off inst = map (shift_kp off) kept.
Proof.
  intros fixed anchor uo s frames k c kept H. unfold centered_sample in H.
  destruct (centered_source uo frames k) as [inst|]; [|discriminate]. exists inst.
  inversion H as [E]. split; [reflexivity|]. rewrite E. simpl. split; [reflexivity|].
  intro off. unfold sample_instance. rewrite E. reflexivity.
Qed.

(* missing stays missing ON the evaluated path, for both variants of generate_centroids: repaired
   (fixed = true), or unrepaired outside selector_F5 *)
Lemma centered_sample_missing_l : forall fixed anchor uo s frames k c kept inst,
  centered_sample fixed anchor uo s frames k = Some (c, kept) ->
  centered_source uo frames k = Some inst ->
  fixed = true \/ selector_F5 anchor inst = false ->
  kept = map (scale_kp s) inst /\
  forall j, nth j kept None = None <-> nth j inst None = None.
Proof.
  intros fixed anchor uo s frames k c kept inst H Hs Hsel. unfold centered_sample in H.
  rewrite Hs in H. inversion H as [E]; clear H.
  assert (K : kept = map (scale_kp s) inst).
  { destruct Hsel as [->|Hsel].
    - pose proof (gen_centroid_fixed_preserves anchor (map (scale_kp s) inst)) as P.
      rewrite E in P. exact P.
    - destruct fixed.
      + pose proof (gen_centroid_fixed_preserves anchor (map (scale_kp s) inst)) as P.
        rewrite E in P. exact P.
      + pose proof (gen_centroid_unfixed_partial anchor (map (scale_kp s) inst)) as P.
        rewrite selector_scale in P. specialize (P Hsel). rewrite E in P. exact P. }
  split; [exact K|]. intro j. rewrite K. apply scaled_missing_iff_l.
Qed.

(* the unrepaired variant (pinned tree, before fix 563a1fb) on the evaluated path: a sample of the
   centered-instance dataset holds an invented anchor keypoint *)
Lemma centered_sample_unfixed_refuted_l : exists anchor uo s frames k c kept inst j,
  centered_sample false anchor uo s frames k = Some (c, kept) /\
  centered_source uo frames k = Some inst /\ selector_F5 anchor inst = true /\
  nth j inst None = None /\ nth j kept None <> None.
Proof.
  exists (Some 0%nat), true, 1%Q, [[mklinst true [None; Some (4 # 1, 6 # 1)]]], 0%nat.
  eexists. eexists. eexists. exists 0%nat.
  split; [vm_compute; reflexivity|]. split; [reflexivity|]. split; [reflexivity|].
  split; [reflexivity|]. simpl. discriminate.
Qed.

(* gen_centroid inside the domain of generate_centroids (the anchor is a node) *)
Lemma gen_centroid_fixed_preserves_dom_l : forall anchor inst,
  anchor_domain anchor (length inst) = true -> snd (gen_centroid true anchor inst) = inst.
Proof. intros anchor inst _. apply gen_centroid_fixed_preserves. Qed.

Lemma centroid_missing_iff_empty_dom_l : forall fixed anchor inst,
  anchor_domain anchor (length inst) = true ->
  (fst (gen_centroid fixed anchor inst) = None <-> all_missing inst = true).
Proof. intros fixed anchor inst _. apply centroid_missing_iff_empty_l. Qed.

Lemma labels_unchanged_refuted_l : exists uo frames, labels_after false uo frames <> frames.
Proof.
  exists true, [[mklinst false [Some (9 # 1, 9 # 1)]; mklinst true [Some (1 # 1, 2 # 1)]]].
  vm_compute. discriminate.
Qed.

(* a second dataset over the same label objects: its frame samples can differ (fewer padding rows) *)
Lemma second_dataset_frame_sample_refuted_l : exists uo s frames k,
  frame_sample uo s (labels_after false uo frames) k <> frame_sample uo s frames k.
Proof.
  exists true, 1%Q, [[mklinst false [Some (9 # 1, 9 # 1)]; mklinst false [Some (7 # 1, 9 # 1)];
                       mklinst true [Some (1 # 1, 2 # 1)]];
                      [mklinst true [Some (1 # 1, 2 # 1)]; mklinst true [Some (3 # 1, 2 # 1)]]], 0%nat.
  vm_compute. discriminate.
Qed.

(* ------------------------------- SingleInstanceDataset, both variants (C18 F181) -- *)

Lemma single_sample_unfixed_l : forall uo s frames k,
  single_sample false uo s frames k = frame_sample uo s frames k.
Proof. reflexivity. Qed.

(* frame_sample_rows for ANY padding width: the label rows and the padding do not depend on it *)
Lemma frame_sample_m_rows_l : forall maxi uo s frames k rows n,
  frame_sample_m maxi uo s frames k = Some (rows, n) ->
  exists f, nth_error (lf_idx_list (ds_frames uo frames)) k = Some f /\ (f < length frames)%nat /\
    let labs := filter nonempty (considered uo (nth f frames [])) in
    n = length labs /\ (0 < n)%nat /\
    (forall j lab, nth_error labs j = Some lab -> nth_error rows j = Some (map (scale_kp s) lab)) /\
    (forall j row, (n <= j)%nat -> nth_error rows j = Some row -> all_missing row = true).
Proof.
  intros maxi uo s frames k rows n H. unfold frame_sample_m in H.
  destruct (nth_error (lf_idx_list (ds_frames uo frames)) k) as [f|] eqn:E; [|discriminate].
  cbv zeta in H.
  assert (Hr : scale_rows s (fst (process_lf uo maxi (rebind uo (nth f frames [])))) = rows) by congruence.
  assert (Hn : snd (process_lf uo maxi (rebind uo (nth f frames []))) = n) by congruence.
  clear H. subst rows n. exists f. split; auto.
  assert (Hin : In f (lf_idx_list (ds_frames uo frames))) by (eapply nth_error_In; eauto).
  apply frame_idx_list_sound_l in Hin. destruct Hin as [fr [Hfr Hex]].
  destruct (ds_frames_nth _ _ _ _ Hfr) as [-> Hlt]. split; auto.
  set (fr0 := nth f frames []) in *.
  rewrite process_lf_num_l, considered_rebind. cbv zeta. split; [reflexivity|].
  split. { apply existsb_filter_pos. exact Hex. }
  split.
  - intros j lab Hj. unfold scale_rows. rewrite nth_error_map'.
    rewrite process_lf_row_l.
    + rewrite considered_rebind. fold fr0. rewrite Hj. reflexivity.
    + rewrite process_lf_num_l, considered_rebind. apply nth_error_Some. fold fr0. congruence.
  - intros j row Hj Hn. unfold scale_rows in Hn. rewrite nth_error_map' in Hn.
    match type of Hn with option_map _ ?t = _ => destruct t as [r0|] eqn:E0 end;
      simpl in Hn; [|discriminate].
    inversion Hn; subst. rewrite all_missing_scale.
    eapply process_lf_pad_l; [|exact E0]. rewrite process_lf_num_l, considered_rebind. exact Hj.
Qed.

Lemma single_sample_rows_l : forall fixedS uo s frames k rows n,
  single_sample fixedS uo s frames k = Some (rows, n) ->
  exists f, nth_error (lf_idx_list (ds_frames uo frames)) k = Some f /\ (f < length frames)%nat /\
    let labs := filter nonempty (considered uo (nth f frames [])) in
    n = length labs /\ (0 < n)%nat /\
    (forall j lab, nth_error labs j = Some lab -> nth_error rows j = Some (map (scale_kp s) lab)) /\
    (forall j row, (n <= j)%nat -> nth_error rows j = Some row -> all_missing row = true).
Proof. intros fixedS uo s frames k rows n. apply frame_sample_m_rows_l. Qed.

Lemma single_sample_defined_l : forall fixedS uo s frames k,
  (k < length (lf_idx_list (ds_frames uo frames)))%nat <-> single_sample fixedS uo s frames k <> None.
Proof.
  intros. unfold single_sample, frame_sample_m.
  destruct (nth_error (lf_idx_list (ds_frames uo frames)) k) eqn:E.
  - split; [discriminate|]. intros _. apply nth_error_Some. congruence.
  - split; [|congruence]. intro H. apply nth_error_None in E. lia.
Qed.

(* with max_instances = 1 there is no padding row at all: `instances` holds exactly the label rows *)
Lemma single_sample_fixed_no_padding_l : forall uo s frames k rows n,
  single_sample true uo s frames k = Some (rows, n) -> length rows = n.
Proof.
  intros uo s frames k rows n H. unfold single_sample, frame_sample_m, single_max_instances in H.
  destruct (nth_error (lf_idx_list (ds_frames uo frames)) k) as [f|]; [|discriminate].
  cbv zeta in H. inversion H; subst; clear H.
  unfold scale_rows, process_lf. cbn [fst snd Nat.eqb]. rewrite map_length. reflexivity.
Qed.

(* a second SingleInstanceDataset over the same label objects: identical samples with the repair, whatever
   the user filter did to the labels (max_instances is 1 either way) *)
Lemma second_dataset_single_same_l : forall b uo s frames k,
  single_sample true uo s (labels_after b uo frames) k = single_sample true uo s frames k.
Proof.
  intros. unfold single_sample, frame_sample_m, single_max_instances. rewrite ds_frames_after_l.
  destruct (nth_error (lf_idx_list (ds_frames uo frames)) k) as [f|]; auto.
  cbv zeta. rewrite nth_labels_after. reflexivity.
Qed.

(* the unrepaired variant pads a single-instance sample up to the labels' instance count *)
Lemma single_sample_unfixed_pads_l : exists uo s frames k rows n,
  single_sample false uo s frames k = Some (rows, n) /\ length rows <> n.
Proof.
  exists true, 1%Q, [[mklinst true [Some (1 # 1, 2 # 1)]; mklinst false [Some (9 # 1, 9 # 1)]]], 0%nat.
  eexists. eexists. split; [vm_compute; reflexivity|]. simpl. discriminate.
Qed.

(* ------------------------------------------- round 5: channel / keypoint presence -- *)

Lemma node_labelled_scale_l : forall s j inst, node_labelled j (map (scale_kp s) inst) = node_labelled j inst.
Proof.
  intros. unfold node_labelled. rewrite nth_map_kp by reflexivity.
  destruct (nth j inst None) as [[x y]|]; reflexivity.
Qed.

Lemma channel_live_scale_l : forall s rows j, channel_live (scale_rows s rows) j = channel_live rows j.
Proof.
  intros. unfold channel_live, scale_rows. induction rows as [|r t IH]; simpl; [reflexivity|].
  rewrite node_labelled_scale_l, IH. reflexivity.
Qed.

Lemma node_labelled_nan_row_l : forall n j, node_labelled j (nan_row n) = false.
Proof.
  intros. unfold node_labelled, nan_row. revert j. induction n as [|n IH]; intros [|j]; simpl; auto.
Qed.

Lemma padding_not_live_l : forall n m j, channel_live (repeat (nan_row n) m) j = false.
Proof.
  intros. unfold channel_live. induction m as [|m IH]; simpl; [reflexivity|].
  rewrite node_labelled_nan_row_l. exact IH.
Qed.

Lemma channel_live_app_l : forall a b j, channel_live (a ++ b) j = channel_live a j || channel_live b j.
Proof. intros. unfold channel_live. apply existsb_app. Qed.

Lemma node_labelled_nonempty_l : forall j inst, node_labelled j inst = true -> nonempty inst = true.
Proof.
  intros j inst H. unfold nonempty, all_missing. destruct (forallb is_missing inst) eqn:E; [|reflexivity].
  rewrite forallb_forall in E. unfold node_labelled in H.
  destruct (nth_in_or_default j inst None) as [Hin|Hd].
  - rewrite (E _ Hin) in H. discriminate.
  - rewrite Hd in H. discriminate.
Qed.

Lemma channel_live_filter_nonempty_l : forall rows j,
  channel_live (filter nonempty rows) j = channel_live rows j.
Proof.
  intros rows j. unfold channel_live. induction rows as [|a t IH]; simpl; [reflexivity|].
  destruct (nonempty a) eqn:E; simpl; rewrite IH; [reflexivity|].
  destruct (node_labelled j a) eqn:N; [apply node_labelled_nonempty_l in N; congruence|reflexivity].
Qed.

Lemma process_lf_channel_live_l : forall uo maxi fr j,
  channel_live (fst (process_lf uo maxi fr)) j = channel_live (considered uo fr) j.
Proof.
  intros. unfold process_lf; simpl. rewrite <- (channel_live_filter_nonempty_l (considered uo fr)).
  destruct (Nat.eqb maxi 1); [reflexivity|].
  rewrite channel_live_app_l, padding_not_live_l. apply orb_false_r.
Qed.

Lemma channel_live_iff_l : forall rows j,
  channel_live rows j = true <-> exists inst, In inst rows /\ nth j inst None <> None.
Proof.
  intros. unfold channel_live. rewrite existsb_exists. unfold node_labelled.
  split; intros [inst [Hi Hn]]; exists inst; split; auto;
    destruct (nth j inst None); simpl in *; congruence.
Qed.

(* channel j of the multi-instance targets of sample k is live exactly when some considered instance of
   the sample's frame labels node j: every labelled keypoint is carried, nothing else is *)
Lemma frame_sample_channel_live_l : forall uo s frames k rows n,
  frame_sample uo s frames k = Some (rows, n) ->
  exists f, nth_error (lf_idx_list (ds_frames uo frames)) k = Some f /\
    forall j, channel_live rows j = true <->
      exists inst, In inst (considered uo (nth f frames [])) /\ nth j inst None <> None.
Proof.
  intros uo s frames k rows n H. unfold frame_sample in H.
  destruct (nth_error (lf_idx_list (ds_frames uo frames)) k) as [f|] eqn:E; [|discriminate].
  exists f; split; [reflexivity|]. assert (Hr : rows = scale_rows s (fst (process_lf uo (max_instances frames) (rebind uo (nth f frames [])))))
    by (cbv zeta in H; congruence).
  subst rows. intro j.
  rewrite channel_live_scale_l. rewrite process_lf_channel_live_l, considered_rebind.
  apply channel_live_iff_l.
Qed.

Lemma multi_channels_nth_l : forall nodes rows j, (j < nodes)%nat ->
  nth j (multi_channels nodes rows) false = channel_live rows j.
Proof.
  intros. unfold multi_channels.
  rewrite (nth_indep _ false (channel_live rows 0%nat)) by (rewrite map_length, seq_length; assumption).
  rewrite map_nth, seq_nth by assumption. reflexivity.
Qed.
