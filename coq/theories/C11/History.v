(* History.v (C11) — definitions only.

   Histories of calls over the heap semantics of C11/AliasIR.v: the dataset
   object, its cache dict, the cached sample dicts and their tensors, and the
   labels are all heap objects (reachable from the `self` argument of
   `__getitem__`); a *history* is any sequence of executions of translated
   function bodies (any `__getitem__` of any dataset class, any helper of the
   functional API), each started on the heap the previous one left, with
   arguments that exist at that point.

   `value n h o` is the observable content of object o: its payload and,
   recursively to depth n, the contents of the objects it refers to (a sample
   dict -> its tensors).  It does not mention addresses, so two samples are
   "the same" when their values are equal. *)
From Coq Require Import String.
From Coq Require Import List Arith NArith Bool.
Import ListNotations.
From SV Require Import C11.AliasIR.

Definition args_ok (args : list obj) (h : heap) : Prop :=
  forall i a, nth_error args i = Some a -> a < length h.

Inductive calls (fs : list fn) : heap -> heap -> Prop :=
| calls_nil : forall h, calls fs h h
| calls_step : forall f args h e1 h1 h2,
    In f fs -> args_ok args h ->
    exec args (f_body f) ([], h) (e1, h1) ->
    calls fs h1 h2 -> calls fs h h2.

Inductive tree := Node (d : nat) (kids : list tree).

Fixpoint value (fuel : nat) (h : heap) (o : obj) : tree :=
  match fuel with
  | O => Node 0 []
  | S f => match nth_error h o with
           | None => Node 0 []
           | Some c => Node (c_data c) (map (value f h) (c_refs c))
           end
  end.

(* a deterministic reader (what the interpreter really does for one
   `__getitem__`): heap and arguments -> returned object and heap afterwards;
   a history of reads with the given argument lists *)
Fixpoint run_reads (rd : heap -> list obj -> obj * heap) (h : heap) (hist : list (list obj)) : heap :=
  match hist with
  | [] => h
  | a :: t => run_reads rd (snd (rd h a)) t
  end.

(* ---- the cache write-through pattern (seeded C04_m3 / C18_m1):
       sample = self.cache[index].copy(); sample["instance"] -= point
   0 = self, 1 = self.cache, 2 = cache[index], 3 = sample (shallow copy),
   4 = sample["instance"], 5 = point (fresh) *)
Definition p_cached_entry_augassign : stmt :=
  seq_of [SAssign 0%N (RParam 0);
          SAssign 1%N (RProj 0%N);
          SAssign 2%N (RProj 1%N);
          SAssign 3%N (RCopy 0%N 2%N);
          SAssign 5%N (RFresh 1%N);
          SAssign 4%N (RProj 3%N);
          SStore 4%N [5%N];
          SStore 3%N [4%N; 5%N]].

(* the same body with the rebinding the code really has:
       sample["instance"] = sample["instance"] - point *)
Definition p_cached_entry_rebind : stmt :=
  seq_of [SAssign 0%N (RParam 0);
          SAssign 1%N (RProj 0%N);
          SAssign 2%N (RProj 1%N);
          SAssign 3%N (RCopy 0%N 2%N);
          SAssign 5%N (RFresh 1%N);
          SAssign 4%N (RProj 3%N);
          SAssign 6%N (RFresh 2%N);
          SStore 3%N [6%N]].

Definition pts_rebind (x : var) : list root :=
  match x with
  | 0%N | 1%N | 2%N => [AParam 0]
  | 3%N => [ASite 0%N]
  | 4%N => [ASite 0%N; AParam 0; ASite 2%N]
  | 5%N => [ASite 1%N]
  | 6%N => [ASite 2%N]
  | _ => []
  end.
Definition hpts_rebind (r : root) : list root :=
  match r with
  | ASite 0%N => [AParam 0; ASite 2%N]
  | _ => []
  end.

(* ---- a concrete deterministic reader (review finding 3) ----
   `rd_of fuel p res`: the script-guided interpreter `srun` of AliasIR.v on the body p with the EMPTY
   script (every branch takes its first side, no loop iterates, every projection returns the view),
   returning the object bound to `res`.  It refines `exec` for EVERY program (LemmasH.rd_of_refines_l:
   contract 1 of same_index_same_sample holds for it unconditionally); contract 2 (locality) is proved
   for the example program `p_reader_ex` below (`x = args[0]; return {"k": x}`: allocates, and its
   result refers to a pre-existing object). *)
Definition rd_of (fuel : nat) (p : stmt) (res : var) (h : heap) (args : list obj) : obj * heap :=
  match srun fuel args p [] ([], h) with
  | Some (_, (e', h')) => (match elookup e' res with Some o => o | None => length h' end, h')
  | None => (length h, h)
  end.

Definition p_reader_ex : stmt := SSeq (SAssign 0%N (RParam 0)) (SAssign 1%N (RBox 7%N [0%N])).
Definition f_reader_ex : fn :=
  mkfn "reader_ex" 1 1%N p_reader_ex
       [(0%N, [AParam 0]); (1%N, [ASite 7%N])] [(ASite 7%N, [AParam 0])].
