(* Lemmas.v (C11) — all proofs about AliasIR: soundness of the certificate
   checker (an accepted program never changes a pre-existing object; a
   pre-existing object held by a variable is reachable from a parameter the
   certificate lists), and history independence of reads. *)
From Coq Require Import String.
From Coq Require Import List Arith NArith Bool Lia.
Import ListNotations.
From SV Require Import C11.AliasIR.

(* ------------------------------------------------------------ reflection -- *)

Lemma root_eqb_eq : forall a b, root_eqb a b = true <-> a = b.
Proof.
  intros [i|s] [j|t]; simpl; split; intro H; try discriminate; try congruence.
  - apply Nat.eqb_eq in H; congruence.
  - inversion H; apply Nat.eqb_refl.
  - apply N.eqb_eq in H; congruence.
  - inversion H; apply N.eqb_refl.
Qed.

Lemma mem_In : forall r l, mem r l = true <-> In r l.
Proof.
  intros r l; unfold mem; rewrite existsb_exists; split.
  - intros [x [Hx He]]. apply root_eqb_eq in He. subst; assumption.
  - intro H. exists r; split; [assumption | apply root_eqb_eq; reflexivity].
Qed.

Lemma subset_incl : forall a b, subset a b = true -> forall r, In r a -> In r b.
Proof.
  intros a b H r Hr. unfold subset in H. rewrite forallb_forall in H.
  apply mem_In. apply H; assumption.
Qed.

(* ------------------------------------------------------------------- upd -- *)

Lemma upd_length : forall h o c, length (upd h o c) = length h.
Proof. induction h as [|x t IH]; intros [|k] c; simpl; auto. Qed.

Lemma nth_upd_eq : forall h o c, o < length h -> nth_error (upd h o c) o = Some c.
Proof.
  induction h as [|x t IH]; intros [|k] c Hlt; simpl in *; try lia; auto.
  apply IH; lia.
Qed.

Lemma nth_upd_neq : forall h o o' c, o <> o' -> nth_error (upd h o c) o' = nth_error h o'.
Proof.
  induction h as [|x t IH]; intros [|k] [|k'] c Hne; simpl; auto; try congruence.
Qed.

Lemma nth_some_lt : forall (h : heap) o c, nth_error h o = Some c -> o < length h.
Proof. intros h o c H. apply nth_error_Some. congruence. Qed.

(* ------------------------------------------------------------- invariant -- *)

Section Sound.
  Variable pts : var -> list root.
  Variable hpts : root -> list root.
  Variable args : list obj.
  Variable h0 : heap.
  Hypothesis args_ok : forall i a, nth_error args i = Some a -> a < length h0.

  (* o is an object that root r stands for *)
  Definition repr (h : heap) (o : obj) (r : root) : Prop :=
    match r with
    | AParam i => o < length h0 /\ exists a, nth_error args i = Some a /\ reach h0 a o
    | ASite s => length h0 <= o /\ exists c, nth_error h o = Some c /\ c_site c = s
    end.

  Record inv (e : env) (h : heap) : Prop := mkinv {
    inv_len : length h0 <= length h;
    inv_old : forall o, o < length h0 -> nth_error h o = nth_error h0 o;
    inv_env : forall x o, elookup e x = Some o ->
              o < length h /\ exists r, In r (pts x) /\ repr h o r;
    inv_heap : forall o c r, nth_error h o = Some c -> repr h o r ->
              forall o', In o' (c_refs c) ->
              o' < length h /\ exists r', In r' (hp hpts r) /\ repr h o' r' }.

  Lemma repr_app : forall h c o r, repr h o r -> repr (h ++ [c]) o r.
  Proof.
    intros h c o [i|s] H; simpl in *; auto.
    destruct H as [Hle [c0 [Hn Hs]]]. split; auto. exists c0; split; auto.
    rewrite nth_error_app1; auto. eapply nth_some_lt; eauto.
  Qed.

  Lemma repr_app_inv : forall h c o r, o < length h -> repr (h ++ [c]) o r -> repr h o r.
  Proof.
    intros h c o [i|s] Hlt H; simpl in *; auto.
    destruct H as [Hle [c0 [Hn Hs]]]. split; auto. exists c0; split; auto.
    rewrite nth_error_app1 in Hn; auto.
  Qed.

  Lemma nth_app_new : forall (h : heap) c, nth_error (h ++ [c]) (length h) = Some c.
  Proof. intros. rewrite nth_error_app2; [|lia]. rewrite Nat.sub_diag. reflexivity. Qed.

  Lemma repr_new : forall h c, length h0 <= length h -> repr (h ++ [c]) (length h) (ASite (c_site c)).
  Proof. intros h c Hle; simpl. split; auto. exists c; split; auto. apply nth_app_new. Qed.

  Lemma repr_new_inv : forall h c r, length h0 <= length h ->
    repr (h ++ [c]) (length h) r -> r = ASite (c_site c).
  Proof.
    intros h c [i|s] Hle H; simpl in H.
    - destruct H as [Hlt _]. lia.
    - destruct H as [_ [c0 [Hn Hs]]]. rewrite nth_app_new in Hn. inversion Hn; subst. reflexivity.
  Qed.

  Lemma repr_site_unique : forall h o s r, repr h o (ASite s) -> repr h o r -> r = ASite s.
  Proof.
    intros h o s [i|t] [Hle [c [Hn Hs]]] H; simpl in H.
    - destruct H as [Hlt _]. lia.
    - destruct H as [_ [c' [Hn' Hs']]]. rewrite Hn in Hn'. inversion Hn'; subst. reflexivity.
  Qed.

  Lemma repr_upd : forall h o1 c1 c' o r, nth_error h o1 = Some c1 -> c_site c' = c_site c1 ->
    repr h o r -> repr (upd h o1 c') o r.
  Proof.
    intros h o1 c1 c' o [i|s] Hn1 Hs H; simpl in *; auto.
    destruct H as [Hle [c [Hn Hsc]]]. split; auto.
    destruct (Nat.eq_dec o1 o) as [->|Hne].
    - exists c'. split. { apply nth_upd_eq. eapply nth_some_lt; eauto. }
      rewrite Hn1 in Hn. inversion Hn; subst. assumption.
    - exists c. split; auto. rewrite nth_upd_neq; auto.
  Qed.

  Lemma repr_upd_inv : forall h o1 c1 c' o r, nth_error h o1 = Some c1 -> c_site c' = c_site c1 ->
    repr (upd h o1 c') o r -> repr h o r.
  Proof.
    intros h o1 c1 c' o [i|s] Hn1 Hs H; simpl in *; auto.
    destruct H as [Hle [c [Hn Hsc]]]. split; auto.
    destruct (Nat.eq_dec o1 o) as [->|Hne].
    - rewrite nth_upd_eq in Hn by (eapply nth_some_lt; eauto). inversion Hn; subst.
      exists c1; split; auto.
    - rewrite nth_upd_neq in Hn by auto. exists c; split; auto.
  Qed.

  Lemma elookup_cons : forall (e : env) x o x', elookup ((x, o) :: e) x' =
    if N.eqb x' x then Some o else elookup e x'.
  Proof. reflexivity. Qed.

  (* binding a variable to an existing object *)
  Lemma inv_bind : forall e h x o, inv e h -> o < length h ->
    (exists r, In r (pts x) /\ repr h o r) -> inv ((x, o) :: e) h.
  Proof.
    intros e h x o I Hlt Hr. destruct I as [L O E H]. constructor; auto.
    intros x' o' Hl. rewrite elookup_cons in Hl.
    destruct (N.eqb x' x) eqn:Hx.
    - apply N.eqb_eq in Hx; subst. inversion Hl; subst. auto.
    - apply E; assumption.
  Qed.

  (* allocating a new object at site s with references rs and binding x to it *)
  Lemma inv_alloc : forall e h x s d rs, inv e h -> In (ASite s) (pts x) ->
    (forall o', In o' rs -> o' < length h /\ exists r', In r' (hpts (ASite s)) /\ repr h o' r') ->
    inv ((x, length h) :: e) (h ++ [mkcell s d rs]).
  Proof.
    intros e h x s d rs I Hs Hrs. destruct I as [L O E H].
    set (c := mkcell s d rs).
    constructor.
    - rewrite app_length; simpl; lia.
    - intros o Ho. rewrite nth_error_app1 by lia. auto.
    - intros x' o' Hl. rewrite elookup_cons in Hl. rewrite app_length; simpl.
      destruct (N.eqb x' x) eqn:Hx.
      + apply N.eqb_eq in Hx; subst. inversion Hl; subst. split; [lia|].
        exists (ASite s). split; auto. apply (repr_new h c L).
      + destruct (E _ _ Hl) as [Hlt [r [Hin Hr]]]. split; [lia|].
        exists r; split; auto. apply repr_app; assumption.
    - intros o c0 r Hn Hr o' Hin. rewrite app_length; simpl.
      destruct (lt_eq_lt_dec o (length h)) as [[Hlt|Heq]|Hgt].
      + rewrite nth_error_app1 in Hn by assumption.
        apply repr_app_inv in Hr; auto.
        destruct (H _ _ _ Hn Hr _ Hin) as [Hlt' [r' [Hin' Hr']]].
        split; [lia|]. exists r'; split; auto. apply repr_app; assumption.
      + subst o. rewrite nth_app_new in Hn. inversion Hn; subst c0.
        apply repr_new_inv in Hr; auto. subst r. simpl in Hin |- *.
        destruct (Hrs _ Hin) as [Hlt' [r' [Hin' Hr']]].
        split; [lia|]. exists r'; split; auto. apply repr_app; assumption.
      + apply nth_some_lt in Hn. rewrite app_length in Hn; simpl in Hn. lia.
  Qed.

  Lemma closed_rhs_sound : forall e h x r o h',
    eval_rhs args e h r o h' -> closed_rhs pts hpts x r = true -> inv e h ->
    inv ((x, o) :: e) h'.
  Proof.
    intros e h x r o h' Hev Hc I. destruct Hev; simpl in Hc.
    - (* param *)
      apply mem_In in Hc. pose proof (args_ok _ _ H) as Ha.
      apply inv_bind; auto.
      + pose proof (inv_len _ _ I). lia.
      + exists (AParam i). split; auto. simpl. split; auto. exists a; split; auto. constructor.
    - (* fresh *)
      apply mem_In in Hc. apply inv_alloc; auto. intros o' [].
    - (* alias *)
      destruct (inv_env _ _ I _ _ H) as [Hlt [r [Hin Hr]]].
      apply inv_bind; auto. exists r; split; auto. eapply subset_incl; eauto.
    - (* maybe: same *)
      apply andb_true_iff in Hc. destruct Hc as [_ Hc].
      destruct (inv_env _ _ I _ _ H) as [Hlt [r [Hin Hr]]].
      apply inv_bind; auto. exists r; split; auto. eapply subset_incl; eauto.
    - (* maybe: fresh *)
      apply andb_true_iff in Hc. destruct Hc as [Hc _].
      apply mem_In in Hc. apply inv_alloc; auto. intros o' [].
    - (* box *)
      apply andb_true_iff in Hc. destruct Hc as [Hs Hc]. apply mem_In in Hs.
      rewrite forallb_forall in Hc.
      apply inv_alloc; auto. intros o' Hin.
      destruct (H _ Hin) as [y [Hy Hl]].
      destruct (inv_env _ _ I _ _ Hl) as [Hlt [r [Hinr Hr]]].
      split; auto. exists r; split; auto. eapply subset_incl; [apply Hc; eassumption|assumption].
    - (* copy *)
      apply andb_true_iff in Hc. destruct Hc as [Hs Hc]. apply mem_In in Hs.
      rewrite forallb_forall in Hc.
      apply inv_alloc; auto. intros o' Hin.
      destruct (inv_env _ _ I _ _ H) as [Hlt [r [Hinr Hr]]].
      destruct (inv_heap _ _ I _ _ _ H0 Hr _ Hin) as [Hlt' [r' [Hin' Hr']]].
      split; auto. exists r'; split; auto. eapply subset_incl; [apply Hc; eassumption|assumption].
    - (* proj: self *)
      apply andb_true_iff in Hc. destruct Hc as [Hc _].
      destruct (inv_env _ _ I _ _ H) as [Hlt [r [Hin Hr]]].
      apply inv_bind; auto. exists r; split; auto. eapply subset_incl; eauto.
    - (* proj: a reference *)
      apply andb_true_iff in Hc. destruct Hc as [_ Hc]. rewrite forallb_forall in Hc.
      destruct (inv_env _ _ I _ _ H) as [Hlt [r [Hin Hr]]].
      destruct (inv_heap _ _ I _ _ _ H0 Hr _ H1) as [Hlt' [r' [Hin' Hr']]].
      apply inv_bind; auto. exists r'; split; auto.
      eapply subset_incl; [apply Hc; eassumption|assumption].
  Qed.

  Lemma is_site_inv : forall r, is_site r = true -> exists s, r = ASite s.
  Proof. intros [i|s] H; simpl in H; [discriminate|eauto]. Qed.

  Lemma store_sound : forall e h x ys o c d refs',
    inv e h -> elookup e x = Some o -> nth_error h o = Some c ->
    (forall o', In o' refs' -> In o' (c_refs c) \/ exists y, In y ys /\ elookup e y = Some o') ->
    forallb (fun r => forallb (fun y => subset (pts y) (hp hpts r)) ys) (pts x) = true ->
    forallb is_site (pts x) = true ->
    inv e (upd h o (mkcell (c_site c) d refs')).
  Proof.
    intros e h x ys o c d refs' I Hx Hn Hrefs Hcl Hnw.
    destruct (inv_env _ _ I _ _ Hx) as [Hlt [r [Hin Hr]]].
    rewrite forallb_forall in Hnw. destruct (is_site_inv _ (Hnw _ Hin)) as [s ->].
    assert (Hge : length h0 <= o) by (destruct Hr; assumption).
    set (c' := mkcell (c_site c) d refs').
    assert (Hsite : c_site c' = c_site c) by reflexivity.
    rewrite forallb_forall in Hcl. specialize (Hcl _ Hin). rewrite forallb_forall in Hcl.
    constructor.
    - rewrite upd_length. apply (inv_len _ _ I).
    - intros o1 Ho1. rewrite nth_upd_neq by lia. apply (inv_old _ _ I); assumption.
    - intros x' o' Hl. rewrite upd_length.
      destruct (inv_env _ _ I _ _ Hl) as [Hlt' [r' [Hin' Hr']]].
      split; auto. exists r'; split; auto. eapply repr_upd; eauto.
    - intros o1 c1 r1 Hn1 Hr1 o' Hin'. rewrite upd_length.
      apply (repr_upd_inv _ _ _ _ _ _ Hn Hsite) in Hr1.
      destruct (Nat.eq_dec o o1) as [<-|Hne].
      + rewrite nth_upd_eq in Hn1 by assumption. inversion Hn1; subst c1.
        pose proof (repr_site_unique _ _ _ _ Hr Hr1) as ->.
        simpl in Hin'. destruct (Hrefs _ Hin') as [Hold|[y [Hy Hl]]].
        * destruct (inv_heap _ _ I _ _ _ Hn Hr _ Hold) as [Hlt' [r' [Hinr' Hr']]].
          split; auto. exists r'; split; auto. eapply repr_upd; eauto.
        * destruct (inv_env _ _ I _ _ Hl) as [Hlt' [r' [Hinr' Hr']]].
          split; auto. exists r'; split.
          { eapply subset_incl; [apply Hcl; eassumption|assumption]. }
          eapply repr_upd; eauto.
      + rewrite nth_upd_neq in Hn1 by assumption.
        destruct (inv_heap _ _ I _ _ _ Hn1 Hr1 _ Hin') as [Hlt' [r' [Hinr' Hr']]].
        split; auto. exists r'; split; auto. eapply repr_upd; eauto.
  Qed.

  Lemma exec_preserves : forall p st st', exec args p st st' ->
    closed pts hpts p = true -> no_param_write pts p = true ->
    inv (fst st) (snd st) -> inv (fst st') (snd st').
  Proof.
    induction 1; intros Hc Hw I; simpl in *; auto.
    - eapply closed_rhs_sound; eauto.
    - eapply store_sound; eauto.
    - apply andb_true_iff in Hc; destruct Hc. apply andb_true_iff in Hw; destruct Hw. auto.
    - apply andb_true_iff in Hc; destruct Hc. apply andb_true_iff in Hw; destruct Hw. auto.
    - apply andb_true_iff in Hc; destruct Hc. apply andb_true_iff in Hw; destruct Hw. auto.
  Qed.

  Hypothesis h0_wf : wf_heap h0.

  Lemma inv_init : inv [] h0.
  Proof.
    constructor; auto.
    - intros x o H; discriminate.
    - intros o c [i|s] Hn Hr o' Hin; simpl in Hr.
      + destruct Hr as [Hlt [a [Ha Hreach]]].
        pose proof (h0_wf _ _ Hn _ Hin) as Hlt'. split; auto.
        exists (AParam i). split; [left; reflexivity|].
        simpl. split; auto. exists a; split; auto. econstructor; eauto.
      + destruct Hr as [Hle _]. apply nth_some_lt in Hn. lia.
  Qed.
End Sound.

(* ------------------------------------------------------------ main theorems -- *)

Definition args_in (args : list obj) (h : heap) : Prop :=
  forall i a, nth_error args i = Some a -> a < length h.

Lemma exec_inv : forall pts hpts p, closed pts hpts p = true -> no_param_write pts p = true ->
  forall args h e' h', wf_heap h -> args_in args h -> exec args p ([], h) (e', h') ->
  inv pts hpts args h e' h'.
Proof.
  intros pts hpts p Hc Hw args h e' h' Hwf Ha Hex.
  apply (exec_preserves pts hpts args h Ha p ([], h) (e', h') Hex Hc Hw).
  simpl. apply inv_init; assumption.
Qed.

(* An accepted program never changes an object that existed before the call
   (in particular none reachable from a parameter), whatever the heap, the
   arguments, the branches taken, the values written, or the point at which
   execution stops. *)
Lemma no_param_write_sound_l : forall pts hpts p,
  closed pts hpts p = true -> no_param_write pts p = true ->
  forall args h e' h', wf_heap h -> args_in args h -> exec args p ([], h) (e', h') ->
  forall o, o < length h -> nth_error h' o = nth_error h o.
Proof.
  intros pts hpts p Hc Hw args h e' h' Hwf Ha Hex o Ho.
  apply (inv_old _ _ _ _ _ _ (exec_inv pts hpts p Hc Hw args h e' h' Hwf Ha Hex)). assumption.
Qed.

Lemma reach_lt : forall h a o, wf_heap h -> a < length h -> reach h a o -> o < length h.
Proof. intros h a o Hwf Ha Hr. induction Hr; auto. eapply Hwf; eauto. Qed.

(* the statement in "reachable from a parameter" form *)
Lemma params_unchanged_l : forall pts hpts p,
  closed pts hpts p = true -> no_param_write pts p = true ->
  forall args h e' h', wf_heap h -> args_in args h -> exec args p ([], h) (e', h') ->
  forall i a o, nth_error args i = Some a -> reach h a o -> nth_error h' o = nth_error h o.
Proof.
  intros pts hpts p Hc Hw args h e' h' Hwf Ha Hex i a o Hi Hr.
  eapply no_param_write_sound_l; eauto. eapply reach_lt; eauto.
Qed.

(* Whatever a variable holds at the end is either a new object, created at a
   site the certificate lists for it, or a pre-existing object reachable from
   a parameter the certificate lists for it.  (Needs only `closed` on top of
   acceptance; this is what the dynamic "result aliases argument" observation
   is compared with.) *)
Lemma var_alias_sound_l : forall pts hpts p,
  closed pts hpts p = true -> no_param_write pts p = true ->
  forall args h e' h', wf_heap h -> args_in args h -> exec args p ([], h) (e', h') ->
  forall x o, elookup e' x = Some o ->
    (o < length h /\ exists i a, In (AParam i) (pts x) /\ nth_error args i = Some a /\ reach h a o) \/
    (length h <= o /\ exists c, nth_error h' o = Some c /\ In (ASite (c_site c)) (pts x)).
Proof.
  intros pts hpts p Hc Hw args h e' h' Hwf Ha Hex x o Hl.
  pose proof (exec_inv pts hpts p Hc Hw args h e' h' Hwf Ha Hex) as I.
  destruct (inv_env _ _ _ _ _ _ I _ _ Hl) as [Hlt [r [Hin Hr]]].
  destruct r as [i|s]; simpl in Hr.
  - left. destruct Hr as [Ho [a [Hi Hreach]]]. split; auto. exists i, a. auto.
  - right. destruct Hr as [Ho [c [Hn Hs]]]. split; auto. exists c. subst s. auto.
Qed.

(* same for what an object refers to: references of an object represented by r
   are represented by hp hpts r; stated for pre-existing targets *)
Lemma ref_alias_sound_l : forall pts hpts p,
  closed pts hpts p = true -> no_param_write pts p = true ->
  forall args h e' h', wf_heap h -> args_in args h -> exec args p ([], h) (e', h') ->
  forall x o c o', elookup e' x = Some o -> nth_error h' o = Some c -> In o' (c_refs c) ->
  o' < length h ->
  exists r i a, In r (pts x) /\ In (AParam i) (hp hpts r) /\ nth_error args i = Some a /\ reach h a o'.
Proof.
  intros pts hpts p Hc Hw args h e' h' Hwf Ha Hex x o c o' Hl Hn Hin Hlt'.
  pose proof (exec_inv pts hpts p Hc Hw args h e' h' Hwf Ha Hex) as I.
  destruct (inv_env _ _ _ _ _ _ I _ _ Hl) as [Hlt [r [Hinr Hr]]].
  destruct (inv_heap _ _ _ _ _ _ I _ _ _ Hn Hr _ Hin) as [_ [r' [Hinr' Hr']]].
  destruct r' as [i|s]; simpl in Hr'.
  - destruct Hr' as [_ [a [Hi Hreach]]]. exists r, i, a. auto.
  - destruct Hr' as [Hle _]. lia.
Qed.

(* per-function form used by the generated obligations *)
Lemma fn_accepted_sound_l : forall f, fn_accepted f = true ->
  forall args h e' h', wf_heap h -> args_in args h -> exec args (f_body f) ([], h) (e', h') ->
  forall o, o < length h -> nth_error h' o = nth_error h o.
Proof.
  intros f H. unfold fn_accepted, fn_closed, fn_nowrite in H.
  apply andb_true_iff in H. destruct H as [Hc Hw].
  eapply no_param_write_sound_l; eauto.
Qed.

(* --------------------------------------------- the checker is not vacuous -- *)

(* a program that writes through a view of its parameter is rejected, and the
   heap semantics really has an execution that changes the parameter *)
Definition p_write_through : stmt :=
  seq_of [SAssign 0%N (RParam 0); SAssign 1%N (RProj 0%N); SAssign 2%N (RFresh 0%N); SStore 1%N [2%N]].

Lemma write_through_changes_param_l :
  exists h args e' h' o, wf_heap h /\ args_in args h /\ exec args p_write_through ([], h) (e', h') /\
    (exists a, nth_error args 0 = Some a /\ reach h a o) /\ nth_error h' o <> nth_error h o.
Proof.
  exists [mkcell 0%N 0 []], [0], [(2%N, 1); (1%N, 0); (0%N, 0)],
         [mkcell 0%N 1 []; mkcell 0%N 7 []], 0.
  split. { intros o c Hn o' Hin. destruct o as [|[|o]]; simpl in Hn; inversion Hn; subst; inversion Hin. }
  split. { intros i a Hn. destruct i as [|[|i]]; simpl in Hn; inversion Hn; subst; simpl; lia. }
  split.
  { unfold p_write_through, seq_of; simpl.
    eapply ex_seq. { apply ex_assign. apply ev_param. reflexivity. }
    eapply ex_seq. { apply ex_assign. apply ev_proj_self. reflexivity. }
    eapply ex_seq. { apply ex_assign. apply (ev_fresh [0] _ _ 0%N 7). }
    eapply ex_seq; [|apply ex_stop].
    simpl.
    change [mkcell 0%N 1 []; mkcell 0%N 7 []]
      with (upd [mkcell 0%N 0 []; mkcell 0%N 7 []] 0 (mkcell (c_site (mkcell 0%N 0 [])) 1 [])).
    apply (ex_store [0] 1%N [2%N] [(2%N, 1); (1%N, 0); (0%N, 0)] [mkcell 0%N 0 []; mkcell 0%N 7 []]
                    0 (mkcell 0%N 0 []) 1 []); try reflexivity.
    intros o' []. }
  split. { exists 0. split; [reflexivity|constructor]. }
  simpl. discriminate.
Qed.

Lemma write_through_rejected_l : forall pts hpts,
  closed pts hpts p_write_through = true -> no_param_write pts p_write_through = false.
Proof.
  intros pts hpts Hc. unfold p_write_through, seq_of in *. simpl in *.
  repeat (apply andb_true_iff in Hc; destruct Hc as [? Hc]).
  apply mem_In in H. apply andb_true_iff in H0. destruct H0 as [Hs _].
  pose proof (subset_incl _ _ Hs _ H) as Hin.
  rewrite andb_true_r.
  destruct (forallb is_site (pts 1%N)) eqn:E; auto.
  rewrite forallb_forall in E. specialize (E _ Hin). discriminate.
Qed.

(* ------------------------------------------------- history independence -- *)

(* A dataset read is a function of the state (the cache) and the index that
   returns a new state and a sample.  If reads leave the state unchanged
   (which is what acceptance of __getitem__ gives for the cached objects),
   then whatever sequence of indices was read before, reading i returns what
   the first read of i on the initial state returns. *)
Section History.
  Variables (S A : Type).
  Variable read : S -> nat -> S * A.
  Hypothesis read_pure : forall s i, fst (read s i) = s.

  Fixpoint run_hist (s : S) (hist : list nat) : S * list A :=
    match hist with
    | [] => (s, [])
    | i :: t => let (s1, a) := read s i in
                let (s2, l) := run_hist s1 t in (s2, a :: l)
    end.

  Lemma run_hist_state : forall hist s, fst (run_hist s hist) = s.
  Proof.
    induction hist as [|i t IH]; intro s; simpl; auto.
    destruct (read s i) as [s1 a] eqn:E. specialize (IH s1).
    destruct (run_hist s1 t) as [s2 l]. simpl in *.
    pose proof (read_pure s i) as P. rewrite E in P. simpl in P. congruence.
  Qed.

  Lemma run_hist_samples : forall hist s,
    snd (run_hist s hist) = map (fun i => snd (read s i)) hist.
  Proof.
    induction hist as [|i t IH]; intro s; simpl; auto.
    destruct (read s i) as [s1 a] eqn:E. specialize (IH s1).
    destruct (run_hist s1 t) as [s2 l]. simpl in *.
    pose proof (read_pure s i) as P. rewrite E in P. simpl in P. subst s1.
    rewrite IH. reflexivity.
  Qed.

  Lemma history_independent_l : forall pre post s i,
    nth_error (snd (run_hist s (pre ++ i :: post))) (length pre) = Some (snd (read s i)).
  Proof.
    intros. rewrite run_hist_samples. rewrite map_app. simpl.
    rewrite nth_error_app2 by (rewrite map_length; lia).
    rewrite map_length, Nat.sub_diag. reflexivity.
  Qed.
End History.

(* ------------------------------------- script-guided executions are executions -- *)

Lemma bound_vals_spec : forall e ys o, In o (bound_vals e ys) ->
  exists y, In y ys /\ elookup e y = Some o.
Proof.
  intros e ys o H. unfold bound_vals in H. apply in_flat_map in H.
  destruct H as [y [Hy Ho]]. exists y. split; auto.
  destruct (elookup e y) as [o1|]; simpl in Ho; [|contradiction].
  destruct Ho as [->|[]]. reflexivity.
Qed.

Lemma seval_sound : forall args e h r sc o h' sc',
  seval args e h r sc = Some (o, h', sc') -> eval_rhs args e h r o h'.
Proof.
  intros args e h r sc o h' sc' H. destruct r; simpl in H.
  - destruct (nth_error args i) eqn:E; inversion H; subst. constructor; assumption.
  - inversion H; subst. constructor.
  - destruct (elookup e y) eqn:E; inversion H; subst. constructor; assumption.
  - destruct (pick sc) as [c sc1]. destruct c.
    + destruct (elookup e y) eqn:E; inversion H; subst. apply ev_maybe_same; assumption.
    + inversion H; subst. apply ev_maybe_fresh.
  - inversion H; subst. apply ev_box. apply bound_vals_spec.
  - destruct (elookup e y) eqn:E; [|discriminate].
    destruct (nth_error h o0) eqn:E2; inversion H; subst. eapply ev_copy; eauto.
  - destruct (pick sc) as [c sc1]. destruct (elookup e y) eqn:E; [|discriminate]. destruct c.
    + inversion H; subst. apply ev_proj_self; assumption.
    + destruct (nth_error h o0) eqn:E2; [|discriminate].
      destruct (nth_error (c_refs c0) c) eqn:E3; inversion H; subst.
      * eapply ev_proj_ref; eauto. eapply nth_error_In; eauto.
      * apply ev_proj_self; assumption.
Qed.

Lemma srun_sound_l : forall fuel args p sc st sc' st',
  srun fuel args p sc st = Some (sc', st') -> exec args p st st'.
Proof.
  induction fuel as [|f IH]; intros args p sc st sc' st' H; simpl in H; [discriminate|].
  destruct p.
  - inversion H; subst. apply ex_stop.
  - destruct st as [e h]. destruct (seval args e h r sc) as [[[o h1] sc1]|] eqn:E; inversion H; subst.
    apply ex_assign. eapply seval_sound; eauto.
  - destruct st as [e h]. destruct (elookup e x) eqn:E; [|discriminate].
    destruct (nth_error h o) eqn:E2; inversion H; subst.
    eapply ex_store; eauto.
  - destruct (srun f args p1 sc st) as [[sc1 st1]|] eqn:E; [|discriminate].
    eapply ex_seq; eauto.
  - destruct (pick sc) as [c sc1]. destruct c.
    + apply ex_if_l. eauto.
    + apply ex_if_r. eauto.
  - destruct (pick sc) as [c sc1]. destruct c.
    + inversion H; subst. apply ex_stop.
    + destruct (srun f args p sc1 st) as [[sc2 st2]|] eqn:E; [|discriminate].
      eapply ex_loop; eauto.
Qed.

Lemma wf_heapb_sound : forall h, wf_heapb h = true -> wf_heap h.
Proof.
  intros h H o c Hn o' Hin. unfold wf_heapb in H. rewrite forallb_forall in H.
  specialize (H c (nth_error_In _ _ Hn)). rewrite forallb_forall in H.
  apply Nat.ltb_lt. auto.
Qed.

Lemma args_inb_sound : forall args h, args_inb args h = true -> args_in args h.
Proof.
  intros args h H i a Hn. unfold args_inb in H. rewrite forallb_forall in H.
  apply Nat.ltb_lt. apply H. eapply nth_error_In; eauto.
Qed.

(* a successful refute_check is a counterexample to purity in the heap semantics *)
Lemma refute_check_sound_l : forall fuel p h args sc o, refute_check fuel p h args sc o = true ->
  exists e' h', wf_heap h /\ args_in args h /\ exec args p ([], h) (e', h') /\
                o < length h /\ nth_error h' o <> nth_error h o.
Proof.
  intros fuel p h args sc o H. unfold refute_check in H.
  repeat (apply andb_true_iff in H; destruct H as [H ?]).
  destruct (srun fuel args p sc ([], h)) as [[sc' [e' h']]|] eqn:E; [|discriminate].
  exists e', h'. split; [apply wf_heapb_sound; assumption|].
  split; [apply args_inb_sound; assumption|].
  split; [eapply srun_sound_l; eauto|].
  split; [apply Nat.ltb_lt; assumption|].
  destruct (nth_error h' o) as [c'|] eqn:E1; [|discriminate].
  destruct (nth_error h o) as [c|] eqn:E2; [|discriminate].
  intro Heq. inversion Heq; subst. rewrite Nat.eqb_refl in H0. discriminate.
Qed.

(* consistency of the two verdicts: a program with a refuting script is never accepted *)
Lemma refuted_not_accepted_l : forall fuel p h args sc o pts hpts,
  refute_check fuel p h args sc o = true -> check pts hpts p = false.
Proof.
  intros fuel p h args sc o pts hpts H.
  destruct (check pts hpts p) eqn:E; auto.
  unfold check in E. apply andb_true_iff in E. destruct E as [Hc Hw].
  destruct (refute_check_sound_l _ _ _ _ _ _ H) as [e' [h' [Hwf [Ha [Hex [Ho Hne]]]]]].
  exfalso. apply Hne. eapply no_param_write_sound_l; eauto.
Qed.
