(* Chunks.v (C11) — value-level model of sleap_nn/data/get_data_chunks.py (definitions only;
   executable): what the litdata chunk functions keep of ONE labelled frame.

   All four start with `process_lf(lf, video_idx, max_instances, user_instances_only)` (user
   filter, the non-empty instances in label order, all-NaN padding up to max_instances) and
   `sample["instances"] * eff_scale` (size matcher):
     chunk_base        sample["instances"] at that point, and num_instances
     bottomup_chunk    bottomup_data_chunks / single_instance_data_chunks (max_instances = 1):
                       apply_resizer multiplies the keypoints by `scale`
     centroid_chunk    centroid_data_chunks: generate_centroids on every row (padding rows too);
                       the sample keeps `instances` as that call leaves them — x eff_scale ONLY, the
                       input scale goes to the image and to the centroids — and centroids x scale
     centered_chunk    centered_instance_data_chunks: one crop per row below num_instances,
                       (centroid, keypoints) before the crop offset is subtracted and the
                       keypoints are multiplied by `scale`
   `fixed` is the behaviour of generate_centroids (C11/Values.v: true = clones the anchor slice). *)
From Coq Require Import List Arith ZArith QArith Bool.
Import ListNotations.
From SV Require Import C11.Values C11.Dataset.

Definition chunk_base (uo : bool) (maxi : nat) (eff : Q) (fr : lframe) : list instance * nat :=
  let r := process_lf uo maxi fr in (scale_rows eff (fst r), snd r).

Definition bottomup_chunk (uo : bool) (maxi : nat) (eff s : Q) (fr : lframe) : list instance * nat :=
  let b := chunk_base uo maxi eff fr in (scale_rows s (fst b), snd b).

Definition single_chunk (uo : bool) (eff s : Q) (fr : lframe) : list instance * nat :=
  bottomup_chunk uo 1 eff s fr.

Definition centroid_chunk (fixed : bool) (anchor : option nat) (uo : bool) (maxi : nat) (eff s : Q)
  (fr : lframe) : (list instance * nat) * list kp :=
  let b := chunk_base uo maxi eff fr in
  let cs := map (gen_centroid fixed anchor) (fst b) in
  ((map snd cs, snd b), map (fun c => scale_kp s (fst c)) cs).

Definition centered_chunk (fixed : bool) (anchor : option nat) (uo : bool) (maxi : nat) (eff : Q)
  (fr : lframe) : list (kp * instance) :=
  let b := chunk_base uo maxi eff fr in
  firstn (snd b) (map (gen_centroid fixed anchor) (fst b)).

(* ---- evaluation entry point for the correspondence harness ----
   (fixed, anchor, uo, max_instances, eff_scale, scale, frame as (is_user, keypoints)) ->
   ((bottomup sample, single-instance sample), (centroid sample, centered crops)) *)
Definition run_chunk (c : bool * option nat * bool * nat * Q * Q * list (bool * instance))
  : ((list instance * nat) * (list instance * nat)) *
    (((list instance * nat) * list kp) * list (kp * instance)) :=
  let '(fixed, anchor, uo, maxi, eff, s, raw) := c in
  let fr := map (fun p => mklinst (fst p) (snd p)) raw in
  ((bottomup_chunk uo maxi eff s fr, single_chunk uo eff s fr),
   (centroid_chunk fixed anchor uo maxi eff s fr, centered_chunk fixed anchor uo maxi eff fr)).

(* ---- the domain of the chunk functions (review finding 2) ----
   The code raises outside it: `np.stack([])` in process_lf when the frame has no non-empty considered
   instance (ValueError), `points[..., anchor_ind, :]` when the anchor is not a node (IndexError).  The
   definitions above are total (zero-node padding rows / bbox midpoint there); the theorems about them
   carry `lf_domain` / `chunk_anchor_domain` as hypotheses, and `run_chunk_dom` hands both to the harness,
   which checks that the code raises exactly where they are false. *)
Definition chunk_anchor_domain (anchor : option nat) (uo : bool) (fr : lframe) : bool :=
  forallb (fun inst => anchor_domain anchor (length inst)) (considered uo fr).

Definition run_chunk_dom (c : bool * option nat * bool * nat * Q * Q * list (bool * instance)) :=
  let '(fixed, anchor, uo, maxi, eff, s, raw) := c in
  let fr := map (fun p => mklinst (fst p) (snd p)) raw in
  ((lf_domain uo fr, chunk_anchor_domain anchor uo fr), run_chunk c).
