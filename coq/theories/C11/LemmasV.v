(* LemmasV.v (C11) — proofs about the value-level model C11/Values.v. *)
From Coq Require Import List Arith ZArith QArith Bool Lia.
Import ListNotations.
From SV Require Import C11.Values.

(* ------------------------------------------------------------- set_nth -- *)

Lemma set_nth_same : forall k (l : instance), set_nth k (nth k l None) l = l.
Proof.
  induction k as [|k IH]; intros [|x t]; simpl; auto.
  rewrite IH. reflexivity.
Qed.

Lemma set_nth_length : forall k v (l : instance), length (set_nth k v l) = length l.
Proof. induction k as [|k IH]; intros v [|x t]; simpl; auto. Qed.

Lemma nth_set_nth_eq : forall k v (l : instance), (k < length l)%nat -> nth k (set_nth k v l) None = v.
Proof.
  induction k as [|k IH]; intros v [|x t] H; simpl in *; try lia; auto.
  apply IH. lia.
Qed.

(* --------------------------------------------------------- bbox / empty -- *)

Lemma bbox_none_iff : forall inst, bbox inst = None <-> all_missing inst = true.
Proof.
  induction inst as [|[[x y]|] t IH]; simpl.
  - tauto.
  - split; [|discriminate]. destruct (bbox t) as [[[[? ?] ?] ?]|]; discriminate.
  - exact IH.
Qed.

Lemma bbox_mid_none_iff : forall inst, bbox_mid inst = None <-> all_missing inst = true.
Proof.
  intro inst. unfold bbox_mid. rewrite <- bbox_none_iff.
  destruct (bbox inst) as [[[[? ?] ?] ?]|]; split; intro H; try discriminate; auto.
Qed.

Lemma all_missing_nth : forall inst k, all_missing inst = true -> nth k inst None = None.
Proof.
  induction inst as [|x t IH]; intros [|k] H; simpl in *; auto.
  - apply andb_true_iff in H. destruct H as [H _]. destruct x; [discriminate|reflexivity].
  - apply andb_true_iff in H. destruct H as [_ H]. auto.
Qed.

(* ------------------------------------------------------- gen_centroid -- *)

Lemma gen_centroid_fixed_preserves : forall anchor inst, snd (gen_centroid true anchor inst) = inst.
Proof.
  intros anchor inst. unfold gen_centroid.
  destruct (match anchor with Some a => nth a inst None | None => None end); reflexivity.
Qed.

Lemma gen_centroid_value_same : forall anchor inst,
  fst (gen_centroid false anchor inst) = fst (gen_centroid true anchor inst).
Proof.
  intros anchor inst. unfold gen_centroid.
  destruct (match anchor with Some a => nth a inst None | None => None end); reflexivity.
Qed.

Lemma gen_centroid_unfixed_partial : forall anchor inst,
  selector_F5 anchor inst = false -> snd (gen_centroid false anchor inst) = inst.
Proof.
  intros [a|] inst H; unfold gen_centroid; simpl in *; [|reflexivity].
  destruct (nth a inst None) as [c|] eqn:E; [reflexivity|]. simpl.
  destruct (Nat.ltb a (length inst)) eqn:L; simpl in H.
  - (* in range, missing anchor: the instance must be empty, the midpoint is NaN *)
    apply negb_false_iff in H.
    assert (M : bbox_mid inst = None) by (apply bbox_mid_none_iff; assumption).
    rewrite M. rewrite <- E. apply set_nth_same.
  - (* out of range: nothing to overwrite *)
    apply Nat.ltb_ge in L.
    assert (G : forall k v (l : instance), (length l <= k)%nat -> set_nth k v l = l).
    { induction k as [|k IH]; intros v [|x t] Hl; simpl in *; auto; try lia.
      rewrite IH; auto; lia. }
    apply G. assumption.
Qed.

Lemma gen_centroid_unfixed_refuted : exists anchor inst, snd (gen_centroid false anchor inst) <> inst.
Proof.
  exists (Some 0%nat), [None; Some (4 # 1, 6 # 1)]. vm_compute. discriminate.
Qed.

Lemma missing_stays_missing_unfixed_refuted :
  exists anchor inst k, nth k inst None = None /\
                        nth k (snd (gen_centroid false anchor inst)) None <> None.
Proof.
  exists (Some 0%nat), [None; Some (4 # 1, 6 # 1)], 0%nat. split; [reflexivity|].
  vm_compute. discriminate.
Qed.

Lemma centroid_missing_iff_empty_l : forall fixed anchor inst,
  fst (gen_centroid fixed anchor inst) = None <-> all_missing inst = true.
Proof.
  intros fixed anchor inst. unfold gen_centroid.
  destruct (match anchor with Some a => nth a inst None | None => None end) as [c|] eqn:E; simpl.
  - split; [discriminate|]. intro H. destruct anchor as [a|]; [|discriminate].
    rewrite (all_missing_nth _ a H) in E. discriminate.
  - apply bbox_mid_none_iff.
Qed.

(* ------------------------------------------------------- derived samples -- *)

Lemma nth_map_kp : forall (f : kp -> kp) (l : instance) k, f None = None ->
  nth k (map f l) None = f (nth k l None).
Proof.
  intros f l k H. rewrite <- H at 1. apply map_nth.
Qed.

Lemma missing_stays_missing_fixed_l : forall anchor scale off (inst : instance) k,
  nth k inst None = None ->
  nth k (sample_instance true anchor scale off inst) None = None.
Proof.
  intros anchor scale off inst k H. unfold sample_instance.
  rewrite gen_centroid_fixed_preserves.
  rewrite nth_map_kp by reflexivity. rewrite nth_map_kp by reflexivity. rewrite H. reflexivity.
Qed.

Lemma all_missing_scale : forall s inst, all_missing (map (scale_kp s) inst) = all_missing inst.
Proof.
  intros s inst. induction inst as [|[[x y]|] t IH]; simpl; auto.
Qed.

Lemma selector_scale : forall anchor s inst,
  selector_F5 anchor (map (scale_kp s) inst) = selector_F5 anchor inst.
Proof.
  intros [a|] s inst; simpl; auto.
  rewrite map_length, all_missing_scale. rewrite nth_map_kp by reflexivity.
  destruct (nth a inst None) as [[x y]|]; reflexivity.
Qed.

Lemma missing_stays_missing_partial_l : forall anchor scale off (inst : instance) k,
  selector_F5 anchor inst = false -> nth k inst None = None ->
  nth k (sample_instance false anchor scale off inst) None = None.
Proof.
  intros anchor scale off inst k Hs H. unfold sample_instance.
  rewrite gen_centroid_unfixed_partial by (rewrite selector_scale; assumption).
  rewrite nth_map_kp by reflexivity. rewrite nth_map_kp by reflexivity. rewrite H. reflexivity.
Qed.

Lemma sample_instance_length_l : forall fixed anchor scale off inst,
  length (sample_instance fixed anchor scale off inst) = length inst.
Proof.
  intros fixed anchor scale off inst. unfold sample_instance, gen_centroid.
  rewrite map_length.
  destruct (match anchor with Some a => nth a (map (scale_kp scale) inst) None | None => None end);
    simpl; [apply map_length|].
  destruct fixed; [apply map_length|].
  destruct anchor; [rewrite set_nth_length|]; apply map_length.
Qed.

(* ------------------------------------------------------- index lists -- *)

Lemma In_enum_from : forall A (l : list A) s i x,
  In (i, x) (enum_from s l) <-> (s <= i)%nat /\ nth_error l (i - s) = Some x.
Proof.
  induction l as [|y t IH]; intros s i x; simpl.
  - split; [tauto|]. intros [_ H]. destruct (i - s)%nat; discriminate.
  - rewrite IH. split.
    + intros [H|[H1 H2]].
      * inversion H; subst. split; [lia|]. rewrite Nat.sub_diag. reflexivity.
      * split; [lia|]. replace (i - s)%nat with (S (i - S s)) by lia. simpl. assumption.
    + intros [H1 H2]. destruct (Nat.eq_dec s i) as [->|Hne].
      * rewrite Nat.sub_diag in H2. simpl in H2. inversion H2; subst. left; reflexivity.
      * right. split; [lia|]. replace (i - s)%nat with (S (i - S s)) in H2 by lia. simpl in H2. assumption.
Qed.

Lemma In_enum0 : forall A (l : list A) i x, In (i, x) (enum_from 0 l) <-> nth_error l i = Some x.
Proof.
  intros. rewrite In_enum_from. rewrite Nat.sub_0_r. split; [tauto|]. intro H; split; [lia|assumption].
Qed.

Lemma frame_idx_list_sound_l : forall frames f,
  In f (lf_idx_list frames) <->
  exists fr, nth_error frames f = Some fr /\ existsb (fun inst => negb (all_missing inst)) fr = true.
Proof.
  intros frames f. unfold lf_idx_list. rewrite in_map_iff. split.
  - intros [[i fr] [Hi Hin]]. simpl in Hi; subst. apply filter_In in Hin. destruct Hin as [Hin Hb].
    apply In_enum0 in Hin. exists fr. split; auto.
  - intros [fr [Hn Hb]]. exists (f, fr). split; auto. apply filter_In. split; auto.
    apply In_enum0. assumption.
Qed.

Lemma instance_idx_list_sound_l : forall frames f i,
  In (f, i) (instance_idx_list frames) <->
  exists fr inst, nth_error frames f = Some fr /\ nth_error fr i = Some inst /\ all_missing inst = false.
Proof.
  intros frames f i. unfold instance_idx_list. rewrite in_flat_map. split.
  - intros [[f' fr] [Hin Hm]]. simpl in Hm. apply in_map_iff in Hm.
    destruct Hm as [[i' inst] [Heq Hf]]. simpl in Heq. inversion Heq; subst.
    apply filter_In in Hf. destruct Hf as [Hi Hb]. simpl in Hb.
    apply In_enum0 in Hin. apply In_enum0 in Hi.
    exists fr, inst. repeat split; auto. unfold nonempty in Hb. apply negb_true_iff in Hb. assumption.
  - intros [fr [inst [Hf [Hi Hb]]]]. exists (f, fr). split; [apply In_enum0; assumption|].
    simpl. apply in_map_iff. exists (i, inst). split; auto.
    apply filter_In. split; [apply In_enum0; assumption|]. simpl. unfold nonempty. rewrite Hb. reflexivity.
Qed.

Lemma enum_filter_length : forall A (g : A -> bool) (l : list A) s,
  length (filter (fun q : nat * A => g (snd q)) (enum_from s l)) = length (filter g l).
Proof.
  induction l as [|x t IH]; intro s; simpl; auto.
  destruct (g x); simpl; rewrite IH; reflexivity.
Qed.

Lemma centered_len_aux : forall (frames : list frame) s,
  length (flat_map (fun p : nat * frame => map (fun q : nat * instance => (fst p, fst q))
                         (filter (fun q : nat * instance => nonempty (snd q)) (enum_from 0 (snd p))))
                   (enum_from s frames)) =
  list_sum (map (fun fr => length (filter nonempty fr)) frames).
Proof.
  induction frames as [|fr t IH]; intro s; simpl; auto.
  rewrite app_length, map_length, IH. rewrite enum_filter_length. reflexivity.
Qed.

Lemma centered_len_counts_nonempty_l : forall frames,
  length (instance_idx_list frames) = count_nonempty_instances frames.
Proof. intro frames. apply centered_len_aux. Qed.
