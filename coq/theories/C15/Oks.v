(* Oks.v — executable model of sleap_nn/evaluation.py: compute_instance_area,
   compute_oks, match_instances and of the helpers of sleap_nn/tracking/utils.py
   (greedy_matching, compute_iou, compute_cosine_sim, compute_euclidean_distance).
   No proofs in this file.

   Numbers: coordinates, scores, standard deviations, scales are exact
   rationals (Q).  A coordinate is `option Q` (None = NaN); a point is the list
   of its n_ed coordinates; a point is *missing* when any coordinate is NaN
   (`np.any(np.isnan(points), axis=-1)`).  `exp` is not computed: a keypoint
   term holds `option Q`, the *argument* of the exponential (None = the value
   0, i.e. exp(-inf) for a missing prediction or the explicit `ks[...] = 0` for
   a missing ground-truth keypoint).  The OKS of a pair is held as
   (terms, n_visible_gt); its real value is  sum (exp arg) / n_visible
   (Lemmas.v, `oks_val`), NaN (0/0) when no gt keypoint is visible.

   match_instances / greedy_matching act on score matrices that are plain
   rationals (every float64 is a rational), so they are modelled exactly. *)
From Coq Require Import List Arith ZArith QArith Bool.
Import ListNotations.
Open Scope Q_scope.

Definition coord := option Q.
Definition pt := list coord.
Definition pose := list pt.

Definition is_nan (c : coord) : bool := match c with None => true | Some _ => false end.
Definition missing (p : pt) : bool := existsb is_nan p.

Definition Qltb (a b : Q) : bool := negb (Qle_bool b a).

(* np.spacing(1) = 2^-52 *)
Definition eps : Q := 1 # 4503599627370496.

(* ---- compute_instance_area: prod (nanmax - nanmin) over the coordinates ---- *)
Definition omin (a b : coord) : coord :=
  match a, b with
  | None, _ => b
  | _, None => a
  | Some x, Some y => Some (if Qle_bool x y then x else y)
  end.
Definition omax (a b : coord) : coord :=
  match a, b with
  | None, _ => b
  | _, None => a
  | Some x, Some y => Some (if Qle_bool x y then y else x)
  end.
Definition nanmin (l : list coord) : coord := fold_right omin None l.
Definition nanmax (l : list coord) : coord := fold_right omax None l.

Definition column (k : nat) (ps : pose) : list coord := map (fun p => nth k p None) ps.

(* extent of the points along coordinate k; None (NaN) if every entry is NaN *)
Definition extent (ps : pose) (k : nat) : coord :=
  match nanmax (column k ps), nanmin (column k ps) with
  | Some hi, Some lo => Some (hi - lo)
  | _, _ => None
  end.

Definition oprod (a b : coord) : coord :=
  match a, b with Some x, Some y => Some (x * y) | _, _ => None end.

Definition area (n_ed : nat) (ps : pose) : coord :=
  fold_right oprod (Some 1) (map (extent ps) (seq 0 n_ed)).

(* ---- compute_oks ---- *)
Definition sq (a : Q) : Q := a * a.

(* squared Euclidean distance of two points without NaN *)
Fixpoint dist2 (g p : pt) : Q :=
  match g, p with
  | Some a :: g', Some b :: p' => sq (a - b) + dist2 g' p'
  | _, _ => 0
  end.

(* normalisation factor of one keypoint: spread_factor * scale_factor *)
Definition norm_factor (coco : bool) (sd scale : Q) : Q :=
  if coco then sq (2 * sd) * (2 * (scale + eps))
  else sq sd * (2 * sq (scale + eps)).

(* one keypoint's term: None = 0 *)
Definition ks_arg (coco : bool) (scale : coord) (sd : Q) (g p : pt) : option Q :=
  if missing g then None
  else if missing p then None
  else match scale with
       | None => None        (* NaN scale: only arises when every gt keypoint is missing *)
       | Some s => Some (- (dist2 g p / norm_factor coco sd s))
       end.

Fixpoint zip3 {A B C} (l : list A) (m : list B) (n : list C) : list (A * B * C) :=
  match l, m, n with
  | a :: l', b :: m', c :: n' => (a, b, c) :: zip3 l' m' n'
  | _, _, _ => []
  end.

Definition n_visible (g : pose) : nat := length (filter (fun p => negb (missing p)) g).

Definition okv := (list (option Q) * nat)%type.     (* (terms, n_visible_gt) *)

Definition oks_pair (coco : bool) (scale : coord) (sds : list Q) (g p : pose) : okv :=
  (map (fun t => let '(gk, pk, sd) := t in ks_arg coco scale sd gk pk) (zip3 g p sds),
   n_visible g).

Inductive sdspec := SdScalar (s : Q) | SdVec (l : list Q).
Inductive scspec := ScNone | ScScalar (s : Q) | ScVec (l : list Q).

Definition sd_list (sd : sdspec) (n_nodes : nat) : list Q :=
  match sd with SdScalar s => repeat s n_nodes | SdVec l => l end.

Definition scale_list (n_ed : nat) (sc : scspec) (gts : list pose) : list coord :=
  match sc with
  | ScNone => map (area n_ed) gts
  | ScScalar s => map (fun _ => Some s) gts
  | ScVec l => map Some l
  end.

Fixpoint zip {A B} (l : list A) (m : list B) : list (A * B) :=
  match l, m with
  | a :: l', b :: m' => (a, b) :: zip l' m'
  | _, _ => []
  end.

(* the (n_gt x n_pr) matrix *)
Definition oks_matrix (n_ed n_nodes : nat) (gts prs : list pose) (sc : scspec) (sd : sdspec)
  (coco : bool) : list (list okv) :=
  map (fun gs => map (fun p => oks_pair coco (snd gs) (sd_list sd n_nodes) (fst gs) p) prs)
      (zip gts (scale_list n_ed sc gts)).

(* compute_oks.  fixed_F22 = true: the current tree (repaired by bc2102a, np.broadcast_to).
   fixed_F22 = false: the PINNED tree before that fix, where the statement
     ks[np.expand_dims(missing_gt, axis=1)] = 0
   indexes an (n_gt, n_pr, n_nodes) array with an (n_gt, 1, n_nodes) boolean
   mask, which numpy rejects (IndexError) unless n_pr = 1.  None = IndexError. *)
Definition compute_oks (fixed_F22 : bool) (n_ed n_nodes : nat) (gts prs : list pose)
  (sc : scspec) (sd : sdspec) (coco : bool) : option (list (list okv)) :=
  if fixed_F22 || (length prs =? 1)%nat
  then Some (oks_matrix n_ed n_nodes gts prs sc sd coco)
  else None.

(* ---- match_instances (score-sorted greedy matching, pop of the matched gt) ----
   M g p : OKS of ground-truth instance g with prediction p (None = NaN). *)
Definition smatrix := list (list (option Q)).
Definition mget (M : smatrix) (g p : nat) : option Q := nth p (nth g M []) None.

(* np.argsort(-scores, kind="mergesort"): descending, stable *)
Fixpoint insert_desc (x : Q * nat) (l : list (Q * nat)) : list (Q * nat) :=
  match l with
  | [] => [x]
  | y :: t => if Qltb (fst x) (fst y) then y :: insert_desc x t else x :: l
  end.
Definition sort_desc (l : list (Q * nat)) : list (Q * nat) := fold_right insert_desc [] l.
Definition argsort_desc (scores : list Q) : list nat :=
  map snd (sort_desc (zip scores (seq 0 (length scores)))).

(* oks[oks <= thr] = nan ; np.argsort(-oks, kind="mergesort")[0]:
   position of the largest value > thr, the first one among equals;
   None when every entry is NaN / <= thr *)
Fixpoint best_from (thr : Q) (vals : list (option Q)) (pos : nat) (cur : option (nat * Q))
  : option (nat * Q) :=
  match vals with
  | [] => cur
  | v :: t =>
      let cur' :=
        match v with
        | None => cur
        | Some q =>
            if Qle_bool q thr then cur
            else match cur with
                 | None => Some (pos, q)
                 | Some (_, b) => if Qltb b q then Some (pos, q) else cur
                 end
        end in
      best_from thr t (S pos) cur'
  end.
Definition best_pos (thr : Q) (vals : list (option Q)) : option (nat * Q) :=
  best_from thr vals 0 None.

Definition pop_at {A} (pos : nat) (l : list A) : list A := firstn pos l ++ skipn (S pos) l.

Definition mpair := (nat * nat * Q)%type.           (* (gt index, pr index, oks) *)

Fixpoint match_loop (M : smatrix) (thr : Q) (order avail : list nat) : list mpair * list nat :=
  match order with
  | [] => ([], avail)
  | p :: rest =>
      match avail with
      | [] => ([], [])                               (* `if not available: break` *)
      | _ =>
          match best_pos thr (map (fun g => mget M g p) avail) with
          | None => match_loop M thr rest avail      (* `continue` *)
          | Some (pos, v) =>
              let g := nth pos avail 0%nat in
              let '(ms, missed) := match_loop M thr rest (pop_at pos avail) in
              ((g, p, v) :: ms, missed)
          end
      end
  end.

(* None = the ValueError of np.stack([]) : no gt instance but at least one
   prediction (fixed_F51 = false: the pinned tree before fix 8044028; true: the current tree, which
   leaves the loop at once) *)
Definition match_instances (fixed_F51 : bool) (n_gt : nat) (scores : list Q) (M : smatrix) (thr : Q)
  : option (list mpair * list nat) :=
  match n_gt, scores with
  | O, _ :: _ => if fixed_F51 then Some ([], []) else None
  | _, _ => Some (match_loop M thr (argsort_desc scores) (seq 0 n_gt))
  end.

(* ---- match_instances on an arbitrary predicted frame (review round 4) ----
   The code builds `scores_pr` from the instances that HAVE a `score` attribute
   (`if hasattr(m.instance, "score")`) and then uses the argsort positions of that FILTERED array as
   indices into the UNFILTERED instance list: with k scored instances among n, the first k instances of
   the frame are visited (in the order given by the scores of the scored ones) and the last n - k never.
   A NaN score sorts last (np.argsort(-scores): NaN at the end, stable).
   `pscore` = what the code sees of one predicted instance's score. *)
Inductive pscore := NoScore | NanScore | Score (q : Q).
Definition scored (prs : list pscore) : list (option Q) :=
  flat_map (fun s => match s with NoScore => [] | NanScore => [None] | Score q => [Some q] end) prs.

(* y strictly before x in descending order with NaN (None) last *)
Definition ogt (y x : option Q) : bool :=
  match x, y with
  | Some a, Some b => Qltb a b
  | None, Some _ => true
  | _, None => false
  end.
Fixpoint insert_desc_o (x : option Q * nat) (l : list (option Q * nat)) : list (option Q * nat) :=
  match l with
  | [] => [x]
  | y :: t => if ogt (fst y) (fst x) then y :: insert_desc_o x t else x :: l
  end.
Definition sort_desc_o (l : list (option Q * nat)) : list (option Q * nat) := fold_right insert_desc_o [] l.
Definition argsort_desc_o (scores : list (option Q)) : list nat :=
  map snd (sort_desc_o (zip scores (seq 0 (length scores)))).

(* M has one column per instance of the predicted frame (scored or not) *)
Definition match_instances_gen (fixed_F51 : bool) (n_gt : nat) (prs : list pscore) (M : smatrix) (thr : Q)
  : option (list mpair * list nat) :=
  match n_gt, scored prs with
  | O, _ :: _ => if fixed_F51 then Some ([], []) else None
  | _, sc => Some (match_loop M thr (argsort_desc_o sc) (seq 0 n_gt))
  end.

(* ---- tracking/utils.py helpers ---- *)

(* greedy_matching: edges in ascending cost (NaN last; the model breaks ties by
   row-major index), repeatedly take the first and drop the edges sharing its
   row or column. *)
Definition cedge := (option Q * (nat * nat))%type.
Definition cost_lt (a b : option Q) : bool :=          (* a strictly before b *)
  match a, b with
  | Some x, Some y => Qltb x y
  | Some _, None => true
  | None, _ => false
  end.
Fixpoint insert_asc (x : cedge) (l : list cedge) : list cedge :=
  match l with
  | [] => [x]
  | y :: t => if cost_lt (fst y) (fst x) then y :: insert_asc x t else x :: l
  end.
Definition sort_asc (l : list cedge) : list cedge := fold_right insert_asc [] l.

Definition edges_of (C : smatrix) : list cedge :=
  concat (map (fun ri => map (fun cj => (snd cj, (fst ri, fst cj)))
                          (zip (seq 0 (length (snd ri))) (snd ri)))
              (zip (seq 0 (length C)) C)).

Fixpoint greedy_take (fuel : nat) (es : list (nat * nat)) : list (nat * nat) :=
  match fuel with
  | O => []
  | S f =>
      match es with
      | [] => []
      | (r, c) :: t =>
          (r, c) :: greedy_take f (filter (fun e => negb ((fst e =? r)%nat || (snd e =? c)%nat)) t)
      end
  end.

Definition greedy_matching (C : smatrix) : list (nat * nat) :=
  let es := map snd (sort_asc (edges_of C)) in
  greedy_take (length es) es.

(* compute_iou on boxes (xmin, ymin, xmax, ymax), "+1" pixel convention *)
Definition Qmax2 (a b : Q) : Q := if Qle_bool a b then b else a.
Definition Qmin2 (a b : Q) : Q := if Qle_bool a b then a else b.
Definition box := (Q * Q * Q * Q)%type.
Definition iou_parts (a b : box) : Q * Q :=            (* (intersection, union) *)
  let '(x1, y1, X1, Y1) := a in
  let '(x2, y2, X2, Y2) := b in
  let inter := Qmax2 0 (Qmin2 X1 X2 - Qmax2 x1 x2 + 1) * Qmax2 0 (Qmin2 Y1 Y2 - Qmax2 y1 y2 + 1) in
  let a1 := (X1 - x1 + 1) * (Y1 - y1 + 1) in
  let a2 := (X2 - x2 + 1) * (Y2 - y2 + 1) in
  (inter, a1 + a2 - inter).
Definition compute_iou (a b : box) : Q := let '(i, u) := iou_parts a b in i / u.

(* compute_cosine_sim = dot / (sqrt |a|^2 * sqrt |b|^2): the model holds the
   three rationals; compute_euclidean_distance = - sqrt (sum (a-b)^2): the model
   holds the squared distance *)
Fixpoint dot (a b : list Q) : Q :=
  match a, b with
  | x :: a', y :: b' => x * y + dot a' b'
  | _, _ => 0
  end.
Definition cosine_parts (a b : list Q) : Q * Q * Q := (dot a b, dot a a, dot b b).
Fixpoint sqdist (a b : list Q) : Q :=
  match a, b with
  | x :: a', y :: b' => sq (x - y) + sqdist a' b'
  | _, _ => 0
  end.

(* brute-force optimum of the assignment problem (reference for the contract of
   scipy's linear_sum_assignment, used by hungarian_matching): minimal total cost
   over all one-to-one assignments of min(n,m) rows/columns; rows are consumed in
   order when n <= m (the harness transposes otherwise) *)
Fixpoint picks {A} (l : list A) : list (A * list A) :=
  match l with
  | [] => []
  | x :: t => (x, t) :: map (fun yt => (fst yt, x :: snd yt)) (picks t)
  end.
Definition qmin_list (l : list Q) : option Q :=
  match l with [] => None | x :: t => Some (fold_left Qmin2 t x) end.
Fixpoint opt_cost (fuel : nat) (rows : list (list Q)) (cols : list nat) : option Q :=
  match fuel with
  | O => None
  | S f =>
      match rows with
      | [] => Some 0
      | r :: rest =>
          qmin_list (flat_map (fun ct =>
                       match opt_cost f rest (snd ct) with
                       | Some v => [nth (fst ct) r 0 + v]
                       | None => []
                       end) (picks cols))
      end
  end.
Definition hungarian_opt (C : list (list Q)) : option Q :=
  opt_cost (S (length C)) C (seq 0 (length (hd [] C))).

(* the same reference for cost matrices with infinite entries (None = inf), the contract of the repaired
   hungarian_matching: the largest possible number of finite-cost pairs, and among those the lowest total
   cost.  A row may stay unassigned.  Result: (number of pairs, total cost). *)
Definition better (a b : nat * Q) : nat * Q :=           (* lexicographic: more pairs, then cheaper *)
  if (fst b <? fst a)%nat then a
  else if (fst a <? fst b)%nat then b
  else if Qle_bool (snd a) (snd b) then a else b.
Fixpoint opt_inf (fuel : nat) (rows : list (list (option Q))) (cols : list nat) : nat * Q :=
  match fuel with
  | O => (0%nat, 0)
  | S f =>
      match rows with
      | [] => (0%nat, 0)
      | r :: rest =>
          fold_left better
            (flat_map (fun ct =>
                         match nth (fst ct) r None with
                         | Some v => let '(n, c) := opt_inf f rest (snd ct) in [(S n, v + c)]
                         | None => []
                         end) (picks cols))
            (opt_inf f rest cols)
      end
  end.
Definition hungarian_opt_inf (C : list (list (option Q))) : nat * Q :=
  opt_inf (S (length C)) C (seq 0 (length (hd [] C))).

(* ---- entry points for the correspondence harness ---- *)
Inductive case :=
| COks (fixed_F22 : bool) (n_ed n_nodes : nat) (gts prs : list pose) (sc : scspec) (sd : sdspec) (coco : bool)
| CArea (n_ed : nat) (ps : list pose)
| CMatch (fixed_F51 : bool) (n_gt : nat) (scores : list Q) (M : smatrix) (thr : Q)
| CMatchG (fixed_F51 : bool) (n_gt : nat) (prs : list pscore) (M : smatrix) (thr : Q)
| CGreedy (C : smatrix)
| CHung (C : list (list Q))
| CHungInf (C : smatrix)
| CIou (a b : box)
| CCos (a b : list Q)
| CEuc (a b : list Q).

Inductive result :=
| ROks (r : option (list (list okv)))
| RArea (r : list coord)
| RMatch (r : option (list mpair * list nat))
| RGreedy (r : list (nat * nat))
| RHung (r : option Q)
| RHungInf (r : nat * Q)
| RIou (r : Q * Q)
| RCos (r : Q * Q * Q)
| REuc (r : Q).

Definition run (c : case) : result :=
  match c with
  | COks f e n g p sc sd coco => ROks (compute_oks f e n g p sc sd coco)
  | CArea e ps => RArea (map (area e) ps)
  | CMatch f n s M t => RMatch (match_instances f n s M t)
  | CMatchG f n s M t => RMatch (match_instances_gen f n s M t)
  | CGreedy C => RGreedy (greedy_matching C)
  | CHung C => RHung (hungarian_opt C)
  | CHungInf C => RHungInf (hungarian_opt_inf C)
  | CIou a b => RIou (iou_parts a b)
  | CCos a b => RCos (cosine_parts a b)
  | CEuc a b => REuc (sqdist a b)
  end.

From SV Require Import Base.Render.
Definition rresult (r : result) : rdr :=
  match r with
  | ROks r => ropt (rlist (rlist (rpair (rlist (ropt rQ)) rnat))) r
  | RArea r => rlist (ropt rQ) r
  | RMatch r => ropt (rpair (rlist (rtriple rnat rnat rQ)) (rlist rnat)) r
  | RGreedy r => rlist (rpair rnat rnat) r
  | RHung r => ropt rQ r
  | RHungInf r => rpair rnat rQ r
  | RIou r => rpair rQ rQ r
  | RCos r => rtriple rQ rQ rQ r
  | REuc r => rQ r
  end.
