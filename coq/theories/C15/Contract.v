(* Contract.v (C15) — the validity contracts the harness checks on the REAL answers of
   `hungarian_matching` (scipy) and `match_instances`, as boolean checkers evaluated by coqc on every real
   answer (`arun`, harness/props/c15.py "contract" stage), and what follows from them for ANY answer:
   one-to-one, conservation of counts, threshold / no infinite pair, optimality over all assignments
   (through the proved references of Assign.v).  Closed (nat / Q only). *)
From Coq Require Import List Arith ZArith QArith Lia Bool Permutation.
Import ListNotations.
From SV Require Import C15.Oks C15.Lemmas C15.Assign.

(* ---------------- boolean checkers ---------------- *)
Fixpoint nodupb (l : list nat) : bool :=
  match l with [] => true | x :: t => negb (existsb (Nat.eqb x) t) && nodupb t end.

Definition assignmentb (C : smatrix) (ps : list (nat * nat)) : bool :=
  nodupb (map fst ps) && nodupb (map snd ps) &&
  forallb (fun p => (fst p <? length C)%nat && (snd p <? length (hd [] C))%nat &&
                    match centry C p with Some _ => true | None => false end) ps.

(* answer of hungarian_matching on a matrix with infinite entries *)
Definition hung_inf_contractb (C : smatrix) (ps : list (nat * nat)) : bool :=
  assignmentb C ps && (length ps =? fst (hungarian_opt_inf C))%nat &&
  Qeq_bool (acost C ps) (snd (hungarian_opt_inf C)).

Definition full_assignmentb (C : list (list Q)) (ps : list (nat * nat)) : bool :=
  nodupb (map fst ps) && nodupb (map snd ps) && (length ps =? length C)%nat &&
  forallb (fun p => (fst p <? length C)%nat && (snd p <? length (hd [] C))%nat) ps.

(* answer of hungarian_matching on a finite n x m matrix, n <= m (the harness transposes otherwise) *)
Definition hung_contractb (C : list (list Q)) (ps : list (nat * nat)) : bool :=
  full_assignmentb C ps &&
  match hungarian_opt C with Some v => Qeq_bool (full_cost C ps) v | None => false end.

(* answer of match_instances on a frame with n_gt gt and n_pr predicted instances, OKS matrix M *)
Definition eligibleb (thr q : Q) : bool := negb (Qle_bool q thr).
Definition match_contractb (n_gt n_pr : nat) (M : smatrix) (thr : Q) (ms : list mpair) (missed : list nat) : bool :=
  nodupb (map pr_of ms) && nodupb (map gt_of ms ++ missed) &&
  forallb (fun g => (g <? n_gt)%nat) (map gt_of ms ++ missed) &&
  (length (map gt_of ms ++ missed) =? n_gt)%nat &&
  forallb (fun m => (pr_of m <? n_pr)%nat &&
                    match mget M (gt_of m) (pr_of m) with
                    | Some o => Qeq_bool o (oks_of m) && eligibleb thr o
                    | None => false
                    end) ms.

(* n > m: the harness gives the reference the transposed matrix C' and the answer with rows and columns swapped *)
Definition swap_pairs (ps : list (nat * nat)) : list (nat * nat) := map (fun p => (snd p, fst p)) ps.
Definition is_transpose (C C' : list (list Q)) : Prop :=
  forall r c, nth c (nth r C []) 0%Q = nth r (nth c C' []) 0%Q.

Definition transpose (C : list (list Q)) : list (list Q) :=
  map (fun c => map (fun row => nth c row 0%Q) C) (seq 0 (length (hd [] C))).


(* n > m, checked on the ORIGINAL matrix and answer: coqc transposes *)
Definition hung_contract_tb (C : list (list Q)) (ps : list (nat * nat)) : bool :=
  forallb (fun row => (length row =? length (hd [] C))%nat) C && hung_contractb (transpose C) (swap_pairs ps).

Inductive acase :=
| AHungInf (C : smatrix) (ps : list (nat * nat))
| AHung (C : list (list Q)) (ps : list (nat * nat))
| AHungT (C : list (list Q)) (ps : list (nat * nat))
| AMatch (n_gt n_pr : nat) (M : smatrix) (thr : Q) (ms : list mpair) (missed : list nat).
Definition arun (c : acase) : bool :=
  match c with
  | AHungInf C ps => hung_inf_contractb C ps
  | AHung C ps => hung_contractb C ps
  | AHungT C ps => hung_contract_tb C ps
  | AMatch n_gt n_pr M thr ms missed => match_contractb n_gt n_pr M thr ms missed
  end.

(* ---------------- reflection ---------------- *)
Lemma nodupb_ok l : nodupb l = true <-> NoDup l.
Proof.
  induction l as [|x t IH]; cbn [nodupb].
  - split; [constructor|reflexivity].
  - rewrite andb_true_iff, negb_true_iff, <- not_true_iff_false, existsb_eqb_in, IH.
    split; intros H.
    + destruct H as [H1 H2]. constructor; assumption.
    + inversion H; subst. split; assumption.
Qed.

Lemma assignmentb_ok C ps : assignmentb C ps = true <-> assignment C ps.
Proof.
  unfold assignmentb, assignment. rewrite !andb_true_iff, !nodupb_ok, forallb_forall.
  split; [intros [[Hr Hc] Hp]; split; [exact Hr|split; [exact Hc|]]
        |intros [Hr Hp]; split; [split; [exact Hr|apply Hp]|]].
  - intros p Hin. specialize (Hp p Hin). rewrite !andb_true_iff, !Nat.ltb_lt in Hp.
    destruct Hp as [[H1 H2] H3]. split; [exact H1|]. split; [exact H2|].
    destruct (centry C p); [discriminate|discriminate].
  - intros p Hin. destruct Hp as [Hc' Hp]. destruct (Hp p Hin) as [H1 [H2 H3]].
    rewrite !andb_true_iff, !Nat.ltb_lt. split; [split; assumption|].
    destruct (centry C p); [reflexivity|congruence].
Qed.

Lemma full_assignmentb_ok C ps : full_assignmentb C ps = true <-> full_assignment C ps.
Proof.
  unfold full_assignmentb, full_assignment.
  rewrite !andb_true_iff, !nodupb_ok, Nat.eqb_eq, forallb_forall. split.
  - intros [[[Hr Hc] Hl] Hp]. split; [exact Hr|]. split; [exact Hc|]. split; [exact Hl|].
    intros p Hin. specialize (Hp p Hin). rewrite andb_true_iff, !Nat.ltb_lt in Hp. exact Hp.
  - intros [Hr [Hc [Hl Hp]]]. split; [split; [split|]; assumption|].
    intros p Hin. rewrite andb_true_iff, !Nat.ltb_lt. apply Hp. exact Hin.
Qed.

(* ---------------- what the contracts give, for ANY answer ---------------- *)

(* hungarian_matching with infinite costs: any answer ps (row, column pairs) passing the checker is
   one-to-one, reports no infinite-cost pair, accounts for every row and every column exactly once
   (matched ++ unmatched is a permutation of all), and is optimal among ALL one-to-one assignments without
   infinite pairs: none has more pairs, none with as many pairs is cheaper. *)
Theorem hung_inf_contract_clauses C ps :
  hung_inf_contractb C ps = true ->
  NoDup (map fst ps) /\ NoDup (map snd ps) /\
  Forall (fun p => centry C p <> None) ps /\
  Permutation (map fst ps ++ unmatched (length C) (map fst ps)) (seq 0 (length C)) /\
  Permutation (map snd ps ++ unmatched (length (hd [] C)) (map snd ps)) (seq 0 (length (hd [] C))) /\
  (length ps + length (unmatched (length C) (map fst ps)) = length C)%nat /\
  (length ps + length (unmatched (length (hd [] C)) (map snd ps)) = length (hd [] C))%nat /\
  forall ps', assignment C ps' ->
    (length ps' <= length ps)%nat /\ (length ps' = length ps -> (acost C ps <= acost C ps')%Q).
Proof.
  unfold hung_inf_contractb. rewrite !andb_true_iff, Nat.eqb_eq. intros [[Ha Hl] Hc].
  apply assignmentb_ok in Ha. apply Qeq_bool_iff in Hc. destruct Ha as [Hr [Hcs Hp]].
  assert (Hrl : forall i, In i (map fst ps) -> (i < length C)%nat).
  { intros i Hi. apply in_map_iff in Hi. destruct Hi as [p [E Hi]]. subst. apply Hp; exact Hi. }
  assert (Hcl : forall i, In i (map snd ps) -> (i < length (hd [] C))%nat).
  { intros i Hi. apply in_map_iff in Hi. destruct Hi as [p [E Hi]]. subst. apply Hp; exact Hi. }
  split; [exact Hr|]. split; [exact Hcs|]. split; [apply Forall_forall; intros p Hi; apply Hp; exact Hi|].
  split; [apply unmatched_perm; assumption|]. split; [apply unmatched_perm; assumption|].
  split; [rewrite <- (map_length fst ps); apply unmatched_count; assumption|].
  split; [rewrite <- (map_length snd ps) at 1; apply unmatched_count; assumption|].
  intros ps' Ha'. destruct (hungarian_opt_inf_optimal C ps' Ha') as [H1 H2].
  split; [lia|]. intros E. rewrite Hc. apply H2. lia.
Qed.

(* the reference itself passes: the contract is satisfiable for every matrix *)
Theorem hung_inf_contract_satisfiable C : exists ps, hung_inf_contractb C ps = true.
Proof.
  destruct (hungarian_opt_inf_attained C) as [ps [Ha [Hl Hc]]]. exists ps.
  unfold hung_inf_contractb. rewrite !andb_true_iff, Nat.eqb_eq. split; [split|].
  - apply assignmentb_ok; exact Ha.
  - exact Hl.
  - apply Qeq_bool_iff; exact Hc.
Qed.

(* finite costs, n <= m: any answer passing the checker assigns every row exactly once, every column at most
   once, leaves m - n columns unmatched, and no full one-to-one assignment is cheaper *)
Theorem hung_contract_clauses C ps :
  hung_contractb C ps = true ->
  NoDup (map fst ps) /\ NoDup (map snd ps) /\
  Permutation (map fst ps) (seq 0 (length C)) /\
  (length C + length (unmatched (length (hd [] C)) (map snd ps)) = length (hd [] C))%nat /\
  forall ps', full_assignment C ps' -> (full_cost C ps <= full_cost C ps')%Q.
Proof.
  unfold hung_contractb. rewrite andb_true_iff. intros [Ha Hc]. apply full_assignmentb_ok in Ha.
  destruct (hungarian_opt C) as [v|] eqn:Ev; [|discriminate]. apply Qeq_bool_iff in Hc.
  destruct Ha as [Hr [Hcs [Hl Hp]]].
  split; [exact Hr|]. split; [exact Hcs|]. split; [|split].
  - apply NoDup_Permutation_bis; [exact Hr|rewrite seq_length, map_length; lia|].
    intros i Hi. apply in_map_iff in Hi. destruct Hi as [p [E Hi]]. subst. apply in_seq. apply Hp in Hi. lia.
  - rewrite <- Hl, <- (map_length snd ps). apply unmatched_count; [exact Hcs|].
    intros i Hi. apply in_map_iff in Hi. destruct Hi as [p [E Hi]]. subst. apply Hp; exact Hi.
  - intros ps' Ha'. destruct (hungarian_opt_optimal C ps' Ha') as [v' [Ev' Hle]].
    rewrite Ev in Ev'. inversion Ev'; subst v'. rewrite Hc. exact Hle.
Qed.

Theorem hung_contract_satisfiable C :
  (length C <= length (hd [] C))%nat -> exists ps, hung_contractb C ps = true.
Proof.
  intros H. destruct (hungarian_opt C) as [v|] eqn:Ev; [|exfalso; revert Ev; apply hungarian_opt_defined; exact H].
  destruct (hungarian_opt_attained C v Ev) as [ps [Ha Hc]]. exists ps.
  unfold hung_contractb. rewrite andb_true_iff, Ev. split; [apply full_assignmentb_ok; exact Ha|apply Qeq_bool_iff; exact Hc].
Qed.

(* match_instances: any answer (pairs, missed) passing the checker uses every gt and every predicted instance
   at most once, matched ++ missed is a permutation of all gt instances (each gt exactly once), counts are
   conserved on both sides, and every reported pair is an entry of the OKS matrix strictly above the threshold *)
Theorem match_contract_clauses n_gt n_pr M thr ms missed :
  match_contractb n_gt n_pr M thr ms missed = true ->
  NoDup (map gt_of ms) /\ NoDup (map pr_of ms) /\ NoDup missed /\
  (forall g, In g (map gt_of ms) -> ~ In g missed) /\
  Permutation (map gt_of ms ++ missed) (seq 0 n_gt) /\
  (forall g, (g < n_gt)%nat -> count_occ Nat.eq_dec (map gt_of ms ++ missed) g = 1%nat) /\
  (forall p, (count_occ Nat.eq_dec (map pr_of ms) p <= 1)%nat) /\
  (length ms + length missed = n_gt)%nat /\
  (length ms + length (unmatched n_pr (map pr_of ms)) = n_pr)%nat /\
  (length ms <= n_gt)%nat /\ (length ms <= n_pr)%nat /\
  Forall (fun m => (gt_of m < n_gt)%nat /\ (pr_of m < n_pr)%nat /\
                   (exists o, mget M (gt_of m) (pr_of m) = Some o /\ (o == oks_of m)%Q /\ eligible thr o)) ms.
Proof.
  unfold match_contractb. rewrite !andb_true_iff, !nodupb_ok, Nat.eqb_eq, !forallb_forall.
  intros [[[[Hpr Hall] Hrng] Hlen] Hent].
  assert (Hperm : Permutation (map gt_of ms ++ missed) (seq 0 n_gt)).
  { apply NoDup_Permutation_bis; [exact Hall|rewrite seq_length; lia|].
    intros g Hg. apply Hrng in Hg. apply Nat.ltb_lt in Hg. apply in_seq. lia. }
  assert (Hprl : forall i, In i (map pr_of ms) -> (i < n_pr)%nat).
  { intros i Hi. apply in_map_iff in Hi. destruct Hi as [m [E Hi]]. subst. apply Hent in Hi.
    apply andb_true_iff in Hi. destruct Hi as [Hi _]. apply Nat.ltb_lt in Hi. exact Hi. }
  assert (Hcnt : (length ms + length (unmatched n_pr (map pr_of ms)) = n_pr)%nat).
  { rewrite <- (map_length pr_of ms). apply unmatched_count; assumption. }
  rewrite app_length, map_length in Hlen.
  split; [eapply NoDup_app_l; exact Hall|]. split; [exact Hpr|].
  split; [eapply nodup_app_r; exact Hall|].
  split; [intros g H1 H2; eapply nodup_app_disj; eassumption|].
  split; [exact Hperm|].
  split.
  { intros g Hg. apply NoDup_count_occ'; [exact Hall|].
    eapply Permutation_in; [symmetry; exact Hperm|apply in_seq; lia]. }
  split; [intros p; apply NoDup_count_occ; exact Hpr|].
  split; [exact Hlen|]. split; [exact Hcnt|]. split; [lia|]. split; [lia|].
  apply Forall_forall. intros m Hm. pose proof (Hent m Hm) as H.
  apply andb_true_iff in H. destruct H as [H1 H2]. apply Nat.ltb_lt in H1.
  split.
  { assert (Hg : In (gt_of m) (map gt_of ms ++ missed)) by (apply in_or_app; left; apply in_map; exact Hm).
    apply Hrng in Hg. apply Nat.ltb_lt in Hg. exact Hg. }
  split; [exact H1|].
  destruct (mget M (gt_of m) (pr_of m)) as [o|]; [|discriminate].
  apply andb_true_iff in H2. destruct H2 as [H2 H3]. exists o. split; [reflexivity|].
  split; [apply Qeq_bool_iff; exact H2|].
  unfold eligibleb in H3. apply negb_true_iff in H3. intros Hle. apply Qle_bool_iff in Hle. congruence.
Qed.

(* the model of match_instances (both variants) passes the checker: the contract is the one the coded
   algorithm meets, for every frame *)
Lemma match_spec_contract n_gt n_pr M thr ms missed :
  NoDup (map gt_of ms) -> NoDup (map pr_of ms) -> Permutation (map gt_of ms ++ missed) (seq 0 n_gt) ->
  Forall (fun m => (pr_of m < n_pr)%nat /\ mget M (gt_of m) (pr_of m) = Some (oks_of m) /\ eligible thr (oks_of m)) ms ->
  match_contractb n_gt n_pr M thr ms missed = true.
Proof.
  intros Hg Hp Hperm Hent. unfold match_contractb.
  rewrite !andb_true_iff, !nodupb_ok, Nat.eqb_eq, !forallb_forall.
  split; [split; [split; [split|]|]|].
  - exact Hp.
  - eapply Permutation_NoDup; [symmetry; exact Hperm|apply seq_NoDup].
  - intros g Hin. apply (Permutation_in _ Hperm) in Hin. apply in_seq in Hin. apply Nat.ltb_lt. lia.
  - rewrite (Permutation_length Hperm). apply seq_length.
  - intros m Hm. rewrite Forall_forall in Hent. destruct (Hent m Hm) as [H1 [H2 H3]].
    rewrite andb_true_iff. split; [apply Nat.ltb_lt; exact H1|]. rewrite H2.
    rewrite andb_true_iff. split; [apply Qeq_bool_iff; reflexivity|].
    unfold eligibleb. apply negb_true_iff. apply not_true_iff_false. intros Hle. apply Qle_bool_iff in Hle. exact (H3 Hle).
Qed.

Theorem match_instances_meets_contract fixed n_gt scores M thr ms missed :
  match_instances fixed n_gt scores M thr = Some (ms, missed) ->
  match_contractb n_gt (length scores) M thr ms missed = true.
Proof.
  intros H. destruct (match_instances_spec _ _ _ _ _ _ _ H) as [Hg [Hp [Hperm Hent]]].
  apply match_spec_contract; try assumption.
  eapply Forall_impl; [|exact Hent]. cbv beta. intros m Hm. tauto.
Qed.

Theorem match_instances_gen_meets_contract fixed n_gt prs M thr ms missed :
  match_instances_gen fixed n_gt prs M thr = Some (ms, missed) ->
  match_contractb n_gt (length prs) M thr ms missed = true.
Proof.
  intros H. destruct (match_instances_gen_spec _ _ _ _ _ _ _ H) as [Hg [Hp [Hperm Hent]]].
  apply match_spec_contract; try assumption.
  eapply Forall_impl; [|exact Hent]. cbv beta. intros m Hm. tauto.
Qed.

(* ---------------- n > m: transposition ---------------- *)
Lemma full_cost_swap C C' ps : is_transpose C C' -> full_cost C ps = full_cost C' (swap_pairs ps).
Proof.
  intros HT. rewrite !full_cost_unfold. induction ps as [|p ps IH]; cbn [swap_pairs map fold_right]; [reflexivity|].
  fold (swap_pairs ps). rewrite IH. unfold fentry. cbn [fst snd]. rewrite HT. reflexivity.
Qed.

Lemma swap_fst ps : map fst (swap_pairs ps) = map snd ps.
Proof. unfold swap_pairs. rewrite map_map. reflexivity. Qed.
Lemma swap_snd ps : map snd (swap_pairs ps) = map fst ps.
Proof. unfold swap_pairs. rewrite map_map. reflexivity. Qed.

(* a column-full assignment of C (every column of C used once; rows distinct) *)
Definition col_full_assignment (C C' : list (list Q)) (ps : list (nat * nat)) : Prop :=
  NoDup (map fst ps) /\ NoDup (map snd ps) /\ length ps = length C' /\
  forall p, In p ps -> (snd p < length C')%nat /\ (fst p < length (hd [] C'))%nat.

Lemma col_full_swap C C' ps : col_full_assignment C C' ps -> full_assignment C' (swap_pairs ps).
Proof.
  intros [Hr [Hc [Hl Hp]]]. unfold full_assignment. rewrite swap_fst, swap_snd.
  split; [exact Hc|]. split; [exact Hr|]. split; [unfold swap_pairs; rewrite map_length; exact Hl|].
  intros q Hq. unfold swap_pairs in Hq. apply in_map_iff in Hq. destruct Hq as [p [E Hin]]. subst q.
  cbn [fst snd]. apply Hp. exact Hin.
Qed.

Lemma hung_contract_transposed C C' ps :
  is_transpose C C' -> hung_contractb C' (swap_pairs ps) = true ->
  NoDup (map fst ps) /\ NoDup (map snd ps) /\
  Permutation (map snd ps) (seq 0 (length C')) /\
  forall ps0, col_full_assignment C C' ps0 -> (full_cost C ps <= full_cost C ps0)%Q.
Proof.
  intros HT H. destruct (hung_contract_clauses C' (swap_pairs ps) H) as [Hr [Hc [Hperm [_ Hopt]]]].
  rewrite swap_fst in Hr, Hperm. rewrite swap_snd in Hc.
  split; [exact Hc|]. split; [exact Hr|]. split; [exact Hperm|].
  intros ps0 H0. rewrite (full_cost_swap C C' ps HT), (full_cost_swap C C' ps0 HT).
  apply Hopt. eapply col_full_swap. exact H0.
Qed.

Lemma nth_nil_Q k : nth k (@nil Q) 0%Q = 0%Q.
Proof. destruct k; reflexivity. Qed.

Lemma nth_map_rows (C : list (list Q)) c r :
  nth r (map (fun row => nth c row 0%Q) C) 0%Q = nth c (nth r C []) 0%Q.
Proof.
  rewrite <- (nth_nil_Q c) at 1. exact (map_nth (fun row => nth c row 0%Q) C [] r).
Qed.

Lemma transpose_is_transpose C :
  Forall (fun row => length row = length (hd [] C)) C -> is_transpose C (transpose C).
Proof.
  intros Hrect r c. unfold transpose. set (m := length (hd [] C)) in *.
  destruct (lt_dec c m) as [Hc|Hc].
  - rewrite (@nth_indep _ (map _ (seq 0 m)) c [] (map (fun row => nth 0 row 0%Q) C)) by (rewrite map_length, seq_length; exact Hc).
    change (map (fun row => nth 0 row 0%Q) C) with ((fun c0 => map (fun row => nth c0 row 0%Q) C) 0%nat).
    rewrite map_nth. rewrite seq_nth by exact Hc. cbn [plus]. rewrite nth_map_rows. reflexivity.
  - rewrite (nth_overflow (map _ (seq 0 m))) by (rewrite map_length, seq_length; lia).
    rewrite nth_nil_Q. destruct (lt_dec r (length C)) as [Hr|Hr].
    + apply nth_overflow. rewrite Forall_forall in Hrect. rewrite (Hrect (nth r C [])) by (apply nth_In; exact Hr). lia.
    + rewrite (nth_overflow C) by lia. apply nth_nil_Q.
Qed.

Lemma transpose_dims C :
  length (transpose C) = length (hd [] C) /\
  ((0 < length (hd [] C))%nat -> length (hd [] (transpose C)) = length C).
Proof.
  unfold transpose. rewrite map_length, seq_length. split; [reflexivity|].
  intros H. destruct (length (hd [] C)) as [|m]; [lia|]. cbn [seq map hd]. apply map_length.
Qed.

(* finite costs, n > m (more rows than columns): any answer passing the checker on the ORIGINAL matrix uses every column
   exactly once, each row at most once, and no assignment that uses every column once is cheaper *)
Theorem hung_contract_t_clauses C ps :
  hung_contract_tb C ps = true ->
  NoDup (map fst ps) /\ NoDup (map snd ps) /\
  Permutation (map snd ps) (seq 0 (length (hd [] C))) /\
  forall ps0, col_full_assignment C (transpose C) ps0 -> (full_cost C ps <= full_cost C ps0)%Q.
Proof.
  unfold hung_contract_tb. rewrite andb_true_iff, forallb_forall. intros [Hrect H].
  assert (HT : is_transpose C (transpose C)).
  { apply transpose_is_transpose. apply Forall_forall. intros row Hin. apply Nat.eqb_eq. apply Hrect. exact Hin. }
  destruct (hung_contract_transposed C (transpose C) ps HT H) as [H1 [H2 [H3 H4]]].
  rewrite (proj1 (transpose_dims C)) in H3. auto.
Qed.

From SV Require Import Base.Render.
Definition racase (b : bool) : rdr := rbool b.
