(* OksMore.v (C15) — OKS clauses at full strength on the existing model (`oks_pair`, `oks_val`; Oks.v / Lemmas.v):
   (1) "never increases when predicted keypoints move farther": ANY number of keypoints at once, a missing
       (NaN) prediction counting as infinitely far;
   (2) "equals 1 for identical poses" sharpened to an equivalence: OKS = 1 exactly when every visible gt keypoint
       has a present prediction at distance 0;
   (3) "missing in the prediction = complete miss = infinitely far": the term of a keypoint tends to 0 as its
       distance grows (for every eps > 0 there is a distance beyond which it is below eps), and 0 is what a missing
       prediction contributes.
   Domain as everywhere: scale >= 0, stddev > 0, >= 1 visible gt keypoint.  Over Coq's reals (standard axioms). *)
From Coq Require Import List Arith ZArith QArith Qreals Reals Lra Lia Psatz Bool.
Import ListNotations.
From SV Require Import C15.Oks C15.Lemmas.
Local Open Scope R_scope.

(* ---- (1) several keypoints farther at once ---- *)
Definition farther (gk pk pk' : pt) : Prop :=
  missing pk' = true \/ (missing pk = false /\ missing pk' = false /\ (dist2 gk pk <= dist2 gk pk')%Q).

Lemma ks_arg_farther coco sc sd g p p' :
  (0 < sd)%Q -> scale_ok sc -> farther g p p' ->
  val (ks_arg coco sc sd g p') <= val (ks_arg coco sc sd g p).
Proof.
  intros Hsd Hsc [Hm|[Hp [Hp' Hd]]].
  - rewrite (ks_arg_missing_pr coco sc sd g p' Hm). apply val_nonneg.
  - apply ks_arg_monotone; assumption.
Qed.

Lemma terms_farther coco sc : scale_ok sc -> forall g p p' sds,
  sds_ok sds -> length p = length p' ->
  Forall (fun t => farther (fst (fst t)) (snd (fst t)) (snd t)) (zip3 g p p') ->
  rsum (map val (terms coco sc sds g p')) <= rsum (map val (terms coco sc sds g p)).
Proof.
  intros Hsc. induction g as [|gk g IH]; intros p p' sds Hsd Hl Hf.
  - rewrite !terms_nil_g. lra.
  - destruct p as [|pk p]; destruct p' as [|pk' p']; try discriminate.
    { rewrite !terms_nil_p. lra. }
    destruct sds as [|sd sds]; [rewrite !terms_nil_s; lra|].
    inversion Hsd as [|? ? Hsd1 Hsd2]; subst. cbn [zip3] in Hf. inversion Hf as [|? ? Hf1 Hf2]; subst.
    cbn [fst snd] in Hf1. rewrite !terms_cons. cbn [map rsum fold_right].
    fold (rsum (map val (terms coco sc sds g p'))). fold (rsum (map val (terms coco sc sds g p))).
    pose proof (ks_arg_farther coco sc sd gk pk pk' Hsd1 Hsc Hf1).
    assert (Hl' : length p = length p') by (cbn [length] in Hl; lia).
    specialize (IH p p' sds Hsd2 Hl' Hf2). lra.
Qed.

Theorem oks_pair_monotone_all coco sc sds g p p' :
  scale_ok sc -> sds_ok sds -> (1 <= n_visible g)%nat -> length p = length p' ->
  Forall (fun t => farther (fst (fst t)) (snd (fst t)) (snd t)) (zip3 g p p') ->
  oks_val (oks_pair coco sc sds g p') <= oks_val (oks_pair coco sc sds g p).
Proof.
  intros Hsc Hsd _ Hl Hf. unfold oks_val. rewrite !oks_pair_snd. apply div_INR_le.
  exact (terms_farther coco sc Hsc g p p' sds Hsd Hl Hf).
Qed.

(* ---- (2) OKS = 1 iff every visible gt keypoint is hit exactly ---- *)
Definition hit (gk pk : pt) : Prop :=
  missing gk = true \/ (missing pk = false /\ (dist2 gk pk == 0)%Q).

Lemma neg_div_zero (d n : Q) : (0 < n)%Q -> (- (d / n) == 0)%Q -> (d == 0)%Q.
Proof.
  intros Hn H. assert (Hne : ~ (n == 0)%Q) by (intros E; rewrite E in Hn; apply (Qlt_irrefl 0); exact Hn).
  assert (E : (d == - (- (d / n)) * n)%Q) by (field; exact Hne).
  rewrite E, H. ring.
Qed.

Lemma ks_arg_one_iff coco s sd g p :
  (0 < sd)%Q -> (0 <= s)%Q -> missing g = false ->
  (val (ks_arg coco (Some s) sd g p) = 1 <-> missing p = false /\ (dist2 g p == 0)%Q).
Proof.
  intros Hsd Hs Hg. pose proof (norm_factor_pos coco sd s Hsd Hs) as Hn.
  unfold ks_arg. rewrite Hg. destruct (missing p) eqn:Hp.
  - cbn [val]. split; [lra|intros [H _]; discriminate].
  - cbn [val]. split.
    + intros H. split; [reflexivity|]. rewrite <- exp_0 in H. apply exp_inv in H.
      rewrite <- Q2R_0' in H. apply eqR_Qeq in H. eapply neg_div_zero; eassumption.
    + intros [_ H]. rewrite <- exp_0, <- Q2R_0'. f_equal. apply Qeq_eqR.
      rewrite H. unfold Qdiv. ring.
Qed.

Lemma terms_sum_full_iff coco s : (0 <= s)%Q -> forall g p sds,
  sds_ok sds -> length g = length p -> (length g <= length sds)%nat ->
  (rsum (map val (terms coco (Some s) sds g p)) = INR (n_visible g) <->
   Forall (fun t => hit (fst t) (snd t)) (combine g p)).
Proof.
  intros Hs. induction g as [|gk g IH]; intros p sds Hsd Hl Hls.
  - rewrite terms_nil_g. cbn. split; [constructor|reflexivity].
  - destruct p as [|pk p]; [discriminate|]. destruct sds as [|sd sds]; [cbn [length] in Hls; lia|].
    inversion Hsd as [|? ? Hsd1 Hsd2]; subst. cbn [length] in Hl, Hls.
    assert (Hl' : length g = length p) by lia. assert (Hls' : (length g <= length sds)%nat) by lia.
    specialize (IH p sds Hsd2 Hl' Hls').
    rewrite terms_cons, n_visible_cons. cbn [map rsum fold_right combine].
    fold (rsum (map val (terms coco (Some s) sds g p))).
    pose proof (terms_sum_bounds coco (Some s) Hs g p sds Hsd2) as [_ Hub].
    pose proof (ks_arg_val_range coco (Some s) sd gk pk Hsd1 Hs) as [Hv0 Hv1].
    destruct (missing gk) eqn:Hg.
    + (* ignored node *)
      rewrite (ks_arg_missing_gt coco (Some s) sd gk pk Hg). cbn [val]. rewrite Rplus_0_l.
      rewrite IH. split.
      * intros H. constructor; [left; exact Hg|exact H].
      * intros H. inversion H; assumption.
    + rewrite S_INR.
      pose proof (ks_arg_one_iff coco s sd gk pk Hsd1 Hs Hg) as H1.
      split.
      * intros H. assert (Hk : val (ks_arg coco (Some s) sd gk pk) = 1) by lra.
        assert (Hr : rsum (map val (terms coco (Some s) sds g p)) = INR (n_visible g)) by lra.
        constructor; [right; apply H1; exact Hk|apply IH; exact Hr].
      * intros H. inversion H as [|? ? Hh Ht]; subst. cbn [fst snd] in Hh.
        destruct Hh as [Hh|Hh]; [congruence|]. apply H1 in Hh. apply IH in Ht. lra.
Qed.

Theorem oks_pair_one_iff coco s sds g p :
  (0 <= s)%Q -> sds_ok sds -> (1 <= n_visible g)%nat -> length g = length p -> (length g <= length sds)%nat ->
  (oks_val (oks_pair coco (Some s) sds g p) = 1 <-> Forall (fun t => hit (fst t) (snd t)) (combine g p)).
Proof.
  intros Hs Hsd Hv Hl Hls. rewrite <- (terms_sum_full_iff coco s Hs g p sds Hsd Hl Hls).
  unfold oks_val. rewrite oks_pair_snd. fold (terms coco (Some s) sds g p).
  assert (Hpos : 0 < INR (n_visible g)) by (apply lt_0_INR; lia).
  split; intros H.
  - apply (Rmult_eq_compat_r (INR (n_visible g))) in H. unfold Rdiv in H.
    rewrite Rmult_assoc, Rinv_l, Rmult_1_r, Rmult_1_l in H by lra. exact H.
  - rewrite H. unfold Rdiv. apply Rinv_r. lra.
Qed.

(* ---- (3) a missing prediction contributes what an infinitely far one does ---- *)
(* the term of a present prediction at squared distance d is exp (- d / nf); it is below any eps > 0 once d is
   large enough, and 0 — the term of a missing prediction — is its infimum *)
Theorem ks_term_vanishes_with_distance coco s sd :
  (0 < sd)%Q -> (0 <= s)%Q -> forall eps : R, 0 < eps ->
  exists D : Q, forall g p, missing g = false -> missing p = false -> (D <= dist2 g p)%Q ->
    val (ks_arg coco (Some s) sd g p) < eps.
Proof.
  intros Hsd Hs eps He. pose proof (norm_factor_pos coco sd s Hsd Hs) as Hn.
  set (nf := norm_factor coco sd s) in *.
  (* choose an integer N with exp (-N) < eps, D = N * nf *)
  destruct (archimed (/ eps)) as [Hup _]. set (z := up (/ eps)) in *.
  assert (Hz : (0 < z)%Z).
  { apply lt_IZR. pose proof (Rinv_0_lt_compat _ He). lra. }
  exists (inject_Z z * nf)%Q. intros g p Hg Hp Hd.
  unfold ks_arg. rewrite Hg, Hp. cbn [val]. fold nf.
  assert (Hle : (- (dist2 g p / nf) <= - inject_Z z)%Q).
  { apply Qopp_le_compat. apply Qle_shift_div_l; [exact Hn|exact Hd]. }
  apply Qle_Rle in Hle. rewrite (Q2R_opp (inject_Z z)) in Hle.
  assert (HzR : Q2R (inject_Z z) = IZR z) by (unfold Q2R, inject_Z; cbn; field).
  rewrite HzR in Hle.
  eapply Rle_lt_trans; [apply exp_le; exact Hle|].
  rewrite exp_Ropp.
  assert (Hx : IZR z < exp (IZR z)).
  { pose proof (exp_ineq1 (IZR z)). assert (0 < IZR z) by (apply IZR_lt; exact Hz). lra. }
  assert (Hiz : 0 < IZR z) by (apply IZR_lt; exact Hz).
  assert (Hinv : / exp (IZR z) < / IZR z) by (apply Rinv_lt_contravar; [apply Rmult_lt_0_compat; lra|exact Hx]).
  assert (Hinv2 : / IZR z < eps).
  { rewrite <- (Rinv_inv eps). apply Rinv_lt_contravar; [|exact Hup].
    apply Rmult_lt_0_compat; [apply Rinv_0_lt_compat; exact He|exact Hiz]. }
  lra.
Qed.

(* ---- (4) reordering the keypoints (nodes) of both poses, the stddev vector with them ---- *)
Lemma rsum_perm l l' : Permutation.Permutation l l' -> rsum l = rsum l'.
Proof. induction 1; cbn [rsum fold_right] in *; try fold (rsum l) in *; try fold (rsum l') in *; lra. Qed.

Lemma filter_length_perm {A} (f : A -> bool) l l' :
  Permutation.Permutation l l' -> length (filter f l) = length (filter f l').
Proof.
  induction 1; cbn [filter]; try reflexivity.
  - destruct (f x); cbn [length]; congruence.
  - destruct (f x), (f y); reflexivity.
  - congruence.
Qed.

Lemma n_visible_zip3 : forall (g p : pose) (sds : list Q),
  length g = length p -> length g = length sds ->
  n_visible g = length (filter (fun t : pt * pt * Q => negb (missing (fst (fst t)))) (zip3 g p sds)).
Proof.
  unfold n_visible. induction g as [|gk g IH]; intros p sds Hp Hs; [reflexivity|].
  destruct p as [|pk p]; [discriminate|]. destruct sds as [|sd sds]; [discriminate|].
  cbn [zip3 filter fst]. cbn [length] in Hp, Hs.
  destruct (negb (missing gk)); cbn [length]; rewrite (IH p sds) by lia; reflexivity.
Qed.

Theorem oks_pair_keypoint_perm coco sc sds sds' g g' p p' :
  length g = length p -> length g = length sds -> length g' = length p' -> length g' = length sds' ->
  Permutation.Permutation (zip3 g p sds) (zip3 g' p' sds') ->
  oks_val (oks_pair coco sc sds g p) = oks_val (oks_pair coco sc sds' g' p').
Proof.
  intros H1 H2 H3 H4 HP. unfold oks_val, oks_pair. cbn [fst snd].
  rewrite (n_visible_zip3 g p sds H1 H2), (n_visible_zip3 g' p' sds' H3 H4).
  rewrite (filter_length_perm _ _ _ HP). f_equal.
  apply rsum_perm. apply Permutation.Permutation_map. apply Permutation.Permutation_map. exact HP.
Qed.

(* the automatic scale (bounding-box area of the gt pose) does not depend on the order of the keypoints *)
Lemma nanmin_perm l l' : Permutation.Permutation l l' -> ceq (nanmin l) (nanmin l').
Proof.
  intros HP. destruct (nanmin l) as [m|] eqn:E, (nanmin l') as [m'|] eqn:E'; cbn [ceq]; auto.
  - destruct (nanmin_spec l m E) as [Hin Hle]. destruct (nanmin_spec l' m' E') as [Hin' Hle'].
    apply Qle_antisym.
    + apply Hle. eapply Permutation.Permutation_in; [symmetry; exact HP|exact Hin'].
    + apply Hle'. eapply Permutation.Permutation_in; [exact HP|exact Hin].
  - destruct (nanmin_spec l m E) as [Hin _].
    destruct (nanmin_some l' m (Permutation.Permutation_in _ HP Hin)) as [x Hx]. congruence.
  - destruct (nanmin_spec l' m' E') as [Hin _].
    destruct (nanmin_some l m' (Permutation.Permutation_in _ (Permutation.Permutation_sym HP) Hin)) as [x Hx]. congruence.
Qed.

Lemma nanmax_perm l l' : Permutation.Permutation l l' -> ceq (nanmax l) (nanmax l').
Proof.
  intros HP. destruct (nanmax l) as [m|] eqn:E, (nanmax l') as [m'|] eqn:E'; cbn [ceq]; auto.
  - destruct (nanmax_spec l m E) as [Hin Hle]. destruct (nanmax_spec l' m' E') as [Hin' Hle'].
    apply Qle_antisym.
    + apply Hle'. eapply Permutation.Permutation_in; [exact HP|exact Hin].
    + apply Hle. eapply Permutation.Permutation_in; [symmetry; exact HP|exact Hin'].
  - destruct (nanmax_spec l m E) as [Hin _].
    destruct (nanmax_some l' m (Permutation.Permutation_in _ HP Hin)) as [x Hx]. congruence.
  - destruct (nanmax_spec l' m' E') as [Hin _].
    destruct (nanmax_some l m' (Permutation.Permutation_in _ (Permutation.Permutation_sym HP) Hin)) as [x Hx]. congruence.
Qed.

Lemma extent_perm g g' k : Permutation.Permutation g g' -> ceq (extent g k) (extent g' k).
Proof.
  intros HP. unfold extent.
  assert (HC : Permutation.Permutation (column k g) (column k g')) by (apply Permutation.Permutation_map; exact HP).
  pose proof (nanmax_perm _ _ HC) as H1. pose proof (nanmin_perm _ _ HC) as H2.
  destruct (nanmax (column k g)), (nanmax (column k g')), (nanmin (column k g)), (nanmin (column k g'));
    cbn [ceq] in *; try tauto. rewrite H1, H2. reflexivity.
Qed.

Theorem area_keypoint_perm n_ed g g' : Permutation.Permutation g g' -> ceq (area n_ed g) (area n_ed g').
Proof.
  intros HP. unfold area. induction (seq 0 n_ed) as [|k ks IH]; cbn [map fold_right].
  - cbn [ceq]. reflexivity.
  - apply oprod_ceq; [apply extent_perm; exact HP|exact IH].
Qed.

Lemma ks_arg_ceq coco sc sc' sd g p :
  ceq sc' sc -> val (ks_arg coco sc' sd g p) = val (ks_arg coco sc sd g p).
Proof.
  intros Hc. unfold ks_arg. destruct (missing g); [reflexivity|]. destruct (missing p); [reflexivity|].
  destruct sc as [s|], sc' as [s'|]; cbn [ceq] in Hc; try tauto; try reflexivity.
  apply val_qeq. rewrite (norm_factor_qeq coco sd s' s Hc). reflexivity.
Qed.

Lemma oks_pair_ceq coco sc sc' sds g p :
  ceq sc' sc -> oks_val (oks_pair coco sc' sds g p) = oks_val (oks_pair coco sc sds g p).
Proof.
  intros Hc. unfold oks_val, oks_pair. cbn [fst snd]. f_equal. f_equal. rewrite !map_map.
  apply map_ext. intros [[gk pk] sd]. apply ks_arg_ceq. exact Hc.
Qed.

Lemma zip3_fst_perm : forall (g g' p p' : pose) (sds sds' : list Q),
  length g = length p -> length g = length sds -> length g' = length p' -> length g' = length sds' ->
  Permutation.Permutation (zip3 g p sds) (zip3 g' p' sds') -> Permutation.Permutation g g'.
Proof.
  assert (Hfst : forall (g p : pose) (sds : list Q), length g = length p -> length g = length sds ->
                 map (fun t : pt * pt * Q => fst (fst t)) (zip3 g p sds) = g).
  { induction g as [|gk g IH]; intros p sds Hp Hs; [reflexivity|].
    destruct p; [discriminate|]. destruct sds; [discriminate|]. cbn [zip3 map fst]. cbn [length] in *.
    rewrite IH by lia. reflexivity. }
  intros g g' p p' sds sds' H1 H2 H3 H4 HP.
  rewrite <- (Hfst g p sds H1 H2), <- (Hfst g' p' sds' H3 H4). apply Permutation.Permutation_map. exact HP.
Qed.

(* automatic scale: the whole entry, scale included, is invariant *)
Theorem oks_pair_keypoint_perm_auto coco n_ed sds sds' g g' p p' :
  length g = length p -> length g = length sds -> length g' = length p' -> length g' = length sds' ->
  Permutation.Permutation (zip3 g p sds) (zip3 g' p' sds') ->
  oks_val (oks_pair coco (area n_ed g) sds g p) = oks_val (oks_pair coco (area n_ed g') sds' g' p').
Proof.
  intros H1 H2 H3 H4 HP.
  rewrite (oks_pair_keypoint_perm coco (area n_ed g) sds sds' g g' p p' H1 H2 H3 H4 HP).
  symmetry. apply oks_pair_ceq. apply area_keypoint_perm. apply Permutation.Permutation_sym.
  eapply zip3_fst_perm; eassumption.
Qed.
