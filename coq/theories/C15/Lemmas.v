(* Lemmas.v (C15) — proofs about Oks.v.  OKS statements are over Coq's real
   numbers (the model holds the exact rational argument of exp); matching,
   greedy assignment and IoU statements are over Q / nat and closed. *)
From Coq Require Import List Arith ZArith QArith Qreals Reals Lra Lia Psatz Bool Permutation.
Import ListNotations.
From SV Require Import C15.Oks.

Local Open Scope R_scope.

(* ------------------------------------------------------------------ *)
(* real value of a keypoint term and of an OKS entry *)
Definition val (a : option Q) : R := match a with None => 0 | Some q => exp (Q2R q) end.
Definition rsum (l : list R) : R := fold_right Rplus 0 l.
Definition oks_val (t : okv) : R := rsum (map val (fst t)) / INR (snd t).

Definition scale_ok (sc : coord) : Prop := match sc with None => True | Some s => (0 <= s)%Q end.
Definition sds_ok (sds : list Q) : Prop := Forall (fun sd => (0 < sd)%Q) sds.

Lemma rsum_app a b : rsum (a ++ b) = rsum a + rsum b.
Proof. induction a; simpl; lra. Qed.

Lemma val_nonneg a : 0 <= val a.
Proof. destruct a; simpl; [left; apply exp_pos | lra]. Qed.

Lemma rsum_val_nonneg l : 0 <= rsum (map val l).
Proof. induction l; simpl; [lra|]. pose proof (val_nonneg a). lra. Qed.

Lemma exp_le a b : a <= b -> exp a <= exp b.
Proof. intros [Hlt|Heq]; [left; apply exp_increasing; exact Hlt | rewrite Heq; right; reflexivity]. Qed.

Lemma Q2R_0' : Q2R 0 = 0.  Proof. unfold Q2R; simpl; lra. Qed.

Lemma val_some_le_1 q : (q <= 0)%Q -> val (Some q) <= 1.
Proof.
  intros H. simpl. rewrite <- exp_0. apply exp_le. apply Qle_Rle in H. rewrite Q2R_0' in H. exact H.
Qed.

Lemma val_qeq q q' : (q == q')%Q -> val (Some q) = val (Some q').
Proof. intros H. simpl. rewrite (Qeq_eqR _ _ H). reflexivity. Qed.

(* ------------------------------------------------------------------ *)
(* rational facts *)
Lemma sq_nonneg (a : Q) : (0 <= sq a)%Q.
Proof. unfold sq. nra. Qed.

Lemma dist2_nonneg g p : (0 <= dist2 g p)%Q.
Proof.
  revert p. induction g as [|[a|] g IH]; intros [|[b|] p]; cbn [dist2]; try apply Qle_refl.
  specialize (IH p). pose proof (sq_nonneg (a - b)) as H.
  set (x := sq (a - b)) in *. set (y := dist2 g p) in *. clearbody x y. lra.
Qed.

Lemma eps_pos : (0 < eps)%Q.
Proof. reflexivity. Qed.

Lemma norm_factor_pos coco sd s : (0 < sd)%Q -> (0 <= s)%Q -> (0 < norm_factor coco sd s)%Q.
Proof.
  intros Hsd Hs. pose proof eps_pos as He. unfold norm_factor, sq.
  set (e := eps) in *. clearbody e.
  assert (H1 : (0 < sd * sd)%Q) by nra.
  assert (H2 : (0 < s + e)%Q) by lra.
  assert (H3 : (0 < (s + e) * (s + e))%Q) by nra.
  destruct coco.
  - apply Qmult_lt_0_compat; [|lra]. setoid_replace (2 * sd * (2 * sd))%Q with (4 * (sd * sd))%Q by ring. lra.
  - apply Qmult_lt_0_compat; [exact H1|lra].
Qed.

Lemma neg_div_nonpos (d n : Q) : (0 <= d)%Q -> (0 < n)%Q -> (- (d / n) <= 0)%Q.
Proof.
  intros Hd Hn. unfold Qdiv. pose proof (Qinv_lt_0_compat n Hn). nra.
Qed.

Lemma ks_arg_nonpos coco s sd g p q :
  (0 < sd)%Q -> (0 <= s)%Q -> ks_arg coco (Some s) sd g p = Some q -> (q <= 0)%Q.
Proof.
  intros Hsd Hs. unfold ks_arg. destruct (missing g); [discriminate|].
  destruct (missing p); [discriminate|]. intros H; inversion H; subst.
  apply neg_div_nonpos; [apply dist2_nonneg | apply norm_factor_pos; assumption].
Qed.

Lemma ks_arg_none_scale coco sd g p : ks_arg coco None sd g p = None.
Proof. unfold ks_arg. destruct (missing g), (missing p); reflexivity. Qed.

Lemma ks_arg_missing_gt coco sc sd g p : missing g = true -> ks_arg coco sc sd g p = None.
Proof. intros H. unfold ks_arg. rewrite H. reflexivity. Qed.

Lemma ks_arg_missing_pr coco sc sd g p : missing p = true -> ks_arg coco sc sd g p = None.
Proof. intros H. unfold ks_arg. rewrite H. destruct (missing g); reflexivity. Qed.

Lemma ks_arg_val_range coco sc sd g p :
  (0 < sd)%Q -> scale_ok sc -> 0 <= val (ks_arg coco sc sd g p) <= (if missing g then 0 else 1).
Proof.
  intros Hsd Hsc. split; [apply val_nonneg|].
  destruct (missing g) eqn:Hg.
  - rewrite ks_arg_missing_gt by exact Hg. simpl. lra.
  - destruct sc as [s|]; [|rewrite ks_arg_none_scale; simpl; lra].
    destruct (ks_arg coco (Some s) sd g p) as [q|] eqn:E; [|simpl; lra].
    apply val_some_le_1. eapply ks_arg_nonpos; eauto.
Qed.

(* ------------------------------------------------------------------ *)
(* structure of oks_pair *)
Definition terms (coco : bool) (sc : coord) (sds : list Q) (g p : pose) : list (option Q) :=
  fst (oks_pair coco sc sds g p).

Lemma terms_cons coco sc sd sds gk g pk p :
  terms coco sc (sd :: sds) (gk :: g) (pk :: p) = ks_arg coco sc sd gk pk :: terms coco sc sds g p.
Proof. reflexivity. Qed.

Lemma terms_nil_g coco sc sds p : terms coco sc sds [] p = [].
Proof. reflexivity. Qed.
Lemma terms_nil_p coco sc sds g : terms coco sc sds g [] = [].
Proof. destruct g; reflexivity. Qed.
Lemma terms_nil_s coco sc g p : terms coco sc [] g p = [].
Proof. destruct g; [reflexivity|]. destruct p; reflexivity. Qed.

Lemma n_visible_cons gk g :
  n_visible (gk :: g) = (if missing gk then n_visible g else S (n_visible g)).
Proof. unfold n_visible. simpl. destruct (missing gk); reflexivity. Qed.

Lemma n_visible_app a b : n_visible (a ++ b) = (n_visible a + n_visible b)%nat.
Proof. unfold n_visible. rewrite filter_app, app_length. reflexivity. Qed.

Lemma oks_pair_snd coco sc sds g p : snd (oks_pair coco sc sds g p) = n_visible g.
Proof. reflexivity. Qed.

Lemma terms_split coco sc g1 gk g2 p1 pk p2 s1 sd s2 :
  length g1 = length p1 -> length g1 = length s1 ->
  terms coco sc (s1 ++ sd :: s2) (g1 ++ gk :: g2) (p1 ++ pk :: p2) =
  terms coco sc s1 g1 p1 ++ ks_arg coco sc sd gk pk :: terms coco sc s2 g2 p2.
Proof.
  revert p1 s1. induction g1 as [|a g1 IH]; intros [|b p1] [|c s1] Hp Hs; try discriminate.
  - reflexivity.
  - simpl app. rewrite !terms_cons. rewrite IH by (simpl in *; lia). reflexivity.
Qed.

(* (a) range *)
Lemma terms_sum_bounds coco sc :
  scale_ok sc -> forall g p sds, sds_ok sds ->
  0 <= rsum (map val (terms coco sc sds g p)) <= INR (n_visible g).
Proof.
  intros Hsc. induction g as [|gk g IH]; intros p sds Hsd.
  - rewrite terms_nil_g. simpl. lra.
  - destruct p as [|pk p]; [rewrite terms_nil_p; simpl; split; [lra|apply pos_INR]|].
    destruct sds as [|sd sds]; [rewrite terms_nil_s; simpl; split; [lra|apply pos_INR]|].
    inversion Hsd as [|? ? Hsd1 Hsd2]; subst.
    rewrite terms_cons, n_visible_cons. simpl.
    specialize (IH p sds Hsd2).
    pose proof (ks_arg_val_range coco sc sd gk pk Hsd1 Hsc) as Hv.
    destruct (missing gk); [|rewrite S_INR]; lra.
Qed.

Lemma div_range x n : (1 <= n)%nat -> 0 <= x <= INR n -> 0 <= x / INR n <= 1.
Proof.
  intros Hn [H0 H1]. assert (Hpos : 0 < INR n) by (apply lt_0_INR; lia).
  pose proof (Rinv_0_lt_compat _ Hpos) as Hi. unfold Rdiv. split.
  - apply Rmult_le_pos; lra.
  - rewrite <- (Rinv_r (INR n)) by lra. apply Rmult_le_compat_r; lra.
Qed.

Lemma oks_pair_range coco sc sds g p :
  scale_ok sc -> sds_ok sds -> (1 <= n_visible g)%nat ->
  0 <= oks_val (oks_pair coco sc sds g p) <= 1.
Proof.
  intros Hsc Hsd Hv. unfold oks_val. rewrite oks_pair_snd.
  apply div_range; [exact Hv|]. apply (terms_sum_bounds coco sc Hsc g p sds Hsd).
Qed.

Lemma oks_pair_eq coco sc sds g p :
  oks_pair coco sc sds g p = (terms coco sc sds g p, n_visible g).
Proof. reflexivity. Qed.

Lemma terms_app coco sc g1 g2 p1 p2 s1 s2 :
  length g1 = length p1 -> length g1 = length s1 ->
  terms coco sc (s1 ++ s2) (g1 ++ g2) (p1 ++ p2) =
  terms coco sc s1 g1 p1 ++ terms coco sc s2 g2 p2.
Proof.
  revert p1 s1. induction g1 as [|a g1 IH]; intros [|b p1] [|c s1] Hp Hs; try discriminate.
  - reflexivity.
  - simpl app. rewrite !terms_cons. rewrite IH by (simpl in *; lia). reflexivity.
Qed.

Lemma inv_INR_nonneg n : 0 <= / INR n.
Proof.
  destruct n as [|n]; [simpl; rewrite Rinv_0; lra|].
  left. apply Rinv_0_lt_compat. apply lt_0_INR. lia.
Qed.

Lemma div_INR_le x y n : x <= y -> x / INR n <= y / INR n.
Proof. intros H. unfold Rdiv. apply Rmult_le_compat_r; [apply inv_INR_nonneg | exact H]. Qed.

(* (b) identical poses *)
Lemma dist2_refl g : (dist2 g g == 0)%Q.
Proof.
  induction g as [|[a|] g IH]; cbn [dist2]; try reflexivity.
  rewrite IH. unfold sq. ring.
Qed.

Lemma ks_arg_identical coco s sd g : missing g = false -> val (ks_arg coco (Some s) sd g g) = 1.
Proof.
  intros H. unfold ks_arg. rewrite H.
  rewrite (val_qeq _ 0%Q).
  - simpl. rewrite Q2R_0'. apply exp_0.
  - rewrite dist2_refl. unfold Qdiv. ring.
Qed.

Lemma terms_identical_sum coco s : forall g sds, (length g <= length sds)%nat ->
  rsum (map val (terms coco (Some s) sds g g)) = INR (n_visible g).
Proof.
  induction g as [|gk g IH]; intros sds Hl.
  - reflexivity.
  - destruct sds as [|sd sds]; [simpl in Hl; lia|].
    rewrite terms_cons, n_visible_cons. cbn [map rsum fold_right].
    change (fold_right Rplus 0 (map val (terms coco (Some s) sds g g)))
      with (rsum (map val (terms coco (Some s) sds g g))).
    rewrite IH by (simpl in Hl; lia).
    destruct (missing gk) eqn:Hg.
    + rewrite ks_arg_missing_gt by exact Hg. simpl. lra.
    + rewrite ks_arg_identical by exact Hg. rewrite S_INR. lra.
Qed.

Lemma oks_pair_identical coco s sds g :
  (1 <= n_visible g)%nat -> (length g <= length sds)%nat ->
  oks_val (oks_pair coco (Some s) sds g g) = 1.
Proof.
  intros Hv Hl. unfold oks_val. rewrite oks_pair_eq. cbn [fst snd].
  rewrite terms_identical_sum by exact Hl.
  assert (0 < INR (n_visible g)) by (apply lt_0_INR; lia). field. lra.
Qed.

(* (c) keypoints missing in the ground truth are ignored *)
Lemma oks_pair_ignores_pr_at_missing_gt coco sc g1 gk g2 p1 pk pk' p2 s1 sd s2 :
  length g1 = length p1 -> length g1 = length s1 -> missing gk = true ->
  oks_pair coco sc (s1 ++ sd :: s2) (g1 ++ gk :: g2) (p1 ++ pk :: p2) =
  oks_pair coco sc (s1 ++ sd :: s2) (g1 ++ gk :: g2) (p1 ++ pk' :: p2).
Proof.
  intros Hp Hs Hg. rewrite !oks_pair_eq. f_equal.
  rewrite !terms_split by assumption. rewrite !ks_arg_missing_gt by exact Hg. reflexivity.
Qed.

Lemma oks_pair_drop_missing_gt_node coco sc g1 gk g2 p1 pk p2 s1 sd s2 :
  length g1 = length p1 -> length g1 = length s1 -> missing gk = true ->
  oks_val (oks_pair coco sc (s1 ++ sd :: s2) (g1 ++ gk :: g2) (p1 ++ pk :: p2)) =
  oks_val (oks_pair coco sc (s1 ++ s2) (g1 ++ g2) (p1 ++ p2)).
Proof.
  intros Hp Hs Hg. unfold oks_val. rewrite !oks_pair_eq. cbn [fst snd].
  rewrite terms_split, terms_app by assumption.
  rewrite ks_arg_missing_gt by exact Hg.
  rewrite !n_visible_app, n_visible_cons, Hg.
  rewrite !map_app, !rsum_app. cbn [map rsum fold_right val].
  f_equal. unfold rsum. lra.
Qed.

Lemma nth_all_none k (p : list (option Q)) : Forall (fun c => c = None) p -> nth k p None = None.
Proof.
  intros H. revert k. induction H as [|c p Hc _ IH]; intros [|k]; simpl; auto.
Qed.

Lemma nanmin_app_none a b : nanmin (a ++ None :: b) = nanmin (a ++ b).
Proof. unfold nanmin. rewrite !fold_right_app. reflexivity. Qed.
Lemma nanmax_app_none a b : nanmax (a ++ None :: b) = nanmax (a ++ b).
Proof. unfold nanmax. rewrite !fold_right_app. reflexivity. Qed.

Lemma area_drop_fully_missing n_ed g1 gk g2 :
  Forall (fun c => c = None) gk -> area n_ed (g1 ++ gk :: g2) = area n_ed (g1 ++ g2).
Proof.
  intros H. unfold area. f_equal. apply map_ext. intros k. unfold extent, column.
  rewrite !map_app. cbn [map]. rewrite (nth_all_none k gk H).
  rewrite nanmin_app_none, nanmax_app_none. reflexivity.
Qed.

(* (d) a keypoint missing in the prediction is a complete miss *)
Lemma oks_pair_missing_pr coco sc g1 gk g2 p1 pk p2 s1 sd s2 :
  length g1 = length p1 -> length g1 = length s1 -> missing pk = true ->
  oks_val (oks_pair coco sc (s1 ++ sd :: s2) (g1 ++ gk :: g2) (p1 ++ pk :: p2)) =
  (rsum (map val (terms coco sc s1 g1 p1)) + 0 + rsum (map val (terms coco sc s2 g2 p2)))
  / INR (n_visible (g1 ++ gk :: g2)).
Proof.
  intros Hp Hs Hm. unfold oks_val. rewrite oks_pair_eq. cbn [fst snd].
  rewrite terms_split by assumption. rewrite ks_arg_missing_pr by exact Hm.
  rewrite map_app, rsum_app. cbn [map rsum fold_right val]. f_equal. unfold rsum. lra.
Qed.

Lemma oks_pair_missing_pr_le coco sc g1 gk g2 p1 pk pk' p2 s1 sd s2 :
  length g1 = length p1 -> length g1 = length s1 -> missing pk = true ->
  oks_val (oks_pair coco sc (s1 ++ sd :: s2) (g1 ++ gk :: g2) (p1 ++ pk :: p2)) <=
  oks_val (oks_pair coco sc (s1 ++ sd :: s2) (g1 ++ gk :: g2) (p1 ++ pk' :: p2)).
Proof.
  intros Hp Hs Hm. unfold oks_val. rewrite !oks_pair_eq. cbn [fst snd].
  apply div_INR_le. rewrite !terms_split by assumption.
  rewrite ks_arg_missing_pr by exact Hm.
  rewrite !map_app, !rsum_app. cbn [map rsum fold_right val].
  pose proof (val_nonneg (ks_arg coco sc sd gk pk')). unfold rsum. lra.
Qed.

(* (e) moving one predicted keypoint farther from its target never increases OKS *)
Lemma neg_div_antitone (d d' n : Q) : (d <= d')%Q -> (0 < n)%Q -> (- (d' / n) <= - (d / n))%Q.
Proof. intros Hd Hn. unfold Qdiv. pose proof (Qinv_lt_0_compat n Hn). nra. Qed.

Lemma ks_arg_monotone coco sc sd g p p' :
  (0 < sd)%Q -> scale_ok sc -> missing p = false -> missing p' = false ->
  (dist2 g p <= dist2 g p')%Q ->
  val (ks_arg coco sc sd g p') <= val (ks_arg coco sc sd g p).
Proof.
  intros Hsd Hsc Hp Hp' Hd. unfold ks_arg. rewrite Hp, Hp'.
  destruct (missing g); [simpl; lra|]. destruct sc as [s|]; [|simpl; lra].
  simpl. apply exp_le. apply Qle_Rle. apply neg_div_antitone; [exact Hd|].
  apply norm_factor_pos; assumption.
Qed.

Lemma oks_pair_monotone coco sc g1 gk g2 p1 pk pk' p2 s1 sd s2 :
  length g1 = length p1 -> length g1 = length s1 ->
  (0 < sd)%Q -> scale_ok sc -> missing pk = false -> missing pk' = false ->
  (dist2 gk pk <= dist2 gk pk')%Q ->
  oks_val (oks_pair coco sc (s1 ++ sd :: s2) (g1 ++ gk :: g2) (p1 ++ pk' :: p2)) <=
  oks_val (oks_pair coco sc (s1 ++ sd :: s2) (g1 ++ gk :: g2) (p1 ++ pk :: p2)).
Proof.
  intros Hp Hs Hsd Hsc Hm Hm' Hd. unfold oks_val. rewrite !oks_pair_eq. cbn [fst snd].
  apply div_INR_le. rewrite !terms_split by assumption.
  rewrite !map_app, !rsum_app. cbn [map rsum fold_right].
  pose proof (ks_arg_monotone coco sc sd gk pk pk' Hsd Hsc Hm Hm' Hd). unfold rsum. lra.
Qed.

(* (f) translating both poses *)
Fixpoint shift_from (t : nat -> Q) (k : nat) (p : list (option Q)) : list (option Q) :=
  match p with
  | [] => []
  | c :: p' => option_map (fun x => (x + t k)%Q) c :: shift_from t (S k) p'
  end.
Definition shift (t : nat -> Q) (p : pt) : pt := shift_from t 0 p.
Definition translate (t : nat -> Q) (ps : pose) : pose := map (shift t) ps.

Definition ceq (a b : option Q) : Prop :=
  match a, b with
  | Some x, Some y => (x == y)%Q
  | None, None => True
  | _, _ => False
  end.

Lemma ceq_refl a : ceq a a.
Proof. destruct a; simpl; [reflexivity|exact I]. Qed.

Lemma missing_shift_from t k p : missing (shift_from t k p) = missing p.
Proof.
  revert k. induction p as [|c p IH]; intros k; [reflexivity|].
  unfold missing in *. cbn [shift_from existsb]. rewrite IH. destruct c; reflexivity.
Qed.

Lemma dist2_shift_from t k g p : (dist2 (shift_from t k g) (shift_from t k p) == dist2 g p)%Q.
Proof.
  revert k p. induction g as [|[a|] g IH]; intros k [|[b|] p]; cbn [shift_from option_map dist2];
    try reflexivity.
  rewrite IH. unfold sq. ring.
Qed.

Lemma norm_factor_qeq coco sd s s' : (s == s')%Q -> (norm_factor coco sd s == norm_factor coco sd s')%Q.
Proof. intros H. unfold norm_factor, sq. destruct coco; rewrite H; reflexivity. Qed.

Lemma ks_arg_translate coco sc sc' sd t g p :
  ceq sc' sc ->
  val (ks_arg coco sc' sd (shift t g) (shift t p)) = val (ks_arg coco sc sd g p).
Proof.
  intros Hc. unfold ks_arg, shift. rewrite !missing_shift_from.
  destruct (missing g); [reflexivity|]. destruct (missing p); [reflexivity|].
  destruct sc as [s|], sc' as [s'|]; simpl in Hc; try contradiction; [|reflexivity].
  apply val_qeq. rewrite dist2_shift_from, (norm_factor_qeq coco sd s' s Hc). reflexivity.
Qed.

Lemma terms_translate coco sc sc' t : ceq sc' sc -> forall g p sds,
  map val (terms coco sc' sds (translate t g) (translate t p)) = map val (terms coco sc sds g p).
Proof.
  intros Hc. induction g as [|gk g IH]; intros p sds.
  - reflexivity.
  - destruct p as [|pk p]; [cbn [translate map]; rewrite !terms_nil_p; reflexivity|].
    destruct sds as [|sd sds]; [rewrite !terms_nil_s; reflexivity|].
    cbn [translate map]. rewrite !terms_cons. cbn [map]. f_equal.
    + apply ks_arg_translate. exact Hc.
    + apply IH.
Qed.

Lemma n_visible_translate t g : n_visible (translate t g) = n_visible g.
Proof.
  unfold translate. induction g as [|gk g IH]; [reflexivity|]. cbn [map]. rewrite !n_visible_cons.
  unfold shift at 1. rewrite missing_shift_from. rewrite IH. reflexivity.
Qed.

Lemma oks_pair_translate coco sc sc' sds t g p :
  ceq sc' sc ->
  oks_val (oks_pair coco sc' sds (translate t g) (translate t p)) = oks_val (oks_pair coco sc sds g p).
Proof.
  intros Hc. unfold oks_val. rewrite !oks_pair_eq. cbn [fst snd].
  rewrite (terms_translate coco sc sc' t Hc), n_visible_translate. reflexivity.
Qed.

(* the bounding-box area is translation invariant *)
Lemma nth_shift_from t j k p :
  nth k (shift_from t j p) None = option_map (fun x => (x + t (j + k)%nat)%Q) (nth k p None).
Proof.
  revert j k. induction p as [|c p IH]; intros j [|k]; cbn [shift_from nth]; try reflexivity.
  - rewrite Nat.add_0_r. reflexivity.
  - rewrite IH. replace (S j + k)%nat with (j + S k)%nat by lia. reflexivity.
Qed.

Lemma column_translate t k g :
  column k (translate t g) = map (option_map (fun x => (x + t k)%Q)) (column k g).
Proof.
  unfold column, translate. rewrite !map_map. apply map_ext. intros p.
  unfold shift. rewrite nth_shift_from. reflexivity.
Qed.

Lemma Qle_bool_shift x y d : Qle_bool (x + d) (y + d) = Qle_bool x y.
Proof.
  destruct (Qle_bool x y) eqn:E.
  - apply Qle_bool_iff. apply Qle_bool_iff in E. lra.
  - destruct (Qle_bool (x + d) (y + d)) eqn:E2; [|reflexivity].
    apply Qle_bool_iff in E2. assert (x <= y)%Q by lra. apply Qle_bool_iff in H. congruence.
Qed.

Lemma nanmax_shift d l :
  nanmax (map (option_map (fun x => (x + d)%Q)) l) = option_map (fun x => (x + d)%Q) (nanmax l).
Proof.
  induction l as [|a l IH]; [reflexivity|]. unfold nanmax in *. cbn [map fold_right]. rewrite IH.
  destruct a as [x|], (fold_right omax None l) as [y|]; cbn [option_map omax]; try reflexivity.
  rewrite Qle_bool_shift. destruct (Qle_bool x y); reflexivity.
Qed.

Lemma nanmin_shift d l :
  nanmin (map (option_map (fun x => (x + d)%Q)) l) = option_map (fun x => (x + d)%Q) (nanmin l).
Proof.
  induction l as [|a l IH]; [reflexivity|]. unfold nanmin in *. cbn [map fold_right]. rewrite IH.
  destruct a as [x|], (fold_right omin None l) as [y|]; cbn [option_map omin]; try reflexivity.
  rewrite Qle_bool_shift. destruct (Qle_bool x y); reflexivity.
Qed.

Lemma extent_translate t g k : ceq (extent (translate t g) k) (extent g k).
Proof.
  unfold extent. rewrite column_translate, nanmax_shift, nanmin_shift.
  destruct (nanmax (column k g)) as [hi|], (nanmin (column k g)) as [lo|]; cbn [option_map ceq]; auto.
  ring.
Qed.

Lemma oprod_ceq a a' b b' : ceq a a' -> ceq b b' -> ceq (oprod a b) (oprod a' b').
Proof.
  destruct a, a', b, b'; simpl; try tauto. intros H1 H2. rewrite H1, H2. reflexivity.
Qed.

Lemma area_translate n_ed t g : ceq (area n_ed (translate t g)) (area n_ed g).
Proof.
  unfold area. induction (seq 0 n_ed) as [|k ks IH]; cbn [map fold_right].
  - simpl. reflexivity.
  - apply oprod_ceq; [apply extent_translate | exact IH].
Qed.

(* ------------------------------------------------------------------ *)
(* the automatic scale: defined and non-negative as soon as one gt keypoint is visible *)
Lemma omin_spec a b : forall m, omin a b = Some m ->
  (a = Some m \/ b = Some m) /\ (forall x, a = Some x -> (m <= x)%Q) /\ (forall y, b = Some y -> (m <= y)%Q).
Proof.
  intros m. destruct a as [x|], b as [y|]; cbn [omin]; intros H; inversion H; subst.
  - destruct (Qle_bool x y) eqn:E.
    + apply Qle_bool_iff in E. repeat split; auto; intros ? Hx; inversion Hx; subst; lra.
    + assert (~ (x <= y)%Q) by (intros Hc; apply Qle_bool_iff in Hc; congruence).
      repeat split; auto; intros ? Hx; inversion Hx; subst; lra.
  - repeat split; auto; intros ? Hx; inversion Hx; subst; lra.
  - repeat split; auto; intros ? Hx; inversion Hx; subst; lra.
Qed.

Lemma omax_spec a b : forall m, omax a b = Some m ->
  (a = Some m \/ b = Some m) /\ (forall x, a = Some x -> (x <= m)%Q) /\ (forall y, b = Some y -> (y <= m)%Q).
Proof.
  intros m. destruct a as [x|], b as [y|]; cbn [omax]; intros H; inversion H; subst.
  - destruct (Qle_bool x y) eqn:E.
    + apply Qle_bool_iff in E. repeat split; auto; intros ? Hx; inversion Hx; subst; lra.
    + assert (~ (x <= y)%Q) by (intros Hc; apply Qle_bool_iff in Hc; congruence).
      repeat split; auto; intros ? Hx; inversion Hx; subst; lra.
  - repeat split; auto; intros ? Hx; inversion Hx; subst; lra.
  - repeat split; auto; intros ? Hx; inversion Hx; subst; lra.
Qed.

Lemma nanmin_spec l : forall m, nanmin l = Some m ->
  In (Some m) l /\ forall x, In (Some x) l -> (m <= x)%Q.
Proof.
  induction l as [|a l IH]; intros m H; [discriminate|].
  unfold nanmin in *. cbn [fold_right] in H.
  destruct (omin_spec _ _ _ H) as [Hin [Ha Hb]].
  split.
  - destruct Hin as [Hin|Hin]; [left; exact Hin|]. right. apply (IH m Hin).
  - intros x [Hx|Hx]; [apply Ha; exact Hx|].
    destruct (fold_right omin None l) as [y|] eqn:E.
    + specialize (Hb y eq_refl). destruct (IH y eq_refl) as [_ Hy]. specialize (Hy x Hx). lra.
    + exfalso. clear - E Hx. induction l as [|b l IHl]; [contradiction|].
      cbn [fold_right] in E. destruct Hx as [Hx|Hx].
      * subst b. destruct (fold_right omin None l); discriminate.
      * destruct b; [destruct (fold_right omin None l); discriminate|]. apply IHl; assumption.
Qed.

Lemma nanmax_spec l : forall m, nanmax l = Some m ->
  In (Some m) l /\ forall x, In (Some x) l -> (x <= m)%Q.
Proof.
  induction l as [|a l IH]; intros m H; [discriminate|].
  unfold nanmax in *. cbn [fold_right] in H.
  destruct (omax_spec _ _ _ H) as [Hin [Ha Hb]].
  split.
  - destruct Hin as [Hin|Hin]; [left; exact Hin|]. right. apply (IH m Hin).
  - intros x [Hx|Hx]; [apply Ha; exact Hx|].
    destruct (fold_right omax None l) as [y|] eqn:E.
    + specialize (Hb y eq_refl). destruct (IH y eq_refl) as [_ Hy]. specialize (Hy x Hx). lra.
    + exfalso. clear - E Hx. induction l as [|b l IHl]; [contradiction|].
      cbn [fold_right] in E. destruct Hx as [Hx|Hx].
      * subst b. destruct (fold_right omax None l); discriminate.
      * destruct b; [destruct (fold_right omax None l); discriminate|]. apply IHl; assumption.
Qed.

Lemma nanmin_some l x : In (Some x) l -> exists m, nanmin l = Some m.
Proof.
  induction l as [|a l IH]; [contradiction|]. intros [H|H]; unfold nanmin in *; cbn [fold_right].
  - subst a. destruct (fold_right omin None l); cbn [omin]; eauto.
  - destruct (IH H) as [m Hm]. rewrite Hm. destruct a; cbn [omin]; eauto.
Qed.

Lemma nanmax_some l x : In (Some x) l -> exists m, nanmax l = Some m.
Proof.
  induction l as [|a l IH]; [contradiction|]. intros [H|H]; unfold nanmax in *; cbn [fold_right].
  - subst a. destruct (fold_right omax None l); cbn [omax]; eauto.
  - destruct (IH H) as [m Hm]. rewrite Hm. destruct a; cbn [omax]; eauto.
Qed.

Lemma extent_nonneg ps k e : extent ps k = Some e -> (0 <= e)%Q.
Proof.
  unfold extent. destruct (nanmax (column k ps)) as [hi|] eqn:Eh; [|discriminate].
  destruct (nanmin (column k ps)) as [lo|] eqn:El; [|discriminate].
  intros H; inversion H; subst.
  destruct (nanmax_spec _ _ Eh) as [_ Hmax]. destruct (nanmin_spec _ _ El) as [Hin _].
  specialize (Hmax lo Hin). lra.
Qed.

Lemma area_nonneg n_ed ps a : area n_ed ps = Some a -> (0 <= a)%Q.
Proof.
  unfold area. revert a. induction (seq 0 n_ed) as [|k ks IH]; cbn [map fold_right]; intros a H.
  - inversion H; subst. lra.
  - destruct (extent ps k) as [e|] eqn:Ee; [|discriminate].
    destruct (fold_right oprod (Some 1%Q) (map (extent ps) ks)) as [r|]; [|discriminate].
    cbn [oprod] in H. inversion H; subst.
    pose proof (extent_nonneg _ _ _ Ee). specialize (IH r eq_refl). nra.
Qed.

Lemma area_scale_ok n_ed ps : scale_ok (area n_ed ps).
Proof. unfold scale_ok. destruct (area n_ed ps) eqn:E; [eapply area_nonneg; eauto|exact I]. Qed.

Lemma missing_false_nth (p : list (option Q)) k :
  missing p = false -> (k < length p)%nat -> exists x, nth k p None = Some x.
Proof.
  revert k. induction p as [|c p IH]; intros k Hm Hk; [simpl in Hk; lia|].
  unfold missing in *. cbn [existsb] in Hm. apply orb_false_iff in Hm. destruct Hm as [Hc Hm].
  destruct k as [|k]; cbn [nth].
  - destruct c; [eauto|discriminate].
  - apply IH; [exact Hm|simpl in Hk; lia].
Qed.

Lemma extent_defined n_ed ps k :
  Forall (fun p => length p = n_ed) ps -> (1 <= n_visible ps)%nat -> (k < n_ed)%nat ->
  exists e, extent ps k = Some e.
Proof.
  intros Hlen Hv Hk.
  assert (Hex : exists p, In p ps /\ missing p = false).
  { unfold n_visible in Hv. destruct (filter (fun p => negb (missing p)) ps) as [|p l] eqn:E;
      [simpl in Hv; lia|].
    exists p. assert (Hin : In p (filter (fun p => negb (missing p)) ps)) by (rewrite E; left; reflexivity).
    apply filter_In in Hin. destruct Hin as [Hin Hb]. split; [exact Hin|].
    destruct (missing p); [discriminate|reflexivity]. }
  destruct Hex as [p [Hin Hm]].
  rewrite Forall_forall in Hlen. specialize (Hlen p Hin).
  destruct (missing_false_nth p k Hm) as [x Hx]; [unfold pt, coord in *; lia|].
  assert (Hc : In (Some x) (column k ps)).
  { unfold column. apply in_map_iff. exists p. split; assumption. }
  destruct (nanmax_some _ _ Hc) as [hi Hhi]. destruct (nanmin_some _ _ Hc) as [lo Hlo].
  unfold extent. rewrite Hhi, Hlo. eauto.
Qed.

Lemma area_defined n_ed ps :
  Forall (fun p => length p = n_ed) ps -> (1 <= n_visible ps)%nat ->
  exists a, area n_ed ps = Some a /\ (0 <= a)%Q.
Proof.
  intros Hlen Hv.
  assert (H : exists a, area n_ed ps = Some a).
  { unfold area. assert (Hks : Forall (fun k => (k < n_ed)%nat) (seq 0 n_ed)).
    { apply Forall_forall. intros k Hk. apply in_seq in Hk. lia. }
    induction Hks as [|k ks Hk _ IH]; cbn [map fold_right]; [eauto|].
    destruct IH as [r Hr]. rewrite Hr.
    destruct (extent_defined n_ed ps k Hlen Hv Hk) as [e He]. rewrite He. cbn [oprod]. eauto. }
  destruct H as [a Ha]. exists a. split; [exact Ha|]. eapply area_nonneg; eauto.
Qed.

(* ------------------------------------------------------------------ *)
(* (g) the matrix: entry (i,j) is the pair function of (gt i, pr j); reordering
   instances permutes the matrix *)
Definition entry {A} (M : list (list A)) (i j : nat) : option A :=
  match nth_error M i with Some row => nth_error row j | None => None end.

Lemma nth_error_zip_inv {A B} (l : list A) (m : list B) i a b :
  nth_error (zip l m) i = Some (a, b) -> nth_error l i = Some a /\ nth_error m i = Some b.
Proof.
  revert m i. induction l as [|x l IH]; intros [|y m] [|i]; cbn [zip nth_error]; try discriminate.
  - intros H; inversion H; auto.
  - apply IH.
Qed.

Lemma nth_error_zip {A B} (l : list A) (m : list B) i a b :
  nth_error l i = Some a -> nth_error m i = Some b -> nth_error (zip l m) i = Some (a, b).
Proof.
  revert m i. induction l as [|x l IH]; intros [|y m] [|i]; cbn [zip nth_error]; try discriminate.
  - intros H1 H2; inversion H1; inversion H2; reflexivity.
  - apply IH.
Qed.

Lemma oks_matrix_entry_inv n_ed n gts prs sc sd coco i j e :
  entry (oks_matrix n_ed n gts prs sc sd coco) i j = Some e ->
  exists g p s, nth_error gts i = Some g /\ nth_error prs j = Some p /\
    nth_error (scale_list n_ed sc gts) i = Some s /\ e = oks_pair coco s (sd_list sd n) g p.
Proof.
  unfold entry, oks_matrix. rewrite nth_error_map.
  destruct (nth_error (zip gts (scale_list n_ed sc gts)) i) as [[g s]|] eqn:E; cbn [option_map]; [|discriminate].
  rewrite nth_error_map. destruct (nth_error prs j) as [p|] eqn:Ep; cbn [option_map]; [|discriminate].
  intros H; inversion H; subst. apply nth_error_zip_inv in E. destruct E as [E1 E2].
  exists g, p, s. cbn [fst snd]. auto.
Qed.

Lemma oks_matrix_entry n_ed n gts prs sc sd coco i j g p s :
  nth_error gts i = Some g -> nth_error prs j = Some p ->
  nth_error (scale_list n_ed sc gts) i = Some s ->
  entry (oks_matrix n_ed n gts prs sc sd coco) i j = Some (oks_pair coco s (sd_list sd n) g p).
Proof.
  intros Hg Hp Hs. unfold entry, oks_matrix. rewrite nth_error_map.
  rewrite (nth_error_zip _ _ _ _ _ Hg Hs). cbn [option_map]. rewrite nth_error_map, Hp. reflexivity.
Qed.

Definition scspec_ok (sc : scspec) : Prop :=
  match sc with
  | ScNone => True
  | ScScalar s => (0 <= s)%Q
  | ScVec l => Forall (fun s => (0 <= s)%Q) l
  end.

Lemma scale_list_ok n_ed sc gts i s :
  scspec_ok sc -> nth_error (scale_list n_ed sc gts) i = Some s -> scale_ok s.
Proof.
  destruct sc as [|q|l]; cbn [scspec_ok scale_list]; intros Hok H.
  - rewrite nth_error_map in H. destruct (nth_error gts i); cbn [option_map] in H; inversion H.
    apply area_scale_ok.
  - rewrite nth_error_map in H. destruct (nth_error gts i); cbn [option_map] in H; inversion H. exact Hok.
  - rewrite nth_error_map in H. destruct (nth_error l i) as [x|] eqn:E; cbn [option_map] in H; inversion H.
    rewrite Forall_forall in Hok. apply Hok. eapply nth_error_In; eauto.
Qed.

Lemma compute_oks_range fixed n_ed n gts prs sc sd coco M i j e g :
  compute_oks fixed n_ed n gts prs sc sd coco = Some M ->
  scspec_ok sc -> sds_ok (sd_list sd n) ->
  entry M i j = Some e -> nth_error gts i = Some g -> (1 <= n_visible g)%nat ->
  0 <= oks_val e <= 1.
Proof.
  unfold compute_oks. destruct (fixed || (length prs =? 1)%nat); [|discriminate].
  intros HM Hsc Hsd He Hg Hv. inversion HM; subst M.
  apply oks_matrix_entry_inv in He. destruct He as [g' [p [s [Hg' [Hp [Hs He]]]]]].
  rewrite Hg in Hg'. inversion Hg'; subst g'. subst e.
  apply oks_pair_range; [eapply scale_list_ok; eauto | exact Hsd | exact Hv].
Qed.

Lemma compute_oks_as_coded_none n_ed n gts prs sc sd coco :
  compute_oks false n_ed n gts prs sc sd coco = None <-> length prs <> 1%nat.
Proof.
  unfold compute_oks. cbn [orb]. destruct (length prs =? 1)%nat eqn:E.
  - apply Nat.eqb_eq in E. split; [discriminate|intros H; contradiction].
  - apply Nat.eqb_neq in E. split; auto.
Qed.

Lemma compute_oks_fixed_some n_ed n gts prs sc sd coco :
  compute_oks true n_ed n gts prs sc sd coco = Some (oks_matrix n_ed n gts prs sc sd coco).
Proof. reflexivity. Qed.

Lemma compute_oks_single fixed n_ed n gts p sc sd coco :
  compute_oks fixed n_ed n gts [p] sc sd coco = Some (oks_matrix n_ed n gts [p] sc sd coco).
Proof. unfold compute_oks. cbn [length Nat.eqb]. rewrite orb_true_r. reflexivity. Qed.

Lemma zip_map_r {A B} (f : A -> B) l : zip l (map f l) = map (fun a => (a, f a)) l.
Proof. induction l as [|a l IH]; cbn [map zip]; [reflexivity|]. rewrite IH. reflexivity. Qed.

Definition scale_of (n_ed : nat) (sc : scspec) (g : pose) : coord :=
  match sc with ScNone => area n_ed g | ScScalar s => Some s | ScVec _ => None end.
Definition uniform (sc : scspec) : Prop := match sc with ScVec _ => False | _ => True end.

Lemma oks_matrix_uniform n_ed n gts prs sc sd coco :
  uniform sc ->
  oks_matrix n_ed n gts prs sc sd coco =
  map (fun g => map (fun p => oks_pair coco (scale_of n_ed sc g) (sd_list sd n) g p) prs) gts.
Proof.
  destruct sc as [|s|l]; cbn [uniform]; intros H; [| |contradiction];
    unfold oks_matrix, scale_list; rewrite zip_map_r, map_map; reflexivity.
Qed.

Definition pick {A} (d : A) (idx : list nat) (l : list A) : list A := map (fun i => nth i l d) idx.

Lemma oks_matrix_reorder n_ed n gts prs sc sd coco pi pj dflt :
  uniform sc ->
  Forall (fun i => (i < length gts)%nat) pi -> Forall (fun j => (j < length prs)%nat) pj ->
  oks_matrix n_ed n (pick [] pi gts) (pick [] pj prs) sc sd coco =
  pick [] pi (map (pick dflt pj) (oks_matrix n_ed n gts prs sc sd coco)).
Proof.
  intros Hu Hi Hj. rewrite !oks_matrix_uniform by exact Hu.
  set (F := fun g p => oks_pair coco (scale_of n_ed sc g) (sd_list sd n) g p).
  unfold pick. rewrite !map_map. apply map_ext_in. intros i Hin.
  rewrite Forall_forall in Hi. specialize (Hi i Hin).
  set (G := fun g : pose => map (fun j => nth j (map (fun p => F g p) prs) dflt) pj).
  rewrite (nth_indep (map G gts) [] (G [])) by (rewrite map_length; exact Hi).
  rewrite (map_nth G gts [] i). unfold G. rewrite map_map.
  apply map_ext_in. intros j Hjn. rewrite Forall_forall in Hj. specialize (Hj j Hjn).
  set (g := nth i gts []).
  rewrite (nth_indep (map (fun p => F g p) prs) dflt (F g [])) by (rewrite map_length; exact Hj).
  rewrite (map_nth (fun p => F g p) prs [] j). reflexivity.
Qed.

(* ------------------------------------------------------------------ *)
(* match_instances: one-to-one and conservation (closed: no real numbers) *)
Definition gt_of (m : mpair) : nat := fst (fst m).
Definition pr_of (m : mpair) : nat := snd (fst m).
Definition oks_of (m : mpair) : Q := snd m.

Definition eligible (thr q : Q) : Prop := ~ (q <= thr)%Q.

Lemma Qltb_true a b : Qltb a b = true -> (a < b)%Q.
Proof.
  unfold Qltb. intros H. apply negb_true_iff in H.
  destruct (Qlt_le_dec a b) as [Hl|Hl]; [exact Hl|]. apply Qle_bool_iff in Hl. congruence.
Qed.
Lemma Qltb_false a b : Qltb a b = false -> (b <= a)%Q.
Proof. unfold Qltb. intros H. apply negb_false_iff in H. apply Qle_bool_iff. exact H. Qed.

Lemma best_from_cur_some thr vals : forall pos c, best_from thr vals pos (Some c) <> None.
Proof.
  induction vals as [|v t IH]; intros pos c; cbn [best_from]; [discriminate|].
  destruct v as [q|]; [|apply IH]. destruct (Qle_bool q thr); [apply IH|].
  destruct c as [p0 b]. destruct (Qltb b q); apply IH.
Qed.

Lemma best_from_spec thr : forall vals pos cur p v,
  best_from thr vals pos cur = Some (p, v) ->
  (cur = Some (p, v) \/
   exists k, p = (pos + k)%nat /\ nth_error vals k = Some (Some v) /\ eligible thr v)
  /\ (forall k q, nth_error vals k = Some (Some q) -> eligible thr q -> (q <= v)%Q)
  /\ (forall p0 b, cur = Some (p0, b) -> (b <= v)%Q).
Proof.
  induction vals as [|v0 t IH]; intros pos cur p v H; cbn [best_from] in H.
  - subst cur. split; [left; reflexivity|]. split.
    + intros [|k] q Hk; discriminate.
    + intros p0 b Hb; inversion Hb; subst. apply Qle_refl.
  - match type of H with best_from _ _ _ ?c = _ => set (cur' := c) in * end.
    destruct (IH (S pos) cur' p v H) as [Hsrc [Hmax Hcur]]. clear IH H.
    assert (Hshift : (exists k, p = (S pos + k)%nat /\ nth_error t k = Some (Some v) /\ eligible thr v) ->
                     exists k, p = (pos + k)%nat /\ nth_error (v0 :: t) k = Some (Some v) /\ eligible thr v).
    { intros [k [Hp [Hk He]]]. exists (S k). split; [lia|]. split; assumption. }
    destruct v0 as [q|].
    + destruct (Qle_bool q thr) eqn:Eq.
      * (* not eligible *)
        subst cur'. split; [destruct Hsrc as [Hs|Hs]; [left; exact Hs|right; apply Hshift; exact Hs]|].
        split; [|exact Hcur].
        intros [|k] q' Hk He; [|eapply Hmax; eauto].
        cbn [nth_error] in Hk. inversion Hk; subst q'. exfalso. apply He. apply Qle_bool_iff. exact Eq.
      * assert (Hel : eligible thr q).
        { intros Hc. apply Qle_bool_iff in Hc. congruence. }
        destruct cur as [[p0 b]|].
        -- destruct (Qltb b q) eqn:Eb; subst cur'.
           ++ apply Qltb_true in Eb. pose proof (Hcur pos q eq_refl) as Hqv.
              split.
              { destruct Hsrc as [Hs|Hs]; [|right; apply Hshift; exact Hs].
                inversion Hs; subst. right. exists 0%nat. split; [lia|]. split; [reflexivity|exact Hel]. }
              split.
              { intros [|k] q' Hk He; [|eapply Hmax; eauto]. cbn [nth_error] in Hk. inversion Hk; subst. exact Hqv. }
              { intros p1 b1 Hb; inversion Hb; subst. lra. }
           ++ apply Qltb_false in Eb. pose proof (Hcur p0 b eq_refl) as Hbv.
              split; [destruct Hsrc as [Hs|Hs]; [left; exact Hs|right; apply Hshift; exact Hs]|].
              split; [|exact Hcur].
              intros [|k] q' Hk He; [|eapply Hmax; eauto]. cbn [nth_error] in Hk. inversion Hk; subst. lra.
        -- subst cur'. pose proof (Hcur pos q eq_refl) as Hqv.
           split.
           { destruct Hsrc as [Hs|Hs]; [|right; apply Hshift; exact Hs].
             inversion Hs; subst. right. exists 0%nat. split; [lia|]. split; [reflexivity|exact Hel]. }
           split.
           { intros [|k] q' Hk He; [|eapply Hmax; eauto]. cbn [nth_error] in Hk. inversion Hk; subst. exact Hqv. }
           { intros p1 b1 Hb; discriminate. }
    + subst cur'. split; [destruct Hsrc as [Hs|Hs]; [left; exact Hs|right; apply Hshift; exact Hs]|].
      split; [|exact Hcur].
      intros [|k] q' Hk He; [discriminate|eapply Hmax; eauto].
Qed.

Lemma best_pos_some thr vals p v :
  best_pos thr vals = Some (p, v) ->
  nth_error vals p = Some (Some v) /\ eligible thr v /\
  (forall k q, nth_error vals k = Some (Some q) -> eligible thr q -> (q <= v)%Q).
Proof.
  unfold best_pos. intros H. destruct (best_from_spec thr vals 0 None p v H) as [[Hs|[k [Hp [Hk He]]]] [Hmax _]];
    [discriminate|]. simpl in Hp. subst k. auto.
Qed.

Lemma best_from_none thr : forall vals pos,
  best_from thr vals pos None = None ->
  forall k q, nth_error vals k = Some (Some q) -> ~ eligible thr q.
Proof.
  induction vals as [|v0 t IH]; intros pos H k q Hk; [destruct k; discriminate|].
  cbn [best_from] in H. destruct v0 as [q0|].
  - destruct (Qle_bool q0 thr) eqn:Eq.
    + destruct k as [|k]; [|eapply IH; eauto]. cbn [nth_error] in Hk. inversion Hk; subst.
      intros He. apply He. apply Qle_bool_iff. exact Eq.
    + exfalso. eapply best_from_cur_some; eauto.
  - destruct k as [|k]; [discriminate|eapply IH; eauto].
Qed.

Lemma pop_at_perm {A} (d : A) : forall pos (l : list A), (pos < length l)%nat ->
  Permutation (nth pos l d :: pop_at pos l) l.
Proof.
  unfold pop_at. induction pos as [|pos IH]; intros [|x l] H; cbn [length] in H; try lia.
  - reflexivity.
  - cbn [nth firstn skipn app]. specialize (IH l ltac:(lia)).
    etransitivity; [apply perm_swap|]. apply perm_skip. exact IH.
Qed.

Lemma pop_at_incl {A} pos (l : list A) : incl (pop_at pos l) l.
Proof.
  unfold pop_at. intros x Hx. apply in_app_or in Hx. destruct Hx as [Hx|Hx].
  - rewrite <- (firstn_skipn pos l). apply in_or_app. left. exact Hx.
  - rewrite <- (firstn_skipn (S pos) l). apply in_or_app. right. exact Hx.
Qed.

Lemma match_loop_perm M thr : forall order avail ms missed,
  match_loop M thr order avail = (ms, missed) ->
  Permutation (map gt_of ms ++ missed) avail.
Proof.
  induction order as [|p rest IH]; intros avail ms missed H; cbn [match_loop] in H.
  - inversion H; subst. reflexivity.
  - destruct avail as [|a0 av] eqn:Eav; [inversion H; subst; reflexivity|]. rewrite <- Eav in *.
    destruct (best_pos thr (map (fun g => mget M g p) avail)) as [[pos v]|] eqn:Eb.
    + destruct (match_loop M thr rest (pop_at pos avail)) as [ms' missed'] eqn:Er.
      inversion H; subst ms missed. cbn [map app]. unfold gt_of at 1. cbn [fst].
      apply best_pos_some in Eb. destruct Eb as [Hn _].
      assert (Hpos : (pos < length avail)%nat).
      { assert (Hs : nth_error (map (fun g => mget M g p) avail) pos <> None) by congruence.
        apply nth_error_Some in Hs. rewrite map_length in Hs. exact Hs. }
      etransitivity; [|apply (pop_at_perm 0%nat pos avail Hpos)].
      apply perm_skip. apply IH. exact Er.
    + apply IH. exact H.
Qed.

Lemma match_loop_pairs M thr : forall order avail ms missed,
  match_loop M thr order avail = (ms, missed) ->
  Forall (fun m => In (gt_of m) avail /\ In (pr_of m) order /\
                   mget M (gt_of m) (pr_of m) = Some (oks_of m) /\ eligible thr (oks_of m)) ms.
Proof.
  induction order as [|p rest IH]; intros avail ms missed H; cbn [match_loop] in H.
  - inversion H; subst. constructor.
  - destruct avail as [|a0 av] eqn:Eav; [inversion H; subst; constructor|]. rewrite <- Eav in *.
    destruct (best_pos thr (map (fun g => mget M g p) avail)) as [[pos v]|] eqn:Eb.
    + destruct (match_loop M thr rest (pop_at pos avail)) as [ms' missed'] eqn:Er.
      inversion H; subst ms missed.
      apply best_pos_some in Eb. destruct Eb as [Hn [He _]].
      assert (Hpos : (pos < length avail)%nat).
      { assert (Hs : nth_error (map (fun g => mget M g p) avail) pos <> None) by congruence.
        apply nth_error_Some in Hs. rewrite map_length in Hs. exact Hs. }
      constructor.
      * unfold gt_of, pr_of, oks_of. cbn [fst snd]. split; [apply nth_In; exact Hpos|].
        split; [left; reflexivity|]. split; [|exact He].
        rewrite nth_error_map in Hn. rewrite (nth_error_nth' avail 0%nat Hpos) in Hn.
        cbn [option_map] in Hn. inversion Hn. reflexivity.
      * specialize (IH _ _ _ Er). eapply Forall_impl; [|exact IH].
        intros m [H1 [H2 H3]]. split; [eapply pop_at_incl; eauto|]. split; [right; exact H2|exact H3].
    + specialize (IH _ _ _ H). eapply Forall_impl; [|exact IH].
      intros m [H1 [H2 H3]]. split; [exact H1|]. split; [right; exact H2|exact H3].
Qed.

Lemma match_loop_pr_nodup M thr : forall order avail ms missed,
  match_loop M thr order avail = (ms, missed) -> NoDup order -> NoDup (map pr_of ms).
Proof.
  induction order as [|p rest IH]; intros avail ms missed H Hnd; cbn [match_loop] in H.
  - inversion H; subst. constructor.
  - inversion Hnd as [|? ? Hnotin Hnd']; subst.
    destruct avail as [|a0 av] eqn:Eav; [inversion H; subst; constructor|]. rewrite <- Eav in *.
    destruct (best_pos thr (map (fun g => mget M g p) avail)) as [[pos v]|] eqn:Eb.
    + destruct (match_loop M thr rest (pop_at pos avail)) as [ms' missed'] eqn:Er.
      inversion H; subst ms missed. cbn [map]. constructor.
      * unfold pr_of at 1. cbn [fst snd]. intros Hin. apply Hnotin.
        pose proof (match_loop_pairs _ _ _ _ _ _ Er) as Hp. rewrite Forall_forall in Hp.
        apply in_map_iff in Hin. destruct Hin as [m [Hm Hin]]. rewrite <- Hm. apply (Hp m Hin).
      * eapply IH; eauto.
    + eapply IH; eauto.
Qed.

(* argsort: a permutation of the prediction indices *)
Lemma insert_desc_perm x l : Permutation (insert_desc x l) (x :: l).
Proof.
  induction l as [|y t IH]; cbn [insert_desc]; [reflexivity|].
  destruct (Qltb (fst x) (fst y)); [|reflexivity].
  etransitivity; [apply perm_skip; exact IH|apply perm_swap].
Qed.

Lemma sort_desc_perm l : Permutation (sort_desc l) l.
Proof.
  induction l as [|x l IH]; cbn [sort_desc fold_right]; [reflexivity|].
  etransitivity; [apply insert_desc_perm|]. apply perm_skip. exact IH.
Qed.

Lemma map_snd_zip {A B} (l : list A) (m : list B) : length l = length m -> map snd (zip l m) = m.
Proof.
  revert m. induction l as [|a l IH]; intros [|b m] H; cbn [zip map]; try discriminate; [reflexivity|].
  cbn [snd]. f_equal. apply IH. simpl in H. lia.
Qed.

Lemma argsort_desc_perm scores : Permutation (argsort_desc scores) (seq 0 (length scores)).
Proof.
  unfold argsort_desc. etransitivity; [apply Permutation_map; apply sort_desc_perm|].
  rewrite map_snd_zip by (rewrite seq_length; reflexivity). reflexivity.
Qed.

Lemma NoDup_app_l {A} (l m : list A) : NoDup (l ++ m) -> NoDup l.
Proof.
  induction l as [|x l IH]; cbn [app]; intros H; [constructor|].
  inversion H; subst. constructor; [|apply IH; assumption].
  intros Hin. apply H2. apply in_or_app. left. exact Hin.
Qed.

Lemma match_instances_spec fx n_gt scores M thr ms missed :
  match_instances fx n_gt scores M thr = Some (ms, missed) ->
  NoDup (map gt_of ms) /\ NoDup (map pr_of ms) /\
  Permutation (map gt_of ms ++ missed) (seq 0 n_gt) /\
  Forall (fun m => (gt_of m < n_gt)%nat /\ (pr_of m < length scores)%nat /\
                   mget M (gt_of m) (pr_of m) = Some (oks_of m) /\ eligible thr (oks_of m)) ms.
Proof.
  intros H.
  assert (Hloop : match_loop M thr (argsort_desc scores) (seq 0 n_gt) = (ms, missed) \/
                  (ms = [] /\ missed = [] /\ n_gt = 0%nat)).
  { unfold match_instances in H. destruct n_gt as [|n]; [destruct scores as [|s0 sc]|].
    - left. inversion H. reflexivity.
    - destruct fx; [|discriminate]. inversion H; subst. right. auto.
    - left. inversion H. reflexivity. }
  destruct Hloop as [Hloop|[H1 [H2 H3]]].
  - pose proof (match_loop_perm _ _ _ _ _ _ Hloop) as Hperm.
    assert (Hnd : NoDup (map gt_of ms ++ missed)).
    { eapply Permutation_NoDup; [apply Permutation_sym; exact Hperm|apply seq_NoDup]. }
    split; [eapply NoDup_app_l; exact Hnd|].
    split.
    { eapply match_loop_pr_nodup; [exact Hloop|].
      eapply Permutation_NoDup; [apply Permutation_sym; apply argsort_desc_perm|apply seq_NoDup]. }
    split; [exact Hperm|].
    pose proof (match_loop_pairs _ _ _ _ _ _ Hloop) as Hp. eapply Forall_impl; [|exact Hp].
    intros m [Hg [Hpr Hrest]]. split; [apply in_seq in Hg; lia|]. split; [|exact Hrest].
    eapply Permutation_in in Hpr; [|apply argsort_desc_perm]. apply in_seq in Hpr. lia.
  - subst. cbn. repeat split; constructor.
Qed.

(* ------------------------------------------------------------------ *)
(* match_instances on an arbitrary predicted frame: score-less instances, NaN scores (review round 4) *)
Lemma insert_desc_o_perm x l : Permutation (insert_desc_o x l) (x :: l).
Proof.
  induction l as [|y t IH]; cbn [insert_desc_o]; [reflexivity|].
  destruct (ogt (fst y) (fst x)); [|reflexivity].
  etransitivity; [apply perm_skip; exact IH|apply perm_swap].
Qed.

Lemma sort_desc_o_perm l : Permutation (sort_desc_o l) l.
Proof.
  induction l as [|x l IH]; cbn [sort_desc_o fold_right]; [reflexivity|].
  etransitivity; [apply insert_desc_o_perm|]. apply perm_skip. exact IH.
Qed.

Lemma argsort_desc_o_perm scores : Permutation (argsort_desc_o scores) (seq 0 (length scores)).
Proof.
  unfold argsort_desc_o. etransitivity; [apply Permutation_map; apply sort_desc_o_perm|].
  rewrite map_snd_zip by (rewrite seq_length; reflexivity). reflexivity.
Qed.

(* on rational scores the order is the one of argsort_desc *)
Definition somef (x : Q * nat) : option Q * nat := (Some (fst x), snd x).

Lemma insert_desc_o_some x l :
  insert_desc_o (somef x) (map somef l) = map somef (insert_desc x l).
Proof.
  induction l as [|y t IH]; cbn [insert_desc_o insert_desc map]; [reflexivity|].
  unfold somef at 1 2. cbn [fst snd ogt].
  destruct (Qltb (fst x) (fst y)); cbn [map]; [|reflexivity].
  f_equal. exact IH.
Qed.

Lemma sort_desc_o_some l : sort_desc_o (map somef l) = map somef (sort_desc l).
Proof.
  induction l as [|x l IH]; cbn [sort_desc_o sort_desc fold_right map]; [reflexivity|].
  fold (sort_desc_o (map somef l)). fold (sort_desc l). rewrite IH. apply insert_desc_o_some.
Qed.

Lemma zip_map_some (l : list Q) : forall (m : list nat),
  zip (map Some l) m = map somef (zip l m).
Proof.
  induction l as [|a l IH]; intros [|b m]; cbn [zip map]; try reflexivity.
  unfold somef at 1. cbn [fst snd]. f_equal. apply IH.
Qed.

Lemma argsort_desc_o_some scores : argsort_desc_o (map Some scores) = argsort_desc scores.
Proof.
  unfold argsort_desc_o, argsort_desc. rewrite map_length, zip_map_some, sort_desc_o_some, map_map.
  apply map_ext. intros x. reflexivity.
Qed.

Lemma scored_scores scores : scored (map Score scores) = map Some scores.
Proof. induction scores as [|q l IH]; cbn [scored flat_map map app]; [reflexivity|]. f_equal. exact IH. Qed.

Lemma match_instances_gen_scores fx n_gt scores M thr :
  match_instances_gen fx n_gt (map Score scores) M thr = match_instances fx n_gt scores M thr.
Proof.
  unfold match_instances_gen, match_instances. rewrite scored_scores.
  destruct n_gt as [|n]; [destruct scores as [|q l]; reflexivity|].
  rewrite argsort_desc_o_some. reflexivity.
Qed.

Lemma scored_length prs : (length (scored prs) <= length prs)%nat.
Proof.
  induction prs as [|s l IH]; cbn [scored flat_map length]; [lia|].
  fold (scored l). rewrite app_length. destruct s; cbn [length]; lia.
Qed.

Lemma scored_length_noscore prs : In NoScore prs -> (length (scored prs) < length prs)%nat.
Proof.
  induction prs as [|s l IH]; intros Hin; [contradiction|].
  cbn [scored flat_map length]. fold (scored l). rewrite app_length.
  destruct Hin as [Hs|Hin].
  - subst s. cbn [length]. pose proof (scored_length l). lia.
  - specialize (IH Hin). destruct s; cbn [length]; lia.
Qed.

(* one-to-one and conservation for every predicted frame; only the first `length (scored prs)`
   instances of the predicted frame can be matched (the index shift of the hasattr filter) *)
Lemma match_instances_gen_spec fx n_gt prs M thr ms missed :
  match_instances_gen fx n_gt prs M thr = Some (ms, missed) ->
  NoDup (map gt_of ms) /\ NoDup (map pr_of ms) /\
  Permutation (map gt_of ms ++ missed) (seq 0 n_gt) /\
  Forall (fun m => (gt_of m < n_gt)%nat /\ (pr_of m < length (scored prs))%nat /\ (pr_of m < length prs)%nat /\
                   mget M (gt_of m) (pr_of m) = Some (oks_of m) /\ eligible thr (oks_of m)) ms.
Proof.
  intros H.
  assert (Hloop : match_loop M thr (argsort_desc_o (scored prs)) (seq 0 n_gt) = (ms, missed) \/
                  (ms = [] /\ missed = [] /\ n_gt = 0%nat)).
  { unfold match_instances_gen in H. destruct n_gt as [|n]; [destruct (scored prs) as [|s0 sc]|].
    - left. inversion H. reflexivity.
    - destruct fx; [|discriminate]. inversion H; subst. right. auto.
    - left. inversion H. reflexivity. }
  destruct Hloop as [Hloop|[H1 [H2 H3]]].
  - pose proof (match_loop_perm _ _ _ _ _ _ Hloop) as Hperm.
    assert (Hnd : NoDup (map gt_of ms ++ missed)).
    { eapply Permutation_NoDup; [apply Permutation_sym; exact Hperm|apply seq_NoDup]. }
    split; [eapply NoDup_app_l; exact Hnd|].
    split.
    { eapply match_loop_pr_nodup; [exact Hloop|].
      eapply Permutation_NoDup; [apply Permutation_sym; apply argsort_desc_o_perm|apply seq_NoDup]. }
    split; [exact Hperm|].
    pose proof (match_loop_pairs _ _ _ _ _ _ Hloop) as Hp. eapply Forall_impl; [|exact Hp].
    intros m [Hg [Hpr Hrest]]. split; [apply in_seq in Hg; lia|].
    eapply Permutation_in in Hpr; [|apply argsort_desc_o_perm]. apply in_seq in Hpr.
    pose proof (scored_length prs). split; [lia|]. split; [lia|exact Hrest].
  - subst. cbn. repeat split; constructor.
Qed.

(* ------------------------------------------------------------------ *)
(* greedy_matching: one-to-one, only existing edges, maximal *)
Lemma greedy_take_incl : forall fuel es, incl (greedy_take fuel es) es.
Proof.
  induction fuel as [|f IH]; intros es; cbn [greedy_take]; [intros x []|].
  destruct es as [|[r c] t]; [intros x []|].
  intros x [Hx|Hx]; [left; exact Hx|]. right. apply IH in Hx. apply filter_In in Hx. tauto.
Qed.

Lemma greedy_take_one_to_one : forall fuel es,
  NoDup (map fst (greedy_take fuel es)) /\ NoDup (map snd (greedy_take fuel es)).
Proof.
  induction fuel as [|f IH]; intros es; cbn [greedy_take]; [split; constructor|].
  destruct es as [|[r c] t]; [split; constructor|].
  set (t' := filter (fun e => negb ((fst e =? r)%nat || (snd e =? c)%nat)) t).
  destruct (IH t') as [H1 H2]. cbn [map fst snd].
  assert (Hno : forall e, In e (greedy_take f t') -> fst e <> r /\ snd e <> c).
  { intros e He. apply greedy_take_incl in He. apply filter_In in He. destruct He as [_ Hb].
    apply negb_true_iff, orb_false_iff in Hb. destruct Hb as [Hr Hc].
    apply Nat.eqb_neq in Hr. apply Nat.eqb_neq in Hc. auto. }
  split; constructor; auto; intros Hin; apply in_map_iff in Hin; destruct Hin as [e [He Hin]];
    destruct (Hno e Hin); congruence.
Qed.

Lemma filter_len_le {A} (f : A -> bool) l : (length (filter f l) <= length l)%nat.
Proof. induction l as [|x l IH]; cbn [filter length]; [lia|]. destruct (f x); cbn [length]; lia. Qed.

Lemma greedy_take_maximal : forall fuel es, (length es <= fuel)%nat ->
  forall e, In e es -> exists e', In e' (greedy_take fuel es) /\ (fst e' = fst e \/ snd e' = snd e).
Proof.
  induction fuel as [|f IH]; intros es Hl e He.
  - destruct es; [contradiction|simpl in Hl; lia].
  - destruct es as [|[r c] t]; [contradiction|]. cbn [greedy_take].
    destruct He as [He|He]; [subst e; exists (r, c); split; [left; reflexivity|left; reflexivity]|].
    destruct ((fst e =? r)%nat || (snd e =? c)%nat) eqn:Eb.
    + exists (r, c). split; [left; reflexivity|]. apply orb_true_iff in Eb.
      destruct Eb as [Eb|Eb]; apply Nat.eqb_eq in Eb; cbn [fst snd]; auto.
    + set (t' := filter (fun e => negb ((fst e =? r)%nat || (snd e =? c)%nat)) t).
      assert (Hin : In e t') by (apply filter_In; split; [exact He|rewrite Eb; reflexivity]).
      assert (Hlen : (length t' <= f)%nat).
      { pose proof (filter_len_le (fun e => negb ((fst e =? r)%nat || (snd e =? c)%nat)) t).
        fold t' in H. simpl in Hl. lia. }
      destruct (IH t' Hlen e Hin) as [e' [He' Hs]]. exists e'. split; [right; exact He'|exact Hs].
Qed.

Lemma greedy_matching_spec C :
  let r := greedy_matching C in
  NoDup (map fst r) /\ NoDup (map snd r) /\
  incl r (map snd (edges_of C)) /\
  forall e, In e (map snd (edges_of C)) -> exists e', In e' r /\ (fst e' = fst e \/ snd e' = snd e).
Proof.
  unfold greedy_matching.
  set (es := map snd (sort_asc (edges_of C))).
  assert (Hperm : Permutation es (map snd (edges_of C))).
  { unfold es. apply Permutation_map. unfold sort_asc.
    induction (edges_of C) as [|x l IH]; cbn [fold_right]; [reflexivity|].
    etransitivity; [|apply perm_skip; exact IH].
    generalize (fold_right insert_asc [] l). intros m. induction m as [|y t IHm]; cbn [insert_asc]; [reflexivity|].
    destruct (cost_lt (fst y) (fst x)); [|reflexivity].
    etransitivity; [apply perm_skip; exact IHm|apply perm_swap]. }
  destruct (greedy_take_one_to_one (length es) es) as [H1 H2].
  split; [exact H1|]. split; [exact H2|]. split.
  - intros e He. apply greedy_take_incl in He. eapply Permutation_in; eauto.
  - intros e He. apply (greedy_take_maximal (length es) es (le_n _)).
    eapply Permutation_in; [apply Permutation_sym; exact Hperm|exact He].
Qed.

(* ------------------------------------------------------------------ *)
(* compute_iou in [0,1] for well-formed boxes (closed, over Q) *)
Definition wf_box (b : box) : Prop := let '(x, y, X, Y) := b in (x <= X)%Q /\ (y <= Y)%Q.

Lemma Qmax2_cases a b : (Qmax2 a b = b /\ (a <= b)%Q) \/ (Qmax2 a b = a /\ (b <= a)%Q).
Proof.
  unfold Qmax2. destruct (Qle_bool a b) eqn:E.
  - left. split; [reflexivity|apply Qle_bool_iff; exact E].
  - right. split; [reflexivity|]. destruct (Qlt_le_dec b a) as [H|H]; [lra|].
    apply Qle_bool_iff in H. congruence.
Qed.
Lemma Qmin2_cases a b : (Qmin2 a b = a /\ (a <= b)%Q) \/ (Qmin2 a b = b /\ (b <= a)%Q).
Proof.
  unfold Qmin2. destruct (Qle_bool a b) eqn:E.
  - left. split; [reflexivity|apply Qle_bool_iff; exact E].
  - right. split; [reflexivity|]. destruct (Qlt_le_dec b a) as [H|H]; [lra|].
    apply Qle_bool_iff in H. congruence.
Qed.

Lemma overlap_bounds (x1 X1 x2 X2 : Q) :
  (x1 <= X1)%Q -> (x2 <= X2)%Q ->
  let w := Qmax2 0 (Qmin2 X1 X2 - Qmax2 x1 x2 + 1) in
  (0 <= w)%Q /\ (w <= X1 - x1 + 1)%Q /\ (w <= X2 - x2 + 1)%Q.
Proof.
  intros H1 H2. cbv zeta.
  destruct (Qmin2_cases X1 X2) as [[E1 L1]|[E1 L1]]; rewrite E1;
  destruct (Qmax2_cases x1 x2) as [[E2 L2]|[E2 L2]]; rewrite E2;
  match goal with |- context [Qmax2 0 ?e] => destruct (Qmax2_cases 0 e) as [[E3 L3]|[E3 L3]]; rewrite E3 end;
  repeat split; lra.
Qed.

Lemma iou_parts_spec a b : wf_box a -> wf_box b ->
  (0 <= fst (iou_parts a b))%Q /\ (fst (iou_parts a b) <= snd (iou_parts a b))%Q /\
  (0 < snd (iou_parts a b))%Q.
Proof.
  destruct a as [[[x1 y1] X1] Y1], b as [[[x2 y2] X2] Y2]. cbn [wf_box]. intros [Hx1 Hy1] [Hx2 Hy2].
  cbn [iou_parts fst snd].
  destruct (overlap_bounds x1 X1 x2 X2 Hx1 Hx2) as [Hw0 [Hw1 Hw2]].
  destruct (overlap_bounds y1 Y1 y2 Y2 Hy1 Hy2) as [Hh0 [Hh1 Hh2]].
  cbv zeta in *.
  set (w := Qmax2 0 (Qmin2 X1 X2 - Qmax2 x1 x2 + 1)) in *.
  set (h := Qmax2 0 (Qmin2 Y1 Y2 - Qmax2 y1 y2 + 1)) in *.
  clearbody w h.
  set (w1 := (X1 - x1 + 1)%Q) in *. set (h1 := (Y1 - y1 + 1)%Q) in *.
  set (w2 := (X2 - x2 + 1)%Q) in *. set (h2 := (Y2 - y2 + 1)%Q) in *.
  assert (1 <= w1)%Q by (unfold w1; lra). assert (1 <= h1)%Q by (unfold h1; lra).
  assert (1 <= w2)%Q by (unfold w2; lra). assert (1 <= h2)%Q by (unfold h2; lra).
  clearbody w1 h1 w2 h2.
  assert (Hi0 : (0 <= w * h)%Q) by nra.
  assert (Hi1 : (w * h <= w1 * h1)%Q) by nra.
  assert (Hi2 : (w * h <= w2 * h2)%Q) by nra.
  assert (Ha1 : (1 <= w1 * h1)%Q) by nra.
  repeat split; lra.
Qed.

Lemma compute_iou_range a b : wf_box a -> wf_box b -> (0 <= compute_iou a b <= 1)%Q.
Proof.
  intros Ha Hb. destruct (iou_parts_spec a b Ha Hb) as [H0 [H1 H2]].
  unfold compute_iou. destruct (iou_parts a b) as [i u]. cbn [fst snd] in *. split.
  - apply Qle_shift_div_l; [exact H2|]. lra.
  - apply Qle_shift_div_r; [exact H2|]. lra.
Qed.

Lemma compute_iou_self a : wf_box a -> (compute_iou a a == 1)%Q.
Proof.
  intros Ha. pose proof (iou_parts_spec a a Ha Ha) as Hs.
  destruct a as [[[x y] X] Y]. cbn [wf_box] in Ha. destruct Ha as [Hx Hy].
  unfold compute_iou. cbn [iou_parts] in *. cbn [fst snd] in Hs.
  destruct (Qmin2_cases X X) as [[E1 _]|[E1 _]]; rewrite E1 in *;
  destruct (Qmax2_cases x x) as [[E2 _]|[E2 _]]; rewrite E2 in *;
  destruct (Qmin2_cases Y Y) as [[E3 _]|[E3 _]]; rewrite E3 in *;
  destruct (Qmax2_cases y y) as [[E4 _]|[E4 _]]; rewrite E4 in *;
  (destruct (Qmax2_cases 0 (X - x + 1)) as [[E5 _]|[E5 L5]]; [|exfalso; lra]);
  (destruct (Qmax2_cases 0 (Y - y + 1)) as [[E6 _]|[E6 L6]]; [|exfalso; lra]);
  rewrite E5, E6 in *; destruct Hs as [_ [_ Hpos]]; field; intros Hz; rewrite Hz in Hpos; lra.
Qed.

(* ------------------------------------------------------------------ *)
(* compute_cosine_sim in [-1,1] (Cauchy-Schwarz, over R) and the Euclidean distance *)
Fixpoint dotR (a b : list R) : R :=
  match a, b with
  | x :: a', y :: b' => x * y + dotR a' b'
  | _, _ => 0
  end.

Lemma Q2R_dot a b : Q2R (dot a b) = dotR (map Q2R a) (map Q2R b).
Proof.
  revert b. induction a as [|x a IH]; intros [|y b]; cbn [dot map dotR]; try apply Q2R_0'.
  rewrite Q2R_plus, Q2R_mult, IH. reflexivity.
Qed.

Lemma dotR_self_nonneg a : 0 <= dotR a a.
Proof. induction a as [|x a IH]; cbn [dotR]; [lra|]. pose proof (Rle_0_sqr x). unfold Rsqr in *. lra. Qed.

Lemma quad_nonneg : forall a b t, length a = length b ->
  0 <= dotR a a * (t * t) + 2 * dotR a b * t + dotR b b.
Proof.
  induction a as [|x a IH]; intros [|y b] t Hl; try discriminate; cbn [dotR]; [lra|].
  specialize (IH b t ltac:(simpl in Hl; lia)).
  pose proof (Rle_0_sqr (x * t + y)) as Hs. unfold Rsqr in Hs. nra.
Qed.

Lemma cauchy_schwarz a b : length a = length b ->
  dotR a b * dotR a b <= dotR a a * dotR b b.
Proof.
  intros Hl. pose proof (quad_nonneg a b) as Hq.
  set (A := dotR a a) in *. set (B := dotR b b) in *. set (s := dotR a b) in *.
  assert (HA : 0 <= A) by apply dotR_self_nonneg.
  assert (HB : 0 <= B) by apply dotR_self_nonneg.
  destruct HA as [HA|HA].
  - specialize (Hq (- s / A) Hl).
    assert (E : A * (A * (- s / A * (- s / A)) + 2 * s * (- s / A) + B) = A * B - s * s) by (field; lra).
    assert (0 <= A * (A * (- s / A * (- s / A)) + 2 * s * (- s / A) + B)) by (apply Rmult_le_pos; lra).
    lra.
  - rewrite <- HA in *. destruct (Req_dec s 0) as [Hs|Hs]; [rewrite Hs; lra|].
    exfalso. specialize (Hq (- (B + 1) / (2 * s)) Hl).
    assert (E : 2 * s * (- (B + 1) / (2 * s)) = - (B + 1)) by (field; exact Hs). lra.
Qed.

Lemma cosine_range a b :
  length a = length b -> (0 < dot a a)%Q -> (0 < dot b b)%Q ->
  -1 <= Q2R (dot a b) / (sqrt (Q2R (dot a a)) * sqrt (Q2R (dot b b))) <= 1.
Proof.
  intros Hl Ha Hb. apply Qlt_Rlt in Ha, Hb. rewrite Q2R_0' in Ha, Hb.
  pose proof (cauchy_schwarz (map Q2R a) (map Q2R b) ltac:(rewrite !map_length; exact Hl)) as Hcs.
  rewrite <- !Q2R_dot in Hcs.
  set (s := Q2R (dot a b)) in *. set (A := Q2R (dot a a)) in *. set (B := Q2R (dot b b)) in *.
  set (r := sqrt A * sqrt B).
  assert (HsA : 0 < sqrt A) by (apply sqrt_lt_R0; exact Ha).
  assert (HsB : 0 < sqrt B) by (apply sqrt_lt_R0; exact Hb).
  assert (Hr : 0 < r) by (unfold r; apply Rmult_lt_0_compat; assumption).
  assert (Hrr : r * r = A * B).
  { unfold r. replace (sqrt A * sqrt B * (sqrt A * sqrt B)) with ((sqrt A * sqrt A) * (sqrt B * sqrt B)) by ring.
    rewrite !sqrt_sqrt by lra. reflexivity. }
  assert (Hle : - r <= s <= r) by (split; nra).
  pose proof (Rinv_0_lt_compat _ Hr) as Hi. unfold Rdiv. split.
  - replace (-1) with (- r * / r) by (field; lra). apply Rmult_le_compat_r; lra.
  - replace 1 with (r * / r) by (field; lra). apply Rmult_le_compat_r; lra.
Qed.

Lemma sqdist_nonneg a b : (0 <= sqdist a b)%Q.
Proof.
  revert b. induction a as [|x a IH]; intros [|y b]; cbn [sqdist]; try apply Qle_refl.
  specialize (IH b). pose proof (sq_nonneg (x - y)) as H.
  set (u := sq (x - y)) in *. set (w := sqdist a b) in *. clearbody u w. lra.
Qed.

Lemma euclid_nonpos a b : - sqrt (Q2R (sqdist a b)) <= 0.
Proof. pose proof (sqrt_pos (Q2R (sqdist a b))). lra. Qed.

Lemma sqdist_refl a : (sqdist a a == 0)%Q.
Proof. induction a as [|x a IH]; cbn [sqdist]; [reflexivity|]. rewrite IH. unfold sq. ring. Qed.

(* translation at the level of the matrix (any scale option) *)
Lemma scale_list_translate n_ed sc t gts i s s' :
  nth_error (scale_list n_ed sc (map (translate t) gts)) i = Some s' ->
  nth_error (scale_list n_ed sc gts) i = Some s -> ceq s' s.
Proof.
  destruct sc as [|q|l]; cbn [scale_list]; intros H' H.
  - rewrite map_map, nth_error_map in H'. rewrite nth_error_map in H.
    destruct (nth_error gts i) as [g|]; cbn [option_map] in *; [|discriminate].
    inversion H; inversion H'; subst. apply area_translate.
  - rewrite map_map, nth_error_map in H'. rewrite nth_error_map in H.
    destruct (nth_error gts i) as [g|]; cbn [option_map] in *; [|discriminate].
    inversion H; inversion H'; subst. apply ceq_refl.
  - rewrite H in H'. inversion H'; subst. apply ceq_refl.
Qed.

Lemma oks_matrix_translate n_ed n gts prs sc sd coco t i j e e' :
  entry (oks_matrix n_ed n (map (translate t) gts) (map (translate t) prs) sc sd coco) i j = Some e' ->
  entry (oks_matrix n_ed n gts prs sc sd coco) i j = Some e ->
  oks_val e' = oks_val e.
Proof.
  intros H' H. apply oks_matrix_entry_inv in H'. apply oks_matrix_entry_inv in H.
  destruct H' as [g' [p' [s' [Hg' [Hp' [Hs' He']]]]]]. destruct H as [g [p [s [Hg [Hp [Hs He]]]]]].
  rewrite nth_error_map, Hg in Hg'. rewrite nth_error_map, Hp in Hp'. cbn [option_map] in *.
  inversion Hg'; inversion Hp'; subst. apply oks_pair_translate.
  eapply scale_list_translate; eauto.
Qed.

(* ------------------------------------------------------------------ *)
(* reordering with a VECTOR scale (review round 4, 6c): permuting the gt instances together with their
   scales, and the predictions, permutes the matrix entries *)
Lemma nth_error_pick {A} (d : A) idx l a i x :
  nth_error idx a = Some i -> nth_error l i = Some x -> nth_error (pick d idx l) a = Some x.
Proof.
  intros Ha Hi. unfold pick. rewrite nth_error_map, Ha. cbn [option_map]. f_equal.
  apply nth_error_nth. exact Hi.
Qed.

Lemma oks_matrix_reorder_vector n_ed n gts prs l sd coco pi pj a b i j g p s :
  nth_error pi a = Some i -> nth_error pj b = Some j ->
  nth_error gts i = Some g -> nth_error prs j = Some p -> nth_error l i = Some s ->
  entry (oks_matrix n_ed n (pick [] pi gts) (pick [] pj prs) (ScVec (pick 0%Q pi l)) sd coco) a b =
  entry (oks_matrix n_ed n gts prs (ScVec l) sd coco) i j.
Proof.
  intros Ha Hb Hg Hp Hs.
  rewrite (oks_matrix_entry n_ed n gts prs (ScVec l) sd coco i j g p (Some s) Hg Hp)
    by (cbn [scale_list]; rewrite nth_error_map, Hs; reflexivity).
  apply oks_matrix_entry.
  - eapply nth_error_pick; eassumption.
  - eapply nth_error_pick; eassumption.
  - cbn [scale_list]. rewrite nth_error_map. rewrite (nth_error_pick 0%Q pi l a i s Ha Hs). reflexivity.
Qed.
