(* Frames.v (C15) — match_frame_pairs of sleap_nn/evaluation.py: the loop over the
   frame pairs of an evaluation that calls match_instances (Oks.v) on every pair and
   extends two accumulators (positive pairs, false negatives).  Definitions only.

     positive_pairs = []; false_negatives = []
     for frame_gt, frame_pr in frame_pairs:
         pp, fn = match_instances(frame_gt, frame_pr, stddev, scale, threshold)
         positive_pairs.extend(pp); false_negatives.extend(fn)
     return positive_pairs, false_negatives

   A frame pair is (number of gt instances, scores of the predicted instances in frame
   order, OKS matrix n_gt x n_pr with None = NaN).  Any pair may have no gt instance,
   no predicted instance, or neither.  Instances are identified by (position of the
   frame pair in the list, index in the frame).  None = an exception of match_instances
   (the ValueError of F51 on the unrepaired code) leaves the loop. *)
From Coq Require Import List Arith ZArith QArith Bool.
Import ListNotations.
From SV Require Import C15.Oks.
Open Scope Q_scope.

Definition fpair := (nat * list Q * smatrix)%type.
Definition fp_ngt (fp : fpair) : nat := fst (fst fp).
Definition fp_scores (fp : fpair) : list Q := snd (fst fp).
Definition fp_oks (fp : fpair) : smatrix := snd fp.

Definition fmatch := (nat * mpair)%type.       (* frame position, (gt index, pr index, oks) *)
Definition fmiss := (nat * nat)%type.          (* frame position, gt index *)

(* the call made for one frame pair *)
Definition match_frame (fixed_F51 : bool) (thr : Q) (fp : fpair) : option (list mpair * list nat) :=
  match_instances fixed_F51 (fp_ngt fp) (fp_scores fp) (fp_oks fp) thr.

Definition tag {A} (k : nat) (l : list A) : list (nat * A) := map (pair k) l.

(* loop state: position of the next frame pair, the two accumulators *)
Definition mfp_state := option (nat * list fmatch * list fmiss).

Definition mfp_step (fixed_F51 : bool) (thr : Q) (st : mfp_state) (fp : fpair) : mfp_state :=
  match st with
  | None => None
  | Some (k, ps, fns) =>
      match match_frame fixed_F51 thr fp with
      | None => None
      | Some (ms, missed) => Some (S k, ps ++ tag k ms, fns ++ tag k missed)
      end
  end.

Definition match_frame_pairs (fixed_F51 : bool) (thr : Q) (fps : list fpair)
  : option (list fmatch * list fmiss) :=
  match fold_left (mfp_step fixed_F51 thr) fps (Some (0%nat, [], [])) with
  | None => None
  | Some (_, ps, fns) => Some (ps, fns)
  end.

(* reference shapes used by the statements: per-frame lists laid end to end, each
   element tagged with the position of its frame *)
Fixpoint tag_all {A} (k : nat) (ls : list (list A)) : list (nat * A) :=
  match ls with
  | [] => []
  | l :: t => tag k l ++ tag_all (S k) t
  end.

(* every ground-truth instance of every frame pair, in order *)
Definition all_gt (fps : list fpair) : list fmiss :=
  tag_all 0 (map (fun fp => seq 0 (fp_ngt fp)) fps).
(* every predicted instance of every frame pair, in order *)
Definition all_pr (fps : list fpair) : list (nat * nat) :=
  tag_all 0 (map (fun fp => seq 0 (length (fp_scores fp))) fps).
Definition total_gt (fps : list fpair) : nat := fold_right (fun fp n => (fp_ngt fp + n)%nat) 0%nat fps.

Definition fm_gt (m : fmatch) : nat * nat := (fst m, fst (fst (snd m))).
Definition fm_pr (m : fmatch) : nat * nat := (fst m, snd (fst (snd m))).
Definition fm_oks (m : fmatch) : Q := snd (snd m).

(* ---- entry point for the correspondence harness ---- *)
Inductive fcase := CFrames (fixed_F51 : bool) (thr : Q) (fps : list fpair).
Definition frun (c : fcase) : option (list fmatch * list fmiss) :=
  match c with CFrames f t fps => match_frame_pairs f t fps end.

From SV Require Import Base.Render.
Definition rfresult (r : option (list fmatch * list fmiss)) : rdr :=
  ropt (rpair (rlist (rpair rnat (rtriple rnat rnat rQ))) (rlist (rpair rnat rnat))) r.
