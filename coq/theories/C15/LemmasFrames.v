(* LemmasFrames.v (C15) — proofs about Frames.v (match_frame_pairs: the loop of
   match_instances over the frame pairs of an evaluation).  Closed: nat / Q only. *)
From Coq Require Import List Arith ZArith QArith Lia Bool Permutation.
Import ListNotations.
From SV Require Import C15.Oks C15.Lemmas C15.Frames.

(* ------------------------------------------------------------------ *)
(* tag / tag_all: generic facts *)
Lemma tag_app {A} k (l m : list A) : tag k (l ++ m) = tag k l ++ tag k m.
Proof. unfold tag. apply map_app. Qed.

Lemma tag_length {A} k (l : list A) : length (tag k l) = length l.
Proof. unfold tag. apply map_length. Qed.

Lemma map_tag {A B} (f : A -> B) k (l : list A) :
  map (fun m => (fst m, f (snd m))) (tag k l) = tag k (map f l).
Proof. unfold tag. rewrite !map_map. reflexivity. Qed.

Lemma map_tag_all {A B} (f : A -> B) : forall (ls : list (list A)) k,
  map (fun m => (fst m, f (snd m))) (tag_all k ls) = tag_all k (map (map f) ls).
Proof.
  induction ls as [|l t IH]; intros k; cbn [tag_all map]; [reflexivity|].
  rewrite map_app, map_tag, IH. reflexivity.
Qed.

Lemma tag_in {A} k (l : list A) x : In x (tag k l) <-> fst x = k /\ In (snd x) l.
Proof.
  unfold tag. rewrite in_map_iff. split.
  - intros [a [Ha Hin]]. subst x. cbn [fst snd]. auto.
  - intros [Hk Hin]. exists (snd x). split; [|exact Hin]. destruct x; cbn [fst snd] in *; subst; reflexivity.
Qed.

Lemma tag_all_fst_ge {A} : forall (ls : list (list A)) k x, In x (tag_all k ls) -> (k <= fst x)%nat.
Proof.
  induction ls as [|l t IH]; intros k x H; cbn [tag_all] in H; [contradiction|].
  apply in_app_or in H. destruct H as [H|H].
  - apply tag_in in H. lia.
  - apply IH in H. lia.
Qed.

Lemma tag_nodup {A} k (l : list A) : NoDup l -> NoDup (tag k l).
Proof.
  unfold tag. intros H. induction H as [|x l Hx Hl IH]; cbn [map]; constructor; [|exact IH].
  intros Hin. apply in_map_iff in Hin. destruct Hin as [y [Hy Hin]]. inversion Hy; subst. auto.
Qed.

Lemma NoDup_app_intro {A} (l m : list A) :
  NoDup l -> NoDup m -> (forall x, In x l -> In x m -> False) -> NoDup (l ++ m).
Proof.
  induction l as [|x l IH]; intros Hl Hm Hd; cbn [app]; [exact Hm|].
  inversion Hl; subst. constructor.
  - intros Hin. apply in_app_or in Hin. destruct Hin as [Hin|Hin]; [auto|].
    apply (Hd x); [left; reflexivity|exact Hin].
  - apply IH; auto. intros y Hy1 Hy2. apply (Hd y); [right; exact Hy1|exact Hy2].
Qed.

Lemma NoDup_app_r {A} (l m : list A) : NoDup (l ++ m) -> NoDup m.
Proof. induction l as [|x l IH]; cbn [app]; intros H; [exact H|]. inversion H; auto. Qed.

Lemma tag_all_nodup {A} : forall (ls : list (list A)) k, Forall (@NoDup A) ls -> NoDup (tag_all k ls).
Proof.
  induction ls as [|l t IH]; intros k H; cbn [tag_all]; [constructor|].
  inversion H; subst. apply NoDup_app_intro; [apply tag_nodup; assumption|apply IH; assumption|].
  intros x Hx1 Hx2. apply tag_in in Hx1. apply tag_all_fst_ge in Hx2. lia.
Qed.

Lemma tag_all_length {A} : forall (ls : list (list A)) k,
  length (tag_all k ls) = fold_right (fun l n => (length l + n)%nat) 0%nat ls.
Proof.
  induction ls as [|l t IH]; intros k; cbn [tag_all fold_right]; [reflexivity|].
  rewrite app_length, tag_length, IH. reflexivity.
Qed.

Lemma perm_interleave {A} (a b c d : list A) :
  Permutation ((a ++ b) ++ (c ++ d)) ((a ++ c) ++ (b ++ d)).
Proof.
  rewrite <- !app_assoc. apply Permutation_app_head.
  rewrite !app_assoc. apply Permutation_app_tail. apply Permutation_app_comm.
Qed.

(* ------------------------------------------------------------------ *)
(* the loop = concatenation of the per-frame results, in order *)
Definition frame_results (fx : bool) (thr : Q) (fps : list fpair) (rs : list (list mpair * list nat)) : Prop :=
  Forall2 (fun fp r => match_frame fx thr fp = Some r) fps rs.

Lemma mfp_fold_none fx thr : forall fps, fold_left (mfp_step fx thr) fps None = None.
Proof. induction fps as [|fp t IH]; cbn [fold_left mfp_step]; [reflexivity|exact IH]. Qed.

Lemma mfp_fold_sound fx thr : forall fps k ps0 fns0 k' ps fns,
  fold_left (mfp_step fx thr) fps (Some (k, ps0, fns0)) = Some (k', ps, fns) ->
  exists rs, frame_results fx thr fps rs /\ k' = (k + length fps)%nat /\
             ps = ps0 ++ tag_all k (map fst rs) /\ fns = fns0 ++ tag_all k (map snd rs).
Proof.
  induction fps as [|fp t IH]; intros k ps0 fns0 k' ps fns H; cbn [fold_left] in H.
  - inversion H; subst. exists []. cbn [map tag_all length]. rewrite !app_nil_r.
    repeat split; [constructor|lia].
  - cbn [mfp_step] in H. destruct (match_frame fx thr fp) as [[ms missed]|] eqn:E.
    + apply IH in H. destruct H as [rs [Hrs [Hk [Hps Hfns]]]].
      exists ((ms, missed) :: rs). cbn [map tag_all fst snd length].
      split; [constructor; assumption|]. split; [lia|].
      rewrite <- !app_assoc in *. auto.
    + rewrite mfp_fold_none in H. discriminate.
Qed.

Lemma mfp_fold_complete fx thr : forall fps rs, frame_results fx thr fps rs -> forall k ps0 fns0,
  fold_left (mfp_step fx thr) fps (Some (k, ps0, fns0)) =
  Some ((k + length fps)%nat, ps0 ++ tag_all k (map fst rs), fns0 ++ tag_all k (map snd rs)).
Proof.
  intros fps rs H. induction H as [|fp r fps rs Hr Hrest IH]; intros k ps0 fns0; cbn [fold_left].
  - cbn [map tag_all length]. rewrite !app_nil_r, Nat.add_0_r. reflexivity.
  - cbn [mfp_step]. rewrite Hr. destruct r as [ms missed]. rewrite IH.
    cbn [map tag_all fst snd length]. rewrite <- !app_assoc. f_equal. f_equal. f_equal. lia.
Qed.

Lemma match_frame_pairs_concat fx thr fps ps fns :
  match_frame_pairs fx thr fps = Some (ps, fns) <->
  exists rs, frame_results fx thr fps rs /\
             ps = tag_all 0 (map fst rs) /\ fns = tag_all 0 (map snd rs).
Proof.
  unfold match_frame_pairs. split.
  - destruct (fold_left (mfp_step fx thr) fps (Some (0%nat, [], []))) as [[[k' ps'] fns']|] eqn:E;
      [|discriminate].
    intros H. inversion H; subst. apply mfp_fold_sound in E.
    destruct E as [rs [Hrs [_ [Hps Hfns]]]]. exists rs. cbn [app] in *. auto.
  - intros [rs [Hrs [Hps Hfns]]]. rewrite (mfp_fold_complete fx thr fps rs Hrs). cbn [app].
    subst. reflexivity.
Qed.

(* an exception leaves the loop: None iff some frame pair has no answer *)
Lemma mfp_fold_fails fx thr : forall fps st,
  fold_left (mfp_step fx thr) fps (Some st) = None ->
  Exists (fun fp => match_frame fx thr fp = None) fps.
Proof.
  induction fps as [|fp t IH]; intros st H; cbn [fold_left] in H; [discriminate|].
  destruct st as [[k ps] fns]. cbn [mfp_step] in H.
  destruct (match_frame fx thr fp) as [[ms missed]|] eqn:E.
  - apply Exists_cons_tl. eapply IH. exact H.
  - apply Exists_cons_hd. exact E.
Qed.

Lemma match_frame_none fx thr fp :
  match_frame fx thr fp = None -> fx = false /\ fp_ngt fp = 0%nat /\ fp_scores fp <> [].
Proof.
  unfold match_frame, match_instances. destruct (fp_ngt fp) as [|n]; [|discriminate].
  destruct (fp_scores fp) as [|s t]; [discriminate|]. destruct fx; [discriminate|].
  intros _. repeat split. discriminate.
Qed.

Lemma match_frame_pairs_fails fx thr fps :
  match_frame_pairs fx thr fps = None ->
  fx = false /\ Exists (fun fp => fp_ngt fp = 0%nat /\ fp_scores fp <> []) fps.
Proof.
  unfold match_frame_pairs.
  destruct (fold_left (mfp_step fx thr) fps (Some (0%nat, [], []))) as [[[k' ps'] fns']|] eqn:E;
    [discriminate|]. intros _. apply mfp_fold_fails in E.
  split.
  - apply Exists_exists in E. destruct E as [fp [_ Hn]]. apply match_frame_none in Hn. tauto.
  - eapply Exists_impl; [|exact E]. intros fp Hn. apply match_frame_none in Hn. tauto.
Qed.

Lemma frame_results_total thr : forall fps, exists rs, frame_results true thr fps rs.
Proof.
  induction fps as [|fp t [rs IH]]; [exists []; constructor|].
  destruct (match_frame true thr fp) as [r|] eqn:E.
  - exists (r :: rs). constructor; assumption.
  - apply match_frame_none in E. destruct E as [E _]. discriminate.
Qed.

Lemma match_frame_pairs_total thr fps : exists r, match_frame_pairs true thr fps = Some r.
Proof.
  destruct (frame_results_total thr fps) as [rs Hrs].
  exists (tag_all 0 (map fst rs), tag_all 0 (map snd rs)).
  apply match_frame_pairs_concat. exists rs. auto.
Qed.

(* ------------------------------------------------------------------ *)
(* conservation over the whole list *)
Lemma frames_conservation_gen fx thr : forall fps rs, frame_results fx thr fps rs -> forall k,
  Permutation (tag_all k (map (map gt_of) (map fst rs)) ++ tag_all k (map snd rs))
              (tag_all k (map (fun fp => seq 0 (fp_ngt fp)) fps)).
Proof.
  intros fps rs H. induction H as [|fp r fps rs Hr Hrest IH]; intros k; cbn [map tag_all].
  - reflexivity.
  - destruct r as [ms missed]. cbn [fst snd].
    etransitivity; [apply perm_interleave|]. apply Permutation_app; [|apply IH].
    rewrite <- tag_app. unfold tag. apply Permutation_map.
    unfold match_frame in Hr. apply match_instances_spec in Hr. tauto.
Qed.

Lemma fm_gt_map (ps : list fmatch) : map fm_gt ps = map (fun m => (fst m, gt_of (snd m))) ps.
Proof. reflexivity. Qed.
Lemma fm_pr_map (ps : list fmatch) : map fm_pr ps = map (fun m => (fst m, pr_of (snd m))) ps.
Proof. reflexivity. Qed.

Lemma match_frame_pairs_conservation fx thr fps ps fns :
  match_frame_pairs fx thr fps = Some (ps, fns) ->
  Permutation (map fm_gt ps ++ fns) (all_gt fps).
Proof.
  intros H. apply match_frame_pairs_concat in H. destruct H as [rs [Hrs [Hps Hfns]]]. subst.
  rewrite fm_gt_map, map_tag_all. unfold all_gt. apply (frames_conservation_gen fx thr fps rs Hrs).
Qed.

Lemma all_gt_length_gen : forall fps k,
  length (tag_all k (map (fun fp => seq 0 (fp_ngt fp)) fps)) = total_gt fps.
Proof.
  induction fps as [|fp t IH]; intros k; cbn [map tag_all total_gt fold_right]; [reflexivity|].
  rewrite app_length, tag_length, seq_length, IH. reflexivity.
Qed.

Lemma match_frame_pairs_count fx thr fps ps fns :
  match_frame_pairs fx thr fps = Some (ps, fns) ->
  (length ps + length fns = total_gt fps)%nat.
Proof.
  intros H. apply match_frame_pairs_conservation in H. apply Permutation_length in H.
  rewrite app_length, map_length in H. unfold all_gt in H. rewrite all_gt_length_gen in H. exact H.
Qed.

Lemma all_gt_nodup fps : NoDup (all_gt fps).
Proof.
  unfold all_gt. apply tag_all_nodup. apply Forall_forall. intros l Hl.
  apply in_map_iff in Hl. destruct Hl as [fp [Hfp _]]. subst. apply seq_NoDup.
Qed.

(* ------------------------------------------------------------------ *)
(* each gt and each prediction used at most once across the list *)
Lemma match_frame_pairs_one_to_one fx thr fps ps fns :
  match_frame_pairs fx thr fps = Some (ps, fns) ->
  NoDup (map fm_gt ps ++ fns) /\ NoDup (map fm_pr ps).
Proof.
  intros H. split.
  - eapply Permutation_NoDup; [apply Permutation_sym; eapply match_frame_pairs_conservation; exact H|].
    apply all_gt_nodup.
  - apply match_frame_pairs_concat in H. destruct H as [rs [Hrs [Hps _]]]. subst ps.
    rewrite fm_pr_map, map_tag_all. apply tag_all_nodup.
    clear fns. induction Hrs as [|fp r fps rs Hr Hrest IH]; cbn [map]; constructor; [|exact IH].
    destruct r as [ms missed]. cbn [fst]. unfold match_frame in Hr.
    apply match_instances_spec in Hr. tauto.
Qed.

(* every reported pair lies inside one frame pair, is an entry of that pair's score
   matrix and is above the threshold *)
Definition pair_in_frame (thr : Q) (fps : list fpair) (k : nat) (m : fmatch) : Prop :=
  exists j fp, fst m = (k + j)%nat /\ nth_error fps j = Some fp /\
    (fst (fm_gt m) = fst m) /\ (snd (fm_gt m) < fp_ngt fp)%nat /\
    (snd (fm_pr m) < length (fp_scores fp))%nat /\
    mget (fp_oks fp) (snd (fm_gt m)) (snd (fm_pr m)) = Some (fm_oks m) /\ eligible thr (fm_oks m).

Lemma frames_pairs_gen fx thr : forall fps rs, frame_results fx thr fps rs -> forall k,
  Forall (pair_in_frame thr fps k) (tag_all k (map fst rs)).
Proof.
  intros fps rs H. induction H as [|fp r fps rs Hr Hrest IH]; intros k; cbn [map tag_all].
  - constructor.
  - destruct r as [ms missed]. cbn [fst]. apply Forall_app. split.
    + unfold match_frame in Hr. apply match_instances_spec in Hr.
      destruct Hr as [_ [_ [_ Hall]]]. unfold tag. apply Forall_map.
      eapply Forall_impl; [|exact Hall]. intros m [H1 [H2 [H3 H4]]].
      exists 0%nat, fp. unfold fm_gt, fm_pr, fm_oks. cbn [fst snd nth_error].
      repeat split; auto; lia.
    + specialize (IH (S k)). eapply Forall_impl; [|exact IH].
      intros m [j [fp' [Hj [Hn Hrest']]]]. exists (S j), fp'. cbn [nth_error].
      split; [lia|]. split; [exact Hn|exact Hrest'].
Qed.

Lemma match_frame_pairs_valid fx thr fps ps fns :
  match_frame_pairs fx thr fps = Some (ps, fns) -> Forall (pair_in_frame thr fps 0) ps.
Proof.
  intros H. apply match_frame_pairs_concat in H. destruct H as [rs [Hrs [Hps _]]]. subst ps.
  apply (frames_pairs_gen fx thr fps rs Hrs).
Qed.

(* ------------------------------------------------------------------ *)
(* frames with nothing to match still report every gt instance as missed *)
Lemma match_frame_no_predictions fx thr n M : match_frame fx thr (n, [], M) = Some ([], seq 0 n).
Proof. unfold match_frame, match_instances. cbn [fp_ngt fp_scores fp_oks fst snd]. destruct n; reflexivity. Qed.

Lemma match_frame_no_gt thr scores M : match_frame true thr (0%nat, scores, M) = Some ([], []).
Proof. unfold match_frame, match_instances. cbn [fp_ngt fp_scores fp_oks fst snd]. destruct scores; reflexivity. Qed.

Lemma best_from_all_low thr : forall vals pos,
  (forall q, In (Some q) vals -> (q <= thr)%Q) -> best_from thr vals pos None = None.
Proof.
  induction vals as [|v t IH]; intros pos H; cbn [best_from]; [reflexivity|].
  destruct v as [q|].
  - assert (Hq : Qle_bool q thr = true) by (apply Qle_bool_iff; apply H; left; reflexivity).
    rewrite Hq. apply IH. intros q' Hin. apply H. right. exact Hin.
  - apply IH. intros q' Hin. apply H. right. exact Hin.
Qed.

Lemma match_loop_all_low M thr :
  (forall g p q, mget M g p = Some q -> (q <= thr)%Q) ->
  forall order avail, match_loop M thr order avail = ([], avail).
Proof.
  intros Hlow. induction order as [|p rest IH]; intros avail; cbn [match_loop]; [reflexivity|].
  destruct avail as [|a0 av] eqn:Eav; [reflexivity|]. rewrite <- Eav.
  unfold best_pos. rewrite best_from_all_low; [apply IH|].
  intros q Hin. apply in_map_iff in Hin. destruct Hin as [g [Hg _]]. eapply Hlow. exact Hg.
Qed.

Lemma match_frame_all_below fx thr fp r :
  (forall g p q, mget (fp_oks fp) g p = Some q -> (q <= thr)%Q) ->
  match_frame fx thr fp = Some r -> r = ([], seq 0 (fp_ngt fp)).
Proof.
  intros Hlow. unfold match_frame, match_instances.
  destruct (fp_ngt fp) as [|n] eqn:En; [destruct (fp_scores fp) as [|s t]|].
  - intros H. inversion H. reflexivity.
  - destruct fx; [|discriminate]. intros H. inversion H. reflexivity.
  - rewrite (match_loop_all_low _ _ Hlow). intros H. inversion H. reflexivity.
Qed.

(* a list in which no frame pair can be matched reports every gt instance as missed *)
Lemma match_frame_pairs_nothing_matches fx thr fps ps fns :
  Forall (fun fp => fp_scores fp = [] \/
                    forall g p q, mget (fp_oks fp) g p = Some q -> (q <= thr)%Q) fps ->
  match_frame_pairs fx thr fps = Some (ps, fns) -> ps = [] /\ fns = all_gt fps.
Proof.
  intros Hall H. apply match_frame_pairs_concat in H. destruct H as [rs [Hrs [Hps Hfns]]]. subst.
  unfold all_gt.
  cut (forall k, tag_all k (map fst rs) = [] /\
                 tag_all k (map snd rs) = tag_all k (map (fun fp => seq 0 (fp_ngt fp)) fps));
    [intros Hk; apply Hk|].
  induction Hrs as [|fp r fps rs Hr Hrest IH]; intros k; cbn [map tag_all]; [auto|].
  inversion Hall as [|? ? Hfp Hall']; subst.
  assert (Er : r = ([], seq 0 (fp_ngt fp))).
  { destruct Hfp as [Hs|Hlow].
    - destruct fp as [[n sc] M]. cbn [fp_scores fst snd] in Hs. subst sc.
      rewrite match_frame_no_predictions in Hr. inversion Hr. reflexivity.
    - eapply match_frame_all_below; eauto. }
  subst r. cbn [fst snd]. destruct (IH Hall' (S k)) as [H1 H2]. rewrite H1, H2. auto.
Qed.
