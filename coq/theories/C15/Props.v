(* Props.v (C15) — statements only.  Proofs: C15/Lemmas.v, C15/LemmasFrames.v (frame lists).

   Reading.  A coordinate is `option Q` (None = NaN), a point the list of its
   coordinates, `missing p` = some coordinate is NaN.  `oks_pair coco scale sds g p`
   is the model of one entry of compute_oks: (per-keypoint arguments of exp,
   number of visible gt keypoints); `oks_val` is its real value
   (sum of exp / n_visible).  `compute_oks fixed_F22 ...` is the function as coded
   (None = the IndexError of F22), `oks_matrix` its matrix.  Poses are split as
   g1 ++ gk :: g2 to speak about "the keypoint at one node".
   Domain: at least one visible gt keypoint (otherwise the value is 0/0 = NaN,
   ex_c15_all_missing_gt_is_nan), stddev > 0 (`sds_ok`), scale >= 0 (`scale_ok` /
   `scspec_ok`; the automatic scale always is: c15_auto_scale_defined).  Every theorem
   about a VALUE (`oks_val`) carries these three hypotheses (review round 4, finding 1):
   outside the domain the model's totalised arithmetic (x / 0 = 0 in Q and R, "missing
   prediction -> term 0" whatever the sign of the normalisation) no longer describes the
   code, which returns NaN (stddev 0, no visible gt keypoint) or exp(+inf) = inf for a
   missing prediction under a negative scale (ex_c15_negative_scale_outside_domain).
   Theorems that are equalities of the exp-ARGUMENTS (c15_gt_missing_prediction_irrelevant,
   c15_matrix_entry, c15_matrix_reorder) are structural and need no domain.
   Shapes are consistent (model precondition): every pose, the stddev list and a vector
   scale have the lengths the code would accept; `zip`/`zip3` truncate ragged input where
   the code raises a broadcast error.
   Pinned tree vs current tree: F22 / F51 were defects of the pinned tree, repaired in /repo
   by bc2102a / 8044028.  `compute_oks false`, `match_instances false`, `match_frame_pairs
   false` are the PRE-REPAIR variants (no code implements them any more; kept so that a
   regression is reported: the harness replays the witnesses and switches the flag);
   `... true` is the current tree. *)
From Coq Require Import List Arith ZArith QArith Qreals Reals Permutation.
Import ListNotations.
From SV Require Import C15.Oks C15.Lemmas C15.Frames C15.LemmasFrames.
Local Open Scope R_scope.

(* ---- OKS lies in [0,1] ---- *)
Theorem c15_oks_range : forall coco sc sds g p,
  scale_ok sc -> sds_ok sds -> (1 <= n_visible g)%nat ->
  0 <= oks_val (oks_pair coco sc sds g p) <= 1.
Proof. exact oks_pair_range. Qed.
Print Assumptions c15_oks_range.

(* ... for every entry the function returns, with every scale / stddev option *)
Theorem c15_compute_oks_range : forall fixed n_ed n gts prs sc sd coco M i j e g,
  compute_oks fixed n_ed n gts prs sc sd coco = Some M ->
  scspec_ok sc -> sds_ok (sd_list sd n) ->
  entry M i j = Some e -> nth_error gts i = Some g -> (1 <= n_visible g)%nat ->
  0 <= oks_val e <= 1.
Proof. exact compute_oks_range. Qed.
Print Assumptions c15_compute_oks_range.

Theorem c15_auto_scale_defined : forall n_ed g,
  Forall (fun p => length p = n_ed) g -> (1 <= n_visible g)%nat ->
  exists a, area n_ed g = Some a /\ (0 <= a)%Q.
Proof. exact area_defined. Qed.
Print Assumptions c15_auto_scale_defined.

(* ---- identical poses give exactly 1 ---- *)
Theorem c15_oks_identical : forall coco s sds g,
  scale_ok (Some s) -> sds_ok sds ->
  (1 <= n_visible g)%nat -> (length g <= length sds)%nat ->
  oks_val (oks_pair coco (Some s) sds g g) = 1.
Proof. intros coco s sds g _ _. apply oks_pair_identical. Qed.
Print Assumptions c15_oks_identical.

(* ---- keypoints missing in the ground truth are ignored ---- *)
(* whatever is predicted at such a node, the entry is the same ... *)
Theorem c15_gt_missing_prediction_irrelevant : forall coco sc g1 gk g2 p1 pk pk' p2 s1 sd s2,
  length g1 = length p1 -> length g1 = length s1 -> missing gk = true ->
  oks_pair coco sc (s1 ++ sd :: s2) (g1 ++ gk :: g2) (p1 ++ pk :: p2) =
  oks_pair coco sc (s1 ++ sd :: s2) (g1 ++ gk :: g2) (p1 ++ pk' :: p2).
Proof. exact oks_pair_ignores_pr_at_missing_gt. Qed.
Print Assumptions c15_gt_missing_prediction_irrelevant.

(* ... and the node can be deleted altogether without changing the value
   (the automatic scale is unchanged too when the keypoint is NaN in every
   coordinate; a half-NaN keypoint does enter the bounding box:
   ex_c15_half_missing_gt_enters_bbox) *)
Theorem c15_gt_missing_node_removable : forall coco sc g1 gk g2 p1 pk p2 s1 sd s2,
  scale_ok sc -> sds_ok (s1 ++ sd :: s2) -> (1 <= n_visible (g1 ++ gk :: g2))%nat ->
  length g1 = length p1 -> length g1 = length s1 -> missing gk = true ->
  oks_val (oks_pair coco sc (s1 ++ sd :: s2) (g1 ++ gk :: g2) (p1 ++ pk :: p2)) =
  oks_val (oks_pair coco sc (s1 ++ s2) (g1 ++ g2) (p1 ++ p2)).
Proof. intros coco sc g1 gk g2 p1 pk p2 s1 sd s2 _ _ _. apply oks_pair_drop_missing_gt_node. Qed.
Print Assumptions c15_gt_missing_node_removable.

Theorem c15_auto_scale_ignores_fully_missing : forall n_ed g1 gk g2,
  Forall (fun c => c = None) gk -> area n_ed (g1 ++ gk :: g2) = area n_ed (g1 ++ g2).
Proof. exact area_drop_fully_missing. Qed.
Print Assumptions c15_auto_scale_ignores_fully_missing.

(* ---- a keypoint missing in the prediction is a complete miss: its term is 0
   while the (visible) gt keypoint still counts in the divisor; no prediction at
   that node can do worse ---- *)
(* (the formal reading of "complete miss": a `_def`-style unfolding of the model, meaningful
   only under the domain hypotheses, where "term 0" is what the code computes) *)
Theorem c15_pr_missing_is_complete_miss : forall coco sc g1 gk g2 p1 pk p2 s1 sd s2,
  scale_ok sc -> sds_ok (s1 ++ sd :: s2) -> (1 <= n_visible (g1 ++ gk :: g2))%nat ->
  length g1 = length p1 -> length g1 = length s1 -> missing pk = true ->
  oks_val (oks_pair coco sc (s1 ++ sd :: s2) (g1 ++ gk :: g2) (p1 ++ pk :: p2)) =
  (rsum (map val (terms coco sc s1 g1 p1)) + 0 + rsum (map val (terms coco sc s2 g2 p2)))
  / INR (n_visible (g1 ++ gk :: g2)).
Proof. intros coco sc g1 gk g2 p1 pk p2 s1 sd s2 _ _ _. apply oks_pair_missing_pr. Qed.
Print Assumptions c15_pr_missing_is_complete_miss.

Theorem c15_pr_missing_never_better : forall coco sc g1 gk g2 p1 pk pk' p2 s1 sd s2,
  scale_ok sc -> sds_ok (s1 ++ sd :: s2) -> (1 <= n_visible (g1 ++ gk :: g2))%nat ->
  length g1 = length p1 -> length g1 = length s1 -> missing pk = true ->
  oks_val (oks_pair coco sc (s1 ++ sd :: s2) (g1 ++ gk :: g2) (p1 ++ pk :: p2)) <=
  oks_val (oks_pair coco sc (s1 ++ sd :: s2) (g1 ++ gk :: g2) (p1 ++ pk' :: p2)).
Proof. intros coco sc g1 gk g2 p1 pk pk' p2 s1 sd s2 _ _ _. apply oks_pair_missing_pr_le. Qed.
Print Assumptions c15_pr_missing_never_better.

(* ---- moving one predicted keypoint farther from its target never increases OKS ---- *)
Theorem c15_oks_monotone : forall coco sc g1 gk g2 p1 pk pk' p2 s1 sd s2,
  length g1 = length p1 -> length g1 = length s1 ->
  sds_ok (s1 ++ sd :: s2) -> scale_ok sc -> (1 <= n_visible (g1 ++ gk :: g2))%nat ->
  missing pk = false -> missing pk' = false ->
  (dist2 gk pk <= dist2 gk pk')%Q ->
  oks_val (oks_pair coco sc (s1 ++ sd :: s2) (g1 ++ gk :: g2) (p1 ++ pk' :: p2)) <=
  oks_val (oks_pair coco sc (s1 ++ sd :: s2) (g1 ++ gk :: g2) (p1 ++ pk :: p2)).
Proof.
  intros coco sc g1 gk g2 p1 pk pk' p2 s1 sd s2 H1 H2 Hsd Hsc _. apply oks_pair_monotone; try assumption.
  unfold sds_ok in Hsd. apply Forall_app in Hsd. destruct Hsd as [_ Hsd]. inversion Hsd; assumption.
Qed.
Print Assumptions c15_oks_monotone.

(* ---- translating both poses leaves OKS unchanged (t k = offset of coordinate k);
   the automatic scale is translation invariant, so this holds for every scale option ---- *)
Theorem c15_translation_invariant : forall n_ed n gts prs sc sd coco t i j e e' g,
  scspec_ok sc -> sds_ok (sd_list sd n) -> nth_error gts i = Some g -> (1 <= n_visible g)%nat ->
  entry (oks_matrix n_ed n (map (translate t) gts) (map (translate t) prs) sc sd coco) i j = Some e' ->
  entry (oks_matrix n_ed n gts prs sc sd coco) i j = Some e ->
  oks_val e' = oks_val e.
Proof. intros n_ed n gts prs sc sd coco t i j e e' g _ _ _ _. apply oks_matrix_translate. Qed.
Print Assumptions c15_translation_invariant.

Theorem c15_auto_scale_translation_invariant : forall n_ed t g,
  ceq (area n_ed (translate t g)) (area n_ed g).
Proof. exact area_translate. Qed.
Print Assumptions c15_auto_scale_translation_invariant.

(* ---- reordering instances permutes the matrix: entry (i,j) is the pair function of
   (gt i, its scale, prediction j) and nothing else ---- *)
Theorem c15_matrix_entry : forall n_ed n gts prs sc sd coco i j g p s,
  nth_error gts i = Some g -> nth_error prs j = Some p ->
  nth_error (scale_list n_ed sc gts) i = Some s ->
  entry (oks_matrix n_ed n gts prs sc sd coco) i j = Some (oks_pair coco s (sd_list sd n) g p).
Proof. exact oks_matrix_entry. Qed.
Print Assumptions c15_matrix_entry.

(* with an automatic or scalar scale: selecting / reordering gt instances by pi and
   predictions by pj selects / reorders rows and columns (`pick d idx l` = [l[i] | i in idx]) *)
Theorem c15_matrix_reorder : forall n_ed n gts prs sc sd coco pi pj dflt,
  uniform sc ->
  Forall (fun i => (i < length gts)%nat) pi -> Forall (fun j => (j < length prs)%nat) pj ->
  oks_matrix n_ed n (pick [] pi gts) (pick [] pj prs) sc sd coco =
  pick [] pi (map (pick dflt pj) (oks_matrix n_ed n gts prs sc sd coco)).
Proof. exact oks_matrix_reorder. Qed.
Print Assumptions c15_matrix_reorder.

(* with a vector scale: reordering the gt instances together with their scales (and the predictions)
   permutes the entries — the clause "reordering instances" for every scale option *)
Theorem c15_matrix_reorder_vector_scale : forall n_ed n gts prs l sd coco pi pj a b i j g p s,
  nth_error pi a = Some i -> nth_error pj b = Some j ->
  nth_error gts i = Some g -> nth_error prs j = Some p -> nth_error l i = Some s ->
  entry (oks_matrix n_ed n (pick [] pi gts) (pick [] pj prs) (ScVec (pick 0%Q pi l)) sd coco) a b =
  entry (oks_matrix n_ed n gts prs (ScVec l) sd coco) i j.
Proof. exact oks_matrix_reorder_vector. Qed.
Print Assumptions c15_matrix_reorder_vector_scale.

(* ---- F22 (HISTORICAL: the pinned tree before fix bc2102a; the current tree is `compute_oks true`,
   c15_oks_fixed_total): as then coded, the matrix existed only for exactly one prediction.
   `compute_oks false` is a hand-written flag (`if fixed || length prs =? 1`), so
   c15_oks_as_coded_fails_iff is a `_def` fact about that flag, not derived from a model of numpy mask
   indexing; c15_oks_single_prediction_partial is superseded by c15_oks_fixed_total on the current tree
   (names kept for the record). ---- *)
Theorem c15_oks_matrix_refuted :
  exists n_ed n gts prs sc sd,
    Forall (fun g => (1 <= n_visible g)%nat) gts /\ length prs = 2%nat /\
    compute_oks false n_ed n gts prs sc sd true = None.
Proof.
  exists 2%nat, 2%nat, [[[Some 0%Q; Some 0%Q]; [Some 4%Q; Some 0%Q]]],
    [[[Some 0%Q; Some 0%Q]; [Some 4%Q; Some 1%Q]]; [[Some 1%Q; Some 1%Q]; [Some 5%Q; Some 3%Q]]],
    ScNone, (SdScalar (1 # 40)).
  split; [repeat constructor|]. split; reflexivity.
Qed.
Print Assumptions c15_oks_matrix_refuted.

Theorem c15_oks_as_coded_fails_iff : forall n_ed n gts prs sc sd coco,
  compute_oks false n_ed n gts prs sc sd coco = None <-> length prs <> 1%nat.
Proof. exact compute_oks_as_coded_none. Qed.
Print Assumptions c15_oks_as_coded_fails_iff.

(* the strongest true statement on the pinned tree (before bc2102a): one prediction at a time
   (all callers in the repo), the column is the model matrix *)
Theorem c15_oks_single_prediction_partial : forall fixed n_ed n gts p sc sd coco,
  compute_oks fixed n_ed n gts [p] sc sd coco = Some (oks_matrix n_ed n gts [p] sc sd coco).
Proof. exact compute_oks_single. Qed.
Print Assumptions c15_oks_single_prediction_partial.

Theorem c15_oks_fixed_total : forall n_ed n gts prs sc sd coco,
  compute_oks true n_ed n gts prs sc sd coco = Some (oks_matrix n_ed n gts prs sc sd coco).
Proof. exact compute_oks_fixed_some. Qed.
Print Assumptions c15_oks_fixed_total.

(* ---- matching: each gt and each prediction at most once; matched ++ missed is a
   permutation of all gt; every reported pair is an entry of the score matrix above
   the threshold (for every matrix, all scores, every threshold) ---- *)
Theorem c15_match_one_to_one_and_conservation : forall fixed n_gt scores M thr ms missed,
  match_instances fixed n_gt scores M thr = Some (ms, missed) ->
  NoDup (map gt_of ms) /\ NoDup (map pr_of ms) /\
  Permutation (map gt_of ms ++ missed) (seq 0 n_gt) /\
  Forall (fun m => (gt_of m < n_gt)%nat /\ (pr_of m < length scores)%nat /\
                   mget M (gt_of m) (pr_of m) = Some (oks_of m) /\ eligible thr (oks_of m)) ms.
Proof. exact match_instances_spec. Qed.
Print Assumptions c15_match_one_to_one_and_conservation.

(* F51 (HISTORICAL: pinned tree before fix 8044028; current tree = `match_instances true`): a frame with
   predictions and no gt instance had no answer (ValueError); c15_match_total_partial is superseded by
   c15_frames_total on the current tree *)
Theorem c15_match_zero_gt_refuted : exists scores M thr,
  match_instances false 0 scores M thr = None.
Proof. exists [1#2]%Q, [], 0%Q. reflexivity. Qed.
Print Assumptions c15_match_zero_gt_refuted.

Theorem c15_match_total_partial : forall fixed n_gt scores M thr,
  (fixed = true \/ (1 <= n_gt)%nat \/ scores = []) ->
  exists r, match_instances fixed n_gt scores M thr = Some r.
Proof.
  intros fixed n_gt scores M thr H. unfold match_instances.
  destruct n_gt as [|n]; [destruct scores as [|s sc]|]; eauto.
  destruct H as [H|[H|H]]; [subst; eauto | inversion H | discriminate].
Qed.
Print Assumptions c15_match_total_partial.

(* ---- "arbitrary scores" of the quantifier (review round 4, finding 2): a predicted frame as the code sees
   it, `list pscore` = per instance no `score` attribute / NaN score / a rational score.  The code filters
   the scores with `hasattr(m.instance, "score")` but indexes the UNFILTERED instance list with the argsort
   positions of the filtered array, so with k scored instances among n exactly the FIRST k instances are
   candidates (ex_c15_scoreless_shifts_indices: a perfect, scored prediction is never visited).  The wrong
   pairing does not touch what the property claims: one-to-one and conservation hold on every predicted
   frame (observation, not a finding of C15); NaN scores sort last, stably. ---- *)
Theorem c15_match_any_predicted_frame : forall fixed n_gt prs M thr ms missed,
  match_instances_gen fixed n_gt prs M thr = Some (ms, missed) ->
  NoDup (map gt_of ms) /\ NoDup (map pr_of ms) /\
  Permutation (map gt_of ms ++ missed) (seq 0 n_gt) /\
  Forall (fun m => (gt_of m < n_gt)%nat /\ (pr_of m < length (scored prs))%nat /\ (pr_of m < length prs)%nat /\
                   mget M (gt_of m) (pr_of m) = Some (oks_of m) /\ eligible thr (oks_of m)) ms.
Proof. exact match_instances_gen_spec. Qed.
Print Assumptions c15_match_any_predicted_frame.

(* on frames whose instances all carry a rational score it is match_instances *)
Theorem c15_match_gen_agrees_on_scores : forall fixed n_gt scores M thr,
  match_instances_gen fixed n_gt (map Score scores) M thr = match_instances fixed n_gt scores M thr.
Proof. exact match_instances_gen_scores. Qed.
Print Assumptions c15_match_gen_agrees_on_scores.

(* a score-less instance anywhere in the frame makes the last instance unreachable *)
Theorem c15_scoreless_hides_last_instances : forall fixed n_gt prs M thr ms missed,
  In NoScore prs -> match_instances_gen fixed n_gt prs M thr = Some (ms, missed) ->
  ~ In (Nat.pred (length prs)) (map pr_of ms).
Proof.
  intros fixed n_gt prs M thr ms missed Hin H Hc.
  destruct (match_instances_gen_spec _ _ _ _ _ _ _ H) as [_ [_ [_ Hall]]].
  apply in_map_iff in Hc. destruct Hc as [m [Hm Hc]]. rewrite Forall_forall in Hall.
  destruct (Hall m Hc) as [_ [Hlt _]]. pose proof (scored_length_noscore prs Hin). rewrite Hm in Hlt.
  destruct prs; [contradiction|]. cbn [length Nat.pred] in *.
  apply (Nat.lt_irrefl (length prs)). eapply Nat.lt_le_trans; [exact Hlt|]. apply Nat.lt_succ_r. exact H0.
Qed.
Print Assumptions c15_scoreless_hides_last_instances.

(* ---- matching over the frames of an evaluation (match_frame_pairs, Frames.v) ----
   fps: the frame pairs, each (n_gt, prediction scores, OKS matrix); any pair may have no gt
   instance, no predicted instance, or neither.  Instances are (frame position, index).
   `fm_gt m` / `fm_pr m` = the gt / predicted instance of a reported pair. *)

(* the loop with its two accumulators = the per-frame results of match_instances laid end to
   end in frame order (no frame pair skipped, none visited twice) *)
Theorem c15_frames_concatenation : forall fixed thr fps ps fns,
  match_frame_pairs fixed thr fps = Some (ps, fns) <->
  exists rs, Forall2 (fun fp r => match_frame fixed thr fp = Some r) fps rs /\
             ps = tag_all 0 (map fst rs) /\ fns = tag_all 0 (map snd rs).
Proof. exact match_frame_pairs_concat. Qed.
Print Assumptions c15_frames_concatenation.

(* conservation over the whole list: matched ++ missed is a permutation of every gt instance
   of every frame pair; in particular the counts add up *)
Theorem c15_frames_conservation : forall fixed thr fps ps fns,
  match_frame_pairs fixed thr fps = Some (ps, fns) ->
  Permutation (map fm_gt ps ++ fns) (all_gt fps) /\
  (length ps + length fns = total_gt fps)%nat.
Proof.
  intros fixed thr fps ps fns H. split;
    [eapply match_frame_pairs_conservation|eapply match_frame_pairs_count]; exact H.
Qed.
Print Assumptions c15_frames_conservation.

(* each gt instance is matched or missed at most once (never both), each predicted instance is
   used at most once, across the whole list; every pair stays inside one frame pair, is an
   entry of that pair's score matrix and is above the threshold *)
Theorem c15_frames_one_to_one : forall fixed thr fps ps fns,
  match_frame_pairs fixed thr fps = Some (ps, fns) ->
  NoDup (map fm_gt ps ++ fns) /\ NoDup (map fm_pr ps) /\
  Forall (fun m => exists fp, nth_error fps (fst m) = Some fp /\
            (snd (fm_gt m) < fp_ngt fp)%nat /\ (snd (fm_pr m) < length (fp_scores fp))%nat /\
            mget (fp_oks fp) (snd (fm_gt m)) (snd (fm_pr m)) = Some (fm_oks m) /\
            eligible thr (fm_oks m)) ps.
Proof.
  intros fixed thr fps ps fns H.
  destruct (match_frame_pairs_one_to_one _ _ _ _ _ H) as [H1 H2]. split; [exact H1|]. split; [exact H2|].
  eapply Forall_impl; [|eapply match_frame_pairs_valid; exact H].
  intros m [j [fp [Hj [Hn [_ Hrest]]]]]. exists fp. cbn [Nat.add] in Hj. rewrite Hj. tauto.
Qed.
Print Assumptions c15_frames_one_to_one.

(* frame pairs with nothing to match: a predicted frame without instances (or whose candidates
   are all NaN / not above the threshold) reports every gt instance of the pair as missed; a gt
   frame without instances contributes nothing *)
Theorem c15_frame_without_match_all_missed : forall fixed thr fp r,
  (fp_scores fp = [] \/ forall g p q, mget (fp_oks fp) g p = Some q -> (q <= thr)%Q) ->
  match_frame fixed thr fp = Some r -> r = ([], seq 0 (fp_ngt fp)).
Proof.
  intros fixed thr fp r [Hs|Hlow] H; [|eapply match_frame_all_below; eauto].
  destruct fp as [[n sc] M]. cbn [fp_scores fp_ngt fst snd] in *. subst sc.
  rewrite match_frame_no_predictions in H. inversion H. reflexivity.
Qed.
Print Assumptions c15_frame_without_match_all_missed.

Theorem c15_frames_nothing_matches_all_missed : forall fixed thr fps ps fns,
  Forall (fun fp => fp_scores fp = [] \/
                    forall g p q, mget (fp_oks fp) g p = Some q -> (q <= thr)%Q) fps ->
  match_frame_pairs fixed thr fps = Some (ps, fns) -> ps = [] /\ fns = all_gt fps.
Proof. exact match_frame_pairs_nothing_matches. Qed.
Print Assumptions c15_frames_nothing_matches_all_missed.

(* totality: the current tree (F51 repaired, 8044028) answers for every list; the pinned tree with F51
   failed exactly when some frame pair has predictions and no gt instance (historical half) *)
Theorem c15_frames_total : forall thr fps, exists r, match_frame_pairs true thr fps = Some r.
Proof. exact match_frame_pairs_total. Qed.
Print Assumptions c15_frames_total.

Theorem c15_frames_fail_only_F51 : forall fixed thr fps,
  match_frame_pairs fixed thr fps = None ->
  fixed = false /\ Exists (fun fp => fp_ngt fp = 0%nat /\ fp_scores fp <> []) fps.
Proof. exact match_frame_pairs_fails. Qed.
Print Assumptions c15_frames_fail_only_F51.

(* ---- helpers of tracking/utils.py ---- *)
Theorem c15_greedy_one_to_one_maximal : forall C,
  let r := greedy_matching C in
  NoDup (map fst r) /\ NoDup (map snd r) /\
  incl r (map snd (edges_of C)) /\
  forall e, In e (map snd (edges_of C)) -> exists e', In e' r /\ (fst e' = fst e \/ snd e' = snd e).
Proof. exact greedy_matching_spec. Qed.
Print Assumptions c15_greedy_one_to_one_maximal.

Theorem c15_iou_range : forall a b, wf_box a -> wf_box b -> (0 <= compute_iou a b <= 1)%Q.
Proof. exact compute_iou_range. Qed.
Print Assumptions c15_iou_range.

Theorem c15_iou_self : forall a, wf_box a -> (compute_iou a a == 1)%Q.
Proof. exact compute_iou_self. Qed.
Print Assumptions c15_iou_self.

(* stated on `dot` (cosine_parts a b = (dot a b, dot a a, dot b b), one unfold apart) *)
Theorem c15_cosine_range : forall a b,
  length a = length b -> (0 < dot a a)%Q -> (0 < dot b b)%Q ->
  -1 <= Q2R (dot a b) / (sqrt (Q2R (dot a a)) * sqrt (Q2R (dot b b))) <= 1.
Proof. exact cosine_range. Qed.
Print Assumptions c15_cosine_range.

(* (trivial: true of any real under the sqrt; recorded only because the function is an anchor) *)
Theorem c15_euclid_nonpos : forall a b, - sqrt (Q2R (sqdist a b)) <= 0.
Proof. exact euclid_nonpos. Qed.
Print Assumptions c15_euclid_nonpos.

(* ---- non-vacuity and recorded observations ---- *)
Example ex_c15_nonvacuous :
  exists e, entry (oks_matrix 2 2 [[[Some 0%Q; Some 0%Q]; [Some 4%Q; Some 3%Q]]]
                     [[[Some 0%Q; Some 1%Q]; [None; Some 3%Q]]] ScNone (SdScalar (1 # 40)) true) 0 0 = Some e
            /\ snd e = 2%nat /\ length (fst e) = 2%nat.
Proof. eexists. split; [vm_compute; reflexivity|]. split; reflexivity. Qed.

(* predicted frame [score-less copy of gt 0 ; copy of gt 1 with score 7/8]: scores_pr = [7/8], argsort = [0]:
   only instance 0 (the score-less one) is visited, the scored perfect copy never is; gt 1 is missed *)
Example ex_c15_scoreless_shifts_indices :
  match_instances_gen true 2 [NoScore; Score (7 # 8)] [[Some 1; Some 0]; [Some 0; Some 1]]%Q 0%Q
  = Some ([(0%nat, 0%nat, 1%Q)], [1%nat]).
Proof. vm_compute. reflexivity. Qed.

(* NaN scores are processed last, in frame order: [NaN; 1/8; NaN; 7/8] -> 3, 1, 0, 2 *)
Example ex_c15_nan_scores_last :
  argsort_desc_o (scored [NanScore; Score (1 # 8); NanScore; Score (7 # 8)]) = [3; 1; 0; 2]%nat.
Proof. vm_compute. reflexivity. Qed.

(* outside the domain (negative scale): the argument of exp is POSITIVE for a present prediction (value > 1) and the code gives exp(+inf) = inf for a missing one, where the model's "missing
   prediction -> term 0" would claim a complete miss; hence `scale_ok` on every value theorem *)
Example ex_c15_negative_scale_outside_domain :
  ~ scale_ok (Some (-3)%Q) /\
  match fst (oks_pair true (Some (-3)%Q) [1 # 1]%Q [[Some 3%Q; Some 4%Q]] [[Some 0%Q; Some 0%Q]]) with
  | [Some q] => (0 < q)%Q
  | _ => False
  end.
Proof. split; [intros H; apply (Qle_bool_iff 0 (-3)) in H; discriminate|vm_compute; reflexivity]. Qed.

(* degenerate bounding box (a single visible keypoint): automatic scale 0, the normalisation is
   carried by eps alone; the hypotheses of c15_oks_range / c15_oks_monotone are met *)
Example ex_c15_degenerate_bbox :
  area 2 [[Some 3%Q; Some 4%Q]; [None; None]] = Some 0%Q /\ scale_ok (Some 0%Q) /\ sds_ok [1 # 40; 1 # 40]%Q /\
  n_visible [[Some 3%Q; Some 4%Q]; [None; None]] = 1%nat.
Proof.
  split; [vm_compute; reflexivity|]. split; [apply Qle_refl|]. split; [|reflexivity].
  repeat constructor.
Qed.

(* all gt keypoints missing: the divisor is 0 (the code returns 0/0 = NaN) — outside the domain *)
Example ex_c15_all_missing_gt_is_nan :
  oks_pair true (area 2 [[None; None]]) [1 # 40]%Q [[None; None]] [[Some 1%Q; Some 1%Q]] = ([None], 0%nat).
Proof. reflexivity. Qed.

(* a gt keypoint with one NaN coordinate is ignored as a keypoint but its finite
   coordinate still enters the bounding box that sets the automatic scale *)
Example ex_c15_half_missing_gt_enters_bbox :
  area 2 [[Some 0%Q; Some 0%Q]; [Some 4%Q; Some 1%Q]; [None; Some 7%Q]] = Some (28 # 1)%Q /\
  area 2 [[Some 0%Q; Some 0%Q]; [Some 4%Q; Some 1%Q]] = Some (4 # 1)%Q.
Proof. split; vm_compute; reflexivity. Qed.

Example ex_c15_match_nonvacuous :
  match_instances false 2 [1 # 2; 7 # 8]%Q [[Some (1 # 4); Some (3 # 4)]; [Some (1 # 2); Some (3 # 4)]]%Q 0%Q
  = Some ([(0%nat, 1%nat, (3 # 4)%Q); (1%nat, 0%nat, (1 # 2)%Q)], []).
Proof. vm_compute. reflexivity. Qed.

(* frame lists: [2 gt, 2 predictions] ; [2 gt, empty predicted frame] ; [empty gt frame, 1 prediction] ;
   [both empty] ; [1 gt, 1 prediction not above the threshold] — 5 gt instances = 2 matched + 3 missed *)
Example ex_c15_frames_nonvacuous :
  match_frame_pairs true (1 # 4)%Q
    [ (2%nat, [1 # 2; 7 # 8]%Q, [[Some (1 # 2); Some (3 # 4)]; [Some (1 # 2); Some (3 # 4)]]%Q);
      (2%nat, [], [[]; []]);
      (0%nat, [1 # 2]%Q, []);
      (0%nat, [], []);
      (1%nat, [1]%Q, [[Some (1 # 4)]]%Q) ]
  = Some ([(0%nat, (0%nat, 1%nat, (3 # 4)%Q)); (0%nat, (1%nat, 0%nat, (1 # 2)%Q))],
          [(1%nat, 0%nat); (1%nat, 1%nat); (4%nat, 0%nat)]).
Proof. vm_compute. reflexivity. Qed.

(* HISTORICAL: the pinned tree (F51, before 8044028) had no answer as soon as one frame pair has predictions and no gt *)
Example ex_c15_frames_F51 :
  match_frame_pairs false 0%Q [ (1%nat, [], [[]]); (0%nat, [1 # 2]%Q, []) ] = None.
Proof. vm_compute. reflexivity. Qed.

(* ================================================================================================== *)
(* Round 6: the brute-force assignment references are PROVED (C15/Assign.v), and the matching clauses are
   stated for ANY matcher answer that passes the validity contract the harness evaluates IN COQ on the real
   answers of `hungarian_matching` (scipy) and `match_instances` (C15/Contract.v, `arun`).  All closed.
   An assignment is a list of (row, column) pairs; `centry C p` = the entry (None = infinite cost);
   `assignment C ps` = rows pairwise distinct, columns pairwise distinct, in range, no infinite entry;
   `full_assignment` = every row assigned (finite matrices); `unmatched n l` = the indices < n not in l. *)
From SV Require Import C15.Assign C15.Contract.

(* hungarian_opt_inf (reference for matrices with infinite costs, any shape, any rational entries): its value is
   attained by a valid assignment, and no valid assignment has more pairs, or as many pairs and a lower cost —
   over ALL assignments (induction over the enumeration) *)
Theorem c15_hungarian_ref_inf_attained : forall C : smatrix,
  exists ps, assignment C ps /\ length ps = fst (hungarian_opt_inf C) /\
             (acost C ps == snd (hungarian_opt_inf C))%Q.
Proof. exact hungarian_opt_inf_attained. Qed.
Print Assumptions c15_hungarian_ref_inf_attained.

Theorem c15_hungarian_ref_inf_optimal : forall (C : smatrix) ps,
  assignment C ps ->
  (length ps <= fst (hungarian_opt_inf C))%nat /\
  (length ps = fst (hungarian_opt_inf C) -> (snd (hungarian_opt_inf C) <= acost C ps)%Q).
Proof. exact hungarian_opt_inf_optimal. Qed.
Print Assumptions c15_hungarian_ref_inf_optimal.

(* hungarian_opt (finite costs, rows consumed in order): Some v is attained by a full one-to-one assignment, v is a
   lower bound of EVERY full assignment's cost; it is defined whenever rows <= columns, and None only if no full
   assignment exists *)
Theorem c15_hungarian_ref_attained : forall (C : list (list Q)) v,
  hungarian_opt C = Some v -> exists ps, full_assignment C ps /\ (full_cost C ps == v)%Q.
Proof. exact hungarian_opt_attained. Qed.
Print Assumptions c15_hungarian_ref_attained.

Theorem c15_hungarian_ref_optimal : forall (C : list (list Q)) ps,
  full_assignment C ps -> exists v, hungarian_opt C = Some v /\ (v <= full_cost C ps)%Q.
Proof. exact hungarian_opt_optimal. Qed.
Print Assumptions c15_hungarian_ref_optimal.

Theorem c15_hungarian_ref_defined : forall C : list (list Q),
  (length C <= length (hd [] C))%nat -> hungarian_opt C <> None.
Proof. exact hungarian_opt_defined. Qed.
Print Assumptions c15_hungarian_ref_defined.

Theorem c15_hungarian_ref_none : forall C : list (list Q),
  hungarian_opt C = None -> forall ps, ~ full_assignment C ps.
Proof. exact hungarian_opt_none. Qed.
Print Assumptions c15_hungarian_ref_none.

(* ANY answer of hungarian_matching that passes the checker (evaluated by coqc on scipy's real answer every run):
   one-to-one, no infinite pair, every row / column exactly once in matched ++ unmatched, counts conserved,
   optimal among all assignments *)
Theorem c15_hungarian_answer_inf : forall (C : smatrix) ps,
  hung_inf_contractb C ps = true ->
  NoDup (map fst ps) /\ NoDup (map snd ps) /\
  Forall (fun p => centry C p <> None) ps /\
  Permutation (map fst ps ++ unmatched (length C) (map fst ps)) (seq 0 (length C)) /\
  Permutation (map snd ps ++ unmatched (length (hd [] C)) (map snd ps)) (seq 0 (length (hd [] C))) /\
  (length ps + length (unmatched (length C) (map fst ps)) = length C)%nat /\
  (length ps + length (unmatched (length (hd [] C)) (map snd ps)) = length (hd [] C))%nat /\
  forall ps', assignment C ps' ->
    (length ps' <= length ps)%nat /\ (length ps' = length ps -> (acost C ps <= acost C ps')%Q).
Proof. exact hung_inf_contract_clauses. Qed.
Print Assumptions c15_hungarian_answer_inf.

Theorem c15_hungarian_answer_inf_satisfiable : forall C : smatrix, exists ps, hung_inf_contractb C ps = true.
Proof. exact hung_inf_contract_satisfiable. Qed.
Print Assumptions c15_hungarian_answer_inf_satisfiable.

Theorem c15_hungarian_answer : forall (C : list (list Q)) ps,
  hung_contractb C ps = true ->
  NoDup (map fst ps) /\ NoDup (map snd ps) /\
  Permutation (map fst ps) (seq 0 (length C)) /\
  (length C + length (unmatched (length (hd [] C)) (map snd ps)) = length (hd [] C))%nat /\
  forall ps', full_assignment C ps' -> (full_cost C ps <= full_cost C ps')%Q.
Proof. exact hung_contract_clauses. Qed.
Print Assumptions c15_hungarian_answer.

Theorem c15_hungarian_answer_satisfiable : forall C : list (list Q),
  (length C <= length (hd [] C))%nat -> exists ps, hung_contractb C ps = true.
Proof. exact hung_contract_satisfiable. Qed.
Print Assumptions c15_hungarian_answer_satisfiable.

(* ANY answer (pairs, missed) of match_instances that passes the checker (evaluated by coqc on the real answer
   every run): each gt / prediction at most once, matched ++ missed = every gt exactly once, counts conserved on
   both sides (|pairs| + |missed| = n_gt, |pairs| + |unmatched predictions| = n_pr), every pair is an entry of
   the OKS matrix strictly above the threshold *)
Theorem c15_match_answer_contract : forall n_gt n_pr M thr ms missed,
  match_contractb n_gt n_pr M thr ms missed = true ->
  NoDup (map gt_of ms) /\ NoDup (map pr_of ms) /\ NoDup missed /\
  (forall g, In g (map gt_of ms) -> ~ In g missed) /\
  Permutation (map gt_of ms ++ missed) (seq 0 n_gt) /\
  (forall g, (g < n_gt)%nat -> count_occ Nat.eq_dec (map gt_of ms ++ missed) g = 1%nat) /\
  (forall p, (count_occ Nat.eq_dec (map pr_of ms) p <= 1)%nat) /\
  (length ms + length missed = n_gt)%nat /\
  (length ms + length (unmatched n_pr (map pr_of ms)) = n_pr)%nat /\
  (length ms <= n_gt)%nat /\ (length ms <= n_pr)%nat /\
  Forall (fun m => (gt_of m < n_gt)%nat /\ (pr_of m < n_pr)%nat /\
                   (exists o, mget M (gt_of m) (pr_of m) = Some o /\ (o == oks_of m)%Q /\ eligible thr o)) ms.
Proof. exact match_contract_clauses. Qed.
Print Assumptions c15_match_answer_contract.

(* the coded algorithm (both models of match_instances) meets that contract on every frame *)
Theorem c15_match_model_meets_contract : forall fixed n_gt scores M thr ms missed,
  match_instances fixed n_gt scores M thr = Some (ms, missed) ->
  match_contractb n_gt (length scores) M thr ms missed = true.
Proof. exact match_instances_meets_contract. Qed.
Print Assumptions c15_match_model_meets_contract.

Theorem c15_match_gen_model_meets_contract : forall fixed n_gt prs M thr ms missed,
  match_instances_gen fixed n_gt prs M thr = Some (ms, missed) ->
  match_contractb n_gt (length prs) M thr ms missed = true.
Proof. exact match_instances_gen_meets_contract. Qed.
Print Assumptions c15_match_gen_model_meets_contract.

(* non-vacuity: a 3 x 3 matrix with infinite entries: the greedy-looking answer [(0,0);(1,1)] (cost 1+1, 2 pairs)
   fails the contract because 3 finite pairs exist; the 3-pair answer passes *)
Example ex_c15_hungarian_contract_inf :
  let C := [[Some 1; Some 2; None]; [Some 2; Some 1; Some 5]; [None; None; Some 7]]%Q in
  hungarian_opt_inf C = (3%nat, 9%Q) /\
  hung_inf_contractb C [(0, 0); (1, 1); (2, 2)]%nat = true /\
  hung_inf_contractb C [(0, 0); (1, 1)]%nat = false /\
  hung_inf_contractb C [(0, 0); (1, 0); (2, 2)]%nat = false.
Proof. vm_compute. repeat split; reflexivity. Qed.

Example ex_c15_hungarian_contract_fin :
  let C := [[4; 1; 3]; [2; 0; 5]]%Q in
  hungarian_opt C = Some 3%Q /\
  hung_contractb C [(0, 1); (1, 0)]%nat = true /\ hung_contractb C [(1, 0); (0, 1)]%nat = true /\
  hung_contractb C [(0, 0); (1, 1)]%nat = false /\ hung_contractb C [(0, 1)]%nat = false.
Proof. vm_compute. repeat split; reflexivity. Qed.

Example ex_c15_match_contract :
  let M := [[Some (1 # 4); Some (3 # 4)]; [Some (1 # 2); Some (3 # 4)]]%Q in
  match_contractb 2 2 M 0%Q [(0%nat, 1%nat, (3 # 4)%Q); (1%nat, 0%nat, (1 # 2)%Q)] [] = true /\
  match_contractb 2 2 M 0%Q [(0%nat, 1%nat, (3 # 4)%Q); (1%nat, 1%nat, (3 # 4)%Q)] [] = false /\   (* prediction twice *)
  match_contractb 2 2 M 0%Q [(0%nat, 1%nat, (3 # 4)%Q)] [] = false /\                                (* a gt lost *)
  match_contractb 2 2 M (3 # 4)%Q [(0%nat, 1%nat, (3 # 4)%Q)] [1%nat] = false.                       (* not above thr *)
Proof. vm_compute. repeat split; reflexivity. Qed.

(* ================================================================================================== *)
(* Round 6, OKS clauses sharpened (C15/OksMore.v; same model `oks_pair` / `oks_val`, same domain; Reals). *)
From SV Require Import C15.OksMore.

(* "never increases when a predicted keypoint moves farther": ANY number of keypoints at once.
   `farther gk pk pk'` = pk' is missing (NaN = infinitely far), or both are present and pk' is at least as far
   from gk as pk.  c15_oks_monotone (one keypoint) and c15_pr_missing_never_better are the special cases. *)
Theorem c15_oks_monotone_all : forall coco sc sds g p p',
  scale_ok sc -> sds_ok sds -> (1 <= n_visible g)%nat -> length p = length p' ->
  Forall (fun t => farther (fst (fst t)) (snd (fst t)) (snd t)) (zip3 g p p') ->
  oks_val (oks_pair coco sc sds g p') <= oks_val (oks_pair coco sc sds g p).
Proof. exact oks_pair_monotone_all. Qed.
Print Assumptions c15_oks_monotone_all.

(* "equals 1 for identical poses" as an equivalence: OKS = 1 exactly when every gt keypoint is missing (ignored)
   or has a present prediction at distance 0.  `hit gk pk` = missing gk \/ (pk present /\ dist2 gk pk == 0). *)
Theorem c15_oks_one_iff : forall coco s sds g p,
  (0 <= s)%Q -> sds_ok sds -> (1 <= n_visible g)%nat -> length g = length p -> (length g <= length sds)%nat ->
  (oks_val (oks_pair coco (Some s) sds g p) = 1 <-> Forall (fun t => hit (fst t) (snd t)) (combine g p)).
Proof. exact oks_pair_one_iff. Qed.
Print Assumptions c15_oks_one_iff.

(* "missing in the prediction = complete miss": the term of a present prediction tends to 0 — the term of a
   missing one (c15_pr_missing_is_complete_miss) — as its distance grows: below any eps > 0 beyond some distance *)
Theorem c15_term_vanishes_with_distance : forall coco s sd,
  (0 < sd)%Q -> (0 <= s)%Q -> forall eps : R, 0 < eps ->
  exists D : Q, forall g p, missing g = false -> missing p = false -> (D <= dist2 g p)%Q ->
    val (ks_arg coco (Some s) sd g p) < eps.
Proof. exact ks_term_vanishes_with_distance. Qed.
Print Assumptions c15_term_vanishes_with_distance.

(* non-vacuity: three keypoints, the second gt keypoint missing; prediction p' moves keypoint 0 farther and loses
   keypoint 2 at once; and a pose that hits every visible gt keypoint although it differs at the missing node *)
Example ex_c15_farther_all :
  let g  := [[Some 0; Some 0]; [None; Some 1]; [Some 4; Some 4]]%Q in
  let p  := [[Some 1; Some 0]; [Some 9; Some 9]; [Some 4; Some 5]]%Q in
  let p' := [[Some 2; Some 0]; [Some 9; Some 9]; [None; None]]%Q in
  Forall (fun t => farther (fst (fst t)) (snd (fst t)) (snd t)) (zip3 g p p') /\ n_visible g = 2%nat.
Proof.
  split; [|reflexivity]. cbn [zip3].
  apply Forall_cons; [|apply Forall_cons; [|apply Forall_cons; [|apply Forall_nil]]]; cbn [fst snd].
  - right. split; [reflexivity|]. split; [reflexivity|]. vm_compute. discriminate.
  - right. split; [reflexivity|]. split; [reflexivity|]. vm_compute. discriminate.
  - left. reflexivity.
Qed.

Example ex_c15_one_iff_hit :
  let g := [[Some 0; Some 0]; [None; Some 1]; [Some 4; Some 4]]%Q in
  let p := [[Some 0; Some 0]; [Some 9; Some 9]; [Some 4; Some 4]]%Q in
  Forall (fun t => hit (fst t) (snd t)) (combine g p) /\ g <> p /\
  ~ Forall (fun t => hit (fst t) (snd t)) (combine g [[Some 0; Some 0]; [Some 9; Some 9]; [Some 4; Some 5]]%Q).
Proof.
  split; [|split].
  - cbn [combine]. apply Forall_cons; [|apply Forall_cons; [|apply Forall_cons; [|apply Forall_nil]]]; cbn [fst snd].
    + right. split; reflexivity.
    + left. reflexivity.
    + right. split; reflexivity.
  - discriminate.
  - intros H. inversion H as [|? ? _ H1]; subst. inversion H1 as [|? ? _ H2]; subst.
    inversion H2 as [|? ? H3 _]; subst. cbn [fst snd] in H3. destruct H3 as [H3|[_ H3]]; vm_compute in H3; discriminate.
Qed.

(* reordering the KEYPOINTS (nodes) of both poses, the per-node stddevs with them, leaves the entry unchanged (any
   given scale; structural, no domain needed).  The (gt keypoint, predicted keypoint, stddev) triples are permuted. *)
Theorem c15_oks_keypoint_reorder : forall coco sc sds sds' g g' p p',
  length g = length p -> length g = length sds -> length g' = length p' -> length g' = length sds' ->
  Permutation (zip3 g p sds) (zip3 g' p' sds') ->
  oks_val (oks_pair coco sc sds g p) = oks_val (oks_pair coco sc sds' g' p').
Proof. exact oks_pair_keypoint_perm. Qed.
Print Assumptions c15_oks_keypoint_reorder.

Example ex_c15_keypoint_reorder :
  Permutation (zip3 [[Some 0; Some 0]; [None; Some 1]]%Q [[Some 1; Some 0]; [Some 9; Some 9]]%Q [1 # 40; 1 # 20]%Q)
              (zip3 [[None; Some 1]; [Some 0; Some 0]]%Q [[Some 9; Some 9]; [Some 1; Some 0]]%Q [1 # 20; 1 # 40]%Q).
Proof. cbn [zip3]. apply perm_swap. Qed.

(* with the AUTOMATIC scale (bounding-box area of the gt pose) the scale itself is unchanged by the reordering
   (`area` of permuted keypoints is the same number), so the whole entry is invariant *)
Theorem c15_area_keypoint_reorder : forall n_ed g g',
  Permutation g g' -> ceq (area n_ed g) (area n_ed g').
Proof. exact area_keypoint_perm. Qed.
Print Assumptions c15_area_keypoint_reorder.

Theorem c15_oks_keypoint_reorder_auto_scale : forall coco n_ed sds sds' g g' p p',
  length g = length p -> length g = length sds -> length g' = length p' -> length g' = length sds' ->
  Permutation (zip3 g p sds) (zip3 g' p' sds') ->
  oks_val (oks_pair coco (area n_ed g) sds g p) = oks_val (oks_pair coco (area n_ed g') sds' g' p').
Proof. exact oks_pair_keypoint_perm_auto. Qed.
Print Assumptions c15_oks_keypoint_reorder_auto_scale.

(* finite costs with MORE ROWS THAN COLUMNS (n > m): the checker `hung_contract_tb` takes the original matrix and the
   original answer, coqc transposes (`transpose`, proved to be the transpose of a rectangular matrix) and swaps the
   pairs.  Any answer passing: rows distinct, every column exactly once, and no assignment that uses every column
   once (`col_full_assignment`: rows distinct, |ps0| = m, in range) is cheaper — costs read on the ORIGINAL matrix. *)
Theorem c15_hungarian_answer_transposed : forall (C : list (list Q)) ps,
  hung_contract_tb C ps = true ->
  NoDup (map fst ps) /\ NoDup (map snd ps) /\
  Permutation (map snd ps) (seq 0 (length (hd [] C))) /\
  forall ps0, col_full_assignment C (transpose C) ps0 -> (full_cost C ps <= full_cost C ps0)%Q.
Proof. exact hung_contract_t_clauses. Qed.
Print Assumptions c15_hungarian_answer_transposed.

Theorem c15_transpose_correct : forall C : list (list Q),
  Forall (fun row => length row = length (hd [] C)) C ->
  (forall r c, nth c (nth r C []) 0%Q = nth r (nth c (transpose C) []) 0%Q) /\
  length (transpose C) = length (hd [] C) /\
  ((0 < length (hd [] C))%nat -> length (hd [] (transpose C)) = length C).
Proof. intros C H. split; [exact (transpose_is_transpose C H)|exact (transpose_dims C)]. Qed.
Print Assumptions c15_transpose_correct.

Example ex_c15_hungarian_contract_transposed :
  let C := [[4; 2]; [1; 0]; [3; 5]]%Q in
  hung_contract_tb C [(1, 0); (0, 1)]%nat = true /\ hung_contract_tb C [(0, 1); (1, 0)]%nat = true /\
  hung_contract_tb C [(0, 0); (1, 1)]%nat = false /\ hung_contract_tb C [(1, 0); (2, 0)]%nat = false /\
  col_full_assignment C (transpose C) [(2, 0); (0, 1)]%nat.
Proof.
  cbv zeta. split; [vm_compute; reflexivity|]. split; [vm_compute; reflexivity|].
  split; [vm_compute; reflexivity|]. split; [vm_compute; reflexivity|].
  unfold col_full_assignment. cbn [map fst snd].
  split; [apply (proj1 (nodupb_ok [2; 0]%nat)); reflexivity|].
  split; [apply (proj1 (nodupb_ok [0; 1]%nat)); reflexivity|].
  split; [reflexivity|].
  intros p [E|[E|[]]]; subst p; vm_compute; split; repeat constructor.
Qed.
