(* Assign.v (C15) — the brute-force assignment references of Oks.v (`hungarian_opt`, `hungarian_opt_inf`,
   evaluated on every run by `Oks.run (CHung ..)` / `(CHungInf ..)` and compared with scipy's answer through
   `hungarian_matching`) are proved correct: their value is attained by a valid one-to-one assignment and no
   valid assignment is better.  Optimality is over ALL assignments (induction over the enumeration `picks`,
   any shape, any rational entries, None = infinite cost), closed under the global context (Q / nat only).

   An assignment is a list of (row, column) pairs — exactly what `hungarian_matching` returns
   (`row_inds, col_inds` zipped). *)
From Coq Require Import List Arith ZArith QArith Lia Bool Permutation.
Import ListNotations.
From SV Require Import C15.Oks.

(* ------------------------------------------------------------------ *)
(* picks enumerates every way of taking one element out of a list *)
Lemma picks_perm {A} (l : list A) : forall x t, In (x, t) (picks l) -> Permutation l (x :: t).
Proof.
  induction l as [|y l IH]; cbn [picks]; intros x t H; [destruct H|].
  destruct H as [H|H].
  - inversion H; subst. reflexivity.
  - apply in_map_iff in H. destruct H as [[x' t'] [E H]]. cbn [fst snd] in E. inversion E; subst.
    apply IH in H. rewrite H. apply perm_swap.
Qed.

Lemma picks_complete {A} (l : list A) x : In x l -> exists t, In (x, t) (picks l).
Proof.
  induction l as [|y l IH]; cbn [picks]; intros H; [destruct H|].
  destruct H as [H|H].
  - subst. eexists; left; reflexivity.
  - destruct (IH H) as [t Ht]. exists (y :: t). right. apply in_map_iff. exists (x, t). split; auto.
Qed.

Lemma picks_rest_nodup (cols : list nat) c t :
  NoDup cols -> In (c, t) (picks cols) -> NoDup t /\ ~ In c t /\ (forall x, In x t -> In x cols) /\
  (forall x, In x cols -> x <> c -> In x t).
Proof.
  intros Hnd Hin. apply picks_perm in Hin.
  assert (H2 : NoDup (c :: t)) by (eapply Permutation_NoDup; eassumption).
  inversion H2; subst. repeat split; auto.
  - intros x Hx. eapply Permutation_in; [symmetry; exact Hin|right; exact Hx].
  - intros x Hx Hne. apply (Permutation_in _ Hin) in Hx. destruct Hx; [congruence|assumption].
Qed.

(* removing the pair of one row from an assignment *)
Lemma split_pair (ps : list (nat * nat)) k :
  NoDup (map fst ps) -> NoDup (map snd ps) -> In k (map fst ps) ->
  exists l1 p l2, ps = l1 ++ p :: l2 /\ fst p = k /\
    NoDup (map fst (l1 ++ l2)) /\ NoDup (map snd (l1 ++ l2)) /\
    ~ In k (map fst (l1 ++ l2)) /\ ~ In (snd p) (map snd (l1 ++ l2)).
Proof.
  intros Hr Hc Hin. apply in_map_iff in Hin. destruct Hin as [p [Hp Hin]].
  apply in_split in Hin. destruct Hin as [l1 [l2 E]]. exists l1, p, l2. subst ps.
  rewrite !map_app in *. cbn [map] in *.
  apply NoDup_remove in Hr. apply NoDup_remove in Hc. rewrite Hp in Hr. tauto.
Qed.

(* ------------------------------------------------------------------ *)
(* the lexicographic order of hungarian_opt_inf: more pairs first, then cheaper *)
Definition lex_ge (a b : nat * Q) : Prop :=
  (fst b < fst a)%nat \/ (fst b = fst a /\ (snd a <= snd b)%Q).

Lemma lex_ge_refl a : lex_ge a a.
Proof. right. split; [reflexivity|apply Qle_refl]. Qed.

Lemma lex_ge_trans a b c : lex_ge a b -> lex_ge b c -> lex_ge a c.
Proof.
  unfold lex_ge. intros [H1|[H1 H1']] [H2|[H2 H2']]; try (left; lia).
  right. split; [lia|]. eapply Qle_trans; eassumption.
Qed.

Lemma better_spec a b :
  (better a b = a \/ better a b = b) /\ lex_ge (better a b) a /\ lex_ge (better a b) b.
Proof.
  unfold better.
  destruct (fst b <? fst a)%nat eqn:E1.
  { apply Nat.ltb_lt in E1. split; [left; reflexivity|]. split; [apply lex_ge_refl|left; exact E1]. }
  apply Nat.ltb_ge in E1.
  destruct (fst a <? fst b)%nat eqn:E2.
  { apply Nat.ltb_lt in E2. split; [right; reflexivity|]. split; [left; exact E2|apply lex_ge_refl]. }
  apply Nat.ltb_ge in E2.
  destruct (Qle_bool (snd a) (snd b)) eqn:E3.
  - apply Qle_bool_iff in E3. split; [left; reflexivity|]. split; [apply lex_ge_refl|].
    right. split; [lia|exact E3].
  - assert (H : (snd b <= snd a)%Q).
    { apply Qlt_le_weak. apply Qnot_le_lt. intros H. apply Qle_bool_iff in H. congruence. }
    split; [right; reflexivity|]. split; [|apply lex_ge_refl]. right. split; [lia|exact H].
Qed.

Lemma fold_better_spec l : forall init,
  In (fold_left better l init) (init :: l) /\
  forall x, In x (init :: l) -> lex_ge (fold_left better l init) x.
Proof.
  induction l as [|y l IH]; intros init; cbn [fold_left].
  - split; [left; reflexivity|]. intros x [Hx|[]]. subst. apply lex_ge_refl.
  - destruct (IH (better init y)) as [Hin Hge].
    destruct (better_spec init y) as [Hsel [Hg1 Hg2]].
    split.
    + destruct Hin as [Hin|Hin].
      * rewrite <- Hin. destruct Hsel as [Hs|Hs]; rewrite Hs; [left; reflexivity|right; left; reflexivity].
      * right; right; exact Hin.
    + intros x [Hx|[Hx|Hx]].
      * subst x. eapply lex_ge_trans; [apply Hge; left; reflexivity|exact Hg1].
      * subst x. eapply lex_ge_trans; [apply Hge; left; reflexivity|exact Hg2].
      * apply Hge. right; exact Hx.
Qed.

(* ------------------------------------------------------------------ *)
(* partial assignments on a matrix with infinite entries (None) *)
Definition ent (rows : smatrix) (k : nat) (p : nat * nat) : option Q :=
  nth (snd p) (nth (fst p - k) rows []) None.
Definition entv (rows : smatrix) (k : nat) (p : nat * nat) : Q :=
  match ent rows k p with Some v => v | None => 0 end.
Definition pcost (rows : smatrix) (k : nat) (ps : list (nat * nat)) : Q :=
  fold_right (fun p acc => entv rows k p + acc) 0 ps.

(* rows = the rows numbered k, k+1, ... ; cols = the columns still free *)
Definition pvalid (rows : smatrix) (k : nat) (cols : list nat) (ps : list (nat * nat)) : Prop :=
  NoDup (map fst ps) /\ NoDup (map snd ps) /\
  forall p, In p ps -> (k <= fst p < k + length rows)%nat /\ In (snd p) cols /\ ent rows k p <> None.

Lemma ent_shift r rest k p : (S k <= fst p)%nat -> ent (r :: rest) k p = ent rest (S k) p.
Proof.
  intros H. unfold ent. replace (fst p - k)%nat with (S (fst p - S k)) by lia. reflexivity.
Qed.

Lemma pcost_shift r rest k ps :
  (forall p, In p ps -> (S k <= fst p)%nat) -> pcost (r :: rest) k ps = pcost rest (S k) ps.
Proof.
  induction ps as [|p ps IH]; intros H; cbn [pcost fold_right]; [reflexivity|].
  fold (pcost (r :: rest) k ps). fold (pcost rest (S k) ps).
  rewrite IH by (intros q Hq; apply H; right; exact Hq).
  unfold entv. rewrite ent_shift by (apply H; left; reflexivity). reflexivity.
Qed.

Lemma pcost_app rows k l1 l2 : (pcost rows k (l1 ++ l2) == pcost rows k l1 + pcost rows k l2)%Q.
Proof.
  induction l1 as [|p l1 IH]; cbn [app pcost fold_right].
  - fold (pcost rows k l2). ring.
  - fold (pcost rows k (l1 ++ l2)). fold (pcost rows k l1). rewrite IH. ring.
Qed.

Lemma pcost_remove rows k l1 p l2 :
  (pcost rows k (l1 ++ p :: l2) == entv rows k p + pcost rows k (l1 ++ l2))%Q.
Proof.
  rewrite !pcost_app. cbn [pcost fold_right]. fold (pcost rows k l2). ring.
Qed.

Lemma pvalid_shift r rest k cols cols' ps :
  pvalid rest (S k) cols' ps -> (forall x, In x cols' -> In x cols) -> pvalid (r :: rest) k cols ps.
Proof.
  intros [Hr [Hc Hp]] Hincl. split; [exact Hr|]. split; [exact Hc|].
  intros p Hin. destruct (Hp p Hin) as [H1 [H2 H3]]. cbn [length].
  split; [lia|]. split; [apply Hincl; exact H2|]. rewrite ent_shift by lia. exact H3.
Qed.

(* the value of opt_inf is attained by a valid assignment ... *)
Lemma opt_inf_sound : forall fuel rows k cols,
  NoDup cols -> (length rows < fuel)%nat ->
  exists ps, pvalid rows k cols ps /\ length ps = fst (opt_inf fuel rows cols) /\
             (pcost rows k ps == snd (opt_inf fuel rows cols))%Q.
Proof.
  induction fuel as [|f IH]; intros rows k cols Hnd Hf; [lia|].
  destruct rows as [|r rest].
  { exists []. cbn. split; [|split; [reflexivity|reflexivity]].
    split; [constructor|]. split; [constructor|]. intros p []. }
  cbn [length] in Hf. cbn [opt_inf].
  match goal with |- context [fold_left better ?l ?i] =>
    destruct (fold_better_spec l i) as [Hin _]; set (res := fold_left better l i) in * end.
  destruct Hin as [Hin|Hin].
  - (* the row stays unassigned *)
    destruct (IH rest (S k) cols Hnd ltac:(lia)) as [ps [Hv [Hl Hc]]].
    exists ps. split; [eapply pvalid_shift; [exact Hv|auto]|].
    rewrite <- Hin. split; [exact Hl|].
    rewrite pcost_shift; [exact Hc|]. intros p Hp. destruct Hv as [_ [_ Hv]]. apply Hv in Hp. lia.
  - apply in_flat_map in Hin. destruct Hin as [[c t] [Hpick Hin]]. cbn [fst snd] in Hin.
    destruct (nth c r None) as [v|] eqn:Ev; [|destruct Hin].
    destruct (picks_rest_nodup cols c t Hnd Hpick) as [Hndt [Hct [Hsub _]]].
    destruct (IH rest (S k) t Hndt ltac:(lia)) as [ps [Hv [Hl Hc]]].
    destruct (opt_inf f rest t) as [n c'] eqn:Eo. destruct Hin as [Hin|[]].
    cbn [fst snd] in Hl, Hc.
    assert (Hge : forall p, In p ps -> (S k <= fst p)%nat).
    { intros p Hp. destruct Hv as [_ [_ Hv]]. apply Hv in Hp. lia. }
    exists ((k, c) :: ps). split; [|split].
    + destruct (pvalid_shift r rest k cols t ps Hv Hsub) as [Hr' [Hc' Hp']].
      split; [|split].
      * cbn [map fst]. constructor; [|exact Hr'].
        intros Hk. apply in_map_iff in Hk. destruct Hk as [q [Hq Hqin]]. apply Hge in Hqin. lia.
      * cbn [map snd]. constructor; [|exact Hc'].
        intros Hk. apply in_map_iff in Hk. destruct Hk as [q [Hq Hqin]].
        destruct Hv as [_ [_ Hv]]. apply Hv in Hqin. rewrite Hq in Hqin. tauto.
      * intros p [Hp|Hp]; [|apply Hp'; exact Hp]. subst p. cbn [fst snd length].
        split; [lia|]. split.
        -- apply picks_perm in Hpick. eapply Permutation_in; [symmetry; exact Hpick|left; reflexivity].
        -- unfold ent. cbn [fst snd]. rewrite Nat.sub_diag. cbn [nth]. rewrite Ev. discriminate.
    + rewrite <- Hin. cbn [length fst]. lia.
    + rewrite <- Hin. cbn [snd pcost fold_right]. fold (pcost (r :: rest) k ps).
      rewrite pcost_shift by exact Hge. rewrite Hc.
      unfold entv, ent. cbn [fst snd]. rewrite Nat.sub_diag. cbn [nth]. rewrite Ev. reflexivity.
Qed.

(* ... and no valid assignment is better *)
Lemma opt_inf_best : forall fuel rows k cols ps,
  NoDup cols -> (length rows < fuel)%nat -> pvalid rows k cols ps ->
  lex_ge (opt_inf fuel rows cols) (length ps, pcost rows k ps).
Proof.
  induction fuel as [|f IH]; intros rows k cols ps Hnd Hf Hv; [lia|].
  destruct rows as [|r rest].
  { destruct ps as [|p ps].
    - cbn. apply lex_ge_refl.
    - destruct Hv as [_ [_ Hv]]. specialize (Hv p (or_introl eq_refl)). cbn [length] in Hv. lia. }
  cbn [length] in Hf. cbn [opt_inf].
  match goal with |- context [fold_left better ?l ?i] =>
    destruct (fold_better_spec l i) as [_ Hge]; set (res := fold_left better l i) in * end.
  destruct Hv as [Hr [Hc Hp]].
  destruct (in_dec Nat.eq_dec k (map fst ps)) as [Hin|Hnin].
  - destruct (split_pair ps k Hr Hc Hin) as [l1 [p [l2 [E [Hpk [Hr' [Hc' [Hk' Hs']]]]]]]].
    assert (Hpin : In p ps) by (rewrite E; apply in_or_app; right; left; reflexivity).
    destruct (Hp p Hpin) as [_ [Hcol Hent]].
    destruct (picks_complete cols (snd p) Hcol) as [t Hpick].
    destruct (picks_rest_nodup cols (snd p) t Hnd Hpick) as [Hndt [_ [_ Hrest]]].
    assert (Hsub : forall q, In q (l1 ++ l2) -> In q ps).
    { intros q Hq. rewrite E. apply in_app_or in Hq. apply in_or_app. destruct Hq; [left|right; right]; assumption. }
    assert (Hge' : forall q, In q (l1 ++ l2) -> (S k <= fst q)%nat).
    { intros q Hq. assert (fst q <> k) by (intros Hx; apply Hk'; rewrite <- Hx; apply in_map; exact Hq).
      apply Hsub in Hq. apply Hp in Hq. lia. }
    assert (Hv' : pvalid rest (S k) t (l1 ++ l2)).
    { split; [exact Hr'|]. split; [exact Hc'|]. intros q Hq.
      pose proof (Hge' q Hq) as Hq1. pose proof (Hp q (Hsub q Hq)) as [Hq2 [Hq3 Hq4]].
      cbn [length] in Hq2. split; [lia|]. split.
      - apply Hrest; [exact Hq3|]. intros Hx. apply Hs'. rewrite <- Hx. apply in_map. exact Hq.
      - rewrite <- ent_shift with (r := r) by exact Hq1. exact Hq4. }
    pose proof (IH rest (S k) t (l1 ++ l2) Hndt ltac:(lia) Hv') as Hbest.
    unfold ent in Hent. rewrite Hpk, Nat.sub_diag in Hent. cbn [nth] in Hent.
    destruct (nth (snd p) r None) as [v|] eqn:Ev; [|congruence].
    destruct (opt_inf f rest t) as [n c'] eqn:Eo.
    eapply lex_ge_trans.
    + apply Hge. right. apply in_flat_map. exists (snd p, t). split; [exact Hpick|].
      cbn [fst snd]. rewrite Ev, Eo. left. reflexivity.
    + rewrite E at 1. rewrite app_length. cbn [length]. rewrite <- plus_n_Sm, <- app_length.
      unfold lex_ge in *. cbn [fst snd] in *.
      assert (Hcost : (pcost (r :: rest) k ps == v + pcost rest (S k) (l1 ++ l2))%Q).
      { rewrite E, pcost_remove. rewrite pcost_shift by exact Hge'.
        unfold entv, ent. rewrite Hpk, Nat.sub_diag. cbn [nth]. rewrite Ev. reflexivity. }
      destruct Hbest as [Hb|[Hb1 Hb2]]; [left; lia|]. right. split; [lia|].
      rewrite Hcost. apply Qplus_le_r. exact Hb2.
  - assert (Hge' : forall q, In q ps -> (S k <= fst q)%nat).
    { intros q Hq. assert (fst q <> k) by (intros Hx; apply Hnin; rewrite <- Hx; apply in_map; exact Hq).
      apply Hp in Hq. lia. }
    assert (Hv' : pvalid rest (S k) cols ps).
    { split; [exact Hr|]. split; [exact Hc|]. intros q Hq.
      pose proof (Hge' q Hq). destruct (Hp q Hq) as [Hq2 [Hq3 Hq4]]. cbn [length] in Hq2.
      split; [lia|]. split; [exact Hq3|]. rewrite <- ent_shift with (r := r) by assumption. exact Hq4. }
    eapply lex_ge_trans; [apply Hge; left; reflexivity|].
    rewrite pcost_shift by exact Hge'. apply IH; [exact Hnd|lia|exact Hv'].
Qed.

(* ------------------------------------------------------------------ *)
(* top level: assignments on a matrix, as hungarian_matching reports them *)
Definition centry (C : smatrix) (p : nat * nat) : option Q := nth (snd p) (nth (fst p) C []) None.
Definition assignment (C : smatrix) (ps : list (nat * nat)) : Prop :=
  NoDup (map fst ps) /\ NoDup (map snd ps) /\
  forall p, In p ps -> (fst p < length C)%nat /\ (snd p < length (hd [] C))%nat /\ centry C p <> None.
Definition acost (C : smatrix) (ps : list (nat * nat)) : Q := pcost C 0 ps.

Lemma ent0 C p : ent C 0 p = centry C p.
Proof. unfold ent, centry. rewrite Nat.sub_0_r. reflexivity. Qed.

Lemma assignment_pvalid C ps : assignment C ps <-> pvalid C 0 (seq 0 (length (hd [] C))) ps.
Proof.
  unfold assignment, pvalid. split; intros [Hr [Hc Hp]]; (split; [exact Hr|]; split; [exact Hc|]);
    intros p Hin; destruct (Hp p Hin) as [H1 [H2 H3]].
  - split; [lia|]. split; [apply in_seq; lia|]. rewrite ent0. exact H3.
  - apply in_seq in H2. split; [lia|]. split; [lia|]. rewrite <- ent0. exact H3.
Qed.

Theorem hungarian_opt_inf_attained C :
  exists ps, assignment C ps /\ length ps = fst (hungarian_opt_inf C) /\
             (acost C ps == snd (hungarian_opt_inf C))%Q.
Proof.
  destruct (opt_inf_sound (S (length C)) C 0 (seq 0 (length (hd [] C))) (seq_NoDup _ _) ltac:(lia))
    as [ps [Hv [Hl Hc]]].
  exists ps. split; [apply assignment_pvalid; exact Hv|]. split; [exact Hl|exact Hc].
Qed.

Theorem hungarian_opt_inf_optimal C ps :
  assignment C ps ->
  (length ps <= fst (hungarian_opt_inf C))%nat /\
  (length ps = fst (hungarian_opt_inf C) -> (snd (hungarian_opt_inf C) <= acost C ps)%Q).
Proof.
  intros Ha. apply assignment_pvalid in Ha.
  pose proof (opt_inf_best (S (length C)) C 0 _ ps (seq_NoDup _ _) ltac:(lia) Ha) as H.
  unfold hungarian_opt_inf, acost. unfold lex_ge in H. cbn [fst snd] in H.
  destruct H as [H|[H1 H2]]; split; try lia; intros; auto.
Qed.

(* ------------------------------------------------------------------ *)
(* conservation of counts for any one-to-one answer *)
Definition unmatched (n : nat) (l : list nat) : list nat :=
  filter (fun i => negb (existsb (Nat.eqb i) l)) (seq 0 n).

Lemma existsb_eqb_in i l : existsb (Nat.eqb i) l = true <-> In i l.
Proof.
  rewrite existsb_exists. split.
  - intros [x [Hx E]]. apply Nat.eqb_eq in E. subst. exact Hx.
  - intros H. exists i. split; [exact H|apply Nat.eqb_refl].
Qed.

Lemma nodup_app_intro {A} (l m : list A) :
  NoDup l -> NoDup m -> (forall x, In x l -> In x m -> False) -> NoDup (l ++ m).
Proof.
  induction l as [|x l IH]; intros Hl Hm Hd; cbn [app]; [exact Hm|].
  inversion Hl; subst. constructor.
  - intros Hin. apply in_app_or in Hin. destruct Hin as [Hin|Hin]; [auto|].
    apply (Hd x); [left; reflexivity|exact Hin].
  - apply IH; auto. intros y Hy1 Hy2. apply (Hd y); [right; exact Hy1|exact Hy2].
Qed.

Lemma unmatched_in n l i : In i (unmatched n l) <-> (i < n)%nat /\ ~ In i l.
Proof.
  unfold unmatched. rewrite filter_In, in_seq, negb_true_iff, <- not_true_iff_false, existsb_eqb_in.
  split; intros [H1 H2]; (split; [lia|exact H2]).
Qed.

Lemma unmatched_perm n l :
  NoDup l -> (forall i, In i l -> (i < n)%nat) -> Permutation (l ++ unmatched n l) (seq 0 n).
Proof.
  intros Hnd Hlt. apply NoDup_Permutation.
  - apply nodup_app_intro; [exact Hnd|apply NoDup_filter, seq_NoDup|].
    intros x H1 H2. apply unmatched_in in H2. tauto.
  - apply seq_NoDup.
  - intros x. rewrite in_app_iff, unmatched_in, in_seq. split.
    + intros [H|H]; [apply Hlt in H; lia|lia].
    + intros H. destruct (in_dec Nat.eq_dec x l); [left; assumption|right; split; [lia|assumption]].
Qed.

Lemma unmatched_count n l :
  NoDup l -> (forall i, In i l -> (i < n)%nat) -> (length l + length (unmatched n l) = n)%nat.
Proof.
  intros Hnd Hlt. pose proof (Permutation_length (unmatched_perm n l Hnd Hlt)) as H.
  rewrite app_length, seq_length in H. exact H.
Qed.

(* ------------------------------------------------------------------ *)
(* finite matrices, every row assigned: hungarian_opt (opt_cost) *)
Definition fentv (rows : list (list Q)) (k : nat) (p : nat * nat) : Q :=
  nth (snd p) (nth (fst p - k) rows []) 0.
Definition fcost (rows : list (list Q)) (k : nat) (ps : list (nat * nat)) : Q :=
  fold_right (fun p acc => fentv rows k p + acc) 0 ps.
Definition fvalid (rows : list (list Q)) (k : nat) (cols : list nat) (ps : list (nat * nat)) : Prop :=
  NoDup (map fst ps) /\ NoDup (map snd ps) /\ length ps = length rows /\
  forall p, In p ps -> (k <= fst p < k + length rows)%nat /\ In (snd p) cols.

Lemma fentv_shift r rest k p : (S k <= fst p)%nat -> fentv (r :: rest) k p = fentv rest (S k) p.
Proof.
  intros H. unfold fentv. replace (fst p - k)%nat with (S (fst p - S k)) by lia. reflexivity.
Qed.

Lemma fcost_shift r rest k ps :
  (forall p, In p ps -> (S k <= fst p)%nat) -> fcost (r :: rest) k ps = fcost rest (S k) ps.
Proof.
  induction ps as [|p ps IH]; intros H; cbn [fcost fold_right]; [reflexivity|].
  fold (fcost (r :: rest) k ps). fold (fcost rest (S k) ps).
  rewrite IH by (intros q Hq; apply H; right; exact Hq).
  rewrite fentv_shift by (apply H; left; reflexivity). reflexivity.
Qed.

Lemma fcost_app rows k l1 l2 : (fcost rows k (l1 ++ l2) == fcost rows k l1 + fcost rows k l2)%Q.
Proof.
  induction l1 as [|p l1 IH]; cbn [app fcost fold_right].
  - fold (fcost rows k l2). ring.
  - fold (fcost rows k (l1 ++ l2)). fold (fcost rows k l1). rewrite IH. ring.
Qed.

Lemma fcost_remove rows k l1 p l2 :
  (fcost rows k (l1 ++ p :: l2) == fentv rows k p + fcost rows k (l1 ++ l2))%Q.
Proof.
  rewrite !fcost_app. cbn [fcost fold_right]. fold (fcost rows k l2). ring.
Qed.

Lemma Qmin2_spec a b : (Qmin2 a b = a \/ Qmin2 a b = b) /\ (Qmin2 a b <= a)%Q /\ (Qmin2 a b <= b)%Q.
Proof.
  unfold Qmin2. destruct (Qle_bool a b) eqn:E.
  - apply Qle_bool_iff in E. split; [left; reflexivity|]. split; [apply Qle_refl|exact E].
  - assert (H : (b <= a)%Q).
    { apply Qlt_le_weak. apply Qnot_le_lt. intros H. apply Qle_bool_iff in H. congruence. }
    split; [right; reflexivity|]. split; [exact H|apply Qle_refl].
Qed.

Lemma fold_qmin_spec t : forall x,
  In (fold_left Qmin2 t x) (x :: t) /\ forall y, In y (x :: t) -> (fold_left Qmin2 t x <= y)%Q.
Proof.
  induction t as [|z t IH]; intros x; cbn [fold_left].
  - split; [left; reflexivity|]. intros y [Hy|[]]. subst. apply Qle_refl.
  - destruct (IH (Qmin2 x z)) as [Hin Hle]. destruct (Qmin2_spec x z) as [Hsel [H1 H2]].
    split.
    + destruct Hin as [Hin|Hin]; [|right; right; exact Hin].
      rewrite <- Hin. destruct Hsel as [Hs|Hs]; rewrite Hs; [left; reflexivity|right; left; reflexivity].
    + intros y [Hy|[Hy|Hy]].
      * subst y. eapply Qle_trans; [apply Hle; left; reflexivity|exact H1].
      * subst y. eapply Qle_trans; [apply Hle; left; reflexivity|exact H2].
      * apply Hle. right; exact Hy.
Qed.

Lemma qmin_list_spec l :
  match qmin_list l with
  | None => l = []
  | Some v => In v l /\ forall y, In y l -> (v <= y)%Q
  end.
Proof. destruct l as [|x t]; cbn [qmin_list]; [reflexivity|apply fold_qmin_spec]. Qed.

Lemma opt_cost_sound : forall fuel rows k cols v,
  NoDup cols -> (length rows < fuel)%nat -> opt_cost fuel rows cols = Some v ->
  exists ps, fvalid rows k cols ps /\ (fcost rows k ps == v)%Q.
Proof.
  induction fuel as [|f IH]; intros rows k cols v Hnd Hf Ho; [lia|].
  destruct rows as [|r rest].
  { cbn in Ho. inversion Ho; subst. exists []. split; [|reflexivity].
    split; [constructor|]. split; [constructor|]. split; [reflexivity|]. intros p []. }
  cbn [length] in Hf. cbn [opt_cost] in Ho.
  match type of Ho with qmin_list ?l = _ => pose proof (qmin_list_spec l) as Hq; rewrite Ho in Hq end.
  destruct Hq as [Hin _].
  apply in_flat_map in Hin. destruct Hin as [[c t] [Hpick Hin]]. cbn [fst snd] in Hin.
  destruct (opt_cost f rest t) as [v'|] eqn:Eo; [|destruct Hin]. destruct Hin as [Hin|[]].
  destruct (picks_rest_nodup cols c t Hnd Hpick) as [Hndt [Hct [Hsub _]]].
  destruct (IH rest (S k) t v' Hndt ltac:(lia) Eo) as [ps [[Hr [Hc [Hl Hp]]] Hcost]].
  assert (Hge : forall p, In p ps -> (S k <= fst p)%nat).
  { intros p Hp'. apply Hp in Hp'. lia. }
  exists ((k, c) :: ps). split.
  - split; [|split; [|split]].
    + cbn [map fst]. constructor; [|exact Hr].
      intros Hk. apply in_map_iff in Hk. destruct Hk as [q [Hq Hqin]]. apply Hge in Hqin. lia.
    + cbn [map snd]. constructor; [|exact Hc].
      intros Hk. apply in_map_iff in Hk. destruct Hk as [q [Hq Hqin]].
      apply Hp in Hqin. rewrite Hq in Hqin. tauto.
    + cbn [length]. lia.
    + intros p [Hp'|Hp']; cbn [length].
      * subst p. cbn [fst snd]. split; [lia|].
        apply picks_perm in Hpick. eapply Permutation_in; [symmetry; exact Hpick|left; reflexivity].
      * destruct (Hp p Hp') as [H1 H2]. split; [lia|apply Hsub; exact H2].
  - cbn [fcost fold_right]. fold (fcost (r :: rest) k ps). rewrite fcost_shift by exact Hge.
    rewrite Hcost, <- Hin. unfold fentv. cbn [fst snd]. rewrite Nat.sub_diag. cbn [nth]. reflexivity.
Qed.

Lemma opt_cost_min : forall fuel rows k cols ps,
  NoDup cols -> (length rows < fuel)%nat -> fvalid rows k cols ps ->
  exists v, opt_cost fuel rows cols = Some v /\ (v <= fcost rows k ps)%Q.
Proof.
  induction fuel as [|f IH]; intros rows k cols ps Hnd Hf Hv; [lia|].
  destruct rows as [|r rest].
  { destruct Hv as [_ [_ [Hl _]]]. destruct ps; [|discriminate]. exists 0%Q. split; [reflexivity|apply Qle_refl]. }
  cbn [length] in Hf. destruct Hv as [Hr [Hc [Hl Hp]]]. cbn [length] in Hl.
  assert (Hin : In k (map fst ps)).
  { apply (NoDup_length_incl (l := map fst ps) (l' := seq k (S (length rest)))).
    - exact Hr.
    - rewrite seq_length, map_length. lia.
    - intros x Hx. apply in_map_iff in Hx. destruct Hx as [q [Hq Hqin]]. subst x.
      apply Hp in Hqin. cbn [length] in Hqin. apply in_seq. lia.
    - apply in_seq. lia. }
  destruct (split_pair ps k Hr Hc Hin) as [l1 [p [l2 [E [Hpk [Hr' [Hc' [Hk' Hs']]]]]]]].
  assert (Hpin : In p ps) by (rewrite E; apply in_or_app; right; left; reflexivity).
  destruct (Hp p Hpin) as [_ Hcol].
  destruct (picks_complete cols (snd p) Hcol) as [t Hpick].
  destruct (picks_rest_nodup cols (snd p) t Hnd Hpick) as [Hndt [_ [_ Hrest]]].
  assert (Hsub : forall q, In q (l1 ++ l2) -> In q ps).
  { intros q Hq. rewrite E. apply in_app_or in Hq. apply in_or_app. destruct Hq; [left|right; right]; assumption. }
  assert (Hge' : forall q, In q (l1 ++ l2) -> (S k <= fst q)%nat).
  { intros q Hq. assert (fst q <> k) by (intros Hx; apply Hk'; rewrite <- Hx; apply in_map; exact Hq).
    apply Hsub in Hq. apply Hp in Hq. lia. }
  assert (Hv' : fvalid rest (S k) t (l1 ++ l2)).
  { split; [exact Hr'|]. split; [exact Hc'|]. split.
    - rewrite E, app_length in Hl. cbn [length] in Hl. rewrite app_length. lia.
    - intros q Hq. pose proof (Hge' q Hq) as Hq1. destruct (Hp q (Hsub q Hq)) as [Hq2 Hq3].
      cbn [length] in Hq2. split; [lia|].
      apply Hrest; [exact Hq3|]. intros Hx. apply Hs'. rewrite <- Hx. apply in_map. exact Hq. }
  destruct (IH rest (S k) t (l1 ++ l2) Hndt ltac:(lia) Hv') as [v' [Eo Hle]].
  cbn [opt_cost].
  match goal with |- context [qmin_list ?l] => pose proof (qmin_list_spec l) as Hq; set (L := l) in * end.
  assert (Hcand : In (nth (snd p) r 0 + v')%Q L).
  { unfold L. apply in_flat_map. exists (snd p, t). split; [exact Hpick|].
    cbn [fst snd]. rewrite Eo. left. reflexivity. }
  destruct (qmin_list L) as [v|].
  - exists v. split; [reflexivity|]. destruct Hq as [_ Hq].
    eapply Qle_trans; [apply Hq; exact Hcand|].
    rewrite E, fcost_remove. rewrite fcost_shift by exact Hge'.
    unfold fentv at 1. rewrite Hpk, Nat.sub_diag. cbn [nth]. apply Qplus_le_r. exact Hle.
  - rewrite Hq in Hcand. destruct Hcand.
Qed.

Lemma opt_cost_total : forall fuel rows cols,
  (length rows < fuel)%nat -> (length rows <= length cols)%nat -> opt_cost fuel rows cols <> None.
Proof.
  induction fuel as [|f IH]; intros rows cols Hf Hl; [lia|].
  destruct rows as [|r rest]; [discriminate|]. cbn [length] in *.
  destruct cols as [|c t]; [cbn [length] in Hl; lia|]. cbn [length] in Hl.
  cbn [opt_cost picks flat_map fst snd].
  pose proof (IH rest t ltac:(lia) ltac:(lia)) as Hn.
  destruct (opt_cost f rest t) as [v|]; [|congruence]. cbn [app qmin_list]. discriminate.
Qed.

(* top level *)
Definition fentry (C : list (list Q)) (p : nat * nat) : Q := nth (snd p) (nth (fst p) C []) 0.
Definition full_cost (C : list (list Q)) (ps : list (nat * nat)) : Q := fcost C 0 ps.
Definition full_assignment (C : list (list Q)) (ps : list (nat * nat)) : Prop :=
  NoDup (map fst ps) /\ NoDup (map snd ps) /\ length ps = length C /\
  forall p, In p ps -> (fst p < length C)%nat /\ (snd p < length (hd [] C))%nat.

Lemma full_cost_unfold C ps : full_cost C ps = fold_right (fun p acc => fentry C p + acc) 0 ps.
Proof.
  unfold full_cost, fcost. induction ps as [|p ps IH]; cbn [fold_right]; [reflexivity|].
  rewrite IH. unfold fentv, fentry. rewrite Nat.sub_0_r. reflexivity.
Qed.

Lemma full_assignment_fvalid C ps : full_assignment C ps <-> fvalid C 0 (seq 0 (length (hd [] C))) ps.
Proof.
  unfold full_assignment, fvalid.
  split; intros [Hr [Hc [Hl Hp]]]; (split; [exact Hr|]; split; [exact Hc|]; split; [exact Hl|]);
    intros p Hin; destruct (Hp p Hin) as [H1 H2].
  - split; [lia|apply in_seq; lia].
  - apply in_seq in H2. split; lia.
Qed.

Theorem hungarian_opt_attained C v :
  hungarian_opt C = Some v -> exists ps, full_assignment C ps /\ (full_cost C ps == v)%Q.
Proof.
  intros H. destruct (opt_cost_sound (S (length C)) C 0 _ v (seq_NoDup _ _) ltac:(lia) H) as [ps [Hv Hc]].
  exists ps. split; [apply full_assignment_fvalid; exact Hv|exact Hc].
Qed.

Theorem hungarian_opt_optimal C ps :
  full_assignment C ps -> exists v, hungarian_opt C = Some v /\ (v <= full_cost C ps)%Q.
Proof.
  intros H. apply full_assignment_fvalid in H.
  exact (opt_cost_min (S (length C)) C 0 _ ps (seq_NoDup _ _) ltac:(lia) H).
Qed.

Theorem hungarian_opt_defined C : (length C <= length (hd [] C))%nat -> hungarian_opt C <> None.
Proof.
  intros H. unfold hungarian_opt. apply opt_cost_total; [lia|rewrite seq_length; exact H].
Qed.

Theorem hungarian_opt_none C : hungarian_opt C = None -> forall ps, ~ full_assignment C ps.
Proof.
  intros H ps Hps. destruct (hungarian_opt_optimal C ps Hps) as [v [Hv _]]. congruence.
Qed.

Lemma nodup_app_r {A} (l m : list A) : NoDup (l ++ m) -> NoDup m.
Proof. induction l as [|x l IH]; cbn [app]; intros H; [exact H|]. inversion H; auto. Qed.

Lemma nodup_app_disj {A} (l m : list A) x : NoDup (l ++ m) -> In x l -> In x m -> False.
Proof.
  induction l as [|y l IH]; cbn [app]; intros H Hl Hm; [destruct Hl|].
  inversion H; subst. destruct Hl as [Hl|Hl].
  - subst. apply H2. apply in_or_app. right; exact Hm.
  - apply IH; assumption.
Qed.
