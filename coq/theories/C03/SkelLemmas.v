(* SkelLemmas.v (C03, round 4) — proofs for the review findings 1-3:
   A. which edge types grouping uses (`processed`, through C17's toposort model) and the reassembly
      theorem for rooted trees (C17's `arborescence`);
   B. the executable `groups`: complete, each class once (NoDup), canonical;
   C. `expected_instances` / `forward_instances` (the entry points the harness compares with forward):
      rows, member / None pattern, half-cell bound of every reported coordinate, and the link from the
      abstract `output` of the reassembly theorem to `groups`;
   D. `table_alt1` (rectangular tables only) implies `separated`. *)
From Coq Require Import List ZArith QArith Qround Qabs Bool Arith Lia Permutation Relations.
From SV Require Import C03.BottomUp C03.Lemmas.
From SV Require C17.Toposort C17.Lemmas.
Import ListNotations.

(* ================================================================= A. processed edge types *)
Definition all_edges (_ : nat) : bool := true.

(* rooted tree listed parent -> child: toposort_edges returns every edge index (C17), so every edge
   type is handed to assign_connections_to_instances *)
Lemma processed_all (es : list (nat * nat)) r :
  C17.Lemmas.arborescence es r -> forall k, (k < length es)%nat -> processed es k = true.
Proof.
  intros H k Hk.
  destruct (C17.Lemmas.toposort_tree_complete_ordered_proof es r H) as [out [Ht [Hp _]]].
  unfold processed. rewrite Ht. apply memb_In.
  apply Permutation_in with (l := seq 0 (length es)); [apply Permutation_sym; exact Hp|].
  apply in_seq. lia.
Qed.

Lemma in_combine_seq (A : Type) (l : list A) s k e :
  In (k, e) (combine (seq s (length l)) l) <-> (s <= k)%nat /\ nth_error l (k - s) = Some e.
Proof.
  revert s. induction l as [|x t IH]; intro s; simpl.
  - split; [tauto|]. intros [_ H]. destruct (k - s)%nat; discriminate.
  - rewrite IH. split.
    + intros [H|[H1 H2]].
      * inversion H; subst. split; [lia|]. rewrite Nat.sub_diag. reflexivity.
      * split; [lia|]. replace (k - s)%nat with (S (k - S s)) by lia. exact H2.
    + intros [H1 H2]. destruct (Nat.eq_dec k s) as [->|Hne].
      * left. rewrite Nat.sub_diag in H2. simpl in H2. inversion H2. reflexivity.
      * right. split; [lia|]. replace (k - s)%nat with (S (k - S s)) in H2 by lia. exact H2.
Qed.

Lemma processed_edges_In es e :
  In e (processed_edges es) <-> exists k, processed es k = true /\ nth_error es k = Some e.
Proof.
  unfold processed_edges. rewrite in_map_iff. split.
  - intros [[k e'] [E H]]. simpl in E. subst e'. apply filter_In in H. destruct H as [H1 H2]. simpl in H2.
    apply in_combine_seq in H1. destruct H1 as [_ H1]. rewrite Nat.sub_0_r in H1. exists k. auto.
  - intros [k [H1 H2]]. exists (k, e). split; [reflexivity|]. apply filter_In. split; [|exact H1].
    apply in_combine_seq. split; [lia|]. rewrite Nat.sub_0_r. exact H2.
Qed.

Lemma processed_edges_incl es e : In e (processed_edges es) -> In e es.
Proof. intro H. apply processed_edges_In in H. destruct H as [k [_ H]]. eapply nth_error_In; exact H. Qed.

Lemma processed_edges_tree (es : list (nat * nat)) r (e : nat * nat) :
  C17.Lemmas.arborescence es r -> (In e (processed_edges es) <-> In e es).
Proof.
  intro H. split; [apply processed_edges_incl|].
  intro Hin. apply In_nth_error in Hin. destruct Hin as [k Hk]. apply processed_edges_In. exists k.
  split; [|exact Hk]. apply (processed_all es r H). apply nth_error_Some. rewrite Hk. discriminate.
Qed.

(* a tree with one mis-oriented edge: node 1 has two incoming edges; toposort_edges returns (0,) and
   edge type 1 is never assembled *)
Lemma misoriented_processed :
  processed_edges [(0, 1); (2, 1)]%nat = [(0, 1)]%nat /\ C17.Toposort.is_tree [(0, 1); (2, 1)]%nat = false.
Proof. split; vm_compute; reflexivity. Qed.

Lemma misoriented_groups :
  groups 3 (processed_edges [(0, 1); (2, 1)]%nat) [true; true; true] = [[0; 1]%nat] /\
  groups 3 [(0, 1); (2, 1)]%nat [true; true; true] = [[0; 1; 2]%nat].
Proof. split; vm_compute; reflexivity. Qed.

(* ---- visible edges / connection over the processed edge types vs over all of them ---- *)
Lemma vedge_proc_all edges vis proc a i j :
  (forall k, (k < length edges)%nat -> proc k = true) ->
  (vedge edges vis proc a i j <-> vedge edges vis all_edges a i j).
Proof.
  intro Hall. unfold vedge. split; intros [[k [Hp Hk]] H]; (split; [|exact H]); exists k; (split; [|exact Hk]).
  - reflexivity.
  - apply Hall. apply nth_error_Some. rewrite Hk. discriminate.
Qed.

Lemma vconn_proc_all edges vis proc a i j :
  (forall k, (k < length edges)%nat -> proc k = true) ->
  (vconn edges vis proc a i j <-> vconn edges vis all_edges a i j).
Proof. intro Hall. unfold vconn. apply clos_rst_iff. intros x y. apply vedge_proc_all. exact Hall. Qed.

Lemma vedge_all_In edges vis a i j :
  vedge edges vis all_edges a i j <-> In (i, j) edges /\ vis a i = true /\ vis a j = true.
Proof.
  unfold vedge. split.
  - intros [[k [_ Hk]] H]. split; [eapply nth_error_In; exact Hk|exact H].
  - intros [Hin H]. apply In_nth_error in Hin. destruct Hin as [k Hk]. split; [exists k; split; [reflexivity|exact Hk]|exact H].
Qed.

(* the conclusion of the reassembly theorems, as one predicate *)
Definition reassembled (edges : list (nat * nat)) (n_animals : nat) (vis : nat -> nat -> bool)
           (proc : nat -> bool) (output : list instance) : Prop :=
  (forall I, In I output ->
     exists a j0, (a < n_animals)%nat /\ vis a j0 = true /\
       (forall b j, member (b, j) I <-> b = a /\ vconn edges vis proc a j0 j) /\
       (exists j1, j1 <> j0 /\ vconn edges vis proc a j0 j1))
  /\
  (forall a i j, (a < n_animals)%nat -> vedge edges vis proc a i j ->
     exists n I, nth_error output n = Some I /\ member (a, i) I /\ member (a, j) I /\
       forall n' I', nth_error output n' = Some I' -> member (a, i) I' -> n' = n).

Lemma reassembled_all edges n_animals vis proc output :
  (forall k, (k < length edges)%nat -> proc k = true) ->
  reassembled edges n_animals vis proc output -> reassembled edges n_animals vis all_edges output.
Proof.
  intros Hall [H1 H2]. split.
  - intros I HI. destruct (H1 I HI) as [a [j0 [Ha [Hv [Hm [j1 [Hne Hc]]]]]]].
    exists a, j0. split; [exact Ha|]. split; [exact Hv|]. split.
    + intros b j. rewrite Hm. rewrite (vconn_proc_all edges vis proc a j0 j Hall). tauto.
    + exists j1. split; [exact Hne|]. apply (vconn_proc_all edges vis proc a j0 j1 Hall). exact Hc.
  - intros a i j Ha He. apply (vedge_proc_all edges vis proc a i j Hall) in He. exact (H2 a i j Ha He).
Qed.

(* EXACT REASSEMBLY for a rooted tree: the C08 contract is about the edge types the code assembles
   (`processed edges`); for an arborescence these are all of them, so the instances are the groups of the
   property (connected through ANY visible skeleton edge) *)
Theorem reassembly_tree
    (edges : list (nat * nat)) (r : nat) (n_animals : nat) (vis : nat -> nat -> bool)
    (score : nat -> nat -> nat -> option Q) (mls : Q) (matching : nat -> list (nat * nat)) :
  C17.Lemmas.arborescence edges r ->
  (forall k e, nth_error edges k = Some e -> all_finite n_animals vis score k e ->
     optimal (srcs n_animals vis e) (dsts n_animals vis e) (sck score k) (matching k)) ->
  (forall k e, nth_error edges k = Some e -> separated n_animals vis score mls k e) ->
  forall output : list instance,
  (forall I, In I output ->
     exists p, member p I /\ (forall q, member q I <-> conn edges score mls matching (processed edges) p q) /\
               (exists q, q <> p /\ member q I)) ->
  (forall p q, adj edges score mls matching (processed edges) p q -> exists I, In I output /\ member p I) ->
  (forall i j I J p, nth_error output i = Some I -> nth_error output j = Some J ->
     member p I -> member p J -> i = j) ->
  reassembled edges n_animals vis all_edges output.
Proof.
  intros Harb Hopt Hsep output H1 H2 H3.
  apply (reassembled_all edges n_animals vis (processed edges) output (processed_all edges r Harb)).
  exact (reassembly_from_separation edges n_animals vis score mls matching Hopt Hsep (processed edges) output H1 H2 H3).
Qed.

(* ================================================================= B. the executable groups *)
Lemma fr_min_le d t : (fold_right Nat.min d t <= d)%nat /\ forall x, In x t -> (fold_right Nat.min d t <= x)%nat.
Proof.
  induction t as [|y t [IH1 IH2]]; simpl; [split; [lia|tauto]|]. split; [lia|].
  intros x [<-|Hx]; [lia|]. specialize (IH2 x Hx). lia.
Qed.

Lemma fr_min_cases d t : fold_right Nat.min d t = d \/ In (fold_right Nat.min d t) t.
Proof.
  induction t as [|y t IH]; simpl; [left; reflexivity|].
  destruct (Nat.min_spec y (fold_right Nat.min d t)) as [[_ E]|[_ E]]; rewrite E.
  - right. left. reflexivity.
  - destruct IH as [IH|IH]; [left; exact IH|right; right; exact IH].
Qed.

Lemma list_min_In l : l <> [] -> In (list_min l) l.
Proof.
  destruct l as [|x t]; [congruence|]. intros _. unfold list_min. simpl hd.
  destruct (fr_min_cases x (x :: t)) as [E|H]; [rewrite E; left; reflexivity|exact H].
Qed.

Lemma list_min_le l x : In x l -> (list_min l <= x)%nat.
Proof. intro H. unfold list_min. apply (proj2 (fr_min_le (hd 0%nat l) l)). exact H. Qed.

(* list_min depends on the SET of elements only *)
Lemma list_min_ext l l' : (forall x, In x l <-> In x l') -> l <> [] -> list_min l = list_min l'.
Proof.
  intros H Hne.
  assert (Hne' : l' <> []).
  { destruct l as [|x t]; [congruence|]. intro E. subst l'. apply (H x). left. reflexivity. }
  pose proof (list_min_In l Hne) as A. pose proof (list_min_In l' Hne') as B.
  apply H in A. apply H in B. apply list_min_le in A. apply list_min_le in B. lia.
Qed.

Lemma two_distinct_length (l : list nat) a b : In a l -> In b l -> a <> b -> (2 <= length l)%nat.
Proof.
  destruct l as [|x [|y t]]; simpl; intros Ha Hb Hne; try lia; try tauto.
Qed.

Lemma length_ge2_distinct (l : list nat) j : NoDup l -> In j l -> (2 <= length l)%nat -> exists x, x <> j /\ In x l.
Proof.
  intros ND Hj Hl. destruct l as [|a [|b t]]; simpl in Hl; try lia.
  inversion ND as [|? ? Hna _]; subst.
  destruct (Nat.eq_dec a j) as [->|Hne].
  - exists b. split; [|right; left; reflexivity]. intro E. subst b. apply Hna. left. reflexivity.
  - exists a. split; [exact Hne|left; reflexivity].
Qed.

Section GroupsComplete.
  Variables (n : nat) (es : list (nat * nat)) (vis : list bool).
  Hypothesis es_bounded : forall u v, In (u, v) es -> (u < n /\ v < n)%nat.

  Let R := fun i j : nat => In (i, j) es /\ visb vis i = true /\ visb vis j = true.

  Lemma vis_conn_sym i j : vis_conn es vis i j -> vis_conn es vis j i.
  Proof. apply rst_sym. Qed.
  Lemma vis_conn_trans i j k : vis_conn es vis i j -> vis_conn es vis j k -> vis_conn es vis i k.
  Proof. apply rst_trans. Qed.

  (* a class with two members: both are visible nodes below n *)
  Lemma vis_conn_cases i j : vis_conn es vis i j ->
    i = j \/ ((i < n)%nat /\ (j < n)%nat /\ visb vis i = true /\ visb vis j = true).
  Proof.
    induction 1 as [x y [H [Hx Hy]]| |x y H IH|x y z H1 IH1 H2 IH2].
    - right. destruct (es_bounded _ _ H). auto.
    - left. reflexivity.
    - destruct IH as [->|IH]; [left; reflexivity|right; tauto].
    - destruct IH1 as [->|IH1]; [exact IH2|]. destruct IH2 as [<-|IH2]; [right; exact IH1|right; tauto].
  Qed.

  (* ... and each of them is an end of a visible edge *)
  Lemma vis_conn_first_edge i j : vis_conn es vis i j -> i <> j ->
    (exists y, R i y \/ R y i) /\ (exists y, R j y \/ R y j).
  Proof.
    induction 1 as [x y H| |x y H IH|x y z H1 IH1 H2 IH2]; intro Hne.
    - split; [exists y; left; exact H|exists x; right; exact H].
    - congruence.
    - destruct IH as [A B]; [congruence|]. split; assumption.
    - destruct (Nat.eq_dec x y) as [->|Hxy]; [apply IH2; exact Hne|].
      destruct (Nat.eq_dec y z) as [<-|Hyz]; [apply IH1; exact Hne|].
      split; [apply IH1; exact Hxy|apply IH2; exact Hyz].
  Qed.

  Lemma component_NoDup j : (j < n)%nat -> NoDup (component n es vis j).
  Proof.
    intro Hj. unfold component.
    assert (Hb : forall u v, In (u, v) (vis_edges vis es) -> (u < n /\ v < n)%nat).
    { intros u v H. unfold vis_edges in H. apply filter_In in H. apply es_bounded. tauto. }
    assert (Hinv : inv (vis_edges vis es) j [j]).
    { split; [constructor; [intros []|constructor]|]. intros y [<-|[]]. apply rst_refl. }
    destruct (closure_closed (vis_edges vis es) n Hb j Hj n [j] Hinv) as [_ [[ND _] _]]; [simpl; lia|exact ND].
  Qed.

  Lemma component_self j : (j < n)%nat -> In j (component n es vis j).
  Proof. intro Hj. apply component_spec; [exact es_bounded|exact Hj|apply rst_refl]. Qed.

  (* membership in `groups`, exactly *)
  Lemma groups_In c :
    In c (groups n es vis) <->
    exists j, (j < n)%nat /\ visb vis j = true /\ c = component n es vis j /\ list_min c = j /\ (2 <= length c)%nat.
  Proof.
    unfold groups. rewrite in_flat_map. split.
    - intros [j [Hj H]]. apply in_seq in Hj. destruct (visb vis j) eqn:Ev; [|destruct H].
      destruct ((list_min (component n es vis j) =? j)%nat && (2 <=? length (component n es vis j))%nat) eqn:E;
        [|destruct H].
      destruct H as [<-|[]]. apply andb_true_iff in E. destruct E as [E1 E2].
      apply Nat.eqb_eq in E1. apply Nat.leb_le in E2. exists j. repeat split; auto; lia.
    - intros [j [Hj [Hv [-> [E1 E2]]]]]. exists j. split; [apply in_seq; lia|]. rewrite Hv.
      apply Nat.eqb_eq in E1. apply Nat.leb_le in E2. rewrite E1, E2. left. reflexivity.
  Qed.

  Lemma class_same j m : (j < n)%nat -> (m < n)%nat -> vis_conn es vis j m ->
    forall y, In y (component n es vis m) <-> In y (component n es vis j).
  Proof.
    intros Hj Hm Hc y. rewrite !component_spec by assumption. split; intro H.
    - eapply vis_conn_trans; eassumption.
    - eapply vis_conn_trans; [apply vis_conn_sym; exact Hc|exact H].
  Qed.

  (* COMPLETENESS: every class of >= 2 visible keypoints is emitted *)
  Theorem groups_complete j x :
    vis_conn es vis j x -> x <> j ->
    exists c, In c (groups n es vis) /\ forall y, In y c <-> vis_conn es vis j y.
  Proof.
    intros Hc Hne.
    destruct (vis_conn_cases _ _ Hc) as [E|[Hj [Hx [Hvj Hvx]]]]; [congruence|].
    set (c := component n es vis j).
    assert (Hjc : In j c) by (apply component_self; exact Hj).
    assert (Hne_c : c <> []) by (intro E; rewrite E in Hjc; destruct Hjc).
    pose proof (list_min_In c Hne_c) as Hm. set (m := list_min c) in *.
    assert (Hcm : vis_conn es vis j m) by (apply (component_spec n es vis j m es_bounded Hj); exact Hm).
    assert (Hmn : (m < n)%nat /\ visb vis m = true).
    { destruct (vis_conn_cases _ _ Hcm) as [<-|H]; tauto. }
    destruct Hmn as [Hmn Hvm].
    pose proof (class_same j m Hj Hmn Hcm) as Hsame.
    assert (Hne_m : component n es vis m <> []).
    { intro E. pose proof (component_self m Hmn) as H. rewrite E in H. destruct H. }
    exists (component n es vis m). split.
    - apply groups_In. exists m. split; [exact Hmn|]. split; [exact Hvm|]. split; [reflexivity|]. split.
      + unfold m. apply list_min_ext; [exact Hsame|exact Hne_m].
      + apply (two_distinct_length _ j x); [apply Hsame; exact Hjc| |congruence].
        apply Hsame. apply (component_spec n es vis j x es_bounded Hj). exact Hc.
    - intro y. rewrite Hsame. apply component_spec; assumption.
  Qed.

  (* UNIQUENESS: two emitted groups that share a node are the same list ... *)
  Theorem groups_disjoint c1 c2 x :
    In c1 (groups n es vis) -> In c2 (groups n es vis) -> In x c1 -> In x c2 -> c1 = c2.
  Proof.
    intros H1 H2 X1 X2. apply groups_In in H1. apply groups_In in H2.
    destruct H1 as [j1 [Hj1 [_ [E1 [M1 _]]]]]. destruct H2 as [j2 [Hj2 [_ [E2 [M2 _]]]]].
    assert (C1 : vis_conn es vis j1 x) by (apply (component_spec n es vis j1 x es_bounded Hj1); rewrite <- E1; exact X1).
    assert (C2 : vis_conn es vis j2 x) by (apply (component_spec n es vis j2 x es_bounded Hj2); rewrite <- E2; exact X2).
    assert (C : vis_conn es vis j1 j2) by (eapply vis_conn_trans; [exact C1|apply vis_conn_sym; exact C2]).
    pose proof (class_same j1 j2 Hj1 Hj2 C) as Hsame.
    assert (E : j2 = j1).
    { rewrite <- M1, <- M2, E1, E2. apply list_min_ext; [exact Hsame|].
      intro E. pose proof (component_self j2 Hj2) as H. rewrite E in H. destruct H. }
    subst j2. congruence.
  Qed.

  Lemma NoDup_map_inj_on (A B : Type) (f : A -> B) (l : list A) :
    (forall x y, In x l -> In y l -> f x = f y -> x = y) -> NoDup l -> NoDup (map f l).
  Proof.
    induction l as [|a t IH]; intros Hinj ND; simpl; [constructor|]. inversion ND as [|? ? Hna NDt]; subst.
    constructor.
    - intro H. apply in_map_iff in H. destruct H as [y [E Hy]].
      assert (y = a) by (apply Hinj; [right; exact Hy|left; reflexivity|exact E]). subst y. contradiction.
    - apply IH; [|exact NDt]. intros x y Hx Hy. apply Hinj; right; assumption.
  Qed.

  Definition is_rep (j : nat) : bool :=
    visb vis j && ((list_min (component n es vis j) =? j)%nat && (2 <=? length (component n es vis j))%nat).

  Lemma flat_map_filter_map (A B : Type) (h : A -> bool) (f : A -> B) (l : list A) :
    flat_map (fun x => if h x then [f x] else []) l = map f (filter h l).
  Proof. induction l as [|a t IH]; [reflexivity|]. simpl. rewrite IH. destruct (h a); reflexivity. Qed.

  Lemma groups_eq : groups n es vis = map (component n es vis) (filter is_rep (seq 0 n)).
  Proof.
    unfold groups. cbv zeta. rewrite <- flat_map_filter_map. apply flat_map_ext. intro j. unfold is_rep.
    destruct (visb vis j); reflexivity.
  Qed.

  (* ... and no group is listed twice *)
  Theorem groups_NoDup : NoDup (groups n es vis).
  Proof.
    rewrite groups_eq. apply NoDup_map_inj_on; [|apply NoDup_filter; apply seq_NoDup].
    intros j1 j2 H1 H2 E. apply filter_In in H1. apply filter_In in H2.
    destruct H1 as [_ R1]. destruct H2 as [_ R2]. unfold is_rep in R1, R2.
    apply andb_true_iff in R1. destruct R1 as [_ R1]. apply andb_true_iff in R1. destruct R1 as [R1 _].
    apply andb_true_iff in R2. destruct R2 as [_ R2]. apply andb_true_iff in R2. destruct R2 as [R2 _].
    apply Nat.eqb_eq in R1. apply Nat.eqb_eq in R2. rewrite <- R1, <- R2, E. reflexivity.
  Qed.

  (* every member of an emitted group is a visible node below n *)
  Lemma groups_members_visible c x : In c (groups n es vis) -> In x c -> (x < n)%nat /\ visb vis x = true.
  Proof.
    intros Hc Hx. apply groups_In in Hc. destruct Hc as [j [Hj [Hv [E _]]]]. subst c.
    apply (component_spec n es vis j x es_bounded Hj) in Hx.
    destruct (vis_conn_cases _ _ Hx) as [<-|H]; tauto.
  Qed.
End GroupsComplete.

(* ================================================================= C. expected_instances *)
(* (ii) the relation of the executable groups IS the relation of the reassembly theorem *)
Lemma vis_conn_vconn es (vl : list bool) (vis : nat -> nat -> bool) a i j :
  (forall x, vis a x = visb vl x) ->
  (vis_conn es vl i j <-> vconn es vis all_edges a i j).
Proof.
  intro Hv. unfold vis_conn, vconn. apply clos_rst_iff. intros x y. rewrite vedge_all_In, !Hv. tauto.
Qed.

Lemma visl_nth (a : list kp) j : visb (visl a) j = true <-> exists p, nth j a None = Some p.
Proof.
  revert j. induction a as [|x t IH]; intro j.
  - destruct j; simpl; (split; [discriminate|intros [p H]; discriminate]).
  - destruct j as [|j].
    + unfold visb, visl. simpl. destruct x as [q|]; split; intro H; try discriminate.
      * exists q. reflexivity.
      * reflexivity.
      * destruct H as [p H]. discriminate.
    + exact (IH j).
Qed.

Lemma inst_row_length g n a c : length (inst_row g n a c) = n.
Proof. unfold inst_row. rewrite map_length, seq_length. reflexivity. Qed.

Lemma inst_row_nth g n a c j : (j < n)%nat ->
  nth_error (inst_row g n a c) j =
  Some (if memb j c then match nth j a None with Some p => Some (kp_decoded g p) | None => None end else None).
Proof.
  intro Hj. unfold inst_row. rewrite nth_error_map.
  rewrite (nth_error_nth' (seq 0 n) 0%nat) by (rewrite seq_length; exact Hj).
  rewrite seq_nth by exact Hj. reflexivity.
Qed.

(* (iii) member / None pattern of one row: n_nodes slots; the slots of the group hold the decoded labelled
   keypoints (every member of a group is visible), all other slots are None (NaN) *)
Theorem inst_row_pattern g n es a c :
  (forall u v, In (u, v) es -> (u < n /\ v < n)%nat) ->
  In c (groups n es (visl a)) ->
  length (inst_row g n a c) = n /\
  forall j, (j < n)%nat ->
    (In j c -> exists p, nth j a None = Some p /\ nth_error (inst_row g n a c) j = Some (Some (kp_decoded g p))) /\
    (~ In j c -> nth_error (inst_row g n a c) j = Some None).
Proof.
  intros Hb Hc. split; [apply inst_row_length|]. intros j Hj. rewrite (inst_row_nth g n a c j Hj). split.
  - intro Hin. destruct (groups_members_visible n es (visl a) Hb c j Hc Hin) as [_ Hv].
    apply visl_nth in Hv. destruct Hv as [p Hp]. exists p. split; [exact Hp|].
    apply memb_In in Hin. rewrite Hin, Hp. reflexivity.
  - intro Hn. destruct (memb j c) eqn:E; [apply memb_In in E; contradiction|reflexivity].
Qed.

(* one row per (animal, group): the rows are the images of the (duplicate-free, complete, pairwise disjoint)
   groups of each animal *)
Theorem expected_instances_rows g n es animals inst :
  In inst (expected_instances g n es animals) <->
  exists a c, In a animals /\ In c (groups n es (visl a)) /\ inst = inst_row g n a c.
Proof.
  unfold expected_instances. rewrite in_flat_map. split.
  - intros [a [Ha H]]. apply in_map_iff in H. destruct H as [c [E Hc]]. exists a, c. auto.
  - intros [a [c [Ha [Hc E]]]]. exists a. split; [exact Ha|]. apply in_map_iff. exists c. auto.
Qed.

Lemma expected_instances_count g n es animals :
  length (expected_instances g n es animals) = fold_right (fun a s => (length (groups n es (visl a)) + s)%nat) 0%nat animals.
Proof.
  unfold expected_instances. induction animals as [|a t IH]; [reflexivity|].
  simpl. rewrite app_length, map_length, IH. reflexivity.
Qed.

(* the model's integer functions respect equality of rationals *)
Lemma rhe_proper q q' : q == q' -> rhe q = rhe q'.
Proof.
  intro E. unfold rhe. rewrite (Qfloor_comp _ _ E).
  assert (C : (q - inject_Z (Qfloor q') ?= qhalf) = (q' - inject_Z (Qfloor q') ?= qhalf)).
  { apply Qcompare_comp; [rewrite E; reflexivity|reflexivity]. }
  rewrite C. reflexivity.
Qed.

Lemma peak_cell_proper cs n q q' : q == q' -> peak_cell cs n q = peak_cell cs n q'.
Proof. intro E. unfold peak_cell. rewrite (rhe_proper (q / zq cs) (q' / zq cs)); [reflexivity|rewrite E; reflexivity]. Qed.

Lemma in_band_proper cs n q q' : q == q' -> in_band cs n q = in_band cs n q'.
Proof.
  intro E. unfold in_band.
  rewrite (Qleb_comp _ _ (Qeq_refl (- (zq cs / 2))) _ _ E).
  rewrite (Qleb_comp _ _ E _ _ (Qeq_refl (zq ((n - 1) * cs) + zq cs / 2))). reflexivity.
Qed.

(* (iv) every reported coordinate of expected_instances obeys the half-cell bound, outside the band *)
Theorem kp_decoded_within_half_cell g p :
  (0 < g_cs g)%Z -> (1 <= g_wc g)%Z -> (1 <= g_hc g)%Z -> 0 < g_scale g -> 0 < g_eff g ->
  g_f g == g_eff g * g_scale g -> g_off g == 0 -> kp_band g p = false ->
  Qabs (fst (kp_decoded g p) - fst p) <= zq (g_cs g) / (2 * g_scale g * g_eff g) /\
  Qabs (snd (kp_decoded g p) - snd p) <= zq (g_cs g) / (2 * g_scale g * g_eff g).
Proof.
  intros Hcs Hw Hh Hs He Hf Hoff Hband.
  unfold kp_band in Hband. apply orb_false_iff in Hband. destruct Hband as [Hband _].
  apply orb_false_iff in Hband. destruct Hband as [Bx By].
  assert (Tx : to_input (g_f g) (g_off g) (fst p) == to_input (g_eff g * g_scale g) 0 (fst p)).
  { unfold to_input. rewrite Hf, Hoff. reflexivity. }
  assert (Ty : to_input (g_f g) (g_off g) (snd p) == to_input (g_eff g * g_scale g) 0 (snd p)).
  { unfold to_input. rewrite Hf, Hoff. reflexivity. }
  assert (Px : peak_cell (g_cs g) (g_wc g) (to_input (g_f g) (g_off g) (fst p))
               = peak_cell (g_cs g) (g_wc g) (to_input (g_eff g * g_scale g) 0 (fst p))).
  { apply peak_cell_proper. exact Tx. }
  assert (Py : peak_cell (g_cs g) (g_hc g) (to_input (g_f g) (g_off g) (snd p))
               = peak_cell (g_cs g) (g_hc g) (to_input (g_eff g * g_scale g) 0 (snd p))).
  { apply peak_cell_proper. exact Ty. }
  unfold kp_decoded, kp_cell. simpl fst. simpl snd. rewrite Px, Py. split.
  - apply decode_within_half_cell; try assumption. rewrite <- (in_band_proper _ _ _ _ Tx). exact Bx.
  - apply decode_within_half_cell; try assumption. rewrite <- (in_band_proper _ _ _ _ Ty). exact By.
Qed.

(* for a rooted tree forward_instances IS expected_instances over the whole listing *)
Lemma filter_all_true (A : Type) (f : A -> bool) (l : list A) : (forall x, In x l -> f x = true) -> filter f l = l.
Proof.
  induction l as [|a t IH]; intro H; [reflexivity|]. simpl. rewrite (H a (or_introl eq_refl)).
  f_equal. apply IH. intros x Hx. apply H. right. exact Hx.
Qed.

Lemma map_snd_combine_seq (A : Type) (l : list A) s : map snd (combine (seq s (length l)) l) = l.
Proof. revert s. induction l as [|a t IH]; intro s; [reflexivity|]. simpl. rewrite IH. reflexivity. Qed.

Lemma processed_edges_tree_eq (es : list (nat * nat)) r : C17.Lemmas.arborescence es r -> processed_edges es = es.
Proof.
  intro H. unfold processed_edges. rewrite filter_all_true; [apply map_snd_combine_seq|].
  intros [k e] Hin. simpl. apply in_combine_seq in Hin. destruct Hin as [_ Hin]. rewrite Nat.sub_0_r in Hin.
  apply (processed_all es r H). apply nth_error_Some. rewrite Hin. discriminate.
Qed.

Theorem forward_instances_tree g n (es : list (nat * nat)) r animals :
  C17.Lemmas.arborescence es r -> forward_instances g n es animals = expected_instances g n es animals.
Proof. intro H. unfold forward_instances. rewrite (processed_edges_tree_eq es r H). reflexivity. Qed.

(* (v) the abstract `output` of the reassembly theorem has exactly the member pattern of the executable
   groups (hence of expected_instances): every predicted instance is one (animal, group), every
   (animal, group) has exactly one predicted instance *)
Section OutputIsGroups.
  Variables (n : nat) (edges : list (nat * nat)) (animals : list (list kp)).
  Hypothesis bounded : forall u v, In (u, v) edges -> (u < n /\ v < n)%nat.
  Definition vis_of (a j : nat) : bool := visb (visl (nth a animals [])) j.
  Variable output : list instance.
  Hypothesis Hre : reassembled edges (length animals) vis_of all_edges output.

  Lemma vconn_vis_conn a i j :
    vconn edges vis_of all_edges a i j <-> vis_conn edges (visl (nth a animals [])) i j.
  Proof. symmetry. apply vis_conn_vconn. intro x. reflexivity. Qed.

  Theorem output_sound I : In I output ->
    exists a c, (a < length animals)%nat /\ In c (groups n edges (visl (nth a animals []))) /\
                forall b j, member (b, j) I <-> b = a /\ In j c.
  Proof.
    intro HI. destruct (proj1 Hre I HI) as [a [j0 [Ha [_ [Hm [j1 [Hne Hc]]]]]]].
    apply vconn_vis_conn in Hc.
    destruct (groups_complete n edges (visl (nth a animals [])) bounded j0 j1 Hc Hne) as [c [Hcin Hcs]].
    exists a, c. split; [exact Ha|]. split; [exact Hcin|].
    intros b j. rewrite Hm, vconn_vis_conn, Hcs. tauto.
  Qed.

  Theorem output_complete a c :
    (a < length animals)%nat -> In c (groups n edges (visl (nth a animals []))) ->
    exists idx I, nth_error output idx = Some I /\
      (forall b j, member (b, j) I <-> b = a /\ In j c) /\
      forall idx' I' j, nth_error output idx' = Some I' -> In j c -> member (a, j) I' -> idx' = idx.
  Proof.
    intros Ha Hc. set (vl := visl (nth a animals [])) in *.
    assert (Hpiv : exists z idx I, In z c /\ nth_error output idx = Some I /\ member (a, z) I /\
                     forall idx' I', nth_error output idx' = Some I' -> member (a, z) I' -> idx' = idx).
    { pose proof Hc as Hc'. apply (groups_In n edges vl) in Hc'.
      destruct Hc' as [j [Hj [Hv [E [_ Hlen]]]]].
      assert (Hjc : In j c) by (rewrite E; apply component_self; assumption).
      assert (ND : NoDup c) by (rewrite E; apply component_NoDup; assumption).
      destruct (length_ge2_distinct c j ND Hjc Hlen) as [x [Hne Hx]].
      assert (Hcx : vis_conn edges vl j x) by (apply (component_spec n edges vl j x bounded Hj); rewrite <- E; exact Hx).
      destruct (vis_conn_first_edge edges vl j x Hcx (not_eq_sym Hne)) as [[y [Hy|Hy]] _].
      - assert (He : vedge edges vis_of all_edges a j y) by (apply vedge_all_In; exact Hy).
        destruct (proj2 Hre a j y Ha He) as [idx [I [H1 [H2 [_ H4]]]]].
        exists j, idx, I. auto.
      - assert (He : vedge edges vis_of all_edges a y j) by (apply vedge_all_In; exact Hy).
        destruct (proj2 Hre a y j Ha He) as [idx [I [H1 [H2 [_ H4]]]]].
        exists y, idx, I. split; [|auto].
        rewrite E. apply (component_spec n edges vl j y bounded Hj). apply rst_sym. apply rst_step. exact Hy. }
    destruct Hpiv as [z [idx [I [Hz [Hidx [Hmem Huniq]]]]]].
    assert (Hpat : forall idx' I', nth_error output idx' = Some I' -> forall j', In j' c -> member (a, j') I' ->
                     forall b j, member (b, j) I' <-> b = a /\ In j c).
    { intros idx' I' Hi' j' Hj' Hm'. destruct (output_sound I' (nth_error_In _ _ Hi')) as [a' [c' [_ [Hc' Hp]]]].
      pose proof (proj1 (Hp a j') Hm') as [Ea Hjc']. subst a'.
      assert (c' = c) by (eapply groups_disjoint; eauto). subst c'. exact Hp. }
    exists idx, I. split; [exact Hidx|]. split; [exact (Hpat idx I Hidx z Hz Hmem)|].
    intros idx' I' j Hi' Hj Hm'. apply (Huniq idx' I' Hi').
    apply (Hpat idx' I' Hi' j Hj Hm'). auto.
  Qed.
End OutputIsGroups.

(* ================================================================= D. table_alt1 *)
Lemma lookup_In (A : Type) x keys (vals : list A) v : lookup x keys vals = Some v -> In (x, v) (combine keys vals).
Proof.
  revert vals. induction keys as [|k ks IH]; intros [|w ws] H; simpl in H; try discriminate.
  destruct (x =? k)%nat eqn:E.
  - apply Nat.eqb_eq in E. inversion H; subst. left. reflexivity.
  - right. apply IH. exact H.
Qed.

Lemma lookup_some (A : Type) x keys (vals : list A) :
  In x keys -> length vals = length keys -> exists v, lookup x keys vals = Some v.
Proof.
  revert vals. induction keys as [|k ks IH]; intros [|w ws] Hin Hlen; simpl in *; try tauto; try discriminate.
  destruct (x =? k)%nat eqn:E; [exists w; reflexivity|].
  apply IH; [|lia]. destruct Hin as [->|H]; [rewrite Nat.eqb_refl in E; discriminate|exact H].
Qed.

(* table_alt1 = true: the table is rectangular, every entry is finite, diagonal (same animal) entries
   are >= mls, all others < mls, and the true pairs saturate the smaller side *)
Theorem table_alt1_sound S D tab mls :
  table_alt1 S D tab mls = true ->
  (forall a b, In a S -> In b D ->
     exists v, tab_score S D tab a b = Some v /\ (a = b -> mls <= v) /\ (a <> b -> v < mls)) /\
  length (true_pairs S D) = Nat.min (length S) (length D).
Proof.
  unfold table_alt1. intro H. apply andb_true_iff in H. destruct H as [H Hn].
  apply andb_true_iff in H. destruct H as [Hwf Hall]. unfold table_wf in Hwf.
  apply andb_true_iff in Hwf. destruct Hwf as [Hrows Hcols].
  apply Nat.eqb_eq in Hrows. rewrite forallb_forall in Hcols, Hall. split.
  - intros a b Ha Hb.
    destruct (lookup_some _ a S tab Ha Hrows) as [row Hrow].
    pose proof (lookup_In _ _ _ _ _ Hrow) as Hin.
    pose proof (Hcols row (in_combine_r _ _ _ _ Hin)) as Hlen. apply Nat.eqb_eq in Hlen.
    destruct (lookup_some _ b D row Hb Hlen) as [x Hx].
    pose proof (lookup_In _ _ _ _ _ Hx) as Hin2.
    pose proof (Hall (a, row) Hin) as Hr. simpl in Hr. rewrite forallb_forall in Hr.
    pose proof (Hr (b, x) Hin2) as He. simpl in He.
    destruct x as [v|]; [|discriminate]. exists v. split; [unfold tab_score; rewrite Hrow, Hx; reflexivity|].
    destruct (a =? b)%nat eqn:E.
    + apply Nat.eqb_eq in E. split; [intros _; apply Qle_bool_iff; exact He|intro Hne; contradiction].
    + apply Nat.eqb_neq in E. split; [intro; contradiction|intros _].
      apply negb_true_iff in He. apply Qnot_le_lt. intro Hle. apply Qle_bool_iff in Hle. congruence.
  - apply Nat.eqb_eq in Hn. unfold true_pairs. rewrite map_length. exact Hn.
Qed.

(* ... hence, when the table holds the scores of edge type k, score separation (alternative 1) *)
Theorem table_alt1_separated n_animals vis score mls k e tab :
  table_alt1 (srcs n_animals vis e) (dsts n_animals vis e) tab mls = true ->
  (forall a b, In a (srcs n_animals vis e) -> In b (dsts n_animals vis e) ->
     score k a b = tab_score (srcs n_animals vis e) (dsts n_animals vis e) tab a b) ->
  separated n_animals vis score mls k e.
Proof.
  intros Ht Hs. destruct (table_alt1_sound _ _ _ _ Ht) as [Hent Hsat].
  split; [|split].
  - intros a b Ha Hb. rewrite (Hs a b Ha Hb). destruct (Hent a b Ha Hb) as [v [E _]]. rewrite E. discriminate.
  - intros a Ha Hb. unfold sck. rewrite (Hs a a Ha Hb). destruct (Hent a a Ha Hb) as [v [E [H _]]]. rewrite E. simpl. auto.
  - left. split; [|exact Hsat]. intros a b Ha Hb Hne. unfold sck. rewrite (Hs a b Ha Hb).
    destruct (Hent a b Ha Hb) as [v [E [_ H]]]. rewrite E. simpl. auto.
Qed.

(* the guard matters: without it `combine` truncates and an EMPTY table would pass *)
Lemma table_alt1_ragged_rejected :
  table_alt1 [0; 1]%nat [0; 1]%nat [] (1 # 4) = false /\
  table_alt1 [0; 1]%nat [0; 1]%nat [[Some (1 # 2)]] (1 # 4) = false /\
  table_alt1 [0; 1]%nat [0; 1]%nat [[Some (1 # 2); Some 0]; [Some 0; Some (1 # 2)]] (1 # 4) = true.
Proof. repeat split; vm_compute; reflexivity. Qed.

(* ================================================================= non-vacuity of the tree theorem *)
(* all hypotheses of reassembly_tree (incl. `arborescence` and the contract over `processed edges`) are met by
   the instance of Lemmas.v (one animal, skeleton 0 -> 1, score 9/10, min_line_scores 1/4), and its conclusion
   — about ALL edges — is used *)
Lemma ex_arborescence_01 : C17.Lemmas.arborescence [(0, 1)]%nat 0%nat.
Proof.
  split; [discriminate|]. split; [constructor; [intros []|constructor]|]. split.
  - simpl. intros [H|[]]. discriminate.
  - exists (fun x => x). intros u v [H|[]]. inversion H; subst. split; [reflexivity|left; reflexivity].
Qed.

Lemma ex_reassembly_tree_instance :
  exists n I, nth_error [[Some 0%nat; Some 0%nat]] n = Some I /\ member (0, 0)%nat I /\ member (0, 1)%nat I /\
              forall n' I', nth_error [[Some 0%nat; Some 0%nat]] n' = Some I' -> member (0, 0)%nat I' -> n' = n.
Proof.
  destruct (reassembly_tree [(0, 1)]%nat 0%nat 1 (fun _ _ => true) (fun _ _ _ => Some (9 # 10)) (1 # 4)
              (fun _ => [(0, 0)]%nat) ex_arborescence_01
              (fun k e _ _ => ex_optimal k e) (fun k e _ => ex_separated k e)
              [[Some 0%nat; Some 0%nat]] ex_components ex_complete ex_partition) as [_ H].
  destruct (H 0%nat 0%nat 1%nat) as [n [I [A [B [C D]]]]].
  - lia.
  - apply vedge_all_In. split; [left; reflexivity|split; reflexivity].
  - exists n, I. auto.
Qed.
