(* SepLemmas.v (C03) — proofs that derive the "score separation" premise of the reassembly theorem
   (C03/Lemmas.v, Section Reassembly) from (1) numeric margins on the score table and (2) the
   geometry of the ideal part-affinity fields (model: C03/IdealPaf.v). *)
From Coq Require Import List ZArith QArith Qabs Bool Arith Lia Lra Psatz Permutation Relations Reals Qreals.
From SV Require Import C03.BottomUp C03.Lemmas C03.SkelLemmas.
From SV Require C17.Toposort C17.Lemmas.
Import ListNotations.
Open Scope Q_scope.

(* ================================================================= (1) margins on one score table *)
Lemma valid_perm S D M M' : Permutation M M' -> valid S D M -> valid S D M'.
Proof.
  intros P [N1 [N2 [Hm Hl]]]. unfold valid. repeat split.
  - eapply Permutation_NoDup; [apply Permutation_map; exact P|exact N1].
  - eapply Permutation_NoDup; [apply Permutation_map; exact P|exact N2].
  - apply (Hm a b). eapply Permutation_in; [apply Permutation_sym; exact P|exact H].
  - apply (Hm a b). eapply Permutation_in; [apply Permutation_sym; exact P|exact H].
  - rewrite <- Hl. symmetry. apply Permutation_length. exact P.
Qed.

Lemma total_perm sc M M' : Permutation M M' -> total sc M == total sc M'.
Proof. intro P. unfold total. apply sumf_perm. exact P. Qed.

Lemma in_extract (e : nat * nat) M : In e M -> exists R, Permutation M (e :: R).
Proof.
  intro H. apply in_split in H. destruct H as [l1 [l2 ->]]. exists (l1 ++ l2).
  apply Permutation_sym. apply Permutation_middle.
Qed.

Section Margin.
  Variables (S D : list nat) (sc : nat -> nat -> Q) (T Clo Chi : R).
  Hypothesis ND_S : NoDup S.
  Hypothesis ND_D : NoDup D.
  (* every true pair scores at least T; every cross pair lies in [-Clo, Chi]; the margin *)
  Hypothesis true_hi : forall a, In a S -> In a D -> (T <= Q2R (sc a a))%R.
  Hypothesis cross_hi : forall a b, In a S -> In b D -> a <> b -> (Q2R (sc a b) <= Chi)%R.
  Hypothesis cross_lo : forall a b, In a S -> In b D -> a <> b -> (- Clo <= Q2R (sc a b))%R.
  Hypothesis margin : (2 * Chi + Clo < T)%R.

  (* EXCHANGE ARGUMENT: every maximum-total assignment of the forced size min(|S|,|D|) contains
     every true pair, also when lonely sources face lonely destinations (no saturation needed) *)
  Theorem margin_optimum_has_true_pairs M a :
    optimal S D sc M -> In a S -> In a D -> In (a, a) M.
  Proof.
    intros [HV Hopt] HaS HaD.
    destruct (inb (a, a) M) eqn:E; [apply inb_In; exact E|]. exfalso.
    assert (Hnot : ~ In (a, a) M) by (intro H; apply inb_In in H; congruence).
    destruct (in_dec Nat.eq_dec a (map fst M)) as [Hf|Hf];
      destruct (in_dec Nat.eq_dec a (map snd M)) as [Hs|Hs].
    - (* a is matched as a source (to d) and as a destination (from s): swap partners *)
      apply in_map_iff in Hf. destruct Hf as [[a' d] [Ea Hin1]]. simpl in Ea. subst a'.
      apply in_map_iff in Hs. destruct Hs as [[s a'] [Ea Hin2]]. simpl in Ea. subst a'.
      assert (Hda : d <> a) by (intro; subst; contradiction).
      assert (Hsa : s <> a) by (intro; subst; contradiction).
      destruct (in_extract _ _ Hin1) as [R1 P1].
      assert (Hin2' : In (s, a) R1).
      { pose proof (Permutation_in _ P1 Hin2) as H. destruct H as [H|H]; [inversion H; congruence|exact H]. }
      destruct (in_extract _ _ Hin2') as [R P2].
      assert (P : Permutation M ((a, d) :: (s, a) :: R)).
      { eapply Permutation_trans; [exact P1|]. apply perm_skip. exact P2. }
      pose proof (valid_perm _ _ _ _ P HV) as [N1 [N2 [Hm Hl]]].
      assert (HV' : valid S D ((a, a) :: (s, d) :: R)).
      { unfold valid. repeat split.
        - exact N1.
        - simpl in N2 |- *. eapply Permutation_NoDup; [apply perm_swap|exact N2].
        - destruct H as [H|[H|H]].
          + inversion H; subst. exact HaS.
          + inversion H; subst. apply (Hm a0 a). right. left. reflexivity.
          + apply (Hm a0 b). right. right. exact H.
        - destruct H as [H|[H|H]].
          + inversion H; subst. exact HaD.
          + inversion H; subst. apply (Hm a b). left. reflexivity.
          + apply (Hm a0 b). right. right. exact H.
        - simpl in Hl |- *. exact Hl. }
      pose proof (Hopt _ HV') as Hle. rewrite (total_perm sc _ _ P) in Hle.
      unfold total in Hle. simpl in Hle. apply Qle_Rle in Hle. repeat rewrite Q2R_plus in Hle.
      destruct (Hm a d (or_introl eq_refl)) as [_ HdD].
      destruct (Hm s a (or_intror (or_introl eq_refl))) as [HsS _].
      pose proof (true_hi a HaS HaD) as B1.
      pose proof (cross_hi a d HaS HdD (not_eq_sym Hda)) as B2.
      pose proof (cross_lo a d HaS HdD (not_eq_sym Hda)) as B2'.
      pose proof (cross_hi s a HsS HaD Hsa) as B3.
      assert (B4 : (- Clo <= Q2R (sc s d))%R).
      { destruct (Nat.eq_dec s d) as [->|Hne].
        - pose proof (true_hi d HsS HdD). lra.
        - apply cross_lo; assumption. }
      lra.
    - (* a is matched as a source only: re-point it to its own destination *)
      apply in_map_iff in Hf. destruct Hf as [[a' d] [Ea Hin1]]. simpl in Ea. subst a'.
      assert (Hda : d <> a) by (intro; subst; contradiction).
      destruct (in_extract _ _ Hin1) as [R P].
      pose proof (valid_perm _ _ _ _ P HV) as [N1 [N2 [Hm Hl]]].
      assert (HV' : valid S D ((a, a) :: R)).
      { unfold valid. repeat split.
        - exact N1.
        - simpl in N2 |- *. apply NoDup_cons.
          + intro H. apply Hs. eapply Permutation_in; [apply Permutation_sym; apply Permutation_map; exact P|].
            simpl. right. exact H.
          + inversion N2; assumption.
        - destruct H as [H|H]; [inversion H; subst; exact HaS|apply (Hm a0 b); right; exact H].
        - destruct H as [H|H]; [inversion H; subst; exact HaD|apply (Hm a0 b); right; exact H].
        - simpl in Hl |- *. exact Hl. }
      pose proof (Hopt _ HV') as Hle. rewrite (total_perm sc _ _ P) in Hle.
      unfold total in Hle. simpl in Hle. apply Qle_Rle in Hle. repeat rewrite Q2R_plus in Hle.
      destruct (Hm a d (or_introl eq_refl)) as [_ HdD].
      pose proof (true_hi a HaS HaD) as B1.
      pose proof (cross_hi a d HaS HdD (not_eq_sym Hda)) as B2.
      pose proof (cross_lo a d HaS HdD (not_eq_sym Hda)) as B2'.
      lra.
    - (* a is matched as a destination only *)
      apply in_map_iff in Hs. destruct Hs as [[s a'] [Ea Hin2]]. simpl in Ea. subst a'.
      assert (Hsa : s <> a) by (intro; subst; contradiction).
      destruct (in_extract _ _ Hin2) as [R P].
      pose proof (valid_perm _ _ _ _ P HV) as [N1 [N2 [Hm Hl]]].
      assert (HV' : valid S D ((a, a) :: R)).
      { unfold valid. repeat split.
        - simpl in N1 |- *. apply NoDup_cons.
          + intro H. apply Hf. eapply Permutation_in; [apply Permutation_sym; apply Permutation_map; exact P|].
            simpl. right. exact H.
          + inversion N1; assumption.
        - exact N2.
        - destruct H as [H|H]; [inversion H; subst; exact HaS|apply (Hm a0 b); right; exact H].
        - destruct H as [H|H]; [inversion H; subst; exact HaD|apply (Hm a0 b); right; exact H].
        - simpl in Hl |- *. exact Hl. }
      pose proof (Hopt _ HV') as Hle. rewrite (total_perm sc _ _ P) in Hle.
      unfold total in Hle. simpl in Hle. apply Qle_Rle in Hle. repeat rewrite Q2R_plus in Hle.
      destruct (Hm s a (or_introl eq_refl)) as [HsS _].
      pose proof (true_hi a HaS HaD) as B1.
      pose proof (cross_hi s a HsS HaD Hsa) as B3.
      pose proof (cross_lo s a HsS HaD Hsa) as B3'.
      lra.
    - (* a is matched on neither side: impossible for an assignment of size min(|S|,|D|) *)
      destruct HV as [N1 [N2 [Hm Hl]]].
      assert (L1 : (length (a :: map fst M) <= length S)%nat).
      { apply NoDup_incl_length; [apply NoDup_cons; assumption|].
        intros x [<-|Hx]; [exact HaS|]. apply in_map_iff in Hx. destruct Hx as [[x' y] [Ex Hx]].
        simpl in Ex. subst. apply (Hm x y Hx). }
      assert (L2 : (length (a :: map snd M) <= length D)%nat).
      { apply NoDup_incl_length; [apply NoDup_cons; assumption|].
        intros x [<-|Hx]; [exact HaD|]. apply in_map_iff in Hx. destruct Hx as [[y x'] [Ex Hx]].
        simpl in Ex. subst. apply (Hm y x Hx). }
      simpl in L1, L2. rewrite map_length in L1, L2. lia.
  Qed.
End Margin.

(* ================================================================= (2) the ideal PAF (IdealPaf.v) *)
From SV Require Import C03.IdealPaf.
Local Open Scope R_scope.

Lemma rabs_le_inv x a : Rabs x <= a -> - a <= x <= a.
Proof. unfold Rabs. destruct (Rcase_abs x); lra. Qed.

Lemma exp_le x y : x <= y -> exp x <= exp y.
Proof. intros [H| ->]; [left; apply exp_increasing; exact H|right; reflexivity]. Qed.

Lemma weight_pos sigma d2 : 0 < paf_weight sigma d2.
Proof. apply exp_pos. Qed.

Lemma weight_arg_le sigma a b : 0 < sigma -> 0 <= a <= b ->
  - (b * b) / (2 * sigma * sigma) <= - (a * a) / (2 * sigma * sigma).
Proof.
  intros Hs [Ha Hab]. unfold Rdiv.
  assert (0 < / (2 * sigma * sigma)) by (apply Rinv_0_lt_compat; nra).
  assert (a * a <= b * b) by nra. nra.
Qed.

Lemma weight_antitone sigma a b : 0 < sigma -> 0 <= a <= b -> paf_weight sigma b <= paf_weight sigma a.
Proof. intros Hs H. apply exp_le. apply weight_arg_le; assumption. Qed.

Lemma weight_le_1 sigma d2 : 0 < sigma -> paf_weight sigma d2 <= 1.
Proof.
  intro Hs. unfold paf_weight. rewrite <- exp_0. apply exp_le. unfold Rdiv.
  assert (0 < / (2 * sigma * sigma)) by (apply Rinv_0_lt_compat; nra).
  assert (0 <= d2 * d2) by nra. nra.
Qed.

Lemma clamp01_bounds t : 0 <= clamp01 t <= 1.
Proof. unfold clamp01, Rmax, Rmin. repeat destruct (Rle_dec _ _); lra. Qed.

Lemma seg_d2_nonneg g px py : 0 <= seg_d2 g px py.
Proof.
  unfold seg_d2. cbv zeta.
  set (a := seg_t g px py * e_x g - (px - s_x g)). set (b := seg_t g px py * e_y g - (py - s_y g)).
  pose proof (Rle_0_sqr a). pose proof (Rle_0_sqr b). unfold Rsqr in *. lra.
Qed.

Lemma unit_norm g : 0 < len2 g -> u_x g * u_x g + u_y g * u_y g = 1.
Proof.
  intro H. destruct (sqrt_facts _ H) as [Hp Hs]. unfold u_x, u_y, Rdiv.
  set (s := sqrt (len2 g)) in *.
  replace (e_x g * / s * (e_x g * / s) + e_y g * / s * (e_y g * / s))
    with (len2 g * (/ s * / s)) by (unfold len2; ring).
  rewrite <- Hs. field. lra.
Qed.

Lemma dot_abs_le_1 a b c d : a * a + b * b = 1 -> c * c + d * d = 1 -> -1 <= a * c + b * d <= 1.
Proof.
  intros H1 H2. pose proof (Rle_0_sqr (a - c)). pose proof (Rle_0_sqr (b - d)).
  pose proof (Rle_0_sqr (a + c)). pose proof (Rle_0_sqr (b + d)). unfold Rsqr in *. nra.
Qed.

Section Field.
  Variables (sigma vx vy : R).
  Hypothesis sigma_pos : 0 < sigma.
  Hypothesis v_unit : vx * vx + vy * vy = 1.

  Lemma paf_dot_bounds g px py : 0 < len2 g ->
    - paf_weight sigma (seg_d2 g px py) <= paf_dot sigma g px py vx vy <= paf_weight sigma (seg_d2 g px py).
  Proof.
    intro H. unfold paf_dot. pose proof (weight_pos sigma (seg_d2 g px py)).
    pose proof (dot_abs_le_1 _ _ _ _ (unit_norm g H) v_unit). nra.
  Qed.

  Lemma paf_dot_far g px py R2 : 0 < len2 g -> 0 <= R2 -> R2 <= seg_d2 g px py ->
    - paf_weight sigma R2 <= paf_dot sigma g px py vx vy <= paf_weight sigma R2.
  Proof.
    intros H H0 H1. pose proof (paf_dot_bounds g px py H).
    pose proof (weight_antitone sigma R2 (seg_d2 g px py) sigma_pos (conj H0 H1)). lra.
  Qed.

  Lemma paf_dot_any g px py : 0 < len2 g -> -1 <= paf_dot sigma g px py vx vy <= 1.
  Proof.
    intro H. pose proof (paf_dot_bounds g px py H).
    pose proof (weight_le_1 sigma (seg_d2 g px py) sigma_pos). lra.
  Qed.

  (* the animals that have both parts of the edge: indices l, segments f c *)
  Variable f : nat -> seg.
  Variables (px py R2 : R).
  Hypothesis R2_nonneg : 0 <= R2.

  Lemma field_all_far l :
    (forall c, In c l -> 0 < len2 (f c)) ->
    (forall c, In c l -> R2 <= seg_d2 (f c) px py) ->
    - (INR (length l) * paf_weight sigma R2) <= field_dot sigma (map f l) px py vx vy
      <= INR (length l) * paf_weight sigma R2.
  Proof.
    induction l as [|c t IH]; intros Hn Hf.
    - simpl. lra.
    - change (length (c :: t)) with (Datatypes.S (length t)). rewrite S_INR. simpl map. simpl field_dot.
      pose proof (paf_dot_far (f c) px py R2 (Hn c (or_introl eq_refl)) R2_nonneg (Hf c (or_introl eq_refl))).
      assert (IH' := IH (fun c H => Hn c (or_intror H)) (fun c H => Hf c (or_intror H))). lra.
  Qed.

  (* at most ONE animal's segment is nearer than R2: the field has magnitude <= 1 + A w(R2) *)
  Lemma field_one_near l c0 : NoDup l ->
    (forall c, In c l -> 0 < len2 (f c)) ->
    (forall c, In c l -> c <> c0 -> R2 <= seg_d2 (f c) px py) ->
    - (1 + INR (length l) * paf_weight sigma R2) <= field_dot sigma (map f l) px py vx vy
      <= 1 + INR (length l) * paf_weight sigma R2.
  Proof.
    pose proof (weight_pos sigma R2) as Wp.
    induction l as [|c t IH]; intros ND Hn Hf.
    - simpl. lra.
    - change (length (c :: t)) with (Datatypes.S (length t)). rewrite S_INR. simpl map. simpl field_dot.
      inversion ND as [|? ? Hc NDt]; subst.
      destruct (Nat.eq_dec c c0) as [->|Hne].
      + pose proof (paf_dot_any (f c0) px py (Hn c0 (or_introl eq_refl))).
        assert (Ht := field_all_far t (fun c H => Hn c (or_intror H))
                        (fun c H => Hf c (or_intror H) (fun E => Hc (eq_ind _ (fun z => In z t) H _ E)))).
        lra.
      + pose proof (paf_dot_far (f c) px py R2 (Hn c (or_introl eq_refl)) R2_nonneg (Hf c (or_introl eq_refl) Hne)).
        assert (IH' := IH NDt (fun c H => Hn c (or_intror H)) (fun c H => Hf c (or_intror H))). lra.
  Qed.

  (* the candidate's own segment is within r2 and nearly parallel (cos >= kappa), all others are
     beyond R2: the field along the candidate is at least w(r2) kappa - A w(R2) *)
  Lemma field_own_lower l a r2 kappa : NoDup l -> In a l ->
    (forall c, In c l -> 0 < len2 (f c)) ->
    0 <= r2 -> seg_d2 (f a) px py <= r2 ->
    0 <= kappa <= u_x (f a) * vx + u_y (f a) * vy ->
    (forall c, In c l -> c <> a -> R2 <= seg_d2 (f c) px py) ->
    paf_weight sigma r2 * kappa - INR (length l) * paf_weight sigma R2
      <= field_dot sigma (map f l) px py vx vy.
  Proof.
    pose proof (weight_pos sigma R2) as Wp.
    intros ND Ha Hn Hr Hd Hk. revert ND Ha Hn.
    induction l as [|c t IH]; intros ND Ha Hn Hf; [destruct Ha|].
    change (length (c :: t)) with (Datatypes.S (length t)). rewrite S_INR. simpl map. simpl field_dot.
    inversion ND as [|? ? Hc NDt]; subst.
    destruct (Nat.eq_dec c a) as [->|Hne].
    - assert (Ht := field_all_far t (fun c H => Hn c (or_intror H))
                      (fun c H => Hf c (or_intror H) (fun E => Hc (eq_ind _ (fun z => In z t) H _ E)))).
      assert (W : paf_weight sigma r2 <= paf_weight sigma (seg_d2 (f a) px py)).
      { apply weight_antitone; [exact sigma_pos|]. split; [apply seg_d2_nonneg|exact Hd]. }
      pose proof (weight_pos sigma r2). unfold paf_dot. nra.
    - destruct Ha as [E|Ha]; [congruence|].
      pose proof (paf_dot_far (f c) px py R2 (Hn c (or_introl eq_refl)) R2_nonneg (Hf c (or_introl eq_refl) Hne)).
      assert (IH' := IH NDt Ha (fun c H => Hn c (or_intror H)) (fun c H => Hf c (or_intror H))). lra.
  Qed.
End Field.

(* sums over the sampled cells *)
Lemma line_sum_app sigma segs p1 p2 vx vy :
  line_sum sigma segs (p1 ++ p2) vx vy = line_sum sigma segs p1 vx vy + line_sum sigma segs p2 vx vy.
Proof. induction p1 as [|p t IH]; simpl; [lra|rewrite IH; lra]. Qed.

Lemma line_sum_perm sigma segs p1 p2 vx vy : Permutation p1 p2 ->
  line_sum sigma segs p1 vx vy = line_sum sigma segs p2 vx vy.
Proof. induction 1; simpl; lra. Qed.

Lemma line_sum_bounds sigma segs pts vx vy lo hi :
  (forall p, In p pts -> lo <= field_dot sigma segs (fst p) (snd p) vx vy <= hi) ->
  INR (length pts) * lo <= line_sum sigma segs pts vx vy <= INR (length pts) * hi.
Proof.
  induction pts as [|p t IH]; intro H.
  - simpl. lra.
  - change (length (p :: t)) with (Datatypes.S (length t)). rewrite S_INR. simpl line_sum.
    pose proof (H p (or_introl eq_refl)). assert (IH' := IH (fun q Hq => H q (or_intror Hq))). lra.
Qed.

(* ---- geometry of one segment: bounding boxes ---- *)
Lemma sq_mono_pos X u : 0 <= X -> X <= u -> X * X <= u * u.
Proof. intros. nra. Qed.
Lemma sq_mono_neg X u : 0 <= X -> u <= - X -> X * X <= u * u.
Proof. intros. nra. Qed.
Lemma seg_closest_x g px py : 0 <= seg_t g px py <= 1. 
Proof. apply clamp01_bounds. Qed.

(* a point at least X outside the bounding box of the segment (on any side) has squared
   distance >= X^2 from it *)
Lemma seg_d2_outside_box g X px py : 0 <= X -> outside_box g X px py -> X * X <= seg_d2 g px py.
Proof.
  intros HX H. unfold seg_d2. cbv zeta. pose proof (seg_closest_x g px py) as [T0 T1].
  set (t := seg_t g px py) in *. unfold outside_box, box_lo_x, box_hi_x, box_lo_y, box_hi_y, e_x, e_y in *.
  set (a := s_x g) in *. set (b := d_x g) in *. set (c := s_y g) in *. set (d := d_y g) in *.
  assert (Qx : Rmin a b <= a + t * (b - a) <= Rmax a b).
  { unfold Rmin, Rmax. destruct (Rle_dec a b); nra. }
  assert (Qy : Rmin c d <= c + t * (d - c) <= Rmax c d).
  { unfold Rmin, Rmax. destruct (Rle_dec c d); nra. }
  set (qx := a + t * (b - a)) in *. set (qy := c + t * (d - c)) in *.
  replace (t * (b - a) - (px - a)) with (qx - px) by (unfold qx; ring).
  replace (t * (d - c) - (py - c)) with (qy - py) by (unfold qy; ring).
  generalize dependent qx. generalize dependent qy. intros qy Qy qx Qx.
  generalize (Rmin a b) (Rmax a b) (Rmin c d) (Rmax c d) Qx Qy H HX. clear. intros mx Mx my My Qx Qy H HX.
  pose proof (Rle_0_sqr (qx - px)) as S1. pose proof (Rle_0_sqr (qy - py)) as S2. unfold Rsqr in *.
  destruct H as [H|[H|[H|H]]].
  - assert (X * X <= (qx - px) * (qx - px)) by (apply sq_mono_pos; lra). lra.
  - assert (X * X <= (qx - px) * (qx - px)) by (apply sq_mono_neg; lra). lra.
  - assert (X * X <= (qy - py) * (qy - py)) by (apply sq_mono_pos; lra). lra.
  - assert (X * X <= (qy - py) * (qy - py)) by (apply sq_mono_neg; lra). lra.
Qed.

(* separation by a threshold T that need not be min_line_scores (saturated edge types) *)
Lemma separated_from_threshold n_animals vis score (mls T : Q) k e :
  all_finite n_animals vis score k e ->
  (forall a, In a (srcs n_animals vis e) -> In a (dsts n_animals vis e) ->
     (mls <= sck score k a a /\ T <= sck score k a a)%Q) ->
  (forall a b, In a (srcs n_animals vis e) -> In b (dsts n_animals vis e) -> a <> b -> (sck score k a b < T)%Q) ->
  length (true_pairs (srcs n_animals vis e) (dsts n_animals vis e))
  = Nat.min (length (srcs n_animals vis e)) (length (dsts n_animals vis e)) ->
  separated n_animals vis score mls k e.
Proof.
  intros Hfin Htrue Hcross Hsat. split; [exact Hfin|]. split; [intros a Hs Hd; apply (Htrue a Hs Hd)|].
  right. intros M HM.
  pose proof (saturated_unique_optimum (srcs n_animals vis e) (dsts n_animals vis e) (sck score k) T
                (srcs_NoDup n_animals vis e) (fun a Hs Hd => proj2 (Htrue a Hs Hd)) Hcross Hsat M HM) as HU.
  split.
  - intros p Hp. apply HU. exact Hp.
  - intros a b Hin Hne. apply HU in Hin. apply true_pairs_In in Hin. destruct Hin as [E _]. contradiction.
Qed.

(* ================================================================= (3) geometry ==> separation *)
(* One scene, all edge types.  The line score the code computes (a float, here Q) is tied to the
   ideal real-valued score within eps (the harness measures this on every scene), the geometry is
   stated on the sampled cells; the conclusion is the `separated` premise of the reassembly theorem. *)
Section Geo.
  Variable n_animals : nat.
  Variable vis : nat -> nat -> bool.
  Variable score : nat -> nat -> nat -> option Q.
  Variable mls : Q.
  Variables (sigma eps : R).
  Variable seg_of : nat -> nat -> seg.                       (* edge type k, animal a *)
  Variable pts : nat -> nat -> nat -> list (R * R).          (* cells read for (k, src of a, dst of b) *)
  Variables (dirx diry pen : nat -> nat -> nat -> R).        (* unit direction, distance penalty *)

  Definition both (e : nat * nat) : list nat :=
    filter (fun a => vis a (fst e) && vis a (snd e)) (animals n_animals).
  Definition segs (k : nat) (e : nat * nat) : list seg := map (seg_of k) (both e).

  Lemma both_NoDup e : NoDup (both e).
  Proof. apply NoDup_filter. apply seq_NoDup. Qed.
  Lemma both_In e a : In a (both e) <-> In a (srcs n_animals vis e) /\ In a (dsts n_animals vis e).
  Proof.
    unfold both. rewrite filter_In, (srcs_In n_animals vis score), (dsts_In n_animals vis score), andb_true_iff. unfold animals. rewrite in_seq.
    split; [intros [H1 [H2 H3]]|intros [[H1 H2] [H3 H4]]]; repeat split; try assumption; lia.
  Qed.

  (* the geometric premise for edge type k = e, with its parameters *)
  Record geo_edge (k : nat) (e : nat * nat) (r2 R2 kappa P : R) (m n : nat) : Prop := {
    ge_sigma : 0 < sigma;
    ge_eps : 0 <= eps;
    ge_r2 : 0 <= r2;
    ge_R2 : 0 <= R2;
    ge_n : (0 < n)%nat;
    ge_P : 0 <= P;
    (* TIE: the computed score is the ideal line integral + penalty, within eps *)
    ge_tie : forall a b, In a (srcs n_animals vis e) -> In b (dsts n_animals vis e) ->
      exists s, score k a b = Some s /\
        Rabs (Q2R s - (line_score sigma (segs k e) (pts k a b) (dirx k a b) (diry k a b) + pen k a b)) <= eps;
    ge_unit : forall a b, In a (srcs n_animals vis e) -> In b (dsts n_animals vis e) ->
      dirx k a b * dirx k a b + diry k a b * diry k a b = 1 /\ length (pts k a b) = n;
    ge_nondeg : forall a, In a (both e) -> 0 < len2 (seg_of k a);
    (* TRUE candidates: not penalised, nearly parallel to the animal's own segment, every sampled
       cell within r2 (squared) of it and at least R2 (squared) from every other animal's segment *)
    ge_true : forall a, In a (both e) ->
      pen k a a = 0 /\
      0 <= kappa <= u_x (seg_of k a) * dirx k a a + u_y (seg_of k a) * diry k a a /\
      forall p, In p (pts k a a) ->
        seg_d2 (seg_of k a) (fst p) (snd p) <= r2 /\
        forall c, In c (both e) -> c <> a -> R2 <= seg_d2 (seg_of k c) (fst p) (snd p);
    (* CROSS candidates: at most m sampled cells come nearer than R2 to any segment of this edge
       type, and none of them to two segments at once *)
    ge_cross : forall a b, In a (srcs n_animals vis e) -> In b (dsts n_animals vis e) -> a <> b ->
      - P <= pen k a b <= 0 /\
      exists near far, Permutation (pts k a b) (near ++ far) /\ (length near <= m)%nat /\
        (forall p, In p far -> forall c, In c (both e) -> R2 <= seg_d2 (seg_of k c) (fst p) (snd p)) /\
        (forall p, In p near -> exists c0, forall c, In c (both e) -> c <> c0 ->
                                           R2 <= seg_d2 (seg_of k c) (fst p) (snd p))
  }.

  (* the bounds the geometry yields *)
  Definition true_bound (e : nat * nat) (r2 R2 kappa : R) : R :=
    paf_weight sigma r2 * kappa - INR (length (both e)) * paf_weight sigma R2 - eps.
  Definition cross_bound (e : nat * nat) (R2 : R) (m n : nat) : R :=
    INR m / INR n + INR (length (both e)) * paf_weight sigma R2 + eps.

  Section OneEdge.
    Variables (k : nat) (e : nat * nat) (r2 R2 kappa P : R) (m n : nat).
    Hypothesis G : geo_edge k e r2 R2 kappa P m n.

    Lemma geo_finite : all_finite n_animals vis score k e.
    Proof.
      intros a b Ha Hb. destruct (ge_tie _ _ _ _ _ _ _ _ G a b Ha Hb) as [s [E _]]. congruence.
    Qed.

    Lemma geo_true_score a : In a (both e) -> true_bound e r2 R2 kappa <= Q2R (sck score k a a).
    Proof.
      intro Ha. pose proof Ha as Hab. apply both_In in Hab. destruct Hab as [Hs Hd].
      destruct (ge_tie _ _ _ _ _ _ _ _ G a a Hs Hd) as [s [Es Htie]].
      destruct (ge_unit _ _ _ _ _ _ _ _ G a a Hs Hd) as [Hu Hlen].
      destruct (ge_true _ _ _ _ _ _ _ _ G a Ha) as [Hpen [Hk Hp]].
      unfold sck. rewrite Es. simpl. rewrite Hpen in Htie.
      pose proof (ge_n _ _ _ _ _ _ _ _ G) as Hn. apply lt_INR in Hn. simpl in Hn.
      set (B := paf_weight sigma r2 * kappa - INR (length (both e)) * paf_weight sigma R2).
      assert (HB : B <= line_score sigma (segs k e) (pts k a a) (dirx k a a) (diry k a a)).
      { unfold line_score. rewrite Hlen. apply (proj1 (Rle_div_r _ _ _ Hn)).
        pose proof (line_sum_bounds sigma (segs k e) (pts k a a) (dirx k a a) (diry k a a) B
                      (1 + INR (length (both e)) * paf_weight sigma R2)) as LB.
        rewrite Hlen in LB. rewrite Rmult_comm. apply LB.
        intros p Hin. destruct (Hp p Hin) as [Hown Hoth]. split.
        - unfold B, segs. apply field_own_lower with (a := a);
            [exact (ge_sigma _ _ _ _ _ _ _ _ G)|exact Hu|exact (ge_R2 _ _ _ _ _ _ _ _ G)|apply both_NoDup|exact Ha
            |exact (ge_nondeg _ _ _ _ _ _ _ _ G)|exact (ge_r2 _ _ _ _ _ _ _ _ G)|exact Hown|exact Hk|exact Hoth].
        - unfold segs. apply (field_one_near sigma _ _ (ge_sigma _ _ _ _ _ _ _ _ G) Hu (seg_of k) _ _ R2
                                (ge_R2 _ _ _ _ _ _ _ _ G) (both e) a (both_NoDup e) (ge_nondeg _ _ _ _ _ _ _ _ G) Hoth). }
      unfold true_bound. fold B.
      pose proof (rabs_le_inv _ _ Htie) as Htie'. lra.
    Qed.

    Lemma geo_cross_score a b :
      In a (srcs n_animals vis e) -> In b (dsts n_animals vis e) -> a <> b ->
      - (cross_bound e R2 m n + P) <= Q2R (sck score k a b) <= cross_bound e R2 m n.
    Proof.
      intros Hs Hd Hne.
      destruct (ge_tie _ _ _ _ _ _ _ _ G a b Hs Hd) as [s [Es Htie]].
      destruct (ge_unit _ _ _ _ _ _ _ _ G a b Hs Hd) as [Hu Hlen].
      destruct (ge_cross _ _ _ _ _ _ _ _ G a b Hs Hd Hne) as [Hpen [near [far [Pm [Hm [Hfar Hnear]]]]]].
      unfold sck. rewrite Es. simpl.
      pose proof (ge_n _ _ _ _ _ _ _ _ G) as Hn. apply lt_INR in Hn. simpl in Hn.
      pose proof (ge_sigma _ _ _ _ _ _ _ _ G) as Hsig. pose proof (ge_R2 _ _ _ _ _ _ _ _ G) as HR2.
      set (A := INR (length (both e))). set (w := paf_weight sigma R2).
      assert (Wp : 0 < w) by apply weight_pos.
      assert (A0 : 0 <= A) by apply pos_INR.
      set (vx := dirx k a b) in *. set (vy := diry k a b) in *.
      assert (Nb : - (INR (length near) * (1 + A * w)) <= line_sum sigma (segs k e) near vx vy
                   <= INR (length near) * (1 + A * w)).
      { rewrite Ropp_mult_distr_r. apply line_sum_bounds. intros p Hin. destruct (Hnear p Hin) as [c0 Hc0].
        unfold segs, A, w.
        apply (field_one_near sigma vx vy Hsig Hu (seg_of k) _ _ R2 HR2 (both e) c0 (both_NoDup e)
                 (ge_nondeg _ _ _ _ _ _ _ _ G) Hc0). }
      assert (Fb : - (INR (length far) * (A * w)) <= line_sum sigma (segs k e) far vx vy
                   <= INR (length far) * (A * w)).
      { rewrite Ropp_mult_distr_r. apply line_sum_bounds. intros p Hin. unfold segs, A, w.
        apply (field_all_far sigma vx vy Hsig Hu (seg_of k) _ _ R2 HR2 (both e)
                 (ge_nondeg _ _ _ _ _ _ _ _ G) (Hfar p Hin)). }
      assert (Hsum : line_sum sigma (segs k e) (pts k a b) vx vy
                     = line_sum sigma (segs k e) near vx vy + line_sum sigma (segs k e) far vx vy).
      { rewrite (line_sum_perm _ _ _ _ _ _ Pm). apply line_sum_app. }
      assert (Hlen' : INR (length near) + INR (length far) = INR n).
      { rewrite <- plus_INR, <- app_length, <- (Permutation_length Pm), Hlen. reflexivity. }
      assert (Hm' : INR (length near) <= INR m) by (apply le_INR; exact Hm).
      assert (N0 : 0 <= INR (length near)) by apply pos_INR.
      assert (F0 : 0 <= INR (length far)) by apply pos_INR.
      set (ln := INR (length near)) in *. set (lf := INR (length far)) in *.
      assert (Hscore : - (INR m / INR n + A * w) <= line_score sigma (segs k e) (pts k a b) vx vy
                       <= INR m / INR n + A * w).
      { unfold line_score. rewrite Hlen, Hsum.
        assert (AW : 0 <= A * w) by nra.
        assert (Hi : 0 < / INR n) by (apply Rinv_0_lt_compat; exact Hn).
        assert (E1 : (INR m / INR n + A * w) = (INR m + INR n * (A * w)) * / INR n) by (field; lra).
        rewrite E1. unfold Rdiv.
        assert (U : line_sum sigma (segs k e) near vx vy + line_sum sigma (segs k e) far vx vy
                    <= INR m + INR n * (A * w)) by nra.
        assert (L : - (INR m + INR n * (A * w))
                    <= line_sum sigma (segs k e) near vx vy + line_sum sigma (segs k e) far vx vy) by nra.
        split.
        - rewrite Ropp_mult_distr_l. apply Rmult_le_compat_r; [lra|exact L].
        - apply Rmult_le_compat_r; [lra|exact U]. }
      pose proof (rabs_le_inv _ _ Htie) as Htie'.
      unfold cross_bound. fold A. fold w. lra.
    Qed.

    (* saturated edge type (no lonely source faces a lonely destination): any rational threshold
       between the two bounds will do, the penalty P and the factor 3 are not needed *)
    Theorem geo_separated_saturated (Tq : Q) :
      cross_bound e R2 m n < Q2R Tq -> Q2R Tq <= true_bound e r2 R2 kappa ->
      Q2R mls <= true_bound e r2 R2 kappa ->
      length (true_pairs (srcs n_animals vis e) (dsts n_animals vis e))
      = Nat.min (length (srcs n_animals vis e)) (length (dsts n_animals vis e)) ->
      separated n_animals vis score mls k e.
    Proof.
      intros H1 H2 H3 Hsat. apply (separated_from_threshold n_animals vis score mls Tq k e geo_finite).
      - intros a Hs Hd. assert (Ha : In a (both e)) by (apply both_In; auto).
        pose proof (geo_true_score a Ha). split; apply Rle_Qle; lra.
      - intros a b Hs Hd Hne. apply Rlt_Qlt. pose proof (geo_cross_score a b Hs Hd Hne). lra.
      - exact Hsat.
    Qed.

    (* numeric margin between the two bounds *)
    Hypothesis margin : 3 * cross_bound e R2 m n + P < true_bound e r2 R2 kappa.
    Hypothesis cross_below : cross_bound e R2 m n < Q2R mls.
    Hypothesis true_above : Q2R mls <= true_bound e r2 R2 kappa.

    Theorem geo_separated : separated n_animals vis score mls k e.
    Proof.
      split; [exact geo_finite|]. split.
      - intros a Hs Hd. apply Rle_Qle. eapply Rle_trans; [exact true_above|].
        apply geo_true_score. apply both_In. auto.
      - right. intros M HM. split.
        + intros [a b] Hp. apply true_pairs_In in Hp. destruct Hp as [<- [Hs Hd]].
          apply (margin_optimum_has_true_pairs (srcs n_animals vis e) (dsts n_animals vis e) (sck score k)
                   (true_bound e r2 R2 kappa) (cross_bound e R2 m n + P) (cross_bound e R2 m n)).
          * intros x Hx Hy. apply geo_true_score. apply both_In. auto.
          * intros x y Hx Hy Hne. apply (geo_cross_score x y Hx Hy Hne).
          * intros x y Hx Hy Hne. apply (geo_cross_score x y Hx Hy Hne).
          * lra.
          * exact HM.
          * exact Hs.
          * exact Hd.
        + intros a b Hin Hne. destruct HM as [[_ [_ [Hmem _]]] _]. destruct (Hmem a b Hin) as [Hs Hd].
          apply Rlt_Qlt. eapply Rle_lt_trans; [apply (geo_cross_score a b Hs Hd Hne)|exact cross_below].
    Qed.
  End OneEdge.
End Geo.

(* ---- geometry of one segment: the code's clamped projection is the nearest point ---- *)
Lemma seg_d2_le_point g px py tau : 0 < len2 g -> 0 <= tau <= 1 ->
  seg_d2 g px py <= (tau * e_x g - (px - s_x g)) * (tau * e_x g - (px - s_x g))
                    + (tau * e_y g - (py - s_y g)) * (tau * e_y g - (py - s_y g)).
Proof.
  intros HL [T0 T1]. unfold seg_d2, seg_t. cbv zeta.
  set (ex := e_x g) in *. set (ey := e_y g) in *. set (rx := px - s_x g). set (ry := py - s_y g).
  assert (EL : len2 g = ex * ex + ey * ey) by reflexivity. set (L := len2 g) in *.
  set (t0 := (rx * ex + ry * ey) / L).
  assert (ED : rx * ex + ry * ey = t0 * L) by (unfold t0; field; lra).
  assert (Key : forall t, (tau * ex - rx) * (tau * ex - rx) + (tau * ey - ry) * (tau * ey - ry)
                          - ((t * ex - rx) * (t * ex - rx) + (t * ey - ry) * (t * ey - ry))
                          = L * ((tau - t) * (tau + t - 2 * t0))).
  { intro t. replace ((tau * ex - rx) * (tau * ex - rx) + (tau * ey - ry) * (tau * ey - ry)
                      - ((t * ex - rx) * (t * ex - rx) + (t * ey - ry) * (t * ey - ry)))
      with ((tau * tau - t * t) * (ex * ex + ey * ey) - 2 * (tau - t) * (rx * ex + ry * ey)) by ring.
    rewrite ED, <- EL. ring. }
  assert (Pos : 0 <= (tau - clamp01 t0) * (tau + clamp01 t0 - 2 * t0)).
  { unfold clamp01, Rmax, Rmin. destruct (Rle_dec t0 1) as [H1|H1].
    - destruct (Rle_dec 0 t0) as [H0|H0].
      + replace ((tau - t0) * (tau + t0 - 2 * t0)) with ((tau - t0) * (tau - t0)) by ring.
        pose proof (Rle_0_sqr (tau - t0)). unfold Rsqr in *. lra.
      + replace ((tau - 0) * (tau + 0 - 2 * t0)) with (tau * (tau - 2 * t0)) by ring.
        apply Rmult_le_pos; lra.
    - destruct (Rle_dec 0 1) as [_|H]; [|lra].
      replace ((tau - 1) * (tau + 1 - 2 * t0)) with ((1 - tau) * (2 * t0 - tau - 1)) by ring.
      apply Rmult_le_pos; lra. }
  pose proof (Key (clamp01 t0)) as K.
  assert (0 <= L * ((tau - clamp01 t0) * (tau + clamp01 t0 - 2 * t0))) by (apply Rmult_le_pos; lra).
  lra.
Qed.

(* a sampled cell within squared distance r2 of SOME point of the segment is within r2 of it *)
Lemma seg_d2_near_point g px py tau r2 : 0 < len2 g -> 0 <= tau <= 1 ->
  (s_x g + tau * e_x g - px) * (s_x g + tau * e_x g - px)
  + (s_y g + tau * e_y g - py) * (s_y g + tau * e_y g - py) <= r2 ->
  seg_d2 g px py <= r2.
Proof.
  intros HL Ht H. eapply Rle_trans; [apply (seg_d2_le_point g px py tau HL Ht)|].
  eapply Rle_trans; [|exact H]. right. ring.
Qed.

(* ================================================================= (4) the reassembly theorem from geometry *)
(* the geometric premise of one edge type: the structural part (geo_edge, with its own parameters),
   true pairs provably >= min_line_scores, and EITHER the margin 3 C + P < T with C < min_line_scores
   OR a saturated edge type with any rational threshold between C and T *)
Definition geo_premise n_animals vis score (mls : Q) sigma eps seg_of pts dirx diry pen (k : nat) (e : nat * nat) : Prop :=
  exists r2 R2 kappa P m n,
    geo_edge n_animals vis score sigma eps seg_of pts dirx diry pen k e r2 R2 kappa P m n /\
    Q2R mls <= true_bound n_animals vis sigma eps e r2 R2 kappa /\
    ((3 * cross_bound n_animals vis sigma eps e R2 m n + P < true_bound n_animals vis sigma eps e r2 R2 kappa /\
      cross_bound n_animals vis sigma eps e R2 m n < Q2R mls)
     \/
     (exists Tq : Q,
        (cross_bound n_animals vis sigma eps e R2 m n < Q2R Tq <= true_bound n_animals vis sigma eps e r2 R2 kappa) /\
        length (true_pairs (srcs n_animals vis e) (dsts n_animals vis e))
        = Nat.min (length (srcs n_animals vis e)) (length (dsts n_animals vis e)))).

(* any edge listing; proc = the edge types handed to assign_connections_to_instances *)
Theorem reassembly_from_geometry
    (edges : list (nat * nat)) (n_animals : nat) (vis : nat -> nat -> bool)
    (score : nat -> nat -> nat -> option Q) (mls : Q) (matching : nat -> list (nat * nat))
    (sigma eps : R) (seg_of : nat -> nat -> seg) (pts : nat -> nat -> nat -> list (R * R))
    (dirx diry pen : nat -> nat -> nat -> R) :
  (forall k e, nth_error edges k = Some e -> all_finite n_animals vis score k e ->
     optimal (srcs n_animals vis e) (dsts n_animals vis e) (sck score k) (matching k)) ->
  (forall k e, nth_error edges k = Some e ->
     geo_premise n_animals vis score mls sigma eps seg_of pts dirx diry pen k e) ->
  forall (proc : nat -> bool) (output : list instance),
  (forall I, In I output ->
     exists p, member p I /\ (forall q, member q I <-> conn edges score mls matching proc p q) /\
               (exists q, q <> p /\ member q I)) ->
  (forall p q, adj edges score mls matching proc p q -> exists I, In I output /\ member p I) ->
  (forall i j I J p, nth_error output i = Some I -> nth_error output j = Some J ->
     member p I -> member p J -> i = j) ->
  reassembled edges n_animals vis proc output.
Proof.
  intros Hopt Hgeo proc output H1 H2 H3.
  apply (reassembly_from_separation edges n_animals vis score mls matching Hopt); try assumption.
  intros k e Hk. destruct (Hgeo k e Hk) as [r2 [R2 [kappa [P [m [n [G [M3 [[M1 M2]|[Tq [[T1 T2] Hsat]]]]]]]]]]].
  - exact (geo_separated n_animals vis score mls sigma eps seg_of pts dirx diry pen k e r2 R2 kappa P m n G M1 M2 M3).
  - exact (geo_separated_saturated n_animals vis score mls sigma eps seg_of pts dirx diry pen k e r2 R2 kappa P m n G
             Tq T1 T2 M3 Hsat).
Qed.

(* rooted tree (C17's arborescence): every edge type is processed, the groups are the property's *)
Theorem reassembly_from_geometry_tree
    (edges : list (nat * nat)) (r : nat) (n_animals : nat) (vis : nat -> nat -> bool)
    (score : nat -> nat -> nat -> option Q) (mls : Q) (matching : nat -> list (nat * nat))
    (sigma eps : R) (seg_of : nat -> nat -> seg) (pts : nat -> nat -> nat -> list (R * R))
    (dirx diry pen : nat -> nat -> nat -> R) :
  C17.Lemmas.arborescence edges r ->
  (forall k e, nth_error edges k = Some e -> all_finite n_animals vis score k e ->
     optimal (srcs n_animals vis e) (dsts n_animals vis e) (sck score k) (matching k)) ->
  (forall k e, nth_error edges k = Some e ->
     geo_premise n_animals vis score mls sigma eps seg_of pts dirx diry pen k e) ->
  forall output : list instance,
  (forall I, In I output ->
     exists p, member p I /\ (forall q, member q I <-> conn edges score mls matching (processed edges) p q) /\
               (exists q, q <> p /\ member q I)) ->
  (forall p q, adj edges score mls matching (processed edges) p q -> exists I, In I output /\ member p I) ->
  (forall i j I J p, nth_error output i = Some I -> nth_error output j = Some J ->
     member p I -> member p J -> i = j) ->
  reassembled edges n_animals vis all_edges output.
Proof.
  intros Harb Hopt Hgeo output H1 H2 H3.
  apply (reassembled_all edges n_animals vis (processed edges) output (processed_all edges r Harb)).
  exact (reassembly_from_geometry edges n_animals vis score mls matching sigma eps seg_of pts dirx diry pen
           Hopt Hgeo (processed edges) output H1 H2 H3).
Qed.


(* ================================================================= non-vacuity of the geometric premise *)
(* one animal, skeleton 0 -> 1, segment (0,0) -> (10,0), three sampled cells on it, sigma = 15,
   R2 = 100 (10 px), computed score 1, tolerance 1/20, min_line_scores 3/10 *)
Section GeoExample.
  Let g0 := mkseg 0 0 10 0.
  Let vis1 : nat -> nat -> bool := fun _ _ => true.
  Let score1 : nat -> nat -> nat -> option Q := fun _ _ _ => Some 1%Q.
  Let pts1 : nat -> nat -> nat -> list (R * R) := fun _ _ _ => [(0, 0); (5, 0); (10, 0)].

  Lemma ex_weight_small : paf_weight 15 100 < 1 / 23.
  Proof.
    unfold paf_weight. replace (- (100 * 100) / (2 * 15 * 15)) with (- (200 / 9)) by field.
    rewrite exp_Ropp. assert (H : 1 + 200 / 9 < exp (200 / 9)) by (apply exp_ineq1; lra).
    replace (1 / 23) with (/ 23) by field. apply Rinv_lt_contravar; [|lra].
    apply Rmult_lt_0_compat; [lra|apply exp_pos].
  Qed.

  Lemma ex_len2 : len2 g0 = 10 * 10.
  Proof. unfold len2, e_x, e_y, g0. simpl. ring. Qed.

  Lemma ex_unit : u_x g0 = 1 /\ u_y g0 = 0.
  Proof.
    unfold u_x, u_y. rewrite ex_len2, sqrt_square by lra. unfold e_x, e_y, g0. simpl. split; field.
  Qed.

  Lemma ex_on_segment p : In p (pts1 0 0 0)%nat -> seg_d2 g0 (fst p) (snd p) <= 0.
  Proof.
    assert (HL : 0 < len2 g0) by (rewrite ex_len2; lra).
    intros [<-|[<-|[<-|[]]]]; simpl.
    - apply (seg_d2_near_point g0 0 0 0 0 HL); [lra|]. unfold e_x, e_y, g0. simpl. lra.
    - apply (seg_d2_near_point g0 5 0 (1 / 2) 0 HL); [lra|]. unfold e_x, e_y, g0. simpl. lra.
    - apply (seg_d2_near_point g0 10 0 1 0 HL); [lra|]. unfold e_x, e_y, g0. simpl. lra.
  Qed.

  Lemma ex_both : both 1 vis1 (0, 1)%nat = [0%nat].
  Proof. reflexivity. Qed.

  Lemma ex_geo_edge :
    geo_edge 1 vis1 score1 15 (1 / 20) (fun _ _ => g0) pts1 (fun _ _ _ => 1) (fun _ _ _ => 0) (fun _ _ _ => 0)
             0 (0, 1)%nat 0 100 1 0 0 3.
  Proof.
    assert (HL : 0 < len2 g0) by (rewrite ex_len2; lra).
    destruct ex_unit as [Ux Uy]. pose proof ex_weight_small as W. pose proof (weight_pos 15 100) as Wp.
    assert (Hsrc : forall a, In a (srcs 1 vis1 (0, 1)%nat) -> a = 0%nat).
    { intros a Ha. apply (srcs_In 1 vis1 score1) in Ha. lia. }
    assert (Hdst : forall a, In a (dsts 1 vis1 (0, 1)%nat) -> a = 0%nat).
    { intros a Ha. apply (dsts_In 1 vis1 score1) in Ha. lia. }
    assert (Hfield : forall p, In p (pts1 0 0 0)%nat ->
               1 - 1 * paf_weight 15 100 <= field_dot 15 [g0] (fst p) (snd p) 1 0 <= 1 + 1 * paf_weight 15 100).
    { intros p Hp. split.
      - pose proof (field_own_lower 15 1 0 ltac:(lra) ltac:(lra) (fun _ => g0) (fst p) (snd p) 100 ltac:(lra)
                      [0%nat] 0%nat 0 1 ltac:(repeat constructor; simpl; tauto) (or_introl eq_refl)
                      (fun _ _ => HL) ltac:(lra) (ex_on_segment p Hp)) as F.
        simpl in F. rewrite Ux, Uy in F.
        assert (E0 : paf_weight 15 0 = 1).
        { unfold paf_weight. replace (- (0 * 0) / (2 * 15 * 15)) with 0 by field. apply exp_0. }
        rewrite E0 in F. simpl field_dot.
        assert (F' := F ltac:(lra) ltac:(intros c [<-|[]] Hc; congruence)). lra.
      - pose proof (field_one_near 15 1 0 ltac:(lra) ltac:(lra) (fun _ => g0) (fst p) (snd p) 100 ltac:(lra)
                      [0%nat] 0%nat ltac:(repeat constructor; simpl; tauto) (fun _ _ => HL)) as F.
        simpl in F. simpl field_dot. apply F. intros c [<-|[]] Hc. congruence. }
    constructor; try lra; try lia.
    - intros a b Ha Hb. exists 1%Q. split; [reflexivity|].
      pose proof (line_sum_bounds 15 [g0] (pts1 0 0 0)%nat 1 0 _ _ Hfield) as LB.
      change (INR (length (pts1 0 0 0)%nat)) with (INR 3) in LB. 
      unfold segs. rewrite ex_both. change (map (fun _ : nat => g0) [0%nat]) with [g0].
      unfold line_score. change (length (pts1 0%nat a b)) with 3%nat. change (pts1 0%nat a b) with (pts1 0 0 0)%nat.
      assert (I3 : INR 3 = 3) by (simpl; ring). rewrite I3 in *.
      replace (Q2R 1) with 1 by (unfold Q2R; simpl; field).
      apply Rabs_le. lra.
    - intros a b _ _. split; [ring|reflexivity].
    - intros a _. exact HL.
    - intros a Ha. rewrite ex_both in Ha. destruct Ha as [<-|[]]. split; [reflexivity|]. split.
      + rewrite Ux, Uy. lra.
      + intros p Hp. split; [apply ex_on_segment; exact Hp|]. intros c Hc Hne. rewrite ex_both in Hc.
        destruct Hc as [<-|[]]. congruence.
    - intros a b Ha Hb Hne. rewrite (Hsrc a Ha), (Hdst b Hb) in Hne. congruence.
  Qed.

  Lemma ex_geo_separated : separated 1 vis1 score1 (3 # 10) 0 (0, 1)%nat.
  Proof.
    pose proof ex_weight_small as W. pose proof (weight_pos 15 100) as Wp.
    assert (Q310 : Q2R (3 # 10) = 3 / 10) by (unfold Q2R; simpl; field).
    apply (geo_separated 1 vis1 score1 (3 # 10) 15 (1 / 20) (fun _ _ => g0) pts1 (fun _ _ _ => 1)
             (fun _ _ _ => 0) (fun _ _ _ => 0) 0 (0, 1)%nat 0 100 1 0 0 3 ex_geo_edge);
      unfold cross_bound, true_bound; rewrite ex_both; simpl length;
      assert (E0 : paf_weight 15 0 = 1)
        by (unfold paf_weight; replace (- (0 * 0) / (2 * 15 * 15)) with 0 by field; apply exp_0);
      rewrite ?E0, ?Q310; simpl INR; lra.
  Qed.
End GeoExample.
