(* IdealPaf.v (C03) — the IDEAL part-affinity field over the reals (definitions only).

   sleap_nn/data/edge_maps.py, as the code is:
     distance_to_edge : t  = clamp(((p - s) . (d - s)) / |d - s|^2, 0, 1)
                        d2 = |t (d - s) - (p - s)|^2              (a SQUARED distance)
     make_edge_maps   : gaussian_pdf(d2, sigma) = exp(-(d2)^2 / (2 sigma^2))   (so the weight decays
                        with the FOURTH power of the distance; sigma is not scaled by the stride)
     make_pafs        : weight * (d - s)/|d - s|
     make_multi_pafs  : sum over the animals that have both parts of the edge
   sleap_nn/inference/paf_grouping.py, score_paf_lines (without the distance penalty):
     mean over the sampled PAF cells of  paf(cell) . (dst - src)/|dst - src|

   One edge type at a time: `segs` = the segments (source part -> destination part, network
   input px) of the animals that have both parts; `pts` = the positions (col*stride, row*stride)
   of the PAF cells make_line_subs reads for a candidate; (vx, vy) = the candidate's unit direction. *)
From Coq Require Import List Reals.
Import ListNotations.
Open Scope R_scope.

Record seg := mkseg { s_x : R; s_y : R; d_x : R; d_y : R }.

Definition e_x (g : seg) : R := d_x g - s_x g.
Definition e_y (g : seg) : R := d_y g - s_y g.
Definition len2 (g : seg) : R := e_x g * e_x g + e_y g * e_y g.

Definition clamp01 (t : R) : R := Rmax 0 (Rmin t 1).

Definition seg_t (g : seg) (px py : R) : R :=
  clamp01 (((px - s_x g) * e_x g + (py - s_y g) * e_y g) / len2 g).

(* squared distance from (px, py) to the segment, as distance_to_edge computes it *)
Definition seg_d2 (g : seg) (px py : R) : R :=
  let t := seg_t g px py in
  (t * e_x g - (px - s_x g)) * (t * e_x g - (px - s_x g))
  + (t * e_y g - (py - s_y g)) * (t * e_y g - (py - s_y g)).

Definition paf_weight (sigma d2 : R) : R := exp (- (d2 * d2) / (2 * sigma * sigma)).

Definition u_x (g : seg) : R := e_x g / sqrt (len2 g).
Definition u_y (g : seg) : R := e_y g / sqrt (len2 g).

(* one animal's PAF at (px, py), dotted with (vx, vy) *)
Definition paf_dot (sigma : R) (g : seg) (px py vx vy : R) : R :=
  paf_weight sigma (seg_d2 g px py) * (u_x g * vx + u_y g * vy).

Fixpoint field_dot (sigma : R) (segs : list seg) (px py vx vy : R) : R :=
  match segs with
  | [] => 0
  | g :: t => paf_dot sigma g px py vx vy + field_dot sigma t px py vx vy
  end.

Fixpoint line_sum (sigma : R) (segs : list seg) (pts : list (R * R)) (vx vy : R) : R :=
  match pts with
  | [] => 0
  | p :: t => field_dot sigma segs (fst p) (snd p) vx vy + line_sum sigma segs t vx vy
  end.

Definition line_score (sigma : R) (segs : list seg) (pts : list (R * R)) (vx vy : R) : R :=
  line_sum sigma segs pts vx vy / INR (length pts).

(* axis-aligned bounding box of a segment, and "at least X outside it" (Chebyshev) *)
Definition box_lo_x (g : seg) := Rmin (s_x g) (d_x g).
Definition box_hi_x (g : seg) := Rmax (s_x g) (d_x g).
Definition box_lo_y (g : seg) := Rmin (s_y g) (d_y g).
Definition box_hi_y (g : seg) := Rmax (s_y g) (d_y g).

Definition outside_box (g : seg) (X px py : R) : Prop :=
  px <= box_lo_x g - X \/ box_hi_x g + X <= px \/ py <= box_lo_y g - X \/ box_hi_y g + X <= py.
