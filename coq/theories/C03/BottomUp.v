(* BottomUp.v (C03) — executable model of the bookkeeping of bottom-up inference
   (no proofs in this file).  Faithful to the current tree (/repo HEAD; the pinned tree differed in
   F3, repaired by commit f3ef4e3: NaN line scores no longer make the assignment raise):

   sleap_nn/inference/bottomup.py
     _generate_cms_peaks : peaks (grid cells, x = column, y = row) * cms_output_stride
     forward             : PAFScorer.predict(...) ; / input_scale ; / eff_scale
   sleap_nn/inference/paf_grouping.py
     make_line_subs      : n_line_points points on the segment src -> dst (linspace(0,1,n)),
                           (XY / pafs_stride).round().int()  (torch.round = half to even),
                           rows from Y, columns from X, clipped to the PAF tensor,
                           channels 2*edge and 2*edge+1
     get_paf_lines       : pafs_sample[row, col, channel]   (pafs_sample is (h, w, 2E):
                           the network output (2E, h, w) permuted)
     score_paf_lines     : mean_i (paf_i . (dst-src)/|dst-src|) + compute_distance_penalty
     compute_distance_penalty : weight * clamp(max_edge_length/|dst-src| - 1, max=0)
   sleap_nn/data/edge_maps.py
     generate_pafs       : (n_edges, 2, h, w) reshaped to (2*n_edges, h, w); cell (i, j)
                           samples position (x, y) = (j*stride, i*stride)

   Numbers: coordinates and PAF samples are exact rationals; sqrt is never computed:
   the score is held as (sum of dot products with the UNNORMALISED direction, squared
   List.length, n) and compared with thresholds through the monotone pre-image `score_geb`;
   NaN (zero-List.length line, 0/0) is None. *)
From Coq Require Import List ZArith QArith Qround Bool Arith String.
From SV Require Import Base.Render.
From SV Require C17.Toposort.          (* toposort_edges (model of C17), used QUALIFIED: no names imported *)
Import ListNotations.
Open Scope Q_scope.

(* ------------------------------------------------------------------ numbers *)
Definition qhalf : Q := 1 # 2.

(* torch.round: round half to even *)
Definition rhe (q : Q) : Z :=
  let f := Qfloor q in
  match Qcompare (q - inject_Z f) qhalf with
  | Lt => f
  | Gt => (f + 1)%Z
  | Eq => if Z.even f then f else (f + 1)%Z
  end.

(* torch.clip(z, min=lo, max=hi) *)
Definition clampZ (lo hi z : Z) : Z := Z.min (Z.max z lo) hi.

Definition zq (z : Z) : Q := inject_Z z.

(* ------------------------------------------------------------------ (a) decode *)
(* where the ideal maps of keypoint p (original px) are drawn in the network input:
   f = eff_scale * input_scale, off = registration offset of the maps (0 for the
   training-target convention) *)
Definition to_input (f off p : Q) : Q := p * f + off.

(* index of the confidence-map sample nearest to input position p' on an axis with n
   samples 0, cs, 2cs, ... (the cell where the ideal bump is largest) *)
Definition peak_cell (cs n : Z) (p' : Q) : Z := clampZ 0 (n - 1) (rhe (p' / zq cs)).

(* p' sits exactly between two samples: both cells hold the same value and
   find_local_peaks_rough (strict >) reports no peak *)
Definition is_tie (cs : Z) (p' : Q) : bool :=
  Qeq_bool (p' / zq cs - zq (Qfloor (p' / zq cs))) qhalf.

(* forward: peak (in cells, possibly refined) * cms_stride / input_scale / eff_scale *)
Definition decode (cs : Z) (scale eff : Q) (cell : Q) : Q := cell * zq cs / scale / eff.

(* F10 selector, per axis: p' further than half a cell from every sample *)
Definition in_band (cs n : Z) (p' : Q) : bool :=
  negb (Qle_bool (- (zq cs / 2)) p' && Qle_bool p' (zq ((n - 1) * cs) + zq cs / 2)).

(* F10 selector, integral refinement: the (2r+1)-patch of the cell sticks out of the map *)
Definition patch_out (r n cell : Z) : bool := (cell <? r)%Z || (n - 1 - r <? cell)%Z.

(* ------------------------------------------------------------------ (b) addressing *)
Definition lerp (a b : Q) (n i : nat) : Q :=
  if (n <=? 1)%nat then a else a + (b - a) * (zq (Z.of_nat i) / zq (Z.of_nat (n - 1))).

(* one line subscript: (row, col, channel of the x component, channel of the y component) *)
Definition line_sub (sx sy dx dy : Q) (k : Z) (ps h w : Z) (n i : nat) : Z * Z * Z * Z :=
  let X := lerp sx dx n i in
  let Y := lerp sy dy n i in
  (clampZ 0 (h - 1) (rhe (Y / zq ps)), clampZ 0 (w - 1) (rhe (X / zq ps)), (2 * k)%Z, (2 * k + 1)%Z).

Definition line_subs (sx sy dx dy : Q) (k : Z) (ps h w : Z) (n : nat) : list (Z * Z * Z * Z) :=
  map (line_sub sx sy dx dy k ps h w n) (seq 0 n).

(* writer: generate_pafs fills a contiguous (E, 2, h, w) tensor [edge k, component c
   (0 = x, 1 = y), row i, column j] and reshapes it to (2E, h, w) *)
Definition writer_offset (h w : Z) (k c i j : Z) : Z := (((k * 2 + c) * h + i) * w + j)%Z.
(* reader: the network output (2E, h, w), contiguous, indexed through
   permute(0, 2, 3, 1) as [row, col, channel] *)
Definition reader_offset (h w : Z) (row col ch : Z) : Z := ((ch * h + row) * w + col)%Z.
(* the position a grid cell samples: make_grid_vectors + meshgrid(yv, xv, "ij") *)
Definition cell_x (s j : Z) : Q := zq (j * s).
Definition cell_y (s i : Z) : Q := zq (i * s).

(* ------------------------------------------------------------------ (c) line score *)
Definition paf_tensor := list (list (list Q)).          (* [row][col][channel] *)
Definition paf_at (paf : paf_tensor) (row col ch : Z) : Q :=
  nth (Z.to_nat ch) (nth (Z.to_nat col) (nth (Z.to_nat row) paf []) []) 0.

(* sum over the line points of  paf . (dst - src)   (direction NOT normalised) *)
Definition dot_sum (paf : paf_tensor) (subs : list (Z * Z * Z * Z)) (vx vy : Q) : Q :=
  fold_left (fun acc s => let '(row, col, cx, cy) := s in
                          acc + (paf_at paf row col cx * vx + paf_at paf row col cy * vy)) subs 0.

(* (S, len2, n):  score = S / (n * sqrt len2) + penalty;  NaN when len2 = 0 *)
Definition score_parts (paf : paf_tensor) (sx sy dx dy : Q) (k : Z) (ps h w : Z) (n : nat) : Q * Q * nat :=
  let vx := dx - sx in
  let vy := dy - sy in
  (dot_sum paf (line_subs sx sy dx dy k ps h w n) vx vy, vx * vx + vy * vy, n).

(* score >= tau, decided on rationals (monotone pre-image of the real comparison):
     L = sqrt len2 ;  penalty = wt * min(0, M/L - 1)   (M = max_edge_length >= 0)
     L <= M :  score >= tau  <->  S/n        >= tau * L
     L >  M :  score >= tau  <->  S/n + wt*M >= (tau + wt) * L
   and  A >= B*L  <->  if B >= 0 then A >= 0 /\ A^2 >= B^2 len2 else A >= 0 \/ A^2 <= B^2 len2.
   None = NaN score (zero-List.length line): every comparison with NaN is false. *)
Definition ge_times_sqrt (A B len2 : Q) : bool :=
  if Qle_bool 0 B then Qle_bool 0 A && Qle_bool (B * B * len2) (A * A)
  else Qle_bool 0 A || Qle_bool (A * A) (B * B * len2).

Definition score_geb (S len2 : Q) (n : nat) (M wt tau : Q) : option bool :=
  if Qeq_bool len2 0 then None
  else
    let mean := S / zq (Z.of_nat n) in
    if Qle_bool len2 (M * M) then Some (ge_times_sqrt mean tau len2)
    else Some (ge_times_sqrt (mean + wt * M) (tau + wt) len2).

(* F21 selector: coarse grids against the PAF width.  A sample point can lie
   (cs + ps)/sqrt 2 away from the true segment (half a cms cell of peak error + half a PAF
   cell of rounding, per axis); the code's weight there is exp(-(cs+ps)^4 / (8 sigma^2));
   selected when that exponent exceeds 4. *)
Definition sel_coarse_paf (cs ps : Z) (sigma : Q) : bool :=
  let t := zq ((cs + ps) * (cs + ps) * (cs + ps) * (cs + ps)) in
  negb (Qle_bool t (32 * sigma * sigma)).

(* ------------------------------------------------------------------ (d) expected instances *)
Definition kp := option (Q * Q).

Definition memb (x : nat) (l : list nat) : bool := existsb (Nat.eqb x) l.

(* one sweep over the edges: add the other endpoint of every edge touching S *)
Definition grow_edge (acc : list nat) (e : nat * nat) : list nat :=
  let '(u, v) := e in
  if memb u acc then (if memb v acc then acc else acc ++ [v])
  else if memb v acc then acc ++ [u] else acc.
Definition grow (es : list (nat * nat)) (S : list nat) : list nat := fold_left grow_edge es S.

Fixpoint closure (fuel : nat) (es : list (nat * nat)) (S : list nat) : list nat :=
  match fuel with
  | O => S
  | Datatypes.S f => let S' := grow es S in
                     if (List.length S' =? List.length S)%nat then S else closure f es S'
  end.

Definition visb (vis : list bool) (j : nat) : bool := nth j vis false.
Definition vis_edges (vis : list bool) (es : list (nat * nat)) : list (nat * nat) :=
  filter (fun e => visb vis (fst e) && visb vis (snd e)) es.

(* visible nodes connected to j through visible edges *)
Definition component (n : nat) (es : list (nat * nat)) (vis : list bool) (j : nat) : list nat :=
  closure n (vis_edges vis es) [j].

Definition list_min (l : list nat) : nat := fold_right Nat.min (hd 0%nat l) l.

(* the groups of >= 2 visible keypoints connected through visible edges, each listed once
   (at its smallest node) *)
Definition groups (n : nat) (es : list (nat * nat)) (vis : list bool) : list (list nat) :=
  flat_map (fun j =>
              if visb vis j then
                let c := component n es vis j in
                if (list_min c =? j)%nat && (2 <=? List.length c)%nat then [c] else []
              else []) (seq 0 n).

Record geom := { g_f : Q; g_off : Q; g_scale : Q; g_eff : Q; g_cs : Z; g_wc : Z; g_hc : Z;
                 g_refine : bool; g_patch_r : Z }.

Definition kp_cell (g : geom) (p : Q * Q) : Z * Z :=
  (peak_cell (g_cs g) (g_wc g) (to_input (g_f g) (g_off g) (fst p)),
   peak_cell (g_cs g) (g_hc g) (to_input (g_f g) (g_off g) (snd p))).

(* what forward reports for a visible keypoint when the peaks are not refined *)
Definition kp_decoded (g : geom) (p : Q * Q) : Q * Q :=
  let '(cx, cy) := kp_cell g p in
  (decode (g_cs g) (g_scale g) (g_eff g) (zq cx), decode (g_cs g) (g_scale g) (g_eff g) (zq cy)).

Definition visl (a : list kp) : list bool :=
  map (fun p => match p with Some _ => true | None => false end) a.

(* one predicted instance: n_nodes slots; slot j holds the decoded keypoint when j is in the group,
   None (NaN row) otherwise *)
Definition inst_row (g : geom) (n : nat) (a : list kp) (grp : list nat) : list kp :=
  map (fun j => if memb j grp
                then match nth j a None with
                     | Some p => Some (kp_decoded g p)
                     | None => None
                     end
                else None) (seq 0 n).

(* THE PROPERTY'S instances: one per (animal, group of >= 2 visible keypoints connected through visible
   edges of the listing es) *)
Definition expected_instances (g : geom) (n : nat) (es : list (nat * nat)) (animals : list (list kp))
  : list (list kp) :=
  flat_map (fun a => map (inst_row g n a) (groups n es (visl a))) animals.

(* ------------------------------------------------------------------ which edge types grouping uses *)
(* PAFScorer groups with sorted_edge_inds = toposort_edges(edge_types) (C17: bfs_edges from the first
   topological root).  Edge type k is PROCESSED by assign_connections_to_instances iff k is in that
   tuple; the candidates of the other edge types are scored and matched but never assembled.  For a
   rooted tree listed parent -> child (C17's `arborescence`) every edge type is processed
   (Lemmas.v: processed_all); for a tree with a mis-oriented edge, e.g. [(0,1);(2,1)], it is not. *)
Definition processed (es : list (nat * nat)) (k : nat) : bool :=
  match C17.Toposort.toposort es with
  | Some out => memb k out
  | None => false                     (* networkx raises (cycle): outside every domain *)
  end.

Definition processed_edges (es : list (nat * nat)) : list (nat * nat) :=
  map snd (filter (fun ke => processed es (fst ke)) (combine (seq 0 (List.length es)) es)).

(* what forward returns for ANY edge listing (the harness evaluates THIS on every scene, also on
   trees with a mis-oriented edge): the property's instances over the processed edge types *)
Definition forward_instances (g : geom) (n : nat) (es : list (nat * nat)) (animals : list (list kp))
  : list (list kp) :=
  expected_instances g n (processed_edges es) animals.

(* selectors on a scene (mirrored in harness/props/c03.py) *)
Definition kp_tie (g : geom) (p : Q * Q) : bool :=
  is_tie (g_cs g) (to_input (g_f g) (g_off g) (fst p)) || is_tie (g_cs g) (to_input (g_f g) (g_off g) (snd p)).

Definition kp_band (g : geom) (p : Q * Q) : bool :=
  in_band (g_cs g) (g_wc g) (to_input (g_f g) (g_off g) (fst p))
  || in_band (g_cs g) (g_hc g) (to_input (g_f g) (g_off g) (snd p))
  || (g_refine g && (patch_out (g_patch_r g) (g_wc g) (fst (kp_cell g p))
                     || patch_out (g_patch_r g) (g_hc g) (snd (kp_cell g p)))).

Definition cell_eqb (a b : Z * Z) : bool := (fst a =? fst b)%Z && (snd a =? snd b)%Z.

(* F3 selector: two visible parts joined by an edge are reported at the same cell *)
Definition animal_coincident (g : geom) (es : list (nat * nat)) (a : list kp) : bool :=
  negb (g_refine g) &&
  existsb (fun e => match nth (fst e) a None, nth (snd e) a None with
                    | Some p, Some q => cell_eqb (kp_cell g p) (kp_cell g q)
                    | _, _ => false
                    end) es.

Definition any_kp (f : Q * Q -> bool) (animals : list (list kp)) : bool :=
  existsb (existsb (fun p => match p with Some q => f q | None => false end)) animals.

(* ------------------------------------------------------------------ premise (alternative 1), decidable *)
(* a score table of one edge type: rows = source peaks, columns = destination peaks,
   each tagged with the animal it belongs to; None = NaN *)
(* the table is rectangular: one row per source peak, one entry per destination peak
   (`combine` below would silently truncate a ragged table) *)
Definition table_wf (src_ids dst_ids : list nat) (tab : list (list (option Q))) : bool :=
  (List.length tab =? List.length src_ids)%nat
  && forallb (fun row : list (option Q) => (List.length row =? List.length dst_ids)%nat) tab.

Definition table_alt1 (src_ids dst_ids : list nat) (tab : list (list (option Q))) (mls : Q) : bool :=
  let n_true := List.length (filter (fun s => memb s dst_ids) src_ids) in
  table_wf src_ids dst_ids tab
  && forallb (fun '(s, row) =>
             forallb (fun '(d, x) =>
                        match x with
                        | None => false
                        | Some v => if (s =? d)%nat then Qle_bool mls v else negb (Qle_bool mls v)
                        end) (combine dst_ids row)) (combine src_ids tab)
  && (n_true =? Nat.min (List.length src_ids) (List.length dst_ids))%nat.

(* the score the table holds for (source peak of animal a, destination peak of animal b) *)
Fixpoint lookup {A : Type} (x : nat) (keys : list nat) (vals : list A) : option A :=
  match keys, vals with
  | k :: ks, v :: vs => if (x =? k)%nat then Some v else lookup x ks vs
  | _, _ => None
  end.
Definition tab_score (src_ids dst_ids : list nat) (tab : list (list (option Q))) (a b : nat) : option Q :=
  match lookup a src_ids tab with
  | Some row => match lookup b dst_ids row with Some x => x | None => None end
  | None => None
  end.

(* ------------------------------------------------------------------ harness interface *)
Inductive res := RB (b : bool) | RZ (z : Z) | RQ (q : Q) | RNone | RL (l : list res).

Fixpoint rres (r : res) : rdr :=
  match r with
  | RB b => rbool b
  | RZ z => rZ z
  | RQ q => rQ q
  | RNone => rstr "null"%string
  | RL l => fun k =>
      rstr "["%string ((fix go (l : list res) (first : bool) (k : string) : string :=
                     match l with
                     | [] => k
                     | x :: t => if first then rres x (go t false k)
                                 else rstr ","%string (rres x (go t false k))
                     end) l true (rstr "]"%string k))
  end.

Definition res_kp (p : kp) : res :=
  match p with Some (x, y) => RL [RQ x; RQ y] | None => RNone end.

Definition res_sub (s : Z * Z * Z * Z) : res :=
  let '(r, c, cx, cy) := s in RL [RZ r; RZ c; RZ cx; RZ cy].

Inductive case :=
| CScene (g : geom) (n : nat) (es : list (nat * nat)) (animals : list (list kp))
| CScore (paf : paf_tensor) (sx sy dx dy : Q) (k : Z) (ps : Z) (n : nat) (M wt : Q) (taus : list Q)
| CSubs (sx sy dx dy : Q) (k : Z) (ps h w : Z) (n : nat)
| CLayout (h w : Z) (E : Z)
| CDecode (cs n : Z) (scale eff f off p : Q)
| CAlt1 (src_ids dst_ids : list nat) (tab : list (list (option Q))) (mls : Q).

Definition zrange (n : Z) : list Z := map Z.of_nat (seq 0 (Z.to_nat n)).

Definition run (c : case) : res :=
  match c with
  | CScene g n es animals =>
      RL [RB (any_kp (kp_tie g) animals);
          RB (any_kp (kp_band g) animals);
          RB (existsb (animal_coincident g es) animals);
          RL (map (fun inst => RL (map res_kp inst)) (forward_instances g n es animals));
          RB (C17.Toposort.is_tree es);
          RL (map (fun k => RB (processed es k)) (seq 0 (List.length es)));
          RL (map (fun inst => RL (map res_kp inst)) (expected_instances g n es animals))]
  | CScore paf sx sy dx dy k ps n M wt taus =>
      let h := Z.of_nat (List.length paf) in
      let w := Z.of_nat (List.length (hd [] paf)) in
      let '(sm, len2, n') := score_parts paf sx sy dx dy k ps h w n in
      RL [RL (map res_sub (line_subs sx sy dx dy k ps h w n)); RQ sm; RQ len2;
          RL (map (fun tau => match score_geb sm len2 n M wt tau with
                              | Some b => RB b | None => RNone end) taus)]
  | CSubs sx sy dx dy k ps h w n => RL (map res_sub (line_subs sx sy dx dy k ps h w n))
  | CLayout h w E =>
      (* for every (k, c, i, j): [writer offset; reader offset of (i, j, 2k+c)] *)
      RL (flat_map (fun k => flat_map (fun c => flat_map (fun i => map (fun j =>
            RL [RZ (writer_offset h w k c i j); RZ (reader_offset h w i j (2 * k + c))])
            (zrange w)) (zrange h)) (zrange 2)) (zrange E))
  | CDecode cs n scale eff f off p =>
      let p' := to_input f off p in
      let c := peak_cell cs n p' in
      RL [RZ c; RQ (decode cs scale eff (zq c)); RB (is_tie cs p'); RB (in_band cs n p')]
  | CAlt1 s d tab mls => RB (table_alt1 s d tab mls)
  end.
