(* Scorer.v (C03, round 3) — the objects that LIVE ACROSS CALLS (definitions only, executable).

   A PAFScorer / BottomUpInferenceModel is built once and then scores a whole run of batches
   whose frames may have different sizes; the ideal maps of every frame are written on a
   sampling grid that is rebuilt for that frame.  Faithful to the current tree (/repo HEAD; F24 is a known finding of it):

   sleap_nn/inference/paf_grouping.py
     score_paf_lines_batch : max_edge_length = max_edge_length_ratio
                               * max(pafs.shape[-1], pafs.shape[-2], pafs.shape[-3]) * pafs_stride
                             computed FROM THE PAF TENSOR OF THIS CALL (h, w, 2E: the channel
                             count takes part in the max), then score_paf_lines per candidate
     PAFScorer.score_paf_lines : passes pafs_stride, max_edge_length_ratio, dist_penalty_weight,
                             n_points of the object; the object keeps NOTHING from call to call
   sleap_nn/data/utils.py
     make_grid_vectors     : arange(0, size, stride): ceil(size/stride) samples 0, s, 2s, ...
                             (a function of the size AND the stride of this call, not of the
                             number of samples alone)

   `score_calls` is the model of one long-lived scorer fed a list of calls.  `score_calls_stale`
   is NOT the code: it keeps the length of the first call and only serves to show (Props.v,
   ex_c03_stale_length_changes_decision) that the per-call clause has content. *)
From Coq Require Import List ZArith QArith Bool Arith String.
From SV Require Import Base.Render C03.BottomUp.
Import ListNotations.
Open Scope Q_scope.

(* what a PAFScorer holds after construction (as far as scoring is concerned) *)
Record scorer := { s_ps : Z; s_ratio : Q; s_wt : Q; s_n : nat }.

Definition max_edge_length (ratio : Q) (h w ch ps : Z) : Q :=
  ratio * zq (Z.max (Z.max ch w) h) * zq ps.

Definition paf_h (paf : paf_tensor) : Z := Z.of_nat (List.length paf).
Definition paf_w (paf : paf_tensor) : Z := Z.of_nat (List.length (hd [] paf)).
Definition paf_ch (paf : paf_tensor) : Z := Z.of_nat (List.length (hd [] (hd [] paf))).

(* a candidate connection: source (x, y), destination (x, y), edge type *)
Definition cand := (Q * Q * Q * Q * Z)%type.

(* one call = the PAF tensor of a sample and its candidates *)
Record call := { c_paf : paf_tensor; c_cands : list cand }.

Definition call_M (s : scorer) (c : call) : Q :=
  max_edge_length (s_ratio s) (paf_h (c_paf c)) (paf_w (c_paf c)) (paf_ch (c_paf c)) (s_ps s).

(* (S, len2, [score >= tau for tau in taus]) of one candidate, max length M *)
Definition score_cand (s : scorer) (paf : paf_tensor) (M : Q) (taus : list Q) (cd : cand)
  : Q * Q * list (option bool) :=
  let '(sx, sy, dx, dy, k) := cd in
  let '(sm, len2, n) := score_parts paf sx sy dx dy k (s_ps s) (paf_h paf) (paf_w paf) (s_n s) in
  (sm, len2, map (score_geb sm len2 n M (s_wt s)) taus).

Definition score_call (s : scorer) (taus : list Q) (c : call) : list (Q * Q * list (option bool)) :=
  map (score_cand s (c_paf c) (call_M s c) taus) (c_cands c).

(* the same scorer object, call after call *)
Fixpoint score_calls (s : scorer) (taus : list Q) (cs : list call) : list (list (Q * Q * list (option bool))) :=
  match cs with
  | [] => []
  | c :: t => score_call s taus c :: score_calls s taus t
  end.

(* NOT the code (see header): the length of the first call is kept *)
Fixpoint score_calls_stale (s : scorer) (taus : list Q) (kept : option Q) (cs : list call)
  : list (list (Q * Q * list (option bool))) :=
  match cs with
  | [] => []
  | c :: t => let M := match kept with Some m => m | None => call_M s c end in
              map (score_cand s (c_paf c) M taus) (c_cands c) :: score_calls_stale s taus (Some M) t
  end.

(* F24 selector: a labelled edge of squared length len2 (network-input px) with
   max_edge_length / min_line_scores < length, i.e. M^2 < tau^2 len2 (no sqrt) *)
Definition sel_long_edge (len2 M tau : Q) : bool := negb (Qle_bool (tau * tau * len2) (M * M)).

(* ------------------------------------------------------------------ sampling grid of one call *)
(* make_grid_vectors on one axis: ceil(size / stride) samples *)
Definition grid_len (size s : Z) : Z := ((size + s - 1) / s)%Z.
Definition grid_vector (size s : Z) : list Q := map (fun j => cell_x s j) (zrange (grid_len size s)).

(* a constant field: every cell of an h x w grid holds the vector (vx, vy) for each of E edges *)
Definition const_paf (h w E : nat) (vx vy : Q) : paf_tensor :=
  repeat (repeat (flat_map (fun _ => [vx; vy]) (seq 0 E)) w) h.

(* ------------------------------------------------------------------ harness interface *)
Inductive scase :=
| CCalls (s : scorer) (taus : list Q) (cs : list call)
| CGrid (size s : Z)
| CLong (ratio : Q) (h w ch ps : Z) (len2 tau : Q).

Definition res_cand (r : Q * Q * list (option bool)) : res :=
  let '(sm, len2, bs) := r in
  RL [RQ sm; RQ len2; RL (map (fun b => match b with Some x => RB x | None => RNone end) bs)].

Definition srun (c : scase) : res :=
  match c with
  | CCalls s taus cs =>
      RL (map (fun '(c, r) => RL [RQ (call_M s c); RL (map res_cand r)]) (combine cs (score_calls s taus cs)))
  | CGrid size s => RL (map RQ (grid_vector size s))
  | CLong ratio h w ch ps len2 tau =>
      let M := max_edge_length ratio h w ch ps in RL [RQ M; RB (sel_long_edge len2 M tau)]
  end.
