(* Lemmas.v (C03) — all proofs about the model C03/BottomUp.v. *)
From Coq Require Import List ZArith QArith Qround Qabs Bool Arith Lia Lra Psatz Permutation.
From SV Require Import C03.BottomUp.
Import ListNotations.
Open Scope Q_scope.

(* ================================================================= numbers *)
Lemma zq_plus a b : zq (a + b) == zq a + zq b.
Proof. unfold zq. rewrite inject_Z_plus. reflexivity. Qed.
Lemma zq_mult a b : zq (a * b) == zq a * zq b.
Proof. unfold zq. rewrite inject_Z_mult. reflexivity. Qed.
Lemma zq_le a b : (a <= b)%Z <-> zq a <= zq b.
Proof. unfold zq. rewrite Zle_Qle. reflexivity. Qed.
Lemma zq_lt a b : (a < b)%Z <-> zq a < zq b.
Proof. unfold zq. rewrite Zlt_Qlt. reflexivity. Qed.
Lemma zq_lt_succ a b : (a < b)%Z -> zq a + 1 <= zq b.
Proof.
  intro H. assert (H1 : (a + 1 <= b)%Z) by lia.
  apply zq_le in H1. rewrite zq_plus in H1. exact H1.
Qed.

Lemma floor_le q : zq (Qfloor q) <= q.
Proof. apply Qfloor_le. Qed.
Lemma floor_lt q : q < zq (Qfloor q) + 1.
Proof. pose proof (Qlt_floor q) as H. unfold zq. rewrite inject_Z_plus in H. exact H. Qed.

(* torch.round lands within half a unit *)
Lemma rhe_within_half q : - (1 # 2) <= zq (rhe q) - q <= 1 # 2.
Proof.
  unfold rhe. pose proof (floor_le q) as Hl. pose proof (floor_lt q) as Hu.
  fold (zq (Qfloor q)). unfold qhalf.
  destruct (Qcompare (q - zq (Qfloor q)) (1 # 2)) eqn:E.
  - apply Qeq_alt in E.
    destruct (Z.even (Qfloor q)); [|rewrite zq_plus; change (zq 1) with 1]; lra.
  - apply Qlt_alt in E. lra.
  - apply Qgt_alt in E. rewrite zq_plus. change (zq 1) with 1. lra.
Qed.

(* rounding is exact on integers and monotone enough for clipping *)
Lemma clampZ_bounds lo hi z : (lo <= hi)%Z -> (lo <= clampZ lo hi z <= hi)%Z.
Proof. unfold clampZ. lia. Qed.

(* clipping an index that is within 1/2 of q keeps it within 1/2 of q, as long as q is
   within 1/2 of the index range *)
Lemma clamp_keeps_half lo hi z q :
  (lo <= hi)%Z ->
  - (1 # 2) <= zq z - q <= 1 # 2 ->
  zq lo - (1 # 2) <= q <= zq hi + (1 # 2) ->
  - (1 # 2) <= zq (clampZ lo hi z) - q <= 1 # 2.
Proof.
  intros Hlh Hz Hq. unfold clampZ.
  destruct (Z_lt_le_dec z lo) as [H1|H1].
  - rewrite Z.max_r by lia. rewrite Z.min_l by lia.
    apply zq_lt_succ in H1. lra.
  - rewrite Z.max_l by lia.
    destruct (Z_lt_le_dec hi z) as [H2|H2].
    + rewrite Z.min_r by lia. apply zq_lt_succ in H2. lra.
    + rewrite Z.min_l by lia. exact Hz.
Qed.

(* ================================================================= (a) decode *)
Lemma in_band_false cs n p' :
  in_band cs n p' = false ->
  - (zq cs / 2) <= p' /\ p' <= zq ((n - 1) * cs) + zq cs / 2.
Proof.
  unfold in_band. intro H. apply negb_false_iff in H. apply andb_true_iff in H.
  destruct H as [H1 H2]. apply Qle_bool_iff in H1. apply Qle_bool_iff in H2. split; assumption.
Qed.

Lemma zq_pos cs : (0 < cs)%Z -> 0 < zq cs.
Proof. intro H. apply zq_lt in H. exact H. Qed.

Lemma half_eq s : s / 2 == (1 # 2) * s.
Proof. field. Qed.

Lemma scaled_half c q s : 0 < s ->
  - (1 # 2) <= c - q <= 1 # 2 -> - (s / 2) <= c * s - q * s <= s / 2.
Proof.
  intros Hs [H1 H2].
  assert (A : (c - q) * s <= (1 # 2) * s) by (apply Qmult_le_compat_r; lra).
  assert (B : - (1 # 2) * s <= (c - q) * s) by (apply Qmult_le_compat_r; lra).
  setoid_replace ((c - q) * s) with (c * s - q * s) in A by ring.
  setoid_replace ((c - q) * s) with (c * s - q * s) in B by ring.
  rewrite half_eq. set (a := c * s) in *. set (b := q * s) in *. split; lra.
Qed.

(* the reported cell (largest value of the ideal bump = nearest sample, clipped to the
   map) is within half a cell of the input position, outside the border band *)
Lemma peak_cell_within_half cs n p' :
  (0 < cs)%Z -> (1 <= n)%Z -> in_band cs n p' = false ->
  - (zq cs / 2) <= zq (peak_cell cs n p') * zq cs - p' <= zq cs / 2.
Proof.
  intros Hcs Hn Hb. apply in_band_false in Hb. destruct Hb as [Hlo Hhi].
  rewrite half_eq in Hlo, Hhi.
  pose proof (zq_pos cs Hcs) as Hc.
  assert (Hq : p' / zq cs * zq cs == p') by (field; lra).
  assert (Hh : - (1 # 2) <= zq (peak_cell cs n p') - p' / zq cs <= 1 # 2).
  { unfold peak_cell. apply clamp_keeps_half; [lia|apply rhe_within_half|].
    rewrite zq_mult in Hhi. change (zq 0) with 0.
    set (q := p' / zq cs) in *. split.
    - assert (A : (- (1 # 2)) * zq cs <= q * zq cs) by lra.
      apply Qmult_lt_0_le_reg_r in A; [lra|exact Hc].
    - assert (A : q * zq cs <= (zq (n - 1) + (1 # 2)) * zq cs) by lra.
      apply Qmult_lt_0_le_reg_r in A; [lra|exact Hc]. }
  pose proof (scaled_half _ _ _ Hc Hh) as SH. rewrite half_eq in SH. rewrite half_eq.
  set (a := zq (peak_cell cs n p') * zq cs) in *. set (b := p' / zq cs * zq cs) in *.
  split; lra.
Qed.

(* forward's division chain undoes  p -> p * eff * scale (+ off);  an error of delta input px
   (plus the registration offset of the maps) becomes (delta + |off|) / (scale * eff) *)
Lemma decode_error cs scale eff f off p cell delta :
  0 < scale -> 0 < eff -> f == eff * scale ->
  Qabs (cell * zq cs - to_input f off p) <= delta ->
  Qabs (decode cs scale eff cell - p) <= (delta + Qabs off) / (scale * eff).
Proof.
  intros Hs He Hf Hd. unfold to_input in Hd.
  apply Qabs_Qle_condition in Hd. destruct Hd as [Hd1 Hd2].
  apply Qabs_Qle_condition.
  assert (HD : 0 < scale * eff) by (apply Qmult_lt_0_compat; assumption).
  assert (Hoff : - Qabs off <= off <= Qabs off).
  { split; [|apply Qle_Qabs]. pose proof (Qle_Qabs (- off)) as H. rewrite Qabs_opp in H. lra. }
  assert (E1 : (decode cs scale eff cell - p) * (scale * eff) == cell * zq cs - p * f).
  { unfold decode. rewrite Hf. field. split; lra. }
  assert (E2 : (delta + Qabs off) / (scale * eff) * (scale * eff) == delta + Qabs off)
    by (field; lra).
  split.
  - apply Qmult_lt_0_le_reg_r with (z := scale * eff); [exact HD|].
    setoid_replace (- ((delta + Qabs off) / (scale * eff)) * (scale * eff))
      with (- ((delta + Qabs off) / (scale * eff) * (scale * eff))) by ring.
    rewrite E1, E2. lra.
  - apply Qmult_lt_0_le_reg_r with (z := scale * eff); [exact HD|].
    rewrite E1, E2. lra.
Qed.

Theorem decode_within_half_cell cs n scale eff p :
  (0 < cs)%Z -> (1 <= n)%Z -> 0 < scale -> 0 < eff ->
  in_band cs n (to_input (eff * scale) 0 p) = false ->
  Qabs (decode cs scale eff (zq (peak_cell cs n (to_input (eff * scale) 0 p))) - p)
  <= zq cs / (2 * scale * eff).
Proof.
  intros Hcs Hn Hs He Hb.
  pose proof (peak_cell_within_half cs n _ Hcs Hn Hb) as H.
  assert (Hd : Qabs (zq (peak_cell cs n (to_input (eff * scale) 0 p)) * zq cs
                     - to_input (eff * scale) 0 p) <= zq cs / 2)
    by (apply Qabs_Qle_condition; exact H).
  pose proof (decode_error cs scale eff (eff * scale) 0 p _ _ Hs He (Qeq_refl _) Hd) as G.
  assert (E : (zq cs / 2 + Qabs 0) / (scale * eff) == zq cs / (2 * scale * eff)).
  { change (Qabs 0) with 0. field. split; lra. }
  rewrite E in G. exact G.
Qed.

(* the same with a registration offset of the maps (content registration) and any reported
   sub-cell position within delta of the bump (refined peaks) *)
Theorem decode_within_general cs scale eff off p cell delta :
  0 < scale -> 0 < eff ->
  Qabs (cell * zq cs - to_input (eff * scale) off p) <= delta ->
  Qabs (decode cs scale eff cell - p) <= (delta + Qabs off) / (scale * eff).
Proof. intros. eapply decode_error; eauto. reflexivity. Qed.

(* exact inverse on grid positions *)
Lemma decode_exact cs scale eff c :
  (0 < cs)%Z -> 0 < scale -> 0 < eff ->
  to_input (eff * scale) 0 (decode cs scale eff (zq c)) == zq c * zq cs.
Proof. intros Hcs Hs He. unfold to_input, decode. field. split; lra. Qed.

(* F10: inside the image but in the last half-cell band the bound fails *)
Lemma decode_band_witness :
  let cs := 4%Z in let W := 8%Z in let n := 2%Z in let p := 7 # 1 in
  0 <= p <= zq (W - 1) /\ (n = (W + cs - 1) / cs)%Z /\
  in_band cs n (to_input (1 * 1) 0 p) = true /\
  ~ Qabs (decode cs 1 1 (zq (peak_cell cs n (to_input (1 * 1) 0 p))) - p) <= zq cs / (2 * 1 * 1).
Proof. vm_compute. repeat split; try discriminate. intro H. apply H. reflexivity. Qed.

(* ================================================================= (b) channel addressing *)
(* reader and writer address the same memory cell: what make_line_subs/get_paf_lines read at
   [row, col, 2k + c] is what generate_pafs wrote for edge k, component c, cell (row, col) *)
Lemma reader_is_writer h w k c row col :
  reader_offset h w row col (2 * k + c) = writer_offset h w k c row col.
Proof. unfold reader_offset, writer_offset. ring. Qed.

(* distinct (edge, component, row, col) are written to distinct places: no other entry of the
   writer lands where the reader looks *)
Lemma euclid_unique w a j a' j' :
  (0 <= j < w)%Z -> (0 <= j' < w)%Z -> (a * w + j = a' * w + j')%Z -> a = a' /\ j = j'.
Proof.
  intros Hj Hj' E.
  assert (a = a') by (destruct (Z.lt_trichotomy a a') as [H|[H|H]]; [nia|assumption|nia]).
  subst a'. split; [reflexivity|lia].
Qed.

Lemma writer_offset_injective h w k c i j k' c' i' j' :
  (0 <= c < 2)%Z -> (0 <= c' < 2)%Z -> (0 <= i < h)%Z -> (0 <= i' < h)%Z ->
  (0 <= j < w)%Z -> (0 <= j' < w)%Z ->
  writer_offset h w k c i j = writer_offset h w k' c' i' j' ->
  k = k' /\ c = c' /\ i = i' /\ j = j'.
Proof.
  unfold writer_offset. intros Hc Hc' Hi Hi' Hj Hj' E.
  apply euclid_unique in E; [|assumption|assumption]. destruct E as [E ->].
  apply euclid_unique in E; [|assumption|assumption]. destruct E as [E ->].
  apply euclid_unique in E; [|assumption|assumption]. destruct E as [-> ->].
  repeat split; reflexivity.
Qed.

Lemma line_sub_channels sx sy dx dy k ps h w n i :
  let '(_, _, cx, cy) := line_sub sx sy dx dy k ps h w n i in
  cx = (2 * k)%Z /\ cy = (2 * k + 1)%Z.
Proof. unfold line_sub. split; reflexivity. Qed.

Lemma line_sub_in_bounds sx sy dx dy k ps h w n i :
  (1 <= h)%Z -> (1 <= w)%Z ->
  let '(row, col, _, _) := line_sub sx sy dx dy k ps h w n i in
  (0 <= row < h)%Z /\ (0 <= col < w)%Z.
Proof.
  intros Hh Hw. unfold line_sub.
  pose proof (clampZ_bounds 0 (h - 1) (rhe (lerp sy dy n i / zq ps))).
  pose proof (clampZ_bounds 0 (w - 1) (rhe (lerp sx dx n i / zq ps))). lia.
Qed.

(* the cell that is read for a line point (X, Y) is the PAF grid cell whose sampled position
   (x, y) = (col * ps, row * ps) is nearest to it: rows come from Y, columns from X *)
Lemma line_sub_nearest_cell sx sy dx dy k ps h w n i :
  (0 < ps)%Z -> (1 <= h)%Z -> (1 <= w)%Z ->
  let X := lerp sx dx n i in
  let Y := lerp sy dy n i in
  in_band ps w X = false -> in_band ps h Y = false ->
  let '(row, col, _, _) := line_sub sx sy dx dy k ps h w n i in
  Qabs (cell_x ps col - X) <= zq ps / 2 /\ Qabs (cell_y ps row - Y) <= zq ps / 2.
Proof.
  intros Hps Hh Hw X Y HX HY. unfold line_sub. fold X Y.
  pose proof (peak_cell_within_half ps w X Hps Hw HX) as A.
  pose proof (peak_cell_within_half ps h Y Hps Hh HY) as B.
  unfold peak_cell in A, B. unfold cell_x, cell_y.
  split; apply Qabs_Qle_condition; rewrite zq_mult; assumption.
Qed.

(* outside the PAF grid the clipped cell is the nearest cell of the grid on that axis *)
Lemma clamp_nearest_in_grid lo hi z q m :
  (lo <= hi)%Z -> (lo <= m <= hi)%Z ->
  - (1 # 2) <= zq z - q <= 1 # 2 ->
  Qabs (zq (clampZ lo hi z) - q) <= Qabs (zq m - q).
Proof.
  intros Hlh Hm Hz. unfold clampZ.
  destruct (Z_lt_le_dec z lo) as [H1|H1].
  - rewrite Z.max_r by lia. rewrite Z.min_l by lia.
    apply zq_lt_succ in H1. destruct Hm as [Hm1 Hm2]. apply zq_le in Hm1.
    rewrite (Qabs_pos (zq lo - q)) by lra. rewrite (Qabs_pos (zq m - q)) by lra. lra.
  - rewrite Z.max_l by lia.
    destruct (Z_lt_le_dec hi z) as [H2|H2].
    + rewrite Z.min_r by lia. apply zq_lt_succ in H2. destruct Hm as [Hm1 Hm2]. apply zq_le in Hm2.
      rewrite (Qabs_neg (zq hi - q)) by lra. rewrite (Qabs_neg (zq m - q)) by lra. lra.
    + rewrite Z.min_l by lia.
      (* z itself is in range and is a nearest integer to q *)
      apply Qabs_Qle_condition in Hz. fold (Qabs (zq z - q)).
      destruct (Z.eq_dec m z) as [->|Hne]; [lra|].
      eapply Qle_trans; [exact Hz|].
      destruct (Z_lt_le_dec m z) as [Hl|Hl].
      * apply zq_lt_succ in Hl. apply Qabs_Qle_condition in Hz.
        rewrite (Qabs_neg (zq m - q)) by lra. lra.
      * assert (Hl' : (z < m)%Z) by lia. apply zq_lt_succ in Hl'. apply Qabs_Qle_condition in Hz.
        rewrite (Qabs_pos (zq m - q)) by lra. lra.
Qed.


Lemma lerp_first a b n : lerp a b n 0 == a.
Proof.
  unfold lerp. destruct (n <=? 1)%nat eqn:E; [reflexivity|].
  apply Nat.leb_gt in E. change (zq (Z.of_nat 0)) with 0.
  assert (H : ~ zq (Z.of_nat (n - 1)) == 0).
  { intro H. assert (H1 : (0 < Z.of_nat (n - 1))%Z) by lia. apply zq_lt in H1. change (zq 0) with 0 in H1. lra. }
  field. exact H.
Qed.

Lemma lerp_last a b n : (2 <= n)%nat -> lerp a b n (n - 1) == b.
Proof.
  intro Hn. unfold lerp. destruct (n <=? 1)%nat eqn:E; [apply Nat.leb_le in E; lia|].
  assert (H : ~ zq (Z.of_nat (n - 1)) == 0).
  { intro H. assert (H1 : (0 < Z.of_nat (n - 1))%Z) by lia. apply zq_lt in H1. change (zq 0) with 0 in H1. lra. }
  field. exact H.
Qed.

(* every line point is a convex combination of the two peaks *)
Lemma lerp_between a b n i : (i <= n - 1)%nat -> a <= b -> a <= lerp a b n i <= b.
Proof.
  intros Hi Hab. unfold lerp. destruct (n <=? 1)%nat eqn:E; [lra|].
  apply Nat.leb_gt in E.
  assert (Hd : 0 < zq (Z.of_nat (n - 1))).
  { assert (H1 : (0 < Z.of_nat (n - 1))%Z) by lia. apply zq_lt in H1. exact H1. }
  assert (Hi' : zq (Z.of_nat i) <= zq (Z.of_nat (n - 1))).
  { apply -> zq_le. apply Nat2Z.inj_le. exact Hi. }
  assert (Hi0 : 0 <= zq (Z.of_nat i)).
  { change 0 with (zq 0). apply -> zq_le. apply Nat2Z.is_nonneg. }
  set (t := zq (Z.of_nat i) / zq (Z.of_nat (n - 1))).
  assert (Ht : 0 <= t <= 1).
  { unfold t. split.
    - apply Qle_shift_div_l; [exact Hd|lra].
    - apply Qle_shift_div_r; [exact Hd|lra]. }
  destruct Ht as [Ht0 Ht1].
  assert (A : 0 <= (b - a) * t) by (apply Qmult_le_0_compat; lra).
  assert (B : t * (b - a) <= 1 * (b - a)) by (apply Qmult_le_compat_r; lra).
  setoid_replace (t * (b - a)) with ((b - a) * t) in B by ring.
  set (u := (b - a) * t) in *. split; lra.
Qed.

(* ================================================================= (c) line score *)
From Coq Require Import Reals Qreals.
Local Open Scope R_scope.

(* score_paf_lines over the reals, from the parts the model holds:
     S    = sum_i paf_i . (dst - src)        len2 = |dst - src|^2
     score = mean_i (paf_i . (dst-src)/|dst-src|) + wt * clamp(M/|dst-src| - 1, max = 0) *)
Definition score_R (S len2 : Q) (n : nat) (M wt : Q) : R :=
  Q2R S / (INR n * sqrt (Q2R len2)) + Q2R wt * Rmin 0 (Q2R M / sqrt (Q2R len2) - 1).

Definition penalty_R (len2 M wt : Q) : R := Q2R wt * Rmin 0 (Q2R M / sqrt (Q2R len2) - 1).

Lemma Q2R_0 : Q2R 0 = 0.
Proof. unfold Q2R. simpl. lra. Qed.

Lemma qleb_R x y : Qle_bool x y = true <-> Q2R x <= Q2R y.
Proof.
  rewrite Qle_bool_iff. split; [apply Qle_Rle|apply Rle_Qle].
Qed.

Lemma qleb_R_false x y : Qle_bool x y = false <-> Q2R y < Q2R x.
Proof.
  split.
  - intro H. apply Rnot_le_lt. intro C. apply qleb_R in C. congruence.
  - intro H. destruct (Qle_bool x y) eqn:E; [|reflexivity]. apply qleb_R in E. lra.
Qed.

Lemma Rle_div_r a b c : 0 < c -> (a * c <= b <-> a <= b / c).
Proof.
  intro Hc. assert (E : b / c * c = b) by (field; lra).
  split; intro H; [apply Rmult_le_reg_r with c|]; nra.
Qed.

Lemma Rlt_div_l a b c : 0 < c -> (a < b * c <-> a / c < b).
Proof.
  intro Hc. assert (E : a / c * c = a) by (field; lra).
  split; intro H; [apply Rmult_lt_reg_r with c|]; nra.
Qed.

Lemma sqrt_facts l2 : 0 < l2 -> 0 < sqrt l2 /\ sqrt l2 * sqrt l2 = l2.
Proof. intro H. split; [apply sqrt_lt_R0; exact H|apply sqrt_sqrt; lra]. Qed.

(* A >= B * sqrt len2, decided on rationals *)
Lemma ge_times_sqrt_correct A B len2 : (0 < len2)%Q ->
  ge_times_sqrt A B len2 = true <-> Q2R B * sqrt (Q2R len2) <= Q2R A.
Proof.
  intro Hl. apply Qlt_Rlt in Hl. rewrite Q2R_0 in Hl.
  destruct (sqrt_facts _ Hl) as [HL HLL].
  set (L := sqrt (Q2R len2)) in *. set (a := Q2R A). set (b := Q2R B).
  unfold ge_times_sqrt.
  assert (E1 : Q2R (B * B * len2) = (b * L) * (b * L)).
  { rewrite !Q2R_mult. fold b. rewrite <- HLL. ring. }
  assert (E2 : Q2R (A * A) = a * a) by (rewrite Q2R_mult; reflexivity).
  destruct (Qle_bool 0 B) eqn:EB.
  - apply qleb_R in EB. rewrite Q2R_0 in EB. fold b in EB.
    rewrite andb_true_iff, !qleb_R, Q2R_0, E1, E2. fold a.
    assert (0 <= b * L) by nra. split.
    + intros [Ha Hsq]. nra.
    + intro Hle. split; nra.
  - apply qleb_R_false in EB. rewrite Q2R_0 in EB. fold b in EB.
    rewrite orb_true_iff, !qleb_R, Q2R_0, E1, E2. fold a.
    assert (b * L < 0) by nra. split.
    + intros [Ha|Hsq]; [lra|]. destruct (Rle_dec 0 a); [lra|]. nra.
    + intro Hle. destruct (Rle_dec 0 a) as [Ha|Ha]; [left; exact Ha|right; nra].
Qed.

Lemma Q2R_zq_nat n : Q2R (zq (Z.of_nat n)) = INR n.
Proof. unfold zq, Q2R. simpl. rewrite INR_IZR_INZ. field. Qed.

(* the boolean the model computes IS the real comparison  score >= tau  that
   group_instances_sample makes (match_line_scores >= min_line_scores) *)
Theorem score_geb_correct S len2 n M wt tau b :
  (0 < len2)%Q -> (0 < n)%nat -> (0 <= M)%Q ->
  score_geb S len2 n M wt tau = Some b ->
  (b = true <-> Q2R tau <= score_R S len2 n M wt).
Proof.
  intros Hl Hn HM. unfold score_geb.
  assert (Hne : Qeq_bool len2 0 = false).
  { destruct (Qeq_bool len2 0) eqn:E; [|reflexivity]. apply Qeq_bool_iff in E. rewrite E in Hl.
    exfalso. revert Hl. apply Qlt_irrefl. }
  rewrite Hne. pose proof Hl as Hl'. apply Qlt_Rlt in Hl'. rewrite Q2R_0 in Hl'.
  destruct (sqrt_facts _ Hl') as [HL HLL].
  assert (HnR : 0 < INR n) by (apply lt_0_INR; exact Hn).
  assert (Hnq : ~ (zq (Z.of_nat n) == 0)%Q).
  { intro E. apply Qeq_eqR in E. rewrite Q2R_zq_nat, Q2R_0 in E. lra. }
  assert (Emean : Q2R (S / zq (Z.of_nat n)) = Q2R S / INR n).
  { rewrite Q2R_div by exact Hnq. rewrite Q2R_zq_nat. reflexivity. }
  apply Qle_Rle in HM. rewrite Q2R_0 in HM.
  unfold score_R. set (L := sqrt (Q2R len2)) in *. set (m := Q2R M) in *. set (s := Q2R S) in *.
  set (w := Q2R wt). set (t := Q2R tau).
  destruct (Qle_bool len2 (M * M)) eqn:EM; intro Hb; inversion Hb; subst b; clear Hb.
  - apply qleb_R in EM. rewrite Q2R_mult in EM. fold m in EM.
    assert (HLm : L <= m) by nra.
    assert (Hp : 0 <= m / L - 1).
    { assert (1 <= m / L); [|lra]. apply (proj1 (Rle_div_r 1 m L HL)). lra. }
    rewrite Rmin_left by exact Hp. rewrite Rmult_0_r, Rplus_0_r.
    rewrite (ge_times_sqrt_correct _ _ _ Hl). rewrite Emean. fold L t s.
    assert (E : s / (INR n * L) = s / INR n / L) by (field; split; lra).
    rewrite E. split; intro H.
    + apply (proj1 (Rle_div_r t (s / INR n) L HL)). exact H.
    + apply (proj2 (Rle_div_r t (s / INR n) L HL)). exact H.
  - apply qleb_R_false in EM. rewrite Q2R_mult in EM. fold m in EM.
    assert (HLm : m < L) by nra.
    assert (Hp : m / L - 1 < 0).
    { assert (m / L < 1); [|lra]. apply (proj1 (Rlt_div_l m 1 L HL)). lra. }
    rewrite Rmin_right by lra.
    rewrite (ge_times_sqrt_correct _ _ _ Hl). rewrite !Q2R_plus, Q2R_mult, Emean. fold L t s w m.
    assert (E : s / (INR n * L) + w * (m / L - 1) = (s / INR n + w * m) / L - w) by (field; split; lra).
    rewrite E. split; intro H.
    + assert (t + w <= (s / INR n + w * m) / L); [|lra].
      apply (proj1 (Rle_div_r (t + w) (s / INR n + w * m) L HL)). exact H.
    + assert (H' : t + w <= (s / INR n + w * m) / L) by lra.
      apply (proj2 (Rle_div_r (t + w) (s / INR n + w * m) L HL)). exact H'.
Qed.

(* zero-length line (two peaks reported at the same position): 0/0, no comparison holds (F3) *)
Lemma score_geb_nan S n M wt tau : score_geb S 0 n M wt tau = None.
Proof. reflexivity. Qed.

Lemma score_geb_some S len2 n M wt tau : (0 < len2)%Q -> exists b, score_geb S len2 n M wt tau = Some b.
Proof.
  intro Hl. unfold score_geb.
  destruct (Qeq_bool len2 0) eqn:E.
  - apply Qeq_bool_iff in E. rewrite E in Hl. exfalso. revert Hl. apply Qlt_irrefl.
  - destruct (Qle_bool len2 (M * M)); eexists; reflexivity.
Qed.

(* the distance penalty is never positive and vanishes exactly up to max_edge_length *)
Lemma penalty_nonpos len2 M wt : (0 <= wt)%Q -> penalty_R len2 M wt <= 0.
Proof.
  intro Hw. apply Qle_Rle in Hw. rewrite Q2R_0 in Hw. unfold penalty_R.
  pose proof (Rmin_l 0 (Q2R M / sqrt (Q2R len2) - 1)). nra.
Qed.

Lemma penalty_zero len2 M wt : (0 < len2)%Q -> (0 <= M)%Q -> (len2 <= M * M)%Q -> penalty_R len2 M wt = 0.
Proof.
  intros Hl HM Hle. apply Qlt_Rlt in Hl. rewrite Q2R_0 in Hl. apply Qle_Rle in HM. rewrite Q2R_0 in HM.
  apply Qle_Rle in Hle. rewrite Q2R_mult in Hle.
  destruct (sqrt_facts _ Hl) as [HL HLL]. unfold penalty_R.
  set (L := sqrt (Q2R len2)) in *.
  assert (HLm : L <= Q2R M) by nra.
  assert (Hp : 0 <= Q2R M / L - 1).
  { assert (1 <= Q2R M / L); [|lra]. apply (proj1 (Rle_div_r 1 (Q2R M) L HL)). lra. }
  rewrite Rmin_left by exact Hp. ring.
Qed.

Lemma score_R_split S len2 n M wt :
  score_R S len2 n M wt = Q2R S / (INR n * sqrt (Q2R len2)) + penalty_R len2 M wt.
Proof. reflexivity. Qed.
Local Close Scope R_scope.

(* ================================================================= (d) matching and reassembly *)
Definition pair_eqb (p q : nat * nat) : bool := (fst p =? fst q)%nat && (snd p =? snd q)%nat.

Lemma pair_eqb_eq p q : pair_eqb p q = true <-> p = q.
Proof.
  destruct p as [a b], q as [c d]. unfold pair_eqb. simpl.
  rewrite andb_true_iff, !Nat.eqb_eq. split; [intros [-> ->]; reflexivity|intro H; inversion H; auto].
Qed.

Definition inb (p : nat * nat) (l : list (nat * nat)) : bool := existsb (pair_eqb p) l.

Lemma inb_In p l : inb p l = true <-> In p l.
Proof.
  unfold inb. rewrite existsb_exists. split.
  - intros [x [Hx E]]. apply pair_eqb_eq in E. subst. exact Hx.
  - intro H. exists p. split; [exact H|apply pair_eqb_eq; reflexivity].
Qed.

Lemma memb_In x l : memb x l = true <-> In x l.
Proof.
  unfold memb. rewrite existsb_exists. split.
  - intros [y [Hy E]]. apply Nat.eqb_eq in E. subst. exact Hy.
  - intro H. exists x. split; [exact H|apply Nat.eqb_refl].
Qed.

Section Sums.
  Variable f : nat * nat -> Q.

  Fixpoint sumf (l : list (nat * nat)) : Q :=
    match l with [] => 0 | e :: t => f e + sumf t end.

  Lemma sumf_perm l l' : Permutation l l' -> sumf l == sumf l'.
  Proof.
    induction 1; simpl; lra.
  Qed.

  Lemma sumf_filter_split p l :
    sumf l == sumf (filter p l) + sumf (filter (fun e => negb (p e)) l).
  Proof.
    induction l as [|e t IH]; simpl; [lra|].
    destruct (p e); simpl; lra.
  Qed.

  Lemma length_filter_split (p : nat * nat -> bool) l :
    length l = (length (filter p l) + length (filter (fun e => negb (p e)) l))%nat.
  Proof.
    induction l as [|e t IH]; simpl; [reflexivity|].
    destruct (p e); simpl; lia.
  Qed.

  Lemma sumf_ge c l : (forall e, In e l -> c <= f e) -> zq (Z.of_nat (length l)) * c <= sumf l.
  Proof.
    induction l as [|e t IH]; intro H.
    - simpl. change (zq 0) with 0. lra.
    - change (length (e :: t)) with (Datatypes.S (length t)).
      rewrite Nat2Z.inj_succ, <- Z.add_1_r, zq_plus. change (zq 1) with 1. simpl sumf.
      assert (c <= f e) by (apply H; left; reflexivity).
      assert (zq (Z.of_nat (length t)) * c <= sumf t) by (apply IH; intros; apply H; right; assumption).
      set (k := zq (Z.of_nat (length t)) * c) in *.
      setoid_replace ((zq (Z.of_nat (length t)) + 1) * c) with (k + c) by (unfold k; ring). lra.
  Qed.

  Lemma sumf_lt c l : l <> [] -> (forall e, In e l -> f e < c) -> sumf l < zq (Z.of_nat (length l)) * c.
  Proof.
    induction l as [|e t IH]; intros Hne H; [congruence|].
    change (length (e :: t)) with (Datatypes.S (length t)).
    rewrite Nat2Z.inj_succ, <- Z.add_1_r, zq_plus. change (zq 1) with 1. simpl sumf.
    assert (f e < c) by (apply H; left; reflexivity).
    set (k := zq (Z.of_nat (length t)) * c).
    setoid_replace ((zq (Z.of_nat (length t)) + 1) * c) with (k + c) by (unfold k; ring).
    destruct t as [|e' t'].
    - simpl. unfold k. simpl. change (zq 0) with 0. lra.
    - assert (sumf (e' :: t') < k).
      { apply IH; [discriminate|]. intros; apply H; right; assumption. }
      lra.
  Qed.
End Sums.

(* One edge type.  S / D: the animals whose source / destination part was detected (each
   detected once); sc a b: the line score of the candidate (source of a) -> (destination of b).
   An assignment as scipy's linear_sum_assignment returns it on the cost matrix -score:
   one-to-one, of size min(|S|, |D|), of maximal total score. *)
Section Assign.
  Variables (S D : list nat) (sc : nat -> nat -> Q) (mls : Q).
  Hypothesis ND_S : NoDup S.
  Hypothesis ND_D : NoDup D.

  Definition valid (M : list (nat * nat)) : Prop :=
    NoDup (map fst M) /\ NoDup (map snd M) /\
    (forall a b, In (a, b) M -> In a S /\ In b D) /\
    length M = Nat.min (length S) (length D).

  Definition total (M : list (nat * nat)) : Q := sumf (fun e => sc (fst e) (snd e)) M.

  Definition optimal (M : list (nat * nat)) : Prop :=
    valid M /\ forall M', valid M' -> total M' <= total M.

  (* the true matching: every animal with both parts detected, paired with itself *)
  Definition true_pairs : list (nat * nat) :=
    map (fun a => (a, a)) (filter (fun a => memb a D) S).

  Lemma true_pairs_In a b : In (a, b) true_pairs <-> a = b /\ In a S /\ In a D.
  Proof.
    unfold true_pairs. rewrite in_map_iff. split.
    - intros [x [E Hx]]. inversion E; subst. apply filter_In in Hx. destruct Hx as [H1 H2].
      apply memb_In in H2. auto.
    - intros [-> [H1 H2]]. exists b. split; [reflexivity|]. apply filter_In. split; [exact H1|].
      apply memb_In. exact H2.
  Qed.

  Lemma NoDup_pairs (M : list (nat * nat)) : NoDup (map fst M) -> NoDup M.
  Proof. apply NoDup_map_inv. Qed.

  Hypothesis true_ok : forall a, In a S -> In a D -> mls <= sc a a.
  Hypothesis cross_low : forall a b, In a S -> In b D -> a <> b -> sc a b < mls.
  (* the true pairs saturate the smaller side: no lonely source AND lonely destination *)
  Hypothesis saturated : length true_pairs = Nat.min (length S) (length D).

  Lemma true_pairs_valid : valid true_pairs.
  Proof.
    unfold valid. repeat split.
    - unfold true_pairs. rewrite map_map. simpl. rewrite map_id. apply NoDup_filter. exact ND_S.
    - unfold true_pairs. rewrite map_map. simpl. rewrite map_id. apply NoDup_filter. exact ND_S.
    - apply true_pairs_In in H. tauto.
    - apply true_pairs_In in H. destruct H as [-> [_ H]]. exact H.
    - exact saturated.
  Qed.

  (* score separation + saturation: the true matching is the UNIQUE optimum.
     Saturation is needed: "true >= mls > every cross pair" alone does not force the true pairs
     into the optimum, because the assignment has the forced size min(n, m).  With sources
     {A, y}, destinations {A, x} (y, x lonely parts of two other animals), mls = 1/4 and scores
     A->A = 3/10, A->x = y->A = 6/25, y->x = -3/2, the cross assignment {A->x, y->A} (total 12/25)
     beats {A->A, y->x} (total -6/5): both of its pairs are then filtered and animal A is lost. *)
  Theorem saturated_unique_optimum M :
    optimal M -> forall e, In e M <-> In e true_pairs.
  Proof.
    intros [HV Hopt].
    pose proof (Hopt _ true_pairs_valid) as Hle.
    destruct HV as [ND1 [ND2 [Hmem Hlen]]].
    pose proof (NoDup_pairs _ ND1) as NDM.
    pose proof true_pairs_valid as [NDT1 [_ [_ _]]].
    pose proof (NoDup_pairs _ NDT1) as NDT.
    set (g := fun e : nat * nat => sc (fst e) (snd e)) in *.
    set (inT := fun e => inb e true_pairs). set (inM := fun e => inb e M).
    pose proof (sumf_filter_split g inT M) as SM.
    pose proof (sumf_filter_split g inM true_pairs) as ST.
    pose proof (length_filter_split inT M) as LM.
    pose proof (length_filter_split inM true_pairs) as LT.
    assert (P : Permutation (filter inT M) (filter inM true_pairs)).
    { apply NoDup_Permutation; [apply NoDup_filter; exact NDM|apply NoDup_filter; exact NDT|].
      intro e. rewrite !filter_In. unfold inT, inM. rewrite !inb_In. tauto. }
    pose proof (sumf_perm g _ _ P) as SP. pose proof (Permutation_length P) as LP.
    set (Mc := filter (fun e => negb (inT e)) M) in *.
    set (Tc := filter (fun e => negb (inM e)) true_pairs) in *.
    assert (Lc : length Mc = length Tc) by lia.
    assert (HMc : forall e, In e Mc -> g e < mls).
    { intros [a b] He. unfold Mc in He. apply filter_In in He. destruct He as [He Hn].
      apply negb_true_iff in Hn. unfold inT in Hn.
      destruct (Hmem _ _ He) as [Ha Hb]. unfold g. simpl. apply cross_low; [exact Ha|exact Hb|].
      intro E. subst b. assert (In (a, a) true_pairs) by (apply true_pairs_In; auto).
      apply inb_In in H. congruence. }
    assert (HTc : forall e, In e Tc -> mls <= g e).
    { intros [a b] He. unfold Tc in He. apply filter_In in He. destruct He as [He _].
      apply true_pairs_In in He. destruct He as [-> [Ha Hb]]. unfold g. simpl. apply true_ok; assumption. }
    destruct Tc as [|t0 Tc'] eqn:ETc.
    - (* every true pair is in M; equal sizes: nothing else is *)
      assert (EMc : Mc = []) by (destruct Mc; [reflexivity|simpl in Lc; discriminate]).
      intro e. split; intro He.
      + destruct (inT e) eqn:E; [apply inb_In in E; exact E|].
        assert (In e Mc) by (unfold Mc; apply filter_In; split; [exact He|rewrite E; reflexivity]).
        rewrite EMc in H. destruct H.
      + destruct (inM e) eqn:E; [apply inb_In in E; exact E|].
        assert (In e Tc) by (unfold Tc; apply filter_In; split; [exact He|rewrite E; reflexivity]).
        rewrite ETc in H. destruct H.
    - (* some true pair is not in M: then M is strictly worse than the true matching *)
      exfalso.
      assert (NE : Mc <> []) by (intro E0; rewrite E0 in Lc; simpl in Lc; discriminate).
      pose proof (sumf_lt g mls Mc NE HMc) as A.
      pose proof (sumf_ge g mls (t0 :: Tc') HTc) as B.
      rewrite Lc in A. unfold total in Hle. fold g in Hle.
      set (x := sumf g (filter inT M)) in *. set (y := sumf g (filter inM true_pairs)) in *.
      set (k := zq (Z.of_nat (length (t0 :: Tc'))) * mls) in *.
      lra.
  Qed.
End Assign.

From Coq Require Import Relations.

(* All edge types together.  Peaks are identified with the visible keypoints they come from:
   (animal, node) — "every visible keypoint is detected exactly once" (C01 + C06: the ideal bump
   of a keypoint in general position has one strict local maximum, at its nearest cell). *)
Section Reassembly.
  Variable edges : list (nat * nat).                 (* skeleton edges (src node, dst node), any listing *)
  Variable n_animals : nat.
  Variable vis : nat -> nat -> bool.                 (* vis a j: animal a has node j visible *)
  Variable score : nat -> nat -> nat -> option Q.    (* score k a b: line score of edge type k from the
                                                        source part of animal a to the destination part
                                                        of animal b; None = NaN *)
  Variable mls : Q.                                  (* min_line_scores *)

  Definition animals : list nat := seq 0 n_animals.
  Definition srcs (e : nat * nat) : list nat := filter (fun a => vis a (fst e)) animals.
  Definition dsts (e : nat * nat) : list nat := filter (fun a => vis a (snd e)) animals.
  Definition val (x : option Q) : Q := match x with Some s => s | None => 0 end.
  Definition sck (k a b : nat) : Q := val (score k a b).

  Lemma srcs_In e a : In a (srcs e) <-> (a < n_animals)%nat /\ vis a (fst e) = true.
  Proof. unfold srcs, animals. rewrite filter_In, in_seq. intuition lia. Qed.
  Lemma dsts_In e a : In a (dsts e) <-> (a < n_animals)%nat /\ vis a (snd e) = true.
  Proof. unfold dsts, animals. rewrite filter_In, in_seq. intuition lia. Qed.
  Lemma srcs_NoDup e : NoDup (srcs e).
  Proof. apply NoDup_filter. apply seq_NoDup. Qed.
  Lemma dsts_NoDup e : NoDup (dsts e).
  Proof. apply NoDup_filter. apply seq_NoDup. Qed.

  Definition all_finite (k : nat) (e : nat * nat) : Prop :=
    forall a b, In a (srcs e) -> In b (dsts e) -> score k a b <> None.

  (* the assignment ORACLE (scipy.optimize.linear_sum_assignment on -score, NaN -> inf) with the
     contract of C08(f): when every candidate is finite it returns a one-to-one assignment of
     size min(n, m) with maximal total score *)
  Variable matching : nat -> list (nat * nat).
  Hypothesis c08_optimal_assignment : forall k e,
    nth_error edges k = Some e -> all_finite k e ->
    optimal (srcs e) (dsts e) (sck k) (matching k).

  (* C08(e): a match is used iff its score is >= min_line_scores (NaN: never) *)
  Definition accepted (k a b : nat) : Prop :=
    In (a, b) (matching k) /\ exists s, score k a b = Some s /\ mls <= s.

  (* score separation, per edge type — MEASURED by the harness on every scene *)
  Definition alt_saturated (k : nat) (e : nat * nat) : Prop :=
    (forall a b, In a (srcs e) -> In b (dsts e) -> a <> b -> sck k a b < mls) /\
    length (true_pairs (srcs e) (dsts e)) = Nat.min (length (srcs e)) (length (dsts e)).
  Definition alt_unique_optimum (k : nat) (e : nat * nat) : Prop :=
    forall M, optimal (srcs e) (dsts e) (sck k) M ->
      (forall p, In p (true_pairs (srcs e) (dsts e)) -> In p M) /\
      (forall a b, In (a, b) M -> a <> b -> sck k a b < mls).
  Definition separated (k : nat) (e : nat * nat) : Prop :=
    all_finite k e /\
    (forall a, In a (srcs e) -> In a (dsts e) -> mls <= sck k a a) /\
    (alt_saturated k e \/ alt_unique_optimum k e).

  Hypothesis separation : forall k e, nth_error edges k = Some e -> separated k e.

  Lemma alt_saturated_unique k e :
    (forall a, In a (srcs e) -> In a (dsts e) -> mls <= sck k a a) ->
    alt_saturated k e -> alt_unique_optimum k e.
  Proof.
    intros Hok [Hlow Hsat] M HM.
    pose proof (saturated_unique_optimum (srcs e) (dsts e) (sck k) mls (srcs_NoDup e) Hok Hlow Hsat M HM) as H.
    split.
    - intros p Hp. apply H. exact Hp.
    - intros a b Hab Hne. apply H in Hab. apply true_pairs_In in Hab. destruct Hab as [E _]. contradiction.
  Qed.

  (* the accepted matches are exactly the true pairs *)
  Lemma accepted_iff k e a b :
    nth_error edges k = Some e ->
    (accepted k a b <-> a = b /\ (a < n_animals)%nat /\ vis a (fst e) = true /\ vis a (snd e) = true).
  Proof.
    intro Hk. destruct (separation k e Hk) as [Hfin [Hok Halt]].
    assert (HU : alt_unique_optimum k e).
    { destruct Halt as [H|H]; [apply alt_saturated_unique; assumption|exact H]. }
    pose proof (c08_optimal_assignment k e Hk Hfin) as Hopt.
    destruct (HU _ Hopt) as [HT Hcross].
    destruct Hopt as [[_ [_ [Hmem _]]] _].
    unfold accepted. split.
    - intros [HM [s [Es Hs]]].
      destruct (Nat.eq_dec a b) as [->|Hne].
      + destruct (Hmem _ _ HM) as [Ha Hb]. apply srcs_In in Ha. apply dsts_In in Hb. tauto.
      + exfalso. pose proof (Hcross _ _ HM Hne) as Hl. unfold sck in Hl. rewrite Es in Hl. simpl in Hl.
        apply (Qlt_not_le _ _ Hl). exact Hs.
    - intros [-> [Hn [Hu Hv]]].
      assert (Ha : In b (srcs e)) by (apply srcs_In; auto).
      assert (Hb : In b (dsts e)) by (apply dsts_In; auto).
      split.
      + apply HT. apply true_pairs_In. auto.
      + pose proof (Hfin b b Ha Hb) as Hf. pose proof (Hok b Ha Hb) as Hge. unfold sck in Hge.
        destruct (score k b b) as [s|]; [|congruence]. exists s. split; [reflexivity|exact Hge].
  Qed.

  (* ---- grouping (C08) ---- *)
  (* proc k: edge type k is one of sorted_edge_inds (= toposort_edges), i.e. its accepted matches are
     handed to assign_connections_to_instances.  The code does this for `processed edges` (BottomUp.v);
     for a rooted tree that is every edge type (processed_all below). *)
  Variable proc : nat -> bool.
  Definition peak := (nat * nat)%type.               (* (animal, node) *)
  Definition adj (p q : peak) : Prop :=
    exists k, proc k = true /\ nth_error edges k = Some (snd p, snd q) /\ accepted k (fst p) (fst q).
  Definition conn : peak -> peak -> Prop := clos_refl_sym_trans peak adj.

  (* a predicted instance: slot j holds the peak of node j it contains (as the animal whose
     keypoint produced that peak), or None (NaN row) *)
  Definition instance := list (option nat).
  Definition member (p : peak) (I : instance) : Prop := nth_error I (snd p) = Some (Some (fst p)).

  Variable output : list instance.
  (* the grouping contract, named after the C08 theorems it abbreviates:
     (c) instances are exactly the connected components of the accepted matches [an instance only
         arises from a connection, so it has >= 2 peaks; min_instance_peaks <= 2],
     (b) partition: no peak is in two instances *)
  Hypothesis c08_components : forall I, In I output ->
    exists p, member p I /\ (forall q, member q I <-> conn p q) /\ exists q, q <> p /\ member q I.
  Hypothesis c08_components_complete : forall p q, adj p q -> exists I, In I output /\ member p I.
  Hypothesis c08_partition : forall i j I J p,
    nth_error output i = Some I -> nth_error output j = Some J -> member p I -> member p J -> i = j.

  (* ---- the labelled animals ---- *)
  Definition vedge (a i j : nat) : Prop :=
    (exists k, proc k = true /\ nth_error edges k = Some (i, j)) /\ vis a i = true /\ vis a j = true.
  Definition vconn (a : nat) : nat -> nat -> Prop := clos_refl_sym_trans nat (vedge a).

  Lemma adj_iff a i b j :
    adj (a, i) (b, j) <-> a = b /\ (a < n_animals)%nat /\ vedge a i j.
  Proof.
    unfold adj, vedge. simpl. split.
    - intros [k [Hp [Hk Hacc]]]. apply (accepted_iff k _ _ _ Hk) in Hacc. simpl in Hacc.
      destruct Hacc as [-> [Hn [Hi Hj]]]. split; [reflexivity|]. split; [exact Hn|].
      split; [exists k; auto|auto].
    - intros [-> [Hn [[k [Hp Hk]] [Hi Hj]]]].
      exists k. split; [exact Hp|]. split; [exact Hk|]. apply (accepted_iff k _ _ _ Hk). simpl. auto.
  Qed.

  Lemma conn_same_animal p q : conn p q -> fst p = fst q /\ vconn (fst p) (snd p) (snd q).
  Proof.
    induction 1 as [[a i] [b j] H| |x y H [IH1 IH2]|x y z H1 [IH1 IH2] H2 [IH3 IH4]].
    - apply adj_iff in H. destruct H as [-> [_ H]]. simpl. split; [reflexivity|]. apply rst_step. exact H.
    - split; [reflexivity|apply rst_refl].
    - split; [symmetry; exact IH1|]. rewrite <- IH1. apply rst_sym. exact IH2.
    - split; [congruence|]. rewrite <- IH1 in IH4. eapply rst_trans; eassumption.
  Qed.

  Lemma vconn_conn a i j : (a < n_animals)%nat -> vconn a i j -> conn (a, i) (a, j).
  Proof.
    intro Hn. induction 1 as [i j H| |i j H IH|i j l H1 IH1 H2 IH2].
    - apply rst_step. apply adj_iff. auto.
    - apply rst_refl.
    - apply rst_sym. exact IH.
    - eapply rst_trans; eassumption.
  Qed.

  Definition good (p : peak) : Prop := (fst p < n_animals)%nat /\ vis (fst p) (snd p) = true.

  Lemma conn_good p q : conn p q -> p = q \/ (good p /\ good q).
  Proof.
    induction 1 as [[a i] [b j] H| |x y H IH|x y z H1 IH1 H2 IH2].
    - right. apply adj_iff in H. destruct H as [-> [Hn [_ [Hi Hj]]]]. unfold good. simpl. auto.
    - left. reflexivity.
    - destruct IH as [->|[A B]]; [left; reflexivity|right; auto].
    - destruct IH1 as [->|[A B]]; [exact IH2|]. destruct IH2 as [<-|[C E]]; right; auto.
  Qed.

  (* EXACT REASSEMBLY.  (1) every predicted instance holds precisely the keypoints of ONE group of
     >= 2 visible keypoints of ONE labelled animal connected through visible edges (all other
     slots are None = NaN); (2) every such group has exactly one predicted instance. *)
  Theorem reassembly_from_separation :
    (forall I, In I output ->
       exists a j0, (a < n_animals)%nat /\ vis a j0 = true /\
         (forall b j, member (b, j) I <-> b = a /\ vconn a j0 j) /\
         (exists j1, j1 <> j0 /\ vconn a j0 j1))
    /\
    (forall a i j, (a < n_animals)%nat -> vedge a i j ->
       exists n I, nth_error output n = Some I /\ member (a, i) I /\ member (a, j) I /\
         forall n' I', nth_error output n' = Some I' -> member (a, i) I' -> n' = n).
  Proof.
    split.
    - intros I HI. destruct (c08_components I HI) as [[a j0] [Hp [Hall [q [Hq Hqm]]]]].
      assert (Hc : conn (a, j0) q) by (apply Hall; exact Hqm).
      destruct (conn_good _ _ Hc) as [E|[[Hn Hv] _]]; [congruence|]. simpl in Hn, Hv.
      exists a, j0. split; [exact Hn|]. split; [exact Hv|]. split.
      + intros b j. rewrite Hall. split.
        * intro H. apply conn_same_animal in H. simpl in H. destruct H as [-> H]. auto.
        * intros [-> H]. apply vconn_conn; assumption.
      + destruct q as [b j1]. apply conn_same_animal in Hc. simpl in Hc. destruct Hc as [<- Hc].
        exists j1. split; [|exact Hc]. intro E. subst j1. apply Hq. reflexivity.
    - intros a i j Hn He.
      assert (Hadj : adj (a, i) (a, j)) by (apply adj_iff; auto).
      destruct (c08_components_complete _ _ Hadj) as [I [HI Hm]].
      destruct (In_nth_error _ _ HI) as [n Hn'].
      exists n, I. split; [exact Hn'|]. split; [exact Hm|]. split.
      + destruct (c08_components I HI) as [p [_ [Hall _]]].
        apply Hall. eapply rst_trans; [apply Hall; exact Hm|]. apply rst_step. exact Hadj.
      + intros n' I' Hn'' Hm'. eapply c08_partition; eassumption.
  Qed.
End Reassembly.

(* ================================================================= (e) the executable groups *)
(* `component` / `groups` (BottomUp.v), which the harness evaluates for every scene, compute
   exactly the classes of "connected through visible edges". *)
Lemma NoDup_app_snoc (l : list nat) x : NoDup l -> ~ In x l -> NoDup (l ++ [x]).
Proof.
  intros ND Hx. apply Permutation_NoDup with (l := x :: l).
  - apply Permutation_cons_append.
  - constructor; assumption.
Qed.

Section Groups.
  Variable es : list (nat * nat).      (* the VISIBLE edges *)

  Definition eadj (i j : nat) : Prop := In (i, j) es.
  Definition reach : nat -> nat -> Prop := clos_refl_sym_trans nat eadj.

  Definition closed (S : list nat) : Prop := forall u v, In (u, v) es -> (In u S <-> In v S).

  Lemma grow_edge_incl acc e x : In x acc -> In x (grow_edge acc e).
  Proof.
    destruct e as [u v]. unfold grow_edge. intro H.
    destruct (memb u acc); destruct (memb v acc); try exact H; apply in_or_app; left; exact H.
  Qed.

  Lemma grow_edge_cases acc e :
    grow_edge acc e = acc \/
    exists x, grow_edge acc e = acc ++ [x] /\ ~ In x acc /\
              ((x = snd e /\ In (fst e) acc) \/ (x = fst e /\ In (snd e) acc)).
  Proof.
    destruct e as [u v]. unfold grow_edge. simpl.
    destruct (memb u acc) eqn:Eu; destruct (memb v acc) eqn:Ev; auto.
    - right. exists v. split; [reflexivity|]. split.
      + intro H. apply memb_In in H. congruence.
      + left. split; [reflexivity|apply memb_In; exact Eu].
    - right. exists u. split; [reflexivity|]. split.
      + intro H. apply memb_In in H. congruence.
      + right. split; [reflexivity|apply memb_In; exact Ev].
  Qed.

  (* invariant: NoDup, everything reachable from j *)
  Definition inv (j : nat) (S : list nat) : Prop := NoDup S /\ forall x, In x S -> reach j x.

  Lemma grow_edge_inv j acc e : In e es -> inv j acc -> inv j (grow_edge acc e).
  Proof.
    intros He [ND HR]. destruct (grow_edge_cases acc e) as [->|[x [-> [Hx Hc]]]]; [split; assumption|].
    split.
    - apply NoDup_app_snoc; assumption.
    - intros y Hy. apply in_app_or in Hy. destruct Hy as [Hy|[<-|[]]]; [apply HR; exact Hy|].
      destruct e as [u v]. simpl in Hc. destruct Hc as [[-> Hu]|[-> Hv]].
      + eapply rst_trans; [apply HR; exact Hu|]. apply rst_step. exact He.
      + eapply rst_trans; [apply HR; exact Hv|]. apply rst_sym. apply rst_step. exact He.
  Qed.

  Lemma grow_inv j l acc : incl l es -> inv j acc -> inv j (fold_left grow_edge l acc).
  Proof.
    revert acc. induction l as [|e t IH]; intros acc Hl Hinv; simpl; [exact Hinv|].
    apply IH.
    - intros x Hx. apply Hl. right. exact Hx.
    - apply grow_edge_inv; [apply Hl; left; reflexivity|exact Hinv].
  Qed.

  Lemma grow_edge_length acc e : (length acc <= length (grow_edge acc e))%nat.
  Proof.
    destruct (grow_edge_cases acc e) as [->|[x [-> _]]]; [lia|]. rewrite app_length. simpl. lia.
  Qed.

  Lemma grow_length_mono l acc : (length acc <= length (fold_left grow_edge l acc))%nat.
  Proof.
    revert acc. induction l as [|e t IH]; intro acc; simpl; [lia|].
    pose proof (grow_edge_length acc e). pose proof (IH (grow_edge acc e)). lia.
  Qed.

  Lemma grow_incl l acc x : In x acc -> In x (fold_left grow_edge l acc).
  Proof.
    revert acc. induction l as [|e t IH]; intros acc H; simpl; [exact H|].
    apply IH. apply grow_edge_incl. exact H.
  Qed.

  Lemma grow_fix l acc :
    length (fold_left grow_edge l acc) = length acc -> forall e, In e l -> grow_edge acc e = acc.
  Proof.
    revert acc. induction l as [|a t IH]; intros acc Hlen e He; [destruct He|].
    simpl in Hlen.
    pose proof (grow_edge_length acc a) as H1. pose proof (grow_length_mono t (grow_edge acc a)) as H2.
    assert (Ea : grow_edge acc a = acc).
    { destruct (grow_edge_cases acc a) as [E|[x [E _]]]; [exact E|].
      rewrite E in H2. rewrite app_length in H2. simpl in H2. rewrite E in Hlen. lia. }
    destruct He as [<-|He]; [exact Ea|]. apply IH; [rewrite Ea in Hlen; exact Hlen|exact He].
  Qed.

  Lemma grow_edge_fix_closed acc u v : grow_edge acc (u, v) = acc -> (In u acc <-> In v acc).
  Proof.
    unfold grow_edge. rewrite <- !memb_In.
    destruct (memb u acc) eqn:Eu; destruct (memb v acc) eqn:Ev; intro H; try tauto;
      apply (f_equal (@length nat)) in H; rewrite app_length in H; simpl in H; lia.
  Qed.

  Lemma fix_closed S : length (grow es S) = length S -> closed S.
  Proof.
    intros H u v Huv. apply grow_edge_fix_closed. apply (grow_fix es S H). exact Huv.
  Qed.

  Lemma closed_reach S a b : closed S -> reach a b -> (In a S <-> In b S).
  Proof.
    intro HC. induction 1 as [a b H| |a b H IH|a b c H1 IH1 H2 IH2].
    - apply HC. exact H.
    - tauto.
    - tauto.
    - tauto.
  Qed.

  Variable n : nat.
  Hypothesis es_bounded : forall u v, In (u, v) es -> (u < n /\ v < n)%nat.

  Lemma reach_bounded a b : reach a b -> a = b \/ ((a < n)%nat /\ (b < n)%nat).
  Proof.
    induction 1 as [a b H| |a b H IH|a b c H1 IH1 H2 IH2].
    - right. apply es_bounded. exact H.
    - left. reflexivity.
    - destruct IH as [->|[A B]]; auto.
    - destruct IH1 as [->|[A B]]; [exact IH2|]. destruct IH2 as [<-|[C E]]; auto.
  Qed.

  Lemma inv_length j S : (j < n)%nat -> inv j S -> (length S <= n)%nat.
  Proof.
    intros Hj [ND HR]. rewrite <- (seq_length n 0). apply NoDup_incl_length; [exact ND|].
    intros x Hx. apply in_seq. destruct (reach_bounded _ _ (HR x Hx)) as [<-|[_ H]]; lia.
  Qed.

  Lemma closure_closed j : (j < n)%nat -> forall fuel S,
    inv j S -> (n < fuel + length S)%nat ->
    closed (closure fuel es S) /\ inv j (closure fuel es S) /\ incl S (closure fuel es S).
  Proof.
    intro Hj. induction fuel as [|f IH]; intros S Hinv Hf.
    - pose proof (inv_length j S Hj Hinv). simpl in Hf. lia.
    - simpl. destruct (length (grow es S) =? length S)%nat eqn:E.
      + apply Nat.eqb_eq in E. split; [apply fix_closed; exact E|]. split; [exact Hinv|apply incl_refl].
      + apply Nat.eqb_neq in E.
        pose proof (grow_length_mono es S) as Hm. fold (grow es S) in Hm.
        assert (Hinv' : inv j (grow es S)) by (apply grow_inv; [apply incl_refl|exact Hinv]).
        destruct (IH (grow es S) Hinv') as [A [B C]]; [lia|].
        split; [exact A|]. split; [exact B|].
        intros x Hx. apply C. apply grow_incl. exact Hx.
  Qed.

  Theorem closure_spec j x : (j < n)%nat -> (In x (closure n es [j]) <-> reach j x).
  Proof.
    intro Hj.
    assert (Hinv : inv j [j]).
    { split; [constructor; [intros []|constructor]|]. intros y [<-|[]]. apply rst_refl. }
    destruct (closure_closed j Hj n [j] Hinv) as [HC [[_ HR] HI]]; [simpl; lia|].
    split; [apply HR|].
    intro H. apply (closed_reach _ j x HC H). apply HI. left. reflexivity.
  Qed.
End Groups.

Lemma clos_rst_iff (R1 R2 : nat -> nat -> Prop) :
  (forall a b, R1 a b <-> R2 a b) ->
  forall a b, clos_refl_sym_trans nat R1 a b <-> clos_refl_sym_trans nat R2 a b.
Proof.
  intros H a b. split; induction 1;
    try (apply rst_step; apply H; assumption); try apply rst_refl;
    try (apply rst_sym; assumption); eapply rst_trans; eassumption.
Qed.

(* visible keypoints connected through visible edges: the relation of the property statement *)
Definition vis_conn (es : list (nat * nat)) (vis : list bool) : nat -> nat -> Prop :=
  clos_refl_sym_trans nat (fun i j => In (i, j) es /\ visb vis i = true /\ visb vis j = true).

Theorem component_spec n es vis j x :
  (forall u v, In (u, v) es -> (u < n /\ v < n)%nat) -> (j < n)%nat ->
  (In x (component n es vis j) <-> vis_conn es vis j x).
Proof.
  intros Hb Hj. unfold component, vis_conn.
  rewrite (closure_spec (vis_edges vis es) n).
  - unfold reach, eadj. apply clos_rst_iff. intros a b. unfold vis_edges. rewrite filter_In. simpl.
    rewrite andb_true_iff. tauto.
  - intros u v H. unfold vis_edges in H. apply filter_In in H. apply Hb. tauto.
  - exact Hj.
Qed.

(* every group the model emits is the full class of a visible node, with >= 2 keypoints,
   listed at its smallest node *)
Theorem groups_sound n es vis c :
  (forall u v, In (u, v) es -> (u < n /\ v < n)%nat) ->
  In c (groups n es vis) ->
  exists j, (j < n)%nat /\ visb vis j = true /\ (2 <= length c)%nat /\ list_min c = j /\
            forall x, In x c <-> vis_conn es vis j x.
Proof.
  intros Hb H. unfold groups in H. apply in_flat_map in H. destruct H as [j [Hj H]].
  apply in_seq in Hj. destruct (visb vis j) eqn:Ev; [|destruct H].
  destruct ((list_min (component n es vis j) =? j)%nat && (2 <=? length (component n es vis j))%nat) eqn:E;
    [|destruct H].
  destruct H as [<-|[]]. apply andb_true_iff in E. destruct E as [E1 E2].
  apply Nat.eqb_eq in E1. apply Nat.leb_le in E2.
  exists j. split; [lia|]. split; [exact Ev|]. split; [exact E2|]. split; [exact E1|].
  intro x. apply component_spec; [exact Hb|lia].
Qed.

(* ================================================================= non-vacuity *)
(* the hypotheses of reassembly_from_separation are jointly satisfiable: one animal, skeleton
   0 -> 1, both parts visible, true score 9/10, min_line_scores 1/4 *)
Section NonVacuous.
  Let edges1 := [(0, 1)]%nat.
  Let vis1 := fun (_ _ : nat) => true.
  Let score1 := fun (_ _ _ : nat) => Some (9 # 10).
  Let matching1 := fun (_ : nat) => [(0, 0)]%nat.
  Let output1 : list (list (option nat)) := [[Some 0%nat; Some 0%nat]].

  Lemma ex_srcs e : srcs 1 vis1 e = [0%nat].
  Proof. reflexivity. Qed.
  Lemma ex_dsts e : dsts 1 vis1 e = [0%nat].
  Proof. reflexivity. Qed.

  Lemma ex_valid_single M : valid [0%nat] [0%nat] M -> M = [(0, 0)]%nat.
  Proof.
    intros [_ [_ [Hmem Hlen]]]. simpl in Hlen.
    destruct M as [|[a b] [|? ?]]; try discriminate.
    destruct (Hmem a b (or_introl eq_refl)) as [[<-|[]] [<-|[]]]. reflexivity.
  Qed.

  Lemma ex_optimal k e : optimal (srcs 1 vis1 e) (dsts 1 vis1 e) (sck score1 k) (matching1 k).
  Proof.
    rewrite ex_srcs, ex_dsts. split.
    - unfold valid, matching1. simpl. repeat split; try (constructor; [intros []|constructor]).
      + destruct H as [H|[]]. inversion H. left. reflexivity.
      + destruct H as [H|[]]. inversion H. left. reflexivity.
    - intros M' HV. apply ex_valid_single in HV. subst M'. apply Qle_refl.
  Qed.

  Lemma ex_separated k e : separated 1 vis1 score1 (1 # 4) k e.
  Proof.
    split; [intros a b _ _; discriminate|]. split.
    - intros a _ _. unfold sck, score1. simpl. discriminate.
    - left. split.
      + intros a b Ha Hb. rewrite ex_srcs in Ha. rewrite ex_dsts in Hb.
        destruct Ha as [<-|[]]. destruct Hb as [<-|[]]. congruence.
      + reflexivity.
  Qed.

  Let proc1 := processed edges1.       (* = the edge types toposort_edges returns for 0 -> 1: edge type 0 *)
  Let conn1 := conn edges1 score1 (1 # 4) matching1 proc1.
  Let adj1 := adj edges1 score1 (1 # 4) matching1 proc1.

  Lemma ex_adj p q : adj1 p q <-> p = (0, 0)%nat /\ q = (0, 1)%nat.
  Proof.
    destruct p as [a i], q as [b j]. unfold adj1, adj, accepted. simpl. split.
    - intros [k [_ [Hk [[H|[]] _]]]]. inversion H; subst.
      destruct k as [|k]; simpl in Hk; [inversion Hk; auto|destruct k; discriminate].
    - intros [E1 E2]. inversion E1; inversion E2; subst. exists 0%nat. split; [reflexivity|]. split; [reflexivity|].
      split; [left; reflexivity|]. exists (9 # 10). split; [reflexivity|]. unfold Qle. simpl. lia.
  Qed.

  Definition in_pair (x : peak) : Prop := x = (0, 0)%nat \/ x = (0, 1)%nat.

  Lemma ex_conn_pair x y : conn1 x y -> (in_pair x <-> in_pair y).
  Proof.
    induction 1 as [x y H| |x y H IH|x y z H1 IH1 H2 IH2]; try tauto.
    apply ex_adj in H. destruct H as [-> ->]. unfold in_pair. tauto.
  Qed.

  Lemma ex_member q : member q [Some 0%nat; Some 0%nat] <-> in_pair q.
  Proof.
    destruct q as [a j]. unfold member, in_pair. simpl. split.
    - intro H. destruct j as [|[|j]]; simpl in H; inversion H; auto. destruct j; discriminate.
    - intros [E|E]; inversion E; reflexivity.
  Qed.

  Lemma ex_components : forall I, In I output1 ->
    exists p, member p I /\ (forall q, member q I <-> conn1 p q) /\ exists q, q <> p /\ member q I.
  Proof.
    intros I [<-|[ ]]. exists (0, 0)%nat. split; [reflexivity|]. split.
    - intro q. rewrite ex_member. split.
      + intros [-> | ->]; [apply rst_refl|]. apply rst_step. apply ex_adj. auto.
      + intro H. apply ex_conn_pair in H. apply H. left. reflexivity.
    - exists (0, 1)%nat. split; [discriminate|reflexivity].
  Qed.

  Lemma ex_complete : forall p q, adj1 p q -> exists I, In I output1 /\ member p I.
  Proof.
    intros p q H. apply ex_adj in H. destruct H as [-> _].
    exists [Some 0%nat; Some 0%nat]. split; [left; reflexivity|reflexivity].
  Qed.

  Lemma ex_partition : forall i j (I J : instance) (p : peak),
    nth_error output1 i = Some I -> nth_error output1 j = Some J -> member p I -> member p J -> i = j.
  Proof.
    intros i j I J p Hi Hj _ _.
    destruct i as [|[|i]]; simpl in Hi; try discriminate;
      destruct j as [|[|j]]; simpl in Hj; try discriminate; reflexivity.
  Qed.

  (* all hypotheses hold for this instance, hence so does the conclusion *)
  Lemma ex_reassembly_instance :
    exists n I, nth_error output1 n = Some I /\ member (0, 0)%nat I /\ member (0, 1)%nat I.
  Proof.
    destruct (reassembly_from_separation edges1 1 vis1 score1 (1 # 4) matching1
                (fun k e _ _ => ex_optimal k e) (fun k e _ => ex_separated k e) proc1
                output1 ex_components ex_complete ex_partition) as [_ H].
    destruct (H 0%nat 0%nat 1%nat) as [n [I [A [B [C _]]]]].
    - lia.
    - unfold vedge. split; [exists 0%nat; split; reflexivity|split; reflexivity].
    - exists n, I. auto.
  Qed.
End NonVacuous.
