(* Props.v (C03) — statements only.  Proofs: C03/Lemmas.v; model: C03/BottomUp.v.

   C03: "If the network outputs the ideal multi-animal confidence maps and part-affinity fields
   for a frame, bottom-up inference returns exactly one predicted instance per group of two or
   more visible keypoints of a labelled animal that are connected through visible skeleton
   edges, containing precisely those keypoints (within half a stride cell, in original-image
   coordinates) and NaN for the others."

   What is proved, for ALL inputs (no size bound):
     (a) decode       : peak cell * cms_stride / input_scale / eff_scale is within half a cell
                        of the labelled position, outside the right/bottom border band (F10);
     (b) addressing   : the subscripts make_line_subs builds address exactly the memory cells
                        generate_pafs wrote for that edge's x / y component at the grid cell
                        nearest to the line point (rows from y, columns from x);
     (c) line score   : the comparison  score >= threshold  made on the model's exact rational
                        parts is the real comparison on mean(paf . unit direction) + penalty;
     (d) reassembly   : from score separation + the C08 grouping / assignment contracts, the
                        output is exactly one instance per visible-edge-connected group.
                        DOMAIN (round 4, review finding 1): "tree skeleton" = rooted tree listed parent ->
                        child in any order and numbering = C17's `arborescence` (what C08 and C17 assume,
                        what upstream SLEAP demands of a bottom-up skeleton).  The grouping contract speaks
                        of the edge types the code ASSEMBLES, `processed edges` (= toposort_edges, C17's
                        model); c03_reassembly_processed_partial holds for ANY listing and gives the groups
                        connected through PROCESSED visible edges; for an arborescence every edge type is
                        processed (c03_processed_all_for_trees) and c03_reassembly_partial gives the
                        property's groups.  A tree with a mis-oriented edge ([(0,1);(2,1)]) is outside:
                        ex_c03_misoriented_tree_loses_edge (the harness runs such skeletons as
                        correspondence cases: model = forward, both lose the part).
     (e) the executable `component`/`groups`/`expected_instances`/`forward_instances` the harness
                        evaluates: groups are sound, COMPLETE, pairwise disjoint, listed once; the relation is
                        the `vconn` of (d); rows have n_nodes slots, Some (decoded keypoint) exactly at the
                        members, None elsewhere; every coordinate obeys the half-cell bound outside the band;
                        the abstract `output` of (d) has exactly the member pattern of `groups`
                        (c03_output_is_groups_sound, _complete); `table_alt1` (rectangular tables) implies `separated`.
     (f) separation derived: the score-separation premise of (d) FOLLOWS from the geometry of the
                        ideal PAFs (IdealPaf.v: the weights exp(-d^4/2sigma^2) of edge_maps.py, summed
                        over animals, sampled at the cells make_line_subs reads): own segment within
                        r2, every other animal's segment beyond R2 (e.g. bounding boxes X apart:
                        R2 = X^2), cross candidates with at most m of n sampled cells near a segment,
                        and the numeric margin 3(m/n + A w(R2) + eps) + P < w(r2) kappa - A w(R2) - eps;
                        c03_reassembly_from_geometry states (d) with that premise instead.
     (g) objects that live across calls (round 3, Scorer.v): a PAFScorer / inference model is built
                        once and scores frames of different sizes; the distance-penalty length is a
                        function of the PAF tensor of THE CURRENT CALL (ratio * max(h, w, 2E) * stride), the
                        answer to a call does not depend on the calls before or after it, and the sampling
                        grid of the ideal maps is a function of (size, stride) of the current frame, inverted
                        by the reader that divides by the same stride.  Every score / penalty theorem of (c)
                        is restated for the current call's length.  Statelessness is a MODELLING DECISION
                        (score_calls is a map): the theorems marked [_def] / [_inst] below restate the
                        definition / instantiate a theorem of (c); what ties the Python objects to it is the
                        scorer-stream and session correspondence of the harness, not these theorems.
   Full statement refuted: c03_half_cell_bound_refuted (F10), c03_long_edge_refuted (F24).  c03_reassembly_partial keeps score
   separation as a HYPOTHESIS (measured by the harness on the real scores of every scene);
   c03_reassembly_from_geometry derives it for the documented geometric sub-class (the harness evaluates
   the geometric premise on every scene and checks the derived bounds against the real scores). *)
From Coq Require Import List ZArith QArith Qabs Reals Qreals Relations.
Import ListNotations.
From SV Require Import C03.BottomUp C03.Lemmas C03.SkelLemmas C03.IdealPaf C03.SepLemmas C03.Scorer C03.ScorerLemmas.
From SV Require C17.Toposort C17.Lemmas.
Local Open Scope Q_scope.

(* ------------------------------------------------------------------ (a) decode *)
(* torch.round (half to even) lands within 1/2 *)
Theorem c03_round_within_half : forall q, - (1 # 2) <= zq (rhe q) - q <= 1 # 2.
Proof. exact rhe_within_half. Qed.
Print Assumptions c03_round_within_half.

(* the cell where the ideal bump is largest (nearest sample, clipped to the map) is within half
   a cell of the input position p', unless p' is in the border band *)
Theorem c03_peak_cell_within_half : forall cs n p',
  (0 < cs)%Z -> (1 <= n)%Z -> in_band cs n p' = false ->
  - (zq cs / 2) <= zq (peak_cell cs n p') * zq cs - p' <= zq cs / 2.
Proof. exact peak_cell_within_half. Qed.
Print Assumptions c03_peak_cell_within_half.

(* the property's bound: |reported - labelled| <= cms_stride / (2 * input_scale * eff_scale), in
   original-image coordinates, for every stride, scale, size and position outside the band.
   This is the `_partial` of the half-cell clause: hypothesis = complement of selector in_band. *)
Theorem c03_decode_within_half_cell_partial : forall cs n scale eff p,
  (0 < cs)%Z -> (1 <= n)%Z -> 0 < scale -> 0 < eff ->
  in_band cs n (to_input (eff * scale) 0 p) = false ->
  Qabs (decode cs scale eff (zq (peak_cell cs n (to_input (eff * scale) 0 p))) - p)
  <= zq cs / (2 * scale * eff).
Proof. exact decode_within_half_cell. Qed.
Print Assumptions c03_decode_within_half_cell_partial.

(* any reported (e.g. refined) position within delta input px of the bump, maps registered
   with offset off:  error <= (delta + |off|) / (scale * eff) *)
Theorem c03_decode_general : forall cs scale eff off p cell delta,
  0 < scale -> 0 < eff ->
  Qabs (cell * zq cs - to_input (eff * scale) off p) <= delta ->
  Qabs (decode cs scale eff cell - p) <= (delta + Qabs off) / (scale * eff).
Proof. exact decode_within_general. Qed.
Print Assumptions c03_decode_general.

(* the division chain is the exact inverse of  p -> p * eff_scale * input_scale  on grid points *)
Theorem c03_decode_exact_on_grid : forall cs scale eff c,
  (0 < cs)%Z -> 0 < scale -> 0 < eff ->
  to_input (eff * scale) 0 (decode cs scale eff (zq c)) == zq c * zq cs.
Proof. exact decode_exact. Qed.
Print Assumptions c03_decode_exact_on_grid.

(* F10: the half-cell clause of the full statement is FALSE: image width 8, stride 4 (samples
   0 and 4 = ceil(8/4) cells), labelled x = 7 lies inside the image, in the band, and is reported
   3 px away (> half a cell = 2) *)
Theorem c03_half_cell_bound_refuted :
  exists (cs W n : Z) (p : Q),
    0 <= p <= zq (W - 1) /\ n = ((W + cs - 1) / cs)%Z /\
    in_band cs n (to_input (1 * 1) 0 p) = true /\
    ~ Qabs (decode cs 1 1 (zq (peak_cell cs n (to_input (1 * 1) 0 p))) - p) <= zq cs / (2 * 1 * 1).
Proof. exists 4%Z, 8%Z, 2%Z, (7 # 1). exact decode_band_witness. Qed.
Print Assumptions c03_half_cell_bound_refuted.

(* ------------------------------------------------------------------ (b) channel addressing *)
(* reader layout = writer layout: [row, col, 2k + c] of the permuted network output is the memory
   cell generate_pafs (flattened (E,2,h,w)) wrote for edge k, component c (0 = x, 1 = y) *)
Theorem c03_reader_is_writer : forall h w k c row col,
  reader_offset h w row col (2 * k + c) = writer_offset h w k c row col.
Proof. exact reader_is_writer. Qed.
Print Assumptions c03_reader_is_writer.

Theorem c03_writer_injective : forall h w k c i j k' c' i' j',
  (0 <= c < 2)%Z -> (0 <= c' < 2)%Z -> (0 <= i < h)%Z -> (0 <= i' < h)%Z ->
  (0 <= j < w)%Z -> (0 <= j' < w)%Z ->
  writer_offset h w k c i j = writer_offset h w k' c' i' j' ->
  k = k' /\ c = c' /\ i = i' /\ j = j'.
Proof. exact writer_offset_injective. Qed.
Print Assumptions c03_writer_injective.

Theorem c03_line_sub_channels : forall sx sy dx dy k ps h w n i,
  let '(_, _, cx, cy) := line_sub sx sy dx dy k ps h w n i in
  cx = (2 * k)%Z /\ cy = (2 * k + 1)%Z.
Proof. exact line_sub_channels. Qed.
Print Assumptions c03_line_sub_channels.

Theorem c03_line_sub_in_bounds : forall sx sy dx dy k ps h w n i,
  (1 <= h)%Z -> (1 <= w)%Z ->
  let '(row, col, _, _) := line_sub sx sy dx dy k ps h w n i in
  (0 <= row < h)%Z /\ (0 <= col < w)%Z.
Proof. exact line_sub_in_bounds. Qed.
Print Assumptions c03_line_sub_in_bounds.

(* the cell read for a line point (X, Y) is the PAF cell whose sampled position
   (x, y) = (col * stride, row * stride) is within half a PAF cell of it on each axis *)
Theorem c03_line_sub_nearest_cell : forall sx sy dx dy k ps h w n i,
  (0 < ps)%Z -> (1 <= h)%Z -> (1 <= w)%Z ->
  let X := lerp sx dx n i in
  let Y := lerp sy dy n i in
  in_band ps w X = false -> in_band ps h Y = false ->
  let '(row, col, _, _) := line_sub sx sy dx dy k ps h w n i in
  Qabs (cell_x ps col - X) <= zq ps / 2 /\ Qabs (cell_y ps row - Y) <= zq ps / 2.
Proof. exact line_sub_nearest_cell. Qed.
Print Assumptions c03_line_sub_nearest_cell.

(* clipping: outside the grid the clipped index is still a nearest index of the grid *)
Theorem c03_clip_is_nearest_in_grid : forall lo hi z q m,
  (lo <= hi)%Z -> (lo <= m <= hi)%Z -> - (1 # 2) <= zq z - q <= 1 # 2 ->
  Qabs (zq (clampZ lo hi z) - q) <= Qabs (zq m - q).
Proof. exact clamp_nearest_in_grid. Qed.
Print Assumptions c03_clip_is_nearest_in_grid.

(* the line starts at the source peak, ends at the destination peak, stays between them *)
Theorem c03_line_first_point : forall a b n, lerp a b n 0 == a.
Proof. exact lerp_first. Qed.
Print Assumptions c03_line_first_point.

Theorem c03_line_last_point : forall a b n, (2 <= n)%nat -> lerp a b n (n - 1) == b.
Proof. exact lerp_last. Qed.
Print Assumptions c03_line_last_point.

Theorem c03_line_points_between : forall a b n i,
  (i <= n - 1)%nat -> a <= b -> a <= lerp a b n i <= b.
Proof. exact lerp_between. Qed.
Print Assumptions c03_line_points_between.

(* ------------------------------------------------------------------ (c) line score *)
(* score_R = mean_i (paf_i . (dst-src)/|dst-src|) + weight * clamp(max_len/|dst-src| - 1, max=0)
   over the reals; the model's rational test decides  threshold <= score  exactly *)
Theorem c03_score_comparison_correct : forall S len2 n M wt tau b,
  0 < len2 -> (0 < n)%nat -> 0 <= M ->
  score_geb S len2 n M wt tau = Some b ->
  (b = true <-> (Q2R tau <= score_R S len2 n M wt)%R).
Proof. exact score_geb_correct. Qed.
Print Assumptions c03_score_comparison_correct.

(* two peaks reported at the same position: 0/0, the score is NaN (None) — F3 *)
Theorem c03_score_nan_on_zero_length : forall S n M wt tau, score_geb S 0 n M wt tau = None.
Proof. exact score_geb_nan. Qed.
Print Assumptions c03_score_nan_on_zero_length.

Theorem c03_score_defined : forall S len2 n M wt tau,
  0 < len2 -> exists b, score_geb S len2 n M wt tau = Some b.
Proof. exact score_geb_some. Qed.
Print Assumptions c03_score_defined.

Theorem c03_penalty_nonpos : forall len2 M wt, 0 <= wt -> (penalty_R len2 M wt <= 0)%R.
Proof. exact penalty_nonpos. Qed.
Print Assumptions c03_penalty_nonpos.

Theorem c03_penalty_zero_up_to_max_length : forall len2 M wt,
  0 < len2 -> 0 <= M -> len2 <= M * M -> penalty_R len2 M wt = 0%R.
Proof. exact penalty_zero. Qed.
Print Assumptions c03_penalty_zero_up_to_max_length.

(* ------------------------------------------------------------------ (d) reassembly *)
(* one edge type: if every true pair scores >= mls, every cross-animal pair scores < mls and no
   lonely source faces a lonely destination, the true matching is the UNIQUE maximum-total
   one-to-one assignment of size min(n, m) *)
Theorem c03_saturated_unique_optimum : forall (S D : list nat) (sc : nat -> nat -> Q) (mls : Q),
  NoDup S ->
  (forall a, In a S -> In a D -> mls <= sc a a) ->
  (forall a b, In a S -> In b D -> a <> b -> sc a b < mls) ->
  length (true_pairs S D) = Nat.min (length S) (length D) ->
  forall M, optimal S D sc M -> forall e, In e M <-> In e (true_pairs S D).
Proof. exact saturated_unique_optimum. Qed.
Print Assumptions c03_saturated_unique_optimum.

(* EXACT REASSEMBLY from score separation, ANY edge listing (partial: separation is a hypothesis).
   Hypotheses, in order: the assignment oracle's contract (C08 f); score separation per edge type
   (all candidates finite, true pairs >= mls, and EITHER cross pairs < mls with the true pairs
   saturating the smaller side OR every optimum contains the true pairs and nothing else >= mls);
   proc = the edge types whose accepted matches are assembled (the code: `processed edges`);
   the grouping contract (C08 c: instances = connected components of the accepted matches of the
   assembled edge types, C08 b: partition).  Peaks are the visible keypoints, each detected once.
   Conclusion: (1) every predicted instance holds precisely the keypoints of one group of >= 2
   visible keypoints of one labelled animal connected through visible ASSEMBLED edges; (2) every such
   group has exactly one predicted instance. *)
Theorem c03_reassembly_processed_partial :
  forall (edges : list (nat * nat)) (n_animals : nat) (vis : nat -> nat -> bool)
         (score : nat -> nat -> nat -> option Q) (mls : Q) (matching : nat -> list (nat * nat)),
  (forall k e, nth_error edges k = Some e -> all_finite n_animals vis score k e ->
     optimal (srcs n_animals vis e) (dsts n_animals vis e) (sck score k) (matching k)) ->
  (forall k e, nth_error edges k = Some e -> separated n_animals vis score mls k e) ->
  forall (proc : nat -> bool) (output : list instance),
  (forall I, In I output ->
     exists p, member p I /\ (forall q, member q I <-> conn edges score mls matching proc p q) /\
               (exists q, q <> p /\ member q I)) ->
  (forall p q, adj edges score mls matching proc p q -> exists I, In I output /\ member p I) ->
  (forall i j I J p, nth_error output i = Some I -> nth_error output j = Some J ->
     member p I -> member p J -> i = j) ->
  (forall I, In I output ->
     exists a j0, (a < n_animals)%nat /\ vis a j0 = true /\
       (forall b j, member (b, j) I <-> b = a /\ vconn edges vis proc a j0 j) /\
       (exists j1, j1 <> j0 /\ vconn edges vis proc a j0 j1))
  /\
  (forall a i j, (a < n_animals)%nat -> vedge edges vis proc a i j ->
     exists n I, nth_error output n = Some I /\ member (a, i) I /\ member (a, j) I /\
       forall n' I', nth_error output n' = Some I' -> member (a, i) I' -> n' = n).
Proof. exact reassembly_from_separation. Qed.
Print Assumptions c03_reassembly_processed_partial.

(* what "visible edge" means above, for proc = all_edges (every edge type assembled) *)
Theorem c03_vedge_all_edges_def : forall edges vis a i j,
  vedge edges vis all_edges a i j <-> In (i, j) edges /\ vis a i = true /\ vis a j = true.
Proof. exact vedge_all_In. Qed.
Print Assumptions c03_vedge_all_edges_def.

(* the code assembles the edge types toposort_edges returns (C17's model); for a rooted tree listed
   parent -> child (any order, any numbering) that is every edge type ... *)
Theorem c03_processed_all_for_trees : forall (es : list (nat * nat)) r,
  C17.Lemmas.arborescence es r -> forall k, (k < length es)%nat -> processed es k = true.
Proof. exact processed_all. Qed.
Print Assumptions c03_processed_all_for_trees.

Theorem c03_processed_edges_spec : forall es e,
  In e (processed_edges es) <-> exists k, processed es k = true /\ nth_error es k = Some e.
Proof. exact processed_edges_In. Qed.
Print Assumptions c03_processed_edges_spec.

(* ... so what forward returns (forward_instances: groups over the processed edges) is what the property
   describes (expected_instances: groups over the whole listing) *)
Theorem c03_forward_instances_tree : forall g n (es : list (nat * nat)) r animals,
  C17.Lemmas.arborescence es r -> forward_instances g n es animals = expected_instances g n es animals.
Proof. exact forward_instances_tree. Qed.
Print Assumptions c03_forward_instances_tree.

(* OUTSIDE the domain: a tree with a mis-oriented edge (node 1 has two incoming edges) is not an
   arborescence (is_tree = false); toposort_edges returns (0,), edge type 1 is never assembled and part 2
   is left out of the instance although it is connected through a visible edge.  The model follows the
   code there (the harness compares forward_instances with forward on such skeletons). *)
Example ex_c03_misoriented_tree_loses_edge :
  (processed_edges [(0, 1); (2, 1)]%nat = [(0, 1)]%nat /\ C17.Toposort.is_tree [(0, 1); (2, 1)]%nat = false) /\
  (groups 3 (processed_edges [(0, 1); (2, 1)]%nat) [true; true; true] = [[0; 1]%nat] /\
   groups 3 [(0, 1); (2, 1)]%nat [true; true; true] = [[0; 1; 2]%nat]).
Proof. exact (conj misoriented_processed misoriented_groups). Qed.

(* EXACT REASSEMBLY for every TREE SKELETON (partial: separation is a hypothesis): the grouping contract
   for the edge types the code assembles + the skeleton is a rooted tree  ==>  one instance per group of
   >= 2 visible keypoints connected through visible skeleton edges (all of them), exactly those
   keypoints.  [round 4: the hypothesis `arborescence edges r` is new; before, the contract was assumed
   for every edge type of any listing, which the code does not provide on mis-oriented trees] *)
Theorem c03_reassembly_partial :
  forall (edges : list (nat * nat)) (r : nat) (n_animals : nat) (vis : nat -> nat -> bool)
         (score : nat -> nat -> nat -> option Q) (mls : Q) (matching : nat -> list (nat * nat)),
  C17.Lemmas.arborescence edges r ->
  (forall k e, nth_error edges k = Some e -> all_finite n_animals vis score k e ->
     optimal (srcs n_animals vis e) (dsts n_animals vis e) (sck score k) (matching k)) ->
  (forall k e, nth_error edges k = Some e -> separated n_animals vis score mls k e) ->
  forall output : list instance,
  (forall I, In I output ->
     exists p, member p I /\ (forall q, member q I <-> conn edges score mls matching (processed edges) p q) /\
               (exists q, q <> p /\ member q I)) ->
  (forall p q, adj edges score mls matching (processed edges) p q -> exists I, In I output /\ member p I) ->
  (forall i j I J p, nth_error output i = Some I -> nth_error output j = Some J ->
     member p I -> member p J -> i = j) ->
  (forall I, In I output ->
     exists a j0, (a < n_animals)%nat /\ vis a j0 = true /\
       (forall b j, member (b, j) I <-> b = a /\ vconn edges vis all_edges a j0 j) /\
       (exists j1, j1 <> j0 /\ vconn edges vis all_edges a j0 j1))
  /\
  (forall a i j, (a < n_animals)%nat -> vedge edges vis all_edges a i j ->
     exists n I, nth_error output n = Some I /\ member (a, i) I /\ member (a, j) I /\
       forall n' I', nth_error output n' = Some I' -> member (a, i) I' -> n' = n).
Proof. exact reassembly_tree. Qed.
Print Assumptions c03_reassembly_partial.

(* ------------------------------------------------------------------ (f) separation from geometry *)
Local Open Scope R_scope.

(* margins instead of saturation: true pairs >= T, cross pairs in [-Clo, Chi], 2 Chi + Clo < T.
   Then EVERY maximum-total assignment of the forced size min(|S|,|D|) contains every true pair
   (also when lonely sources face lonely destinations) *)
Theorem c03_margin_optimum_has_true_pairs :
  forall (S D : list nat) (sc : nat -> nat -> Q) (T Clo Chi : R),
  (forall a, In a S -> In a D -> T <= Q2R (sc a a)) ->
  (forall a b, In a S -> In b D -> a <> b -> Q2R (sc a b) <= Chi) ->
  (forall a b, In a S -> In b D -> a <> b -> - Clo <= Q2R (sc a b)) ->
  2 * Chi + Clo < T ->
  forall M a, optimal S D sc M -> In a S -> In a D -> In (a, a) M.
Proof. exact margin_optimum_has_true_pairs. Qed.
Print Assumptions c03_margin_optimum_has_true_pairs.

(* the ideal PAF weight of edge_maps.py: in (0, 1], decreasing in the squared distance *)
Theorem c03_paf_weight_bounds : forall sigma a b, 0 < sigma -> 0 <= a <= b ->
  0 < paf_weight sigma b <= paf_weight sigma a /\ paf_weight sigma a <= 1.
Proof.
  intros sigma a b Hs H. split; [split; [apply weight_pos|apply weight_antitone; assumption]|apply weight_le_1; exact Hs].
Qed.
Print Assumptions c03_paf_weight_bounds.

(* distance_to_edge's clamped projection is the nearest point of the segment ... *)
Theorem c03_projection_is_nearest : forall g px py tau, 0 < len2 g -> 0 <= tau <= 1 ->
  seg_d2 g px py <= (tau * e_x g - (px - s_x g)) * (tau * e_x g - (px - s_x g))
                    + (tau * e_y g - (py - s_y g)) * (tau * e_y g - (py - s_y g)).
Proof. exact seg_d2_le_point. Qed.
Print Assumptions c03_projection_is_nearest.

(* ... and a cell at least X outside the bounding box of another animal's segment is at squared
   distance >= X^2 from it ("animals separated by more than X") *)
Theorem c03_far_from_box : forall g X px py, 0 <= X -> outside_box g X px py -> X * X <= seg_d2 g px py.
Proof. exact seg_d2_outside_box. Qed.
Print Assumptions c03_far_from_box.

(* the ideal score of a TRUE candidate is at least w(r2) kappa - A w(R2) - eps ... *)
Theorem c03_ideal_true_score_bound :
  forall n_animals vis score sigma eps seg_of pts dirx diry pen k e r2 R2 kappa P m n,
  geo_edge n_animals vis score sigma eps seg_of pts dirx diry pen k e r2 R2 kappa P m n ->
  forall a, In a (both n_animals vis e) ->
  true_bound n_animals vis sigma eps e r2 R2 kappa <= Q2R (sck score k a a).
Proof. exact geo_true_score. Qed.
Print Assumptions c03_ideal_true_score_bound.

(* ... the score of a CROSS candidate lies in [-(m/n + A w(R2) + eps) - P, m/n + A w(R2) + eps] *)
Theorem c03_ideal_cross_score_bound :
  forall n_animals vis score sigma eps seg_of pts dirx diry pen k e r2 R2 kappa P m n,
  geo_edge n_animals vis score sigma eps seg_of pts dirx diry pen k e r2 R2 kappa P m n ->
  forall a b, In a (srcs n_animals vis e) -> In b (dsts n_animals vis e) -> a <> b ->
  - (cross_bound n_animals vis sigma eps e R2 m n + P) <= Q2R (sck score k a b)
    <= cross_bound n_animals vis sigma eps e R2 m n.
Proof. exact geo_cross_score. Qed.
Print Assumptions c03_ideal_cross_score_bound.

(* ... so the geometric premise + the numeric margin give the separation premise of (d) *)
Theorem c03_geometry_gives_separation :
  forall n_animals vis score mls sigma eps seg_of pts dirx diry pen k e r2 R2 kappa P m n,
  geo_edge n_animals vis score sigma eps seg_of pts dirx diry pen k e r2 R2 kappa P m n ->
  3 * cross_bound n_animals vis sigma eps e R2 m n + P < true_bound n_animals vis sigma eps e r2 R2 kappa ->
  cross_bound n_animals vis sigma eps e R2 m n < Q2R mls ->
  Q2R mls <= true_bound n_animals vis sigma eps e r2 R2 kappa ->
  separated n_animals vis score mls k e.
Proof. exact geo_separated. Qed.
Print Assumptions c03_geometry_gives_separation.

(* saturated edge type: any rational threshold between the two bounds suffices (no factor 3, no P) *)
Theorem c03_geometry_gives_separation_saturated :
  forall n_animals vis score mls sigma eps seg_of pts dirx diry pen k e r2 R2 kappa P m n,
  geo_edge n_animals vis score sigma eps seg_of pts dirx diry pen k e r2 R2 kappa P m n ->
  forall Tq : Q,
  cross_bound n_animals vis sigma eps e R2 m n < Q2R Tq -> Q2R Tq <= true_bound n_animals vis sigma eps e r2 R2 kappa ->
  Q2R mls <= true_bound n_animals vis sigma eps e r2 R2 kappa ->
  length (true_pairs (srcs n_animals vis e) (dsts n_animals vis e))
  = Nat.min (length (srcs n_animals vis e)) (length (dsts n_animals vis e)) ->
  separated n_animals vis score mls k e.
Proof. exact geo_separated_saturated. Qed.
Print Assumptions c03_geometry_gives_separation_saturated.

(* the premise of c03_reassembly_from_geometry, spelled out *)
Theorem c03_geo_premise_def :
  forall n_animals vis score mls sigma eps seg_of pts dirx diry pen k e,
  geo_premise n_animals vis score mls sigma eps seg_of pts dirx diry pen k e <->
  exists r2 R2 kappa P m n,
    geo_edge n_animals vis score sigma eps seg_of pts dirx diry pen k e r2 R2 kappa P m n /\
    Q2R mls <= true_bound n_animals vis sigma eps e r2 R2 kappa /\
    ((3 * cross_bound n_animals vis sigma eps e R2 m n + P < true_bound n_animals vis sigma eps e r2 R2 kappa /\
      cross_bound n_animals vis sigma eps e R2 m n < Q2R mls)
     \/
     (exists Tq : Q,
        (cross_bound n_animals vis sigma eps e R2 m n < Q2R Tq <= true_bound n_animals vis sigma eps e r2 R2 kappa) /\
        length (true_pairs (srcs n_animals vis e) (dsts n_animals vis e))
        = Nat.min (length (srcs n_animals vis e)) (length (dsts n_animals vis e)))).
Proof. intros. reflexivity. Qed.
Print Assumptions c03_geo_premise_def.

(* saturated edge types: any threshold T (not only min_line_scores) between cross and true scores *)
Theorem c03_separated_from_threshold : forall n_animals vis score (mls T : Q) k e,
  all_finite n_animals vis score k e ->
  (forall a, In a (srcs n_animals vis e) -> In a (dsts n_animals vis e) ->
     (mls <= sck score k a a /\ T <= sck score k a a)%Q) ->
  (forall a b, In a (srcs n_animals vis e) -> In b (dsts n_animals vis e) -> a <> b -> (sck score k a b < T)%Q) ->
  length (true_pairs (srcs n_animals vis e) (dsts n_animals vis e))
  = Nat.min (length (srcs n_animals vis e)) (length (dsts n_animals vis e)) ->
  separated n_animals vis score mls k e.
Proof. exact separated_from_threshold. Qed.
Print Assumptions c03_separated_from_threshold.

(* EXACT REASSEMBLY FROM GEOMETRY: c03_reassembly_processed_partial / c03_reassembly_partial with the
   separation hypothesis replaced by the geometric premise on the ideal PAFs (per edge type, with its own
   parameters); first for any listing and any set of assembled edge types ... *)
Theorem c03_reassembly_from_geometry_processed :
  forall (edges : list (nat * nat)) (n_animals : nat) (vis : nat -> nat -> bool)
         (score : nat -> nat -> nat -> option Q) (mls : Q) (matching : nat -> list (nat * nat))
         (sigma eps : R) (seg_of : nat -> nat -> seg) (pts : nat -> nat -> nat -> list (R * R))
         (dirx diry pen : nat -> nat -> nat -> R),
  (forall k e, nth_error edges k = Some e -> all_finite n_animals vis score k e ->
     optimal (srcs n_animals vis e) (dsts n_animals vis e) (sck score k) (matching k)) ->
  (forall k e, nth_error edges k = Some e ->
     geo_premise n_animals vis score mls sigma eps seg_of pts dirx diry pen k e) ->
  forall (proc : nat -> bool) (output : list instance),
  (forall I, In I output ->
     exists p, member p I /\ (forall q, member q I <-> conn edges score mls matching proc p q) /\
               (exists q, q <> p /\ member q I)) ->
  (forall p q, adj edges score mls matching proc p q -> exists I, In I output /\ member p I) ->
  (forall i j I J p, nth_error output i = Some I -> nth_error output j = Some J ->
     member p I -> member p J -> i = j) ->
  (forall I, In I output ->
     exists a j0, (a < n_animals)%nat /\ vis a j0 = true /\
       (forall b j, member (b, j) I <-> b = a /\ vconn edges vis proc a j0 j) /\
       (exists j1, j1 <> j0 /\ vconn edges vis proc a j0 j1))
  /\
  (forall a i j, (a < n_animals)%nat -> vedge edges vis proc a i j ->
     exists n I, nth_error output n = Some I /\ member (a, i) I /\ member (a, j) I /\
       forall n' I', nth_error output n' = Some I' -> member (a, i) I' -> n' = n).
Proof. exact reassembly_from_geometry. Qed.
Print Assumptions c03_reassembly_from_geometry_processed.

(* ... then for every tree skeleton (arborescence; hypothesis new in round 4, see c03_reassembly_partial) *)
Theorem c03_reassembly_from_geometry :
  forall (edges : list (nat * nat)) (r : nat) (n_animals : nat) (vis : nat -> nat -> bool)
         (score : nat -> nat -> nat -> option Q) (mls : Q) (matching : nat -> list (nat * nat))
         (sigma eps : R) (seg_of : nat -> nat -> seg) (pts : nat -> nat -> nat -> list (R * R))
         (dirx diry pen : nat -> nat -> nat -> R),
  C17.Lemmas.arborescence edges r ->
  (forall k e, nth_error edges k = Some e -> all_finite n_animals vis score k e ->
     optimal (srcs n_animals vis e) (dsts n_animals vis e) (sck score k) (matching k)) ->
  (forall k e, nth_error edges k = Some e ->
     geo_premise n_animals vis score mls sigma eps seg_of pts dirx diry pen k e) ->
  forall output : list instance,
  (forall I, In I output ->
     exists p, member p I /\ (forall q, member q I <-> conn edges score mls matching (processed edges) p q) /\
               (exists q, q <> p /\ member q I)) ->
  (forall p q, adj edges score mls matching (processed edges) p q -> exists I, In I output /\ member p I) ->
  (forall i j I J p, nth_error output i = Some I -> nth_error output j = Some J ->
     member p I -> member p J -> i = j) ->
  (forall I, In I output ->
     exists a j0, (a < n_animals)%nat /\ vis a j0 = true /\
       (forall b j, member (b, j) I <-> b = a /\ vconn edges vis all_edges a j0 j) /\
       (exists j1, j1 <> j0 /\ vconn edges vis all_edges a j0 j1))
  /\
  (forall a i j, (a < n_animals)%nat -> vedge edges vis all_edges a i j ->
     exists n I, nth_error output n = Some I /\ member (a, i) I /\ member (a, j) I /\
       forall n' I', nth_error output n' = Some I' -> member (a, i) I' -> n' = n).
Proof. exact reassembly_from_geometry_tree. Qed.
Print Assumptions c03_reassembly_from_geometry.

(* the geometric premise is satisfiable (one animal, segment (0,0)->(10,0), sigma 15, R2 = 100,
   three cells on the segment, tolerance 1/20) and yields separation at min_line_scores 3/10 *)
Example ex_c03_geometry_nonvacuous :
  separated 1 (fun _ _ => true) (fun _ _ _ => Some 1%Q) (3 # 10) 0 (0, 1)%nat.
Proof. exact ex_geo_separated. Qed.
Local Close Scope R_scope.
Local Open Scope Q_scope.

(* ------------------------------------------------------------------ (e) the executable groups *)
Theorem c03_component_spec : forall n es vis j x,
  (forall u v, In (u, v) es -> (u < n /\ v < n)%nat) -> (j < n)%nat ->
  (In x (component n es vis j) <-> vis_conn es vis j x).
Proof. exact component_spec. Qed.
Print Assumptions c03_component_spec.

Theorem c03_groups_sound : forall n es vis c,
  (forall u v, In (u, v) es -> (u < n /\ v < n)%nat) ->
  In c (groups n es vis) ->
  exists j, (j < n)%nat /\ visb vis j = true /\ (2 <= length c)%nat /\ list_min c = j /\
            forall x, In x c <-> vis_conn es vis j x.
Proof. exact groups_sound. Qed.
Print Assumptions c03_groups_sound.

(* COMPLETE: every class with a second member is emitted (round 4, review finding 2 (i)) ... *)
Theorem c03_groups_complete : forall n es vis,
  (forall u v, In (u, v) es -> (u < n /\ v < n)%nat) ->
  forall j x, vis_conn es vis j x -> x <> j ->
  exists c, In c (groups n es vis) /\ forall y, In y c <-> vis_conn es vis j y.
Proof. exact groups_complete. Qed.
Print Assumptions c03_groups_complete.

(* ... two emitted groups that share a node are the same list, and no group is listed twice *)
Theorem c03_groups_disjoint : forall n es vis,
  (forall u v, In (u, v) es -> (u < n /\ v < n)%nat) ->
  forall c1 c2 x, In c1 (groups n es vis) -> In c2 (groups n es vis) -> In x c1 -> In x c2 -> c1 = c2.
Proof. exact groups_disjoint. Qed.
Print Assumptions c03_groups_disjoint.

Theorem c03_groups_listed_once : forall n es vis, NoDup (groups n es vis).
Proof. exact groups_NoDup. Qed.
Print Assumptions c03_groups_listed_once.

(* (ii) the relation of the executable groups is the relation `vconn` of the reassembly theorem *)
Theorem c03_vis_conn_is_vconn : forall es (vl : list bool) (vis : nat -> nat -> bool) a i j,
  (forall x, vis a x = visb vl x) ->
  (vis_conn es vl i j <-> vconn es vis all_edges a i j).
Proof. exact vis_conn_vconn. Qed.
Print Assumptions c03_vis_conn_is_vconn.

(* (iii) expected_instances (what the harness compares with forward): one row per (animal, group) ... *)
Theorem c03_expected_instances_rows : forall g n es animals inst,
  In inst (expected_instances g n es animals) <->
  exists a c, In a animals /\ In c (groups n es (visl a)) /\ inst = inst_row g n a c.
Proof. exact expected_instances_rows. Qed.
Print Assumptions c03_expected_instances_rows.

(* ... a row has n_nodes slots; the slots of the group's nodes hold the decoded labelled keypoints (all
   members are visible), every other slot is None = NaN ("precisely those keypoints and NaN for the others") *)
Theorem c03_instance_row_pattern : forall g n es a c,
  (forall u v, In (u, v) es -> (u < n /\ v < n)%nat) ->
  In c (groups n es (visl a)) ->
  length (inst_row g n a c) = n /\
  forall j, (j < n)%nat ->
    (In j c -> exists p, nth j a None = Some p /\ nth_error (inst_row g n a c) j = Some (Some (kp_decoded g p))) /\
    (~ In j c -> nth_error (inst_row g n a c) j = Some None).
Proof. exact inst_row_pattern. Qed.
Print Assumptions c03_instance_row_pattern.

(* (iv) ... and every reported coordinate is within half a confidence-map cell (original px) of the label,
   outside selector kp_band (F10), when the maps are drawn at p * eff_scale * input_scale (partial: the
   complement of the F10 selector is a hypothesis; unrefined peaks, the path expected_instances takes) *)
Theorem c03_kp_decoded_within_half_cell_partial : forall g p,
  (0 < g_cs g)%Z -> (1 <= g_wc g)%Z -> (1 <= g_hc g)%Z -> 0 < g_scale g -> 0 < g_eff g ->
  g_f g == g_eff g * g_scale g -> g_off g == 0 -> kp_band g p = false ->
  Qabs (fst (kp_decoded g p) - fst p) <= zq (g_cs g) / (2 * g_scale g * g_eff g) /\
  Qabs (snd (kp_decoded g p) - snd p) <= zq (g_cs g) / (2 * g_scale g * g_eff g).
Proof. exact kp_decoded_within_half_cell. Qed.
Print Assumptions c03_kp_decoded_within_half_cell_partial.

(* (v) the abstract `output` of the reassembly theorems and the executable groups: when `output` is as
   c03_reassembly_partial concludes (vis read off the labelled animals), every predicted instance has the
   member pattern of exactly one (animal, group of `groups`) — i.e. of one row of expected_instances —
   and every (animal, group) has exactly one predicted instance *)
Theorem c03_output_is_groups_sound : forall n edges animals,
  (forall u v, In (u, v) edges -> (u < n /\ v < n)%nat) ->
  forall output : list instance,
  ((forall I, In I output ->
      exists a j0, (a < length animals)%nat /\ vis_of animals a j0 = true /\
        (forall b j, member (b, j) I <-> b = a /\ vconn edges (vis_of animals) all_edges a j0 j) /\
        (exists j1, j1 <> j0 /\ vconn edges (vis_of animals) all_edges a j0 j1))
   /\
   (forall a i j, (a < length animals)%nat -> vedge edges (vis_of animals) all_edges a i j ->
      exists n I, nth_error output n = Some I /\ member (a, i) I /\ member (a, j) I /\
        forall n' I', nth_error output n' = Some I' -> member (a, i) I' -> n' = n)) ->
  forall I, In I output ->
    exists a c, (a < length animals)%nat /\ In c (groups n edges (visl (nth a animals []))) /\
                forall b j, member (b, j) I <-> b = a /\ In j c.
Proof. exact output_sound. Qed.
Print Assumptions c03_output_is_groups_sound.

Theorem c03_output_is_groups_complete : forall n edges animals,
  (forall u v, In (u, v) edges -> (u < n /\ v < n)%nat) ->
  forall output : list instance,
  ((forall I, In I output ->
      exists a j0, (a < length animals)%nat /\ vis_of animals a j0 = true /\
        (forall b j, member (b, j) I <-> b = a /\ vconn edges (vis_of animals) all_edges a j0 j) /\
        (exists j1, j1 <> j0 /\ vconn edges (vis_of animals) all_edges a j0 j1))
   /\
   (forall a i j, (a < length animals)%nat -> vedge edges (vis_of animals) all_edges a i j ->
      exists n I, nth_error output n = Some I /\ member (a, i) I /\ member (a, j) I /\
        forall n' I', nth_error output n' = Some I' -> member (a, i) I' -> n' = n)) ->
  forall a c, (a < length animals)%nat -> In c (groups n edges (visl (nth a animals []))) ->
    exists idx I, nth_error output idx = Some I /\
      (forall b j, member (b, j) I <-> b = a /\ In j c) /\
      forall idx' I' j, nth_error output idx' = Some I' -> In j c -> member (a, j) I' -> idx' = idx.
Proof. exact output_complete. Qed.
Print Assumptions c03_output_is_groups_complete.

(* ------------------------------------------------------------------ premise "alternative 1", decided in Coq *)
(* table_alt1 (evaluated on every real score table) is SOUND for the premise of c03_reassembly_partial
   (round 4, review finding 3): true only on rectangular tables (one row per source peak, one entry per
   destination peak: `combine` would truncate a ragged one), every entry finite, same-animal entries >= mls,
   all others < mls, true pairs saturating the smaller side ... *)
Theorem c03_table_alt1_sound : forall S D tab mls,
  table_alt1 S D tab mls = true ->
  (forall a b, In a S -> In b D ->
     exists v, tab_score S D tab a b = Some v /\ (a = b -> mls <= v) /\ (a <> b -> v < mls)) /\
  length (true_pairs S D) = Nat.min (length S) (length D).
Proof. exact table_alt1_sound. Qed.
Print Assumptions c03_table_alt1_sound.

(* ... hence `separated` (through alt_saturated) for the edge type whose scores the table holds *)
Theorem c03_table_alt1_gives_separation : forall n_animals vis score mls k e tab,
  table_alt1 (srcs n_animals vis e) (dsts n_animals vis e) tab mls = true ->
  (forall a b, In a (srcs n_animals vis e) -> In b (dsts n_animals vis e) ->
     score k a b = tab_score (srcs n_animals vis e) (dsts n_animals vis e) tab a b) ->
  separated n_animals vis score mls k e.
Proof. exact table_alt1_separated. Qed.
Print Assumptions c03_table_alt1_gives_separation.

Example ex_c03_table_alt1_ragged_rejected :
  table_alt1 [0; 1]%nat [0; 1]%nat [] (1 # 4) = false /\
  table_alt1 [0; 1]%nat [0; 1]%nat [[Some (1 # 2)]] (1 # 4) = false /\
  table_alt1 [0; 1]%nat [0; 1]%nat [[Some (1 # 2); Some 0]; [Some 0; Some (1 # 2)]] (1 # 4) = true.
Proof. exact table_alt1_ragged_rejected. Qed.

(* ------------------------------------------------------------------ non-vacuity *)
(* all hypotheses of c03_reassembly_partial are met by a concrete instance (one animal, skeleton
   0 -> 1, score 9/10, min_line_scores 1/4), and its conclusion is used *)
Example ex_c03_reassembly_nonvacuous :
  exists n I, nth_error [[Some 0%nat; Some 0%nat]] n = Some I /\
              member (0, 0)%nat I /\ member (0, 1)%nat I.
Proof. exact ex_reassembly_instance. Qed.

(* ... and so are the hypotheses of c03_reassembly_partial (arborescence [(0,1)] 0, the contract over
   `processed [(0,1)]`); the conclusion used is the one about ALL visible edges, incl. uniqueness *)
Example ex_c03_reassembly_tree_nonvacuous :
  C17.Lemmas.arborescence [(0, 1)]%nat 0%nat /\
  exists n I, nth_error [[Some 0%nat; Some 0%nat]] n = Some I /\ member (0, 0)%nat I /\ member (0, 1)%nat I /\
              forall n' I', nth_error [[Some 0%nat; Some 0%nat]] n' = Some I' -> member (0, 0)%nat I' -> n' = n.
Proof. exact (conj ex_arborescence_01 ex_reassembly_tree_instance). Qed.

Example ex_c03_decode : (* scale 1/2, eff 3/2, stride 4: label 41 -> input 30.75 -> cell 8 -> 42.67 *)
  in_band 4 20 (to_input ((3 # 2) * (1 # 2)) 0 41) = false /\
  decode 4 (1 # 2) (3 # 2) (zq (peak_cell 4 20 (to_input ((3 # 2) * (1 # 2)) 0 41))) == 128 # 3.
Proof. split; reflexivity. Qed.

Example ex_c03_score : (* S = 3, |d|^2 = 2, n = 3: score = 1/sqrt 2 >= 1/2, not >= 9/10 *)
  score_geb 3 2 3 5 1 (1 # 2) = Some true /\ score_geb 3 2 3 5 1 (9 # 10) = Some false.
Proof. split; reflexivity. Qed.

Example ex_c03_groups : (* chain 0-1-2-3 with node 2 missing: one group {0,1}; node 3 is alone *)
  groups 4 [(0, 1); (1, 2); (2, 3)]%nat [true; true; false; true] = [[0; 1]%nat].
Proof. reflexivity. Qed.

(* ------------------------------------------------------------------ (g) objects that live across calls *)
(* [_def] ONE scorer object, any history: the answer to a call is the answer to that call alone (nothing is
   kept from earlier frames, nothing is changed by later ones).  DEFINITIONAL: score_calls is a map of
   score_call (statelessness is how the model is written); the scorer-stream tie of the harness is what
   says this of the Python object *)
Theorem c03_scorer_calls_independent : forall s taus pre c post,
  nth_error (score_calls s taus (pre ++ c :: post)) (length pre) = Some (score_call s taus c).
Proof. exact calls_independent. Qed.
Print Assumptions c03_scorer_calls_independent.

(* [_def] length of a map *)
Theorem c03_scorer_one_result_per_call : forall s taus cs, length (score_calls s taus cs) = length cs.
Proof. exact score_calls_length. Qed.
Print Assumptions c03_scorer_one_result_per_call.

(* [_inst] c03_score_comparison_correct with M := call_M s c.  The decision  score >= tau  of a long-lived
   scorer on a candidate of call c is the real comparison with the distance-penalty length of c's OWN
   tensor: ratio * max(h, w, 2E) * stride *)
Theorem c03_score_decision_uses_current_size : forall s c S len2 tau b,
  0 < len2 -> (0 < s_n s)%nat -> 0 <= s_ratio s -> (0 <= s_ps s)%Z ->
  score_geb S len2 (s_n s) (call_M s c) (s_wt s) tau = Some b ->
  (b = true <-> (Q2R tau <= score_R S len2 (s_n s) (call_M s c) (s_wt s))%R).
Proof. exact score_decision_current_call. Qed.
Print Assumptions c03_score_decision_uses_current_size.

(* [_inst] c03_penalty_zero_up_to_max_length with M := call_M s c: no penalty up to
   max_edge_length_ratio * (largest dimension of the CURRENT PAF tensor) * stride *)
Theorem c03_penalty_zero_within_current_size : forall s c len2,
  0 < len2 -> 0 <= s_ratio s -> (0 <= s_ps s)%Z ->
  len2 <= call_M s c * call_M s c -> penalty_R len2 (call_M s c) (s_wt s) = 0%R.
Proof. exact penalty_zero_current_call. Qed.
Print Assumptions c03_penalty_zero_within_current_size.

(* the length grows with the tensor, and a smaller length only lowers scores: a length kept from an
   earlier, smaller frame would penalise more *)
Theorem c03_max_edge_length_monotone : forall ratio h w ch ps h' w' ch',
  0 <= ratio -> (0 <= ps)%Z -> (h <= h')%Z -> (w <= w')%Z -> (ch <= ch')%Z ->
  max_edge_length ratio h w ch ps <= max_edge_length ratio h' w' ch' ps.
Proof. exact max_edge_length_monotone. Qed.
Print Assumptions c03_max_edge_length_monotone.

Theorem c03_penalty_monotone_in_length : forall len2 M M' wt,
  0 < len2 -> 0 <= wt -> M <= M' -> (penalty_R len2 M wt <= penalty_R len2 M' wt)%R.
Proof. exact penalty_monotone_in_M. Qed.
Print Assumptions c03_penalty_monotone_in_length.

(* F24: an edge longer than max_edge_length / min_line_scores (= the largest side of the network
   input for the defaults 1/4, 1/4) is NEVER accepted, however good the PAF is (mean dot product
   with the unit direction <= 1, dist_penalty_weight 1) ... *)
Theorem c03_long_edge_never_accepted : forall S len2 n M tau,
  0 < len2 -> (0 < n)%nat -> 0 <= M -> 0 < tau ->
  (Q2R S <= INR n * sqrt (Q2R len2))%R ->
  M * M < tau * tau * len2 ->
  score_geb S len2 n M 1 tau = Some false.
Proof. exact long_edge_never_accepted. Qed.
Print Assumptions c03_long_edge_never_accepted.

(* ... stated with the decidable selector  sel_long_edge len2 M tau  <->  M^2 < tau^2 len2  ... *)
Theorem c03_long_edge_selected_never_accepted : forall S len2 n M tau,
  0 < len2 -> (0 < n)%nat -> 0 <= M -> 0 < tau ->
  (Q2R S <= INR n * sqrt (Q2R len2))%R ->
  sel_long_edge len2 M tau = true ->
  score_geb S len2 n M 1 tau = Some false.
Proof. exact long_edge_selected_never_accepted. Qed.
Print Assumptions c03_long_edge_selected_never_accepted.

Theorem c03_long_edge_selector_spec : forall len2 M tau,
  sel_long_edge len2 M tau = true <-> M * M < tau * tau * len2.
Proof. exact sel_long_edge_spec. Qed.
Print Assumptions c03_long_edge_selector_spec.

(* ... and OUTSIDE the selector the distance penalty (weight 1) is at least tau - 1: a candidate whose
   mean dot product with the unit direction is 1 still reaches tau; the geometric premise of (f) asks
   for penalty 0 on true pairs, which c03_penalty_zero_within_current_size gives up to max_edge_length *)
Theorem c03_penalty_bound_outside_long_edge_selector : forall len2 M tau,
  0 < len2 -> 0 <= M -> 0 < tau -> tau <= 1 -> sel_long_edge len2 M tau = false ->
  (Q2R tau - 1 <= penalty_R len2 M 1)%R.
Proof. exact penalty_bound_outside_selector. Qed.
Print Assumptions c03_penalty_bound_outside_long_edge_selector.

(* ... so the full statement fails for such an animal: 41 x 31 px frame at stride 1, a field that is
   the exact unit direction of the labelled edge (0,0) -> (40,30) in every cell, default scorer:
   the only candidate is rejected at min_line_scores 1/4 (no instance is returned) *)
Theorem c03_long_edge_refuted :
  exists (s : scorer) (c : call),
    s = default_scorer 1 /\ c_paf c = const_paf 31 41 1 (4 # 5) (3 # 5) /\
    c_cands c = [(0, 0, 40, 30, 0%Z)] /\
    map (fun r => snd r) (score_call s [1 # 4] c) = [[Some false]].
Proof. exact long_edge_refuted_witness. Qed.
Print Assumptions c03_long_edge_refuted.

(* the sampling grid of the ideal maps: sample j of a frame is x = j * stride (make_grid_vectors),
   for the size and stride of THAT frame ... *)
Theorem c03_grid_sample_position : forall size s j, (j < Z.to_nat (grid_len size s))%nat ->
  nth_error (grid_vector size s) j = Some (cell_x s (Z.of_nat j)).
Proof. exact grid_vector_nth. Qed.
Print Assumptions c03_grid_sample_position.

(* [_def] j * s <> j * s': two grids of the same shape but different strides sample different positions ... *)
Theorem c03_grid_not_determined_by_shape : forall s s' j,
  (j <> 0)%Z -> s <> s' -> ~ cell_x s j == cell_x s' j.
Proof. exact grid_position_depends_on_stride. Qed.
Print Assumptions c03_grid_not_determined_by_shape.

(* ... and the reader (make_line_subs, dividing by the stride of the scorer) inverts the writer's
   grid of the same stride exactly: a line point on the sample (j * ps, i * ps) reads cell (i, j) *)
Theorem c03_reader_inverts_writer_grid : forall ps h w k i j dx dy n,
  (0 < ps)%Z -> (0 <= i < h)%Z -> (0 <= j < w)%Z ->
  line_sub (cell_x ps j) (cell_y ps i) dx dy k ps h w n 0 = (i, j, (2 * k)%Z, (2 * k + 1)%Z).
Proof. exact reader_inverts_writer_grid. Qed.
Print Assumptions c03_reader_inverts_writer_grid.

(* the per-call clause has content: keeping the length of the first (4 x 4) call flips the decision on
   the second (16 x 16) call *)
Example ex_c03_stale_length_changes_decision :
  map (map (fun r => snd r)) (score_calls (default_scorer 1) [1 # 4] stale_calls) = [[[Some true]]; [[Some true]]] /\
  map (map (fun r => snd r)) (score_calls_stale (default_scorer 1) [1 # 4] None stale_calls) = [[[Some true]]; [[Some false]]] /\
  map (fun c => Qred (call_M (default_scorer 1) c)) stale_calls = [1; 4].
Proof. exact stale_length_changes_decision. Qed.

(* same grid shape (64 samples), other stride: sample 3 is x = 6 (128 px, stride 2) or x = 12 (256 px,
   stride 4); the stride-4 reader finds x = 12 in cell 3 and x = 6 in cell 2 *)
Example ex_c03_grid_same_shape_other_stride :
  length (grid_vector 128 2) = length (grid_vector 256 4) /\
  nth_error (grid_vector 128 2) 3 = Some (6 # 1) /\ nth_error (grid_vector 256 4) 3 = Some (12 # 1) /\
  line_sub 12 12 12 12 0 4 64 64 1 0 = (3, 3, 0, 1)%Z /\
  line_sub 6 6 6 6 0 4 64 64 1 0 = (2, 2, 0, 1)%Z.
Proof. exact grid_same_shape_other_stride. Qed.

(* ================================================================= (h) the geometric premise for the
   MODELLED line sampling (LineGeo.v): `pts`, direction and penalty of (f) are no longer abstract — they are
   the positions of the cells `line_subs` (= make_line_subs, tied subscript-exact every run) reads, the unit
   vector of the candidate and `penalty_R` (= compute_distance_penalty). *)
From SV Require Import C03.LineGeo.
Local Open Scope R_scope.

(* both coordinates of line point i are src + t_i (dst - src) with the same t_i = i/(n-1) in [0, 1] *)
Theorem c03_line_point_param : forall a b n i,
  (lerp a b n i == a + (b - a) * lerp_t n i)%Q /\ ((i < n)%nat -> (0 <= lerp_t n i <= 1)%Q).
Proof. intros a b n i. split; [apply lerp_param|apply lerp_t_range]. Qed.
Print Assumptions c03_line_point_param.

(* peaks inside the PAF grid (half a cell of slack) in EITHER order ==> no line point is clipped
   (extends c03_line_points_between, which needed a <= b) *)
Theorem c03_line_points_not_clipped : forall ps m a b n i,
  (i < n)%nat -> in_band ps m a = false -> in_band ps m b = false -> in_band ps m (lerp a b n i) = false.
Proof. exact lerp_not_in_band. Qed.
Print Assumptions c03_line_points_not_clipped.

Theorem c03_line_pts_length : forall sx sy dx dy k ps h w n, length (line_pts_R sx sy dx dy k ps h w n) = n.
Proof. exact line_pts_R_length. Qed.
Print Assumptions c03_line_pts_length.

(* every cell the sampler reads is within squared distance 2 (delta + ps/2)^2 — as distance_to_edge
   measures it — of ANY segment whose end points are within delta (per axis) of the two peaks *)
Theorem c03_sampled_cell_near_segment : forall sx sy dx dy k ps h w n (g : seg) (delta : R) p,
  (0 < ps)%Z -> (1 <= h)%Z -> (1 <= w)%Z ->
  in_band ps w sx = false -> in_band ps w dx = false ->
  in_band ps h sy = false -> in_band ps h dy = false ->
  0 < len2 g ->
  - delta <= Q2R sx - s_x g <= delta -> - delta <= Q2R sy - s_y g <= delta ->
  - delta <= Q2R dx - d_x g <= delta -> - delta <= Q2R dy - d_y g <= delta ->
  In p (line_pts_R sx sy dx dy k ps h w n) ->
  seg_d2 g (fst p) (snd p) <= 2 * ((delta + IZR ps / 2) * (delta + IZR ps / 2)).
Proof.
  intros sx sy dx dy k ps h w n g delta p H1 H2 H3 H4 H5 H6 H7 H8 H9 H10 H11 H12 H13.
  rewrite <- half_cell_eq.
  exact (sampled_cell_near_segment sx sy dx dy k ps h w n g delta p H1 H2 H3 H4 H5 H6 H7 H8 H9 H10 H11 H12 H13).
Qed.
Print Assumptions c03_sampled_cell_near_segment.

(* delta = 0: every sampled cell lies within ONE cell (ps/sqrt 2 < ps) of the segment peak -> peak *)
Theorem c03_sampled_cell_within_one_cell : forall sx sy dx dy k ps h w n p,
  (0 < ps)%Z -> (1 <= h)%Z -> (1 <= w)%Z ->
  in_band ps w sx = false -> in_band ps w dx = false ->
  in_band ps h sy = false -> in_band ps h dy = false ->
  let g := mkseg (Q2R sx) (Q2R sy) (Q2R dx) (Q2R dy) in
  0 < len2 g ->
  In p (line_pts_R sx sy dx dy k ps h w n) ->
  seg_d2 g (fst p) (snd p) <= IZR ps * IZR ps / 2 /\ IZR ps * IZR ps / 2 < IZR ps * IZR ps.
Proof. exact sampled_cell_within_one_cell. Qed.
Print Assumptions c03_sampled_cell_within_one_cell.

(* a sampled cell of animal a's true pair is >= X (squared: X^2) from the segment of any animal whose
   bounding box is X + delta + ps/2 away from a's *)
Theorem c03_sampled_cell_far_from_other : forall sx sy dx dy k ps h w n (ga gc : seg) (delta X : R) p,
  (0 < ps)%Z -> (1 <= h)%Z -> (1 <= w)%Z ->
  in_band ps w sx = false -> in_band ps w dx = false ->
  in_band ps h sy = false -> in_band ps h dy = false ->
  - delta <= Q2R sx - s_x ga <= delta -> - delta <= Q2R sy - s_y ga <= delta ->
  - delta <= Q2R dx - d_x ga <= delta -> - delta <= Q2R dy - d_y ga <= delta ->
  0 <= X -> boxes_apart ga gc (X + delta + half_cell ps) ->
  In p (line_pts_R sx sy dx dy k ps h w n) ->
  X * X <= seg_d2 gc (fst p) (snd p).
Proof. exact sampled_cell_far_from_other. Qed.
Print Assumptions c03_sampled_cell_far_from_other.

(* ideal PAF of the edge alone: every sampled vector has NON-NEGATIVE dot product with the edge direction *)
Theorem c03_sampled_vector_dot_nonneg : forall sigma g px py, 0 < len2 g ->
  0 <= field_dot sigma [g] px py (u_x g) (u_y g).
Proof. exact sampled_vector_dot_nonneg. Qed.
Print Assumptions c03_sampled_vector_dot_nonneg.

(* ... and the true pair's ideal line score over the MODELLED cells is >= exp(-(2 (delta+ps/2)^2)^2 / (2 sigma^2)) *)
Theorem c03_sampled_true_score_bound : forall sigma sx sy dx dy k ps h w n (g : seg) (delta : R),
  0 < sigma -> (0 < n)%nat ->
  (0 < ps)%Z -> (1 <= h)%Z -> (1 <= w)%Z ->
  in_band ps w sx = false -> in_band ps w dx = false ->
  in_band ps h sy = false -> in_band ps h dy = false ->
  0 < len2 g ->
  - delta <= Q2R sx - s_x g <= delta -> - delta <= Q2R sy - s_y g <= delta ->
  - delta <= Q2R dx - d_x g <= delta -> - delta <= Q2R dy - d_y g <= delta ->
  paf_weight sigma (sample_r2 ps delta)
  <= line_score sigma [g] (line_pts_R sx sy dx dy k ps h w n) (u_x g) (u_y g).
Proof. exact sampled_true_score_bound. Qed.
Print Assumptions c03_sampled_true_score_bound.

(* compute_distance_penalty >= - dist_penalty_weight (the P of the cross bound is explicit) *)
Theorem c03_penalty_lower_bound : forall len2 M wt, (0 < len2)%Q -> (0 <= M)%Q -> (0 <= wt)%Q ->
  - Q2R wt <= penalty_R len2 M wt.
Proof. exact penalty_lower. Qed.
Print Assumptions c03_penalty_lower_bound.

(* the scene-level premise (peaks within delta of the labels, boxes of complete animals X + delta + ps/2
   apart, true edges <= max_edge_length, cross lines counted on the MODELLED cells) gives geo_edge with
   r2 = 2 (delta + ps/2)^2, R2 = X^2, P = dist_penalty_weight, n = n_points — for the modelled sampler *)
Theorem c03_sampler_gives_geo_edge :
  forall n_animals vis score sigma eps edges peak truth ps h w npts M wt k e delta X kappa m,
  sampler_edge n_animals vis score sigma eps edges peak truth ps h w npts M wt k e delta X kappa m ->
  geo_edge n_animals vis score sigma eps (seg_truth edges truth)
           (s_pts edges peak ps h w npts) (s_dirx edges peak) (s_diry edges peak) (s_pen edges peak M wt) k e
           (sample_r2 ps delta) (X * X) kappa (Q2R wt) m npts.
Proof. exact sampler_gives_geo_edge. Qed.
Print Assumptions c03_sampler_gives_geo_edge.

(* explicit inequality ==> the `separated` premise of (d) *)
Theorem c03_sampler_gives_separation :
  forall n_animals vis score mls sigma eps edges peak truth ps h w npts M wt k e delta X kappa m,
  sampler_edge n_animals vis score sigma eps edges peak truth ps h w npts M wt k e delta X kappa m ->
  let A := INR (length (both n_animals vis e)) in
  let T := paf_weight sigma (sample_r2 ps delta) * kappa - A * paf_weight sigma (X * X) - eps in
  let C := INR m / INR npts + A * paf_weight sigma (X * X) + eps in
  3 * C + Q2R wt < T -> C < Q2R mls -> Q2R mls <= T ->
  separated n_animals vis score mls k e.
Proof. exact sampler_gives_separation. Qed.
Print Assumptions c03_sampler_gives_separation.

(* rooted-tree skeleton + assignment contract + scene-level premise for every edge type + C08 contract
   ==> the property's groups (partial: the cross-candidate count and the score tie are still premises) *)
Theorem c03_reassembly_from_sampler_partial :
  forall n_animals vis score mls sigma eps edges peak truth ps h w npts M wt (r : nat) (matching : nat -> list (nat * nat)),
  C17.Lemmas.arborescence edges r ->
  (forall k e, nth_error edges k = Some e -> all_finite n_animals vis score k e ->
     optimal (srcs n_animals vis e) (dsts n_animals vis e) (sck score k) (matching k)) ->
  (forall k e, nth_error edges k = Some e ->
     sampler_premise n_animals vis score mls sigma eps edges peak truth ps h w npts M wt k e) ->
  forall output : list instance,
  (forall I, In I output ->
     exists p, member p I /\ (forall q, member q I <-> conn edges score mls matching (processed edges) p q) /\
               (exists q, q <> p /\ member q I)) ->
  (forall p q, adj edges score mls matching (processed edges) p q -> exists I, In I output /\ member p I) ->
  (forall i j I J p, nth_error output i = Some I -> nth_error output j = Some J ->
     member p I -> member p J -> i = j) ->
  reassembled edges n_animals vis all_edges output.
Proof. exact reassembly_from_sampler_tree. Qed.
Print Assumptions c03_reassembly_from_sampler_partial.

(* non-vacuity (LineGeoEx.v): one animal, labels = peaks (0,0) -> (8,0), PAF stride 2 on 8 x 8, 3 line points,
   sigma 15, clearance 10 px, tie 1/20, max_edge_length 40, dist_penalty_weight 0: the scene-level premise
   holds for the MODELLED cells and the explicit inequality gives `separated` with min_line_scores 3/10 *)
From SV Require Import C03.LineGeoEx.
Example ex_c03_sampler_premise_nonvacuous :
  exists vis score edges peak truth,
    sampler_edge 1 vis score 15 (1 / 20) edges peak truth 2 8 8 3 40 0 0 (0, 1)%nat 0 10 1 0 /\
    separated 1 vis score (3 # 10) 0 (0, 1)%nat.
Proof.
  do 5 eexists. split; [exact ex_sampler_edge|exact ex_sampler_separated].
Qed.
Print Assumptions ex_c03_sampler_premise_nonvacuous.
Local Close Scope R_scope.
