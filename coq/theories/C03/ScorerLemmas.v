(* ScorerLemmas.v (C03, round 3) — proofs about the long-lived scorer and the per-call grid
   (model: C03/Scorer.v; statements: C03/Props.v). *)
From Coq Require Import List ZArith QArith Qround Qabs Bool Arith Lia Lqa.
From SV Require Import C03.BottomUp C03.Lemmas C03.Scorer.
Import ListNotations.
Local Open Scope Q_scope.

(* ------------------------------------------------------------------ no state from call to call *)
Lemma score_calls_length s taus cs : length (score_calls s taus cs) = length cs.
Proof. induction cs; simpl; congruence. Qed.

Lemma score_calls_is_map s taus cs : score_calls s taus cs = map (score_call s taus) cs.
Proof. induction cs; simpl; congruence. Qed.

(* whatever was scored before and whatever is scored afterwards, the answer to a call is the
   answer a fresh scorer gives to that call alone *)
Lemma calls_independent s taus pre c post :
  nth_error (score_calls s taus (pre ++ c :: post)) (length pre) = Some (score_call s taus c).
Proof. induction pre; simpl; [reflexivity|exact IHpre]. Qed.

Lemma calls_independent_single s taus pre c post :
  nth_error (score_calls s taus (pre ++ c :: post)) (length pre)
  = nth_error (score_calls s taus [c]) 0.
Proof. rewrite calls_independent. reflexivity. Qed.

(* ------------------------------------------------------------------ the max length of THIS call *)
Lemma zmax3_nonneg h w ch : (0 <= h)%Z -> (0 <= Z.max (Z.max ch w) h)%Z.
Proof. lia. Qed.

Lemma max_edge_length_nonneg ratio h w ch ps :
  0 <= ratio -> (0 <= h)%Z -> (0 <= ps)%Z -> 0 <= max_edge_length ratio h w ch ps.
Proof.
  intros Hr Hh Hp. unfold max_edge_length.
  assert (A : 0 <= zq (Z.max (Z.max ch w) h)) by (apply (proj1 (zq_le 0 _)); lia).
  assert (B : 0 <= zq ps) by (apply (proj1 (zq_le 0 _)); exact Hp).
  apply Qmult_le_0_compat; [apply Qmult_le_0_compat|]; assumption.
Qed.

Lemma paf_h_nonneg paf : (0 <= paf_h paf)%Z.
Proof. unfold paf_h. lia. Qed.

Lemma call_M_nonneg s c : 0 <= s_ratio s -> (0 <= s_ps s)%Z -> 0 <= call_M s c.
Proof. intros. apply max_edge_length_nonneg; auto. apply paf_h_nonneg. Qed.

Lemma max_edge_length_monotone ratio h w ch ps h' w' ch' :
  0 <= ratio -> (0 <= ps)%Z -> (h <= h')%Z -> (w <= w')%Z -> (ch <= ch')%Z ->
  max_edge_length ratio h w ch ps <= max_edge_length ratio h' w' ch' ps.
Proof.
  intros Hr Hp Hh Hw Hc. unfold max_edge_length.
  assert (A : zq (Z.max (Z.max ch w) h) <= zq (Z.max (Z.max ch' w') h')) by (apply (proj1 (zq_le _ _)); lia).
  assert (B : 0 <= zq ps) by (apply (proj1 (zq_le 0 _)); exact Hp).
  apply Qmult_le_compat_r; [|exact B].
  rewrite (Qmult_comm ratio), (Qmult_comm ratio (zq (Z.max (Z.max ch' w') h'))).
  apply Qmult_le_compat_r; assumption.
Qed.

(* exact value on an h x w tensor with 2E channels *)
Lemma const_paf_dims h w E vx vy : (1 <= h)%nat -> (1 <= w)%nat ->
  paf_h (const_paf h w E vx vy) = Z.of_nat h /\ paf_w (const_paf h w E vx vy) = Z.of_nat w /\
  paf_ch (const_paf h w E vx vy) = Z.of_nat (2 * E).
Proof.
  intros Hh Hw. unfold paf_h, paf_w, paf_ch, const_paf.
  set (cell := flat_map (fun _ : nat => [vx; vy]) (seq 0 E)).
  assert (Ec : length cell = (2 * E)%nat).
  { unfold cell.
    assert (G : forall a, length (flat_map (fun _ : nat => [vx; vy]) (seq a E)) = (E + E)%nat).
    { induction E; intro a; cbn [seq flat_map app length]; [reflexivity|]. rewrite IHE. lia. }
    rewrite G. lia. }
  rewrite repeat_length.
  destruct h as [|h]; [lia|]. destruct w as [|w]; [lia|].
  cbn [repeat hd]. cbn [length]. rewrite repeat_length. rewrite Ec.
  repeat split; reflexivity.
Qed.

(* ------------------------------------------------------------------ reals: decisions with the current M *)
From Coq Require Import Reals Qreals Lra.
Local Open Scope R_scope.

Lemma score_decision_current_call s c S len2 tau b :
  (0 < len2)%Q -> (0 < s_n s)%nat -> (0 <= s_ratio s)%Q -> (0 <= s_ps s)%Z ->
  score_geb S len2 (s_n s) (call_M s c) (s_wt s) tau = Some b ->
  (b = true <-> Q2R tau <= score_R S len2 (s_n s) (call_M s c) (s_wt s)).
Proof.
  intros Hl Hn Hr Hp. apply score_geb_correct; try assumption. apply call_M_nonneg; assumption.
Qed.

Lemma penalty_zero_current_call s c len2 :
  (0 < len2)%Q -> (0 <= s_ratio s)%Q -> (0 <= s_ps s)%Z ->
  (len2 <= call_M s c * call_M s c)%Q -> penalty_R len2 (call_M s c) (s_wt s) = 0.
Proof. intros Hl Hr Hp Hle. apply penalty_zero; try assumption. apply call_M_nonneg; assumption. Qed.

(* the penalty with the length of a LARGER tensor is never stronger (so a length kept from an
   earlier, smaller frame can only lower scores) *)
Lemma penalty_monotone_in_M len2 M M' wt :
  (0 < len2)%Q -> (0 <= wt)%Q -> (M <= M')%Q -> penalty_R len2 M wt <= penalty_R len2 M' wt.
Proof.
  intros Hl Hw HM. apply Qlt_Rlt in Hl. rewrite Q2R_0 in Hl. apply Qle_Rle in Hw. rewrite Q2R_0 in Hw.
  apply Qle_Rle in HM. destruct (sqrt_facts _ Hl) as [HL _]. unfold penalty_R.
  set (L := sqrt (Q2R len2)) in *.
  assert (E : Q2R M / L <= Q2R M' / L).
  { unfold Rdiv. apply Rmult_le_compat_r; [left; apply Rinv_0_lt_compat; exact HL|exact HM]. }
  apply Rmult_le_compat_l; [exact Hw|].
  apply Rmin_glb; [apply Rmin_l|]. eapply Rle_trans; [apply Rmin_r|]. lra.
Qed.

(* an edge longer than max_edge_length / tau is NEVER accepted at threshold tau, however good the
   PAF is: with |paf| <= 1 the mean dot product with the unit direction is <= 1, and
   1 + (M/L - 1) = M/L < tau.  (dist_penalty_weight = 1, the default) *)
Lemma long_edge_score_below S len2 n M tau :
  (0 < len2)%Q -> (0 < n)%nat -> (0 <= M)%Q -> (0 < tau)%Q ->
  Q2R S <= INR n * sqrt (Q2R len2) ->
  (M * M < tau * tau * len2)%Q ->
  score_R S len2 n M 1 < Q2R tau.
Proof.
  intros Hl Hn HM Ht HS Hlong.
  apply Qlt_Rlt in Hl. rewrite Q2R_0 in Hl. apply Qle_Rle in HM. rewrite Q2R_0 in HM.
  apply Qlt_Rlt in Ht. rewrite Q2R_0 in Ht. apply Qlt_Rlt in Hlong. rewrite !Q2R_mult in Hlong.
  destruct (sqrt_facts _ Hl) as [HL HLL]. unfold score_R.
  set (L := sqrt (Q2R len2)) in *. set (m := Q2R M) in *. set (t := Q2R tau) in *. set (sv := Q2R S) in *.
  assert (HnR : 0 < INR n) by (apply lt_0_INR; exact Hn).
  assert (H1 : Q2R 1 = 1) by (unfold Q2R; simpl; lra). rewrite H1, Rmult_1_l.
  assert (HmL : m < t * L).
  { destruct (Rlt_dec m (t * L)) as [y|nn]; [exact y|]. exfalso.
    assert (t * L <= m) by lra. assert (0 < t * L) by nra.
    assert ((t * L) * (t * L) <= m * m) by nra. nra. }
  assert (Hq : m / L < t).
  { apply (proj1 (Rlt_div_l m t L HL)). exact HmL. }
  assert (Hmean : sv / (INR n * L) <= 1).
  { assert (0 < INR n * L) by nra.
    apply (Rmult_le_reg_r (INR n * L)); [assumption|].
    replace (sv / (INR n * L) * (INR n * L)) with sv by (field; split; lra). lra. }
  destruct (Rle_dec 0 (m / L - 1)) as [Hp|Hp].
  - rewrite Rmin_left by exact Hp. lra.
  - rewrite Rmin_right by lra. lra.
Qed.

(* ... and the model's boolean says so *)
Lemma long_edge_never_accepted S len2 n M tau :
  (0 < len2)%Q -> (0 < n)%nat -> (0 <= M)%Q -> (0 < tau)%Q ->
  Q2R S <= INR n * sqrt (Q2R len2) ->
  (M * M < tau * tau * len2)%Q ->
  score_geb S len2 n M 1 tau = Some false.
Proof.
  intros Hl Hn HM Ht HS Hlong.
  destruct (score_geb_some S len2 n M 1 tau Hl) as [b Hb].
  pose proof (score_geb_correct S len2 n M 1 tau b Hl Hn HM Hb) as Hc.
  pose proof (long_edge_score_below S len2 n M tau Hl Hn HM Ht HS Hlong) as Hlt.
  destruct b; [|exact Hb]. exfalso. assert (Q2R tau <= score_R S len2 n M 1) by (apply Hc; reflexivity). lra.
Qed.

Lemma sel_long_edge_spec len2 M tau : sel_long_edge len2 M tau = true <-> (M * M < tau * tau * len2)%Q.
Proof.
  unfold sel_long_edge. rewrite negb_true_iff. split.
  - intro H. apply Qnot_le_lt. intro C. apply Qle_bool_iff in C. congruence.
  - intro H. destruct (Qle_bool (tau * tau * len2) (M * M)) eqn:E; [|reflexivity].
    apply Qle_bool_iff in E. exfalso. apply (Qlt_irrefl (M * M)). eapply Qlt_le_trans; eassumption.
Qed.

Lemma long_edge_selected_never_accepted S len2 n M tau :
  (0 < len2)%Q -> (0 < n)%nat -> (0 <= M)%Q -> (0 < tau)%Q ->
  Q2R S <= INR n * sqrt (Q2R len2) ->
  sel_long_edge len2 M tau = true ->
  score_geb S len2 n M 1 tau = Some false.
Proof. intros. apply long_edge_never_accepted; try assumption. apply sel_long_edge_spec. assumption. Qed.

(* outside the selector and up to max_edge_length there is no penalty at all; between the two the
   penalty is wt * (M/L - 1) > -(1 - tau) wt *)
Lemma penalty_bound_outside_selector len2 M tau :
  (0 < len2)%Q -> (0 <= M)%Q -> (0 < tau)%Q -> (tau <= 1)%Q -> sel_long_edge len2 M tau = false ->
  Q2R tau - 1 <= penalty_R len2 M 1.
Proof.
  intros Hl HM Ht Ht1 Hs. apply Qle_Rle in Ht1.
  assert (Hle : (tau * tau * len2 <= M * M)%Q).
  { destruct (Qlt_le_dec (M * M) (tau * tau * len2)) as [C|C]; [|exact C].
    apply sel_long_edge_spec in C. congruence. }
  apply Qlt_Rlt in Hl. rewrite Q2R_0 in Hl. apply Qle_Rle in HM. rewrite Q2R_0 in HM.
  apply Qlt_Rlt in Ht. rewrite Q2R_0 in Ht. apply Qle_Rle in Hle. rewrite !Q2R_mult in Hle.
  destruct (sqrt_facts _ Hl) as [HL HLL]. unfold penalty_R.
  set (L := sqrt (Q2R len2)) in *. set (m := Q2R M) in *. set (t := Q2R tau) in *.
  assert (H1 : Q2R 1 = 1) by (unfold Q2R; simpl; lra). rewrite H1 in Ht1. rewrite H1, Rmult_1_l.
  assert (HtL : t * L <= m).
  { destruct (Rle_dec (t * L) m) as [y|nn]; [exact y|]. exfalso.
    assert (m < t * L) by lra. assert (m * m < (t * L) * (t * L)) by nra. nra. }
  assert (Hq : t <= m / L) by (apply (proj1 (Rle_div_r t m L HL)); exact HtL).
  apply Rmin_glb; lra.
Qed.
Local Close Scope R_scope.

(* ------------------------------------------------------------------ the sampling grid of one call *)
Lemma rhe_comp q q' : q == q' -> rhe q = rhe q'.
Proof.
  intro E. unfold rhe. rewrite (Qfloor_comp _ _ E).
  assert (E2 : q - inject_Z (Qfloor q') == q' - inject_Z (Qfloor q')) by (rewrite E; reflexivity).
  rewrite (Qcompare_comp _ _ E2 qhalf qhalf (Qeq_refl _)). reflexivity.
Qed.

Lemma rhe_integer z : rhe (zq z) = z.
Proof.
  unfold rhe, zq. rewrite Qfloor_Z.
  assert (E : inject_Z z - inject_Z z == 0) by ring.
  rewrite (Qcompare_comp _ _ E qhalf qhalf (Qeq_refl _)). reflexivity.
Qed.

Lemma cell_over_stride s j : (0 < s)%Z -> zq (j * s) / zq s == zq j.
Proof.
  intro Hs. rewrite zq_mult. field. intro E.
  assert (0 < zq s) by (apply zq_pos; exact Hs). rewrite E in H. revert H. apply Qlt_irrefl.
Qed.

Lemma lerp_zero a b n : lerp a b n 0 == a.
Proof. exact (lerp_first a b n). Qed.

(* reader o writer-grid = identity, for the stride of THIS call: a line point that sits on the grid
   sample (x, y) = (j * ps, i * ps) which generate_pafs wrote into cell (i, j) is read from cell
   (i, j), channels 2k / 2k+1 *)
Lemma reader_inverts_writer_grid ps h w k i j dx dy n :
  (0 < ps)%Z -> (0 <= i < h)%Z -> (0 <= j < w)%Z ->
  line_sub (cell_x ps j) (cell_y ps i) dx dy k ps h w n 0 = (i, j, (2 * k)%Z, (2 * k + 1)%Z).
Proof.
  intros Hp Hi Hj. unfold line_sub.
  assert (EY : lerp (cell_y ps i) dy n 0 / zq ps == zq i).
  { rewrite lerp_zero. unfold cell_y. apply cell_over_stride. exact Hp. }
  assert (EX : lerp (cell_x ps j) dx n 0 / zq ps == zq j).
  { rewrite lerp_zero. unfold cell_x. apply cell_over_stride. exact Hp. }
  rewrite (rhe_comp _ _ EY), (rhe_comp _ _ EX), !rhe_integer.
  unfold clampZ. repeat f_equal; lia.
Qed.

(* the same CELL INDEX samples another POSITION when the stride differs: a grid is not determined
   by its shape *)
Lemma grid_position_depends_on_stride s s' j :
  (j <> 0)%Z -> s <> s' -> ~ cell_x s j == cell_x s' j.
Proof.
  intros Hj Hs E. unfold cell_x, zq in E. rewrite inject_Z_injective in E. apply Hs. nia.
Qed.

Lemma zrange_length n : length (zrange n) = Z.to_nat n.
Proof. unfold zrange. rewrite map_length, seq_length. reflexivity. Qed.

Lemma grid_vector_length size s : length (grid_vector size s) = Z.to_nat (grid_len size s).
Proof. unfold grid_vector. rewrite map_length. apply zrange_length. Qed.

Lemma nth_error_seq_lt a n j : (j < n)%nat -> nth_error (seq a n) j = Some (a + j)%nat.
Proof.
  revert a j. induction n; intros a j Hj; [lia|]. destruct j; cbn [seq nth_error].
  - f_equal. lia.
  - rewrite IHn by lia. f_equal. lia.
Qed.

Lemma grid_vector_nth size s j : (j < Z.to_nat (grid_len size s))%nat ->
  nth_error (grid_vector size s) j = Some (cell_x s (Z.of_nat j)).
Proof.
  intro Hj. unfold grid_vector, zrange. rewrite map_map.
  apply (map_nth_error (fun x : nat => cell_x s (Z.of_nat x)) j (seq 0 (Z.to_nat (grid_len size s)))).
  rewrite nth_error_seq_lt by exact Hj. reflexivity.
Qed.

(* ------------------------------------------------------------------ witnesses (vm_compute) *)
Definition default_scorer (ps : Z) : scorer := {| s_ps := ps; s_ratio := 1 # 4; s_wt := 1; s_n := 10 |}.

(* a 4 x 4 frame, then a 16 x 16 frame with a perfect horizontal field and a 12 px candidate:
   max_edge_length of the SECOND call is 4, score 1 + (4/12 - 1) = 1/3 >= 1/4: accepted.
   Had the scorer kept the length of the first call (1): 1/12 < 1/4: rejected. *)
Definition stale_calls : list call :=
  [ {| c_paf := const_paf 4 4 1 1 0; c_cands := [(0, 0, 3, 0, 0%Z)] |};
    {| c_paf := const_paf 16 16 1 1 0; c_cands := [(1, 2, 13, 2, 0%Z)] |} ].

Lemma stale_length_changes_decision :
  map (map (fun r => snd r)) (score_calls (default_scorer 1) [1 # 4] stale_calls)
    = [[[Some true]]; [[Some true]]] /\
  map (map (fun r => snd r)) (score_calls_stale (default_scorer 1) [1 # 4] None stale_calls)
    = [[[Some true]]; [[Some false]]] /\
  map (fun c => Qred (call_M (default_scorer 1) c)) stale_calls = [1; 4].
Proof. vm_compute. repeat split; reflexivity. Qed.

(* a 31 x 41 PAF grid at stride 1 (a 41 x 31 px frame), one edge, the field equal to the exact unit
   direction (4/5, 3/5) of the candidate (0,0) -> (40,30) in EVERY cell: length 50 > 41 =
   max_edge_length / min_line_scores, score 1 + (41/4)/50 - 1 = 0.205 < 1/4 *)
Definition long_edge_call : call :=
  {| c_paf := const_paf 31 41 1 (4 # 5) (3 # 5); c_cands := [(0, 0, 40, 30, 0%Z)] |}.

Lemma long_edge_witness :
  call_M (default_scorer 1) long_edge_call == 41 # 4 /\
  map (fun r => (Qred (fst (fst r)), Qred (snd (fst r)), snd r)) (score_call (default_scorer 1) [1 # 4] long_edge_call)
    = [(500, 2500, [Some false])].
Proof. vm_compute. split; reflexivity. Qed.

Lemma long_edge_refuted_witness :
  exists (s : scorer) (c : call),
    s = default_scorer 1 /\ c_paf c = const_paf 31 41 1 (4 # 5) (3 # 5) /\
    c_cands c = [(0, 0, 40, 30, 0%Z)] /\
    map (fun r => snd r) (score_call s [1 # 4] c) = [[Some false]].
Proof.
  exists (default_scorer 1), long_edge_call. split; [reflexivity|]. split; [reflexivity|]. split; [reflexivity|].
  vm_compute. reflexivity.
Qed.

(* same grid SHAPE, other stride: cell 3 of a 64-sample grid is x = 6 at stride 2 (128 px) and
   x = 12 at stride 4 (256 px); the reader of the second frame divides by 4 *)
Lemma grid_same_shape_other_stride :
  length (grid_vector 128 2) = length (grid_vector 256 4) /\
  nth_error (grid_vector 128 2) 3 = Some (6 # 1) /\ nth_error (grid_vector 256 4) 3 = Some (12 # 1) /\
  line_sub 12 12 12 12 0 4 64 64 1 0 = (3, 3, 0, 1)%Z /\
  line_sub 6 6 6 6 0 4 64 64 1 0 = (2, 2, 0, 1)%Z.
Proof. vm_compute. repeat split; reflexivity. Qed.
