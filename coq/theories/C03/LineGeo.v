(* LineGeo.v (C03) — the geometric premise of the reassembly theorems, derived for the MODELLED line
   sampling (BottomUp.line_subs = make_line_subs) instead of an abstract list of cells.

   sleap_nn/inference/paf_grouping.py:
     make_line_subs : XY = src + (dst - src) * linspace(0, 1, n) ; XY = (XY / pafs_stride).round()
                      XY[..., 0] clipped to [0, w-1] (columns), XY[..., 1] to [0, h-1] (rows)
     get_paf_lines  : reads pafs[sample, row, col, 2k], pafs[sample, row, col, 2k+1]
     score_paf_lines: mean_i (paf_i . (dst - src)/|dst - src|) + compute_distance_penalty
   A PAF cell (row, col) holds the field at the position (col * ps, row * ps) (cell_x, cell_y).

   Here: `line_pts` = the positions of the cells line_subs reads (Q, executable; R through Q2R);
   every sampled position is within  delta + ps/2  per axis of the point  g(t_i), t_i = i/(n-1),
   of ANY segment g whose end points are within delta per axis of the two peaks, hence within the
   squared distance 2 (delta + ps/2)^2 of the segment as distance_to_edge computes it; for the ideal
   PAF of that edge alone every sampled vector has non-negative dot product with the edge direction
   and the line score is at least the weight at that distance. *)
From Coq Require Import List ZArith QArith Qabs Bool Arith Lia Lra Psatz Permutation Reals Qreals.
From SV Require Import C03.BottomUp C03.Lemmas C03.SkelLemmas C03.IdealPaf C03.SepLemmas.
From SV Require C17.Toposort C17.Lemmas.
Import ListNotations.
Open Scope Q_scope.

(* ------------------------------------------------------------------ the sampler, as positions *)
(* the linspace parameter of line point i of n (0 for a one-point line, as torch.linspace(0,1,1)) *)
Definition lerp_t (n i : nat) : Q :=
  if (n <=? 1)%nat then 0 else zq (Z.of_nat i) / zq (Z.of_nat (n - 1)).

(* the position the PAF cell of a subscript samples *)
Definition sub_pos (ps : Z) (s : Z * Z * Z * Z) : Q * Q :=
  let '(row, col, _, _) := s in (cell_x ps col, cell_y ps row).

Definition line_pts (sx sy dx dy : Q) (k : Z) (ps h w : Z) (n : nat) : list (Q * Q) :=
  map (sub_pos ps) (line_subs sx sy dx dy k ps h w n).

Definition q2r_pt (p : Q * Q) : R * R := (Q2R (fst p), Q2R (snd p)).
Definition line_pts_R (sx sy dx dy : Q) (k : Z) (ps h w : Z) (n : nat) : list (R * R) :=
  map q2r_pt (line_pts sx sy dx dy k ps h w n).

Lemma line_pts_length sx sy dx dy k ps h w n : length (line_pts sx sy dx dy k ps h w n) = n.
Proof. unfold line_pts, line_subs. rewrite !map_length. apply seq_length. Qed.

Lemma line_pts_R_length sx sy dx dy k ps h w n : length (line_pts_R sx sy dx dy k ps h w n) = n.
Proof. unfold line_pts_R. rewrite map_length. apply line_pts_length. Qed.

(* the positions do not depend on the edge type (only the two channels do) *)
Lemma line_pts_any_k sx sy dx dy k k' ps h w n :
  line_pts sx sy dx dy k ps h w n = line_pts sx sy dx dy k' ps h w n.
Proof. unfold line_pts, line_subs. rewrite !map_map. apply map_ext. intro i. reflexivity. Qed.

Lemma line_pts_In sx sy dx dy k ps h w n p :
  In p (line_pts sx sy dx dy k ps h w n) ->
  exists i, (i < n)%nat /\
    p = (cell_x ps (clampZ 0 (w - 1) (rhe (lerp sx dx n i / zq ps))),
         cell_y ps (clampZ 0 (h - 1) (rhe (lerp sy dy n i / zq ps)))).
Proof.
  unfold line_pts, line_subs. rewrite map_map. intro H. apply in_map_iff in H.
  destruct H as [i [E Hi]]. apply in_seq in Hi. exists i. split; [lia|]. rewrite <- E. reflexivity.
Qed.

(* ------------------------------------------------------------------ the parameter *)
Lemma lerp_t_range n i : (i < n)%nat -> 0 <= lerp_t n i <= 1.
Proof.
  intro Hi. unfold lerp_t. destruct (n <=? 1)%nat eqn:E; [lra|].
  apply Nat.leb_gt in E.
  assert (Hd : 0 < zq (Z.of_nat (n - 1))).
  { assert (H1 : (0 < Z.of_nat (n - 1))%Z) by lia. apply zq_lt in H1. exact H1. }
  assert (Hi' : zq (Z.of_nat i) <= zq (Z.of_nat (n - 1))).
  { apply -> zq_le. apply Nat2Z.inj_le. lia. }
  assert (Hi0 : 0 <= zq (Z.of_nat i)).
  { change 0 with (zq 0). apply -> zq_le. apply Nat2Z.is_nonneg. }
  split.
  - apply Qle_shift_div_l; [exact Hd|lra].
  - apply Qle_shift_div_r; [exact Hd|lra].
Qed.

(* both coordinates of line point i use the SAME parameter: the point is src + t_i (dst - src) *)
Lemma lerp_param a b n i : lerp a b n i == a + (b - a) * lerp_t n i.
Proof. unfold lerp, lerp_t. destruct (n <=? 1)%nat; ring. Qed.

Lemma lerp_t_first n : lerp_t n 0 == 0.
Proof.
  unfold lerp_t. destruct (n <=? 1)%nat eqn:E; [reflexivity|]. apply Nat.leb_gt in E.
  change (zq (Z.of_nat 0)) with 0. unfold Qdiv. ring.
Qed.

Lemma lerp_t_last n : (2 <= n)%nat -> lerp_t n (n - 1) == 1.
Proof.
  intro Hn. unfold lerp_t. destruct (n <=? 1)%nat eqn:E; [apply Nat.leb_le in E; lia|].
  assert (H : ~ zq (Z.of_nat (n - 1)) == 0).
  { intro H. assert (H1 : (0 < Z.of_nat (n - 1))%Z) by lia. apply zq_lt in H1. change (zq 0) with 0 in H1. lra. }
  field. exact H.
Qed.

(* a convex combination stays in an interval that holds both end points (either order) *)
Lemma convex_in_interval (a b t lo hi : Q) :
  0 <= t <= 1 -> lo <= a <= hi -> lo <= b <= hi -> lo <= a + (b - a) * t <= hi.
Proof.
  intros [T0 T1] [A0 A1] [B0 B1].
  assert (E : a + (b - a) * t == (1 - t) * a + t * b) by ring. rewrite E.
  assert (P1 : 0 <= (1 - t) * (a - lo)) by (apply Qmult_le_0_compat; lra).
  assert (P2 : 0 <= t * (b - lo)) by (apply Qmult_le_0_compat; lra).
  assert (P3 : 0 <= (1 - t) * (hi - a)) by (apply Qmult_le_0_compat; lra).
  assert (P4 : 0 <= t * (hi - b)) by (apply Qmult_le_0_compat; lra).
  split.
  - assert (F : (1 - t) * a + t * b - lo == (1 - t) * (a - lo) + t * (b - lo)) by ring. lra.
  - assert (F : hi - ((1 - t) * a + t * b) == (1 - t) * (hi - a) + t * (hi - b)) by ring. lra.
Qed.

Lemma in_band_iff cs n p' :
  in_band cs n p' = false <-> - (zq cs / 2) <= p' /\ p' <= zq ((n - 1) * cs) + zq cs / 2.
Proof.
  unfold in_band. rewrite negb_false_iff, andb_true_iff, !Qle_bool_iff. tauto.
Qed.

(* peaks inside the PAF grid (half a cell of slack) ==> no line point is clipped *)
Lemma lerp_not_in_band ps m a b n i :
  (i < n)%nat -> in_band ps m a = false -> in_band ps m b = false -> in_band ps m (lerp a b n i) = false.
Proof.
  intros Hi Ha Hb. apply in_band_iff in Ha. apply in_band_iff in Hb. apply in_band_iff.
  rewrite lerp_param. apply and_comm, and_comm.
  pose proof (convex_in_interval a b (lerp_t n i) (- (zq ps / 2)) (zq ((m - 1) * ps) + zq ps / 2)
                (lerp_t_range n i Hi) Ha Hb) as C. exact C.
Qed.

(* every sampled position is within half a PAF cell (per axis) of its line point *)
Lemma line_pt_near_lerp sx sy dx dy k ps h w n p :
  (0 < ps)%Z -> (1 <= h)%Z -> (1 <= w)%Z ->
  in_band ps w sx = false -> in_band ps w dx = false ->
  in_band ps h sy = false -> in_band ps h dy = false ->
  In p (line_pts sx sy dx dy k ps h w n) ->
  exists i, (i < n)%nat /\
    - (zq ps / 2) <= fst p - lerp sx dx n i <= zq ps / 2 /\
    - (zq ps / 2) <= snd p - lerp sy dy n i <= zq ps / 2.
Proof.
  intros Hps Hh Hw B1 B2 B3 B4 Hp. apply line_pts_In in Hp. destruct Hp as [i [Hi E]].
  exists i. split; [exact Hi|]. subst p. cbn [fst snd]. unfold cell_x, cell_y.
  pose proof (peak_cell_within_half ps w (lerp sx dx n i) Hps Hw (lerp_not_in_band ps w sx dx n i Hi B1 B2)) as A.
  pose proof (peak_cell_within_half ps h (lerp sy dy n i) Hps Hh (lerp_not_in_band ps h sy dy n i Hi B3 B4)) as B.
  unfold peak_cell in A, B. rewrite !zq_mult. split; assumption.
Qed.

(* ------------------------------------------------------------------ over the reals *)
Local Open Scope R_scope.

Definition half_cell (ps : Z) : R := Q2R (zq ps / 2).

Lemma half_cell_eq ps : half_cell ps = IZR ps / 2.
Proof.
  unfold half_cell, zq. rewrite Q2R_div by (intro H; discriminate H).
  unfold Q2R at 1 2. simpl. field.
Qed.

Lemma half_cell_nonneg ps : (0 < ps)%Z -> 0 <= half_cell ps.
Proof. intro H. rewrite half_cell_eq. apply IZR_lt in H. lra. Qed.

(* a convex combination of two errors of size <= delta has size <= delta *)
Lemma convex_err (a b t delta : R) :
  0 <= t <= 1 -> - delta <= a <= delta -> - delta <= b <= delta ->
  - delta <= (1 - t) * a + t * b <= delta.
Proof.
  intros [T0 T1] [A0 A1] [B0 B1].
  assert (P1 : 0 <= (1 - t) * (a + delta)) by (apply Rmult_le_pos; lra).
  assert (P2 : 0 <= t * (b + delta)) by (apply Rmult_le_pos; lra).
  assert (P3 : 0 <= (1 - t) * (delta - a)) by (apply Rmult_le_pos; lra).
  assert (P4 : 0 <= t * (delta - b)) by (apply Rmult_le_pos; lra).
  split; nra.
Qed.

Lemma sq_le_of_abs (u c : R) : - c <= u <= c -> u * u <= c * c.
Proof. intros [H1 H2]. nra. Qed.

(* the squared distance (as distance_to_edge computes it) from every sampled position to ANY segment
   g whose end points are within delta (per axis) of the two peaks is at most 2 (delta + ps/2)^2 *)
Definition sample_r2 (ps : Z) (delta : R) : R :=
  2 * ((delta + half_cell ps) * (delta + half_cell ps)).

(* every sampled position is within delta + ps/2 (per axis) of the point g(t), 0 <= t <= 1, of the segment *)
Lemma sampled_cell_param sx sy dx dy k ps h w n (g : seg) (delta : R) p :
  (0 < ps)%Z -> (1 <= h)%Z -> (1 <= w)%Z ->
  in_band ps w sx = false -> in_band ps w dx = false ->
  in_band ps h sy = false -> in_band ps h dy = false ->
  - delta <= Q2R sx - s_x g <= delta -> - delta <= Q2R sy - s_y g <= delta ->
  - delta <= Q2R dx - d_x g <= delta -> - delta <= Q2R dy - d_y g <= delta ->
  In p (line_pts_R sx sy dx dy k ps h w n) ->
  exists t, 0 <= t <= 1 /\
    - (delta + half_cell ps) <= s_x g + t * e_x g - fst p <= delta + half_cell ps /\
    - (delta + half_cell ps) <= s_y g + t * e_y g - snd p <= delta + half_cell ps.
Proof.
  intros Hps Hh Hw B1 B2 B3 B4 Esx Esy Edx Edy Hp.
  unfold line_pts_R in Hp. apply in_map_iff in Hp. destruct Hp as [q [Eq Hq]]. subst p.
  destruct (line_pt_near_lerp sx sy dx dy k ps h w n q Hps Hh Hw B1 B2 B3 B4 Hq) as [i [Hi [[X0 X1] [Y0 Y1]]]].
  pose proof (lerp_t_range n i Hi) as [T0 T1].
  apply Qle_Rle in X0, X1, Y0, Y1, T0, T1.
  rewrite Q2R_minus in X0, X1, Y0, Y1.
  rewrite (Qeq_eqR _ _ (lerp_param sx dx n i)) in X0, X1.
  rewrite (Qeq_eqR _ _ (lerp_param sy dy n i)) in Y0, Y1.
  rewrite ?Q2R_opp, ?Q2R_minus, ?Q2R_plus, ?Q2R_mult, ?Q2R_minus in X0, X1, Y0, Y1.
  fold (half_cell ps) in X0, X1, Y0, Y1.
  change (Q2R 0) with (Q2R (0 # 1)) in T0. unfold Q2R at 1 in T0. simpl in T0.
  replace (0 * / 1) with 0 in T0 by field.
  unfold Q2R at 2 in T1. simpl in T1. replace (1 * / 1) with 1 in T1 by field.
  set (t := Q2R (lerp_t n i)) in *.
  cbn [q2r_pt fst snd]. set (px := Q2R (fst q)) in *. set (py := Q2R (snd q)) in *.
  exists t. split; [exact (conj T0 T1)|].
  unfold e_x, e_y.
  pose proof (convex_err (Q2R sx - s_x g) (Q2R dx - d_x g) t delta (conj T0 T1) Esx Edx) as [CX0 CX1].
  pose proof (convex_err (Q2R sy - s_y g) (Q2R dy - d_y g) t delta (conj T0 T1) Esy Edy) as [CY0 CY1].
  assert (HO : Q2R (- (zq ps / 2)) = - half_cell ps) by (unfold half_cell; apply Q2R_opp).
  rewrite HO in X0, Y0.
  split; split; nra.
Qed.

Theorem sampled_cell_near_segment sx sy dx dy k ps h w n (g : seg) (delta : R) p :
  (0 < ps)%Z -> (1 <= h)%Z -> (1 <= w)%Z ->
  in_band ps w sx = false -> in_band ps w dx = false ->
  in_band ps h sy = false -> in_band ps h dy = false ->
  0 < len2 g ->
  - delta <= Q2R sx - s_x g <= delta -> - delta <= Q2R sy - s_y g <= delta ->
  - delta <= Q2R dx - d_x g <= delta -> - delta <= Q2R dy - d_y g <= delta ->
  In p (line_pts_R sx sy dx dy k ps h w n) ->
  seg_d2 g (fst p) (snd p) <= sample_r2 ps delta.
Proof.
  intros Hps Hh Hw B1 B2 B3 B4 HL Esx Esy Edx Edy Hp.
  destruct (sampled_cell_param sx sy dx dy k ps h w n g delta p Hps Hh Hw B1 B2 B3 B4 Esx Esy Edx Edy Hp)
    as [t [Ht [UX UY]]].
  apply (seg_d2_near_point g (fst p) (snd p) t (sample_r2 ps delta) HL Ht).
  pose proof (sq_le_of_abs _ _ UX). pose proof (sq_le_of_abs _ _ UY).
  unfold sample_r2. lra.
Qed.

(* ... and lies in the bounding box of the segment widened by delta + ps/2 *)
Lemma param_in_box (s d t : R) : 0 <= t <= 1 -> Rmin s d <= s + t * (d - s) <= Rmax s d.
Proof.
  intros [T0 T1]. unfold Rmin, Rmax. destruct (Rle_dec s d) as [H|H]; split; nra.
Qed.

(* "well separated", Chebyshev form: the bounding boxes of two segments are at least X apart *)
Definition boxes_apart (ga gc : seg) (X : R) : Prop :=
  box_hi_x ga + X <= box_lo_x gc \/ box_hi_x gc + X <= box_lo_x ga \/
  box_hi_y ga + X <= box_lo_y gc \/ box_hi_y gc + X <= box_lo_y ga.

(* a sampled cell of animal a's TRUE pair is at least X outside the box of any other animal's segment
   whose box is  X + delta + ps/2  away from a's box, hence at squared distance >= X^2 from it *)
Theorem sampled_cell_far_from_other sx sy dx dy k ps h w n (ga gc : seg) (delta X : R) p :
  (0 < ps)%Z -> (1 <= h)%Z -> (1 <= w)%Z ->
  in_band ps w sx = false -> in_band ps w dx = false ->
  in_band ps h sy = false -> in_band ps h dy = false ->
  - delta <= Q2R sx - s_x ga <= delta -> - delta <= Q2R sy - s_y ga <= delta ->
  - delta <= Q2R dx - d_x ga <= delta -> - delta <= Q2R dy - d_y ga <= delta ->
  0 <= X -> boxes_apart ga gc (X + delta + half_cell ps) ->
  In p (line_pts_R sx sy dx dy k ps h w n) ->
  X * X <= seg_d2 gc (fst p) (snd p).
Proof.
  intros Hps Hh Hw B1 B2 B3 B4 Esx Esy Edx Edy HX Hap Hp.
  destruct (sampled_cell_param sx sy dx dy k ps h w n ga delta p Hps Hh Hw B1 B2 B3 B4 Esx Esy Edx Edy Hp)
    as [t [Ht [UX UY]]].
  apply seg_d2_outside_box; [exact HX|].
  pose proof (param_in_box (s_x ga) (d_x ga) t Ht) as [PX0 PX1].
  pose proof (param_in_box (s_y ga) (d_y ga) t Ht) as [PY0 PY1].
  unfold e_x in UX. unfold e_y in UY.
  unfold boxes_apart, box_lo_x, box_hi_x, box_lo_y, box_hi_y in Hap.
  unfold outside_box, box_lo_x, box_hi_x, box_lo_y, box_hi_y.
  destruct Hap as [A|[A|[A|A]]].
  - left. lra.
  - right. left. lra.
  - right. right. left. lra.
  - right. right. right. lra.
Qed.

(* delta = 0: the peaks ARE the end points of the segment; the sampled cell is within ps/sqrt 2 < one
   cell of it: squared distance <= ps^2 / 2 *)
Corollary sampled_cell_within_one_cell sx sy dx dy k ps h w n p :
  (0 < ps)%Z -> (1 <= h)%Z -> (1 <= w)%Z ->
  in_band ps w sx = false -> in_band ps w dx = false ->
  in_band ps h sy = false -> in_band ps h dy = false ->
  let g := mkseg (Q2R sx) (Q2R sy) (Q2R dx) (Q2R dy) in
  0 < len2 g ->
  In p (line_pts_R sx sy dx dy k ps h w n) ->
  seg_d2 g (fst p) (snd p) <= IZR ps * IZR ps / 2 /\ IZR ps * IZR ps / 2 < IZR ps * IZR ps.
Proof.
  intros Hps Hh Hw B1 B2 B3 B4 g HL Hp. split.
  - pose proof (sampled_cell_near_segment sx sy dx dy k ps h w n g 0 p Hps Hh Hw B1 B2 B3 B4 HL) as S.
    unfold g in S at 2 3 4 5. cbn [s_x s_y d_x d_y] in S.
    assert (Z0 : forall x : R, - 0 <= x - x <= 0) by (intro x; lra).
    specialize (S (Z0 _) (Z0 _) (Z0 _) (Z0 _) Hp).
    unfold sample_r2 in S. rewrite half_cell_eq in S. lra.
  - apply IZR_lt in Hps. nra.
Qed.

(* ------------------------------------------------------------------ ideal PAF of that edge *)
(* the ideal field of the edge itself, dotted with the edge's own unit direction, is its weight:
   never negative, and at least the weight at the squared distance bound *)
Lemma own_paf_dot sigma g px py : 0 < len2 g ->
  paf_dot sigma g px py (u_x g) (u_y g) = paf_weight sigma (seg_d2 g px py).
Proof. intro HL. unfold paf_dot. rewrite (unit_norm g HL). ring. Qed.

Theorem sampled_vector_dot_nonneg sigma g px py : 0 < len2 g ->
  0 <= field_dot sigma [g] px py (u_x g) (u_y g).
Proof.
  intro HL. cbn [field_dot]. rewrite (own_paf_dot sigma g px py HL).
  pose proof (weight_pos sigma (seg_d2 g px py)). lra.
Qed.

Lemma line_sum_own_lower sigma g pts r2 : 0 < sigma -> 0 < len2 g ->
  (forall p, In p pts -> seg_d2 g (fst p) (snd p) <= r2) ->
  INR (length pts) * paf_weight sigma r2 <= line_sum sigma [g] pts (u_x g) (u_y g).
Proof.
  intros Hs HL. induction pts as [|p t IH]; intro H.
  - simpl. lra.
  - change (length (p :: t)) with (S (length t)). rewrite S_INR. cbn [line_sum field_dot].
    rewrite (own_paf_dot sigma g _ _ HL).
    assert (W : paf_weight sigma r2 <= paf_weight sigma (seg_d2 g (fst p) (snd p))).
    { apply weight_antitone; [exact Hs|]. split; [apply seg_d2_nonneg|]. apply H. left. reflexivity. }
    assert (IH' := IH (fun q Hq => H q (or_intror Hq))). lra.
Qed.

(* the ideal line score of the TRUE pair of an isolated edge, sampled as the code samples it with
   peaks within delta of the labelled points, is at least exp(-(2 (delta + ps/2)^2)^2 / (2 sigma^2))
   (kappa = 1: scored along the segment's own direction) *)
Theorem sampled_true_score_bound sigma sx sy dx dy k ps h w n (g : seg) (delta : R) :
  0 < sigma -> (0 < n)%nat ->
  (0 < ps)%Z -> (1 <= h)%Z -> (1 <= w)%Z ->
  in_band ps w sx = false -> in_band ps w dx = false ->
  in_band ps h sy = false -> in_band ps h dy = false ->
  0 < len2 g ->
  - delta <= Q2R sx - s_x g <= delta -> - delta <= Q2R sy - s_y g <= delta ->
  - delta <= Q2R dx - d_x g <= delta -> - delta <= Q2R dy - d_y g <= delta ->
  paf_weight sigma (sample_r2 ps delta)
  <= line_score sigma [g] (line_pts_R sx sy dx dy k ps h w n) (u_x g) (u_y g).
Proof.
  intros Hs Hn Hps Hh Hw B1 B2 B3 B4 HL Esx Esy Edx Edy.
  unfold line_score.
  pose proof (line_sum_own_lower sigma g (line_pts_R sx sy dx dy k ps h w n) (sample_r2 ps delta) Hs HL
                (fun p Hp => sampled_cell_near_segment sx sy dx dy k ps h w n g delta p
                               Hps Hh Hw B1 B2 B3 B4 HL Esx Esy Edx Edy Hp)) as S.
  rewrite line_pts_R_length in *.
  assert (Hn' : 0 < INR n) by (apply lt_0_INR; exact Hn).
  apply Rmult_le_reg_l with (INR n); [exact Hn'|].
  replace (INR n * (line_sum sigma [g] (line_pts_R sx sy dx dy k ps h w n) (u_x g) (u_y g) / INR n))
    with (line_sum sigma [g] (line_pts_R sx sy dx dy k ps h w n) (u_x g) (u_y g)) by (field; lra).
  exact S.
Qed.

(* ------------------------------------------------------------------ the distance penalty, bounded *)
Lemma penalty_lower len2 M wt : (0 < len2)%Q -> (0 <= M)%Q -> (0 <= wt)%Q -> - Q2R wt <= penalty_R len2 M wt.
Proof.
  intros Hl HM Hw. apply Qlt_Rlt in Hl. rewrite Q2R_0 in Hl. apply Qle_Rle in HM, Hw. rewrite Q2R_0 in HM, Hw.
  destruct (sqrt_facts _ Hl) as [HL _]. unfold penalty_R. set (L := sqrt (Q2R len2)) in *.
  assert (H0 : 0 <= Q2R M / L) by (apply Rmult_le_pos; [exact HM|left; apply Rinv_0_lt_compat; exact HL]).
  assert (H1 : -1 <= Rmin 0 (Q2R M / L - 1)) by (apply Rmin_glb; lra).
  nra.
Qed.

(* ================================================================= the geometric premise, for the
   MODELLED sampler: pts, direction and penalty of geo_edge are no longer abstract.
     peak a j  : decoded peak of part j of animal a (network-input px, what forward hands to the scorer)
     truth a j : labelled position of the part in network-input px (end points of the ideal PAF segment)
     candidate (k, a, b): line from peak a (fst e_k) to peak b (snd e_k), n_points = npts, PAF stride ps,
     PAF grid h x w, max_edge_length M, dist_penalty_weight wt *)
Section SamplerScene.
  Variable n_animals : nat.
  Variable vis : nat -> nat -> bool.
  Variable score : nat -> nat -> nat -> option Q.
  Variable mls : Q.
  Variables (sigma eps : R).
  Variable edges : list (nat * nat).
  Variable peak : nat -> nat -> Q * Q.
  Variable truth : nat -> nat -> R * R.
  Variables (ps h w : Z) (npts : nat) (M wt : Q).

  Definition edge_at (k : nat) : nat * nat := nth k edges (0%nat, 0%nat).
  Definition seg_truth (k a : nat) : seg :=
    let e := edge_at k in
    mkseg (fst (truth a (fst e))) (snd (truth a (fst e))) (fst (truth a (snd e))) (snd (truth a (snd e))).
  Definition c_sx (k a : nat) : Q := fst (peak a (fst (edge_at k))).
  Definition c_sy (k a : nat) : Q := snd (peak a (fst (edge_at k))).
  Definition c_dx (k b : nat) : Q := fst (peak b (snd (edge_at k))).
  Definition c_dy (k b : nat) : Q := snd (peak b (snd (edge_at k))).
  Definition cand_seg (k a b : nat) : seg := mkseg (Q2R (c_sx k a)) (Q2R (c_sy k a)) (Q2R (c_dx k b)) (Q2R (c_dy k b)).
  Definition cand_len2 (k a b : nat) : Q :=
    ((c_dx k b - c_sx k a) * (c_dx k b - c_sx k a) + (c_dy k b - c_sy k a) * (c_dy k b - c_sy k a))%Q.
  (* what the code reads / uses for candidate (k, a, b) *)
  Definition s_pts (k a b : nat) : list (R * R) :=
    line_pts_R (c_sx k a) (c_sy k a) (c_dx k b) (c_dy k b) (Z.of_nat k) ps h w npts.
  Definition s_dirx (k a b : nat) : R := u_x (cand_seg k a b).
  Definition s_diry (k a b : nat) : R := u_y (cand_seg k a b).
  Definition s_pen (k a b : nat) : R := penalty_R (cand_len2 k a b) M wt.

  Lemma cand_len2_R k a b : len2 (cand_seg k a b) = Q2R (cand_len2 k a b).
  Proof.
    unfold len2, e_x, e_y, cand_seg, cand_len2. cbn [s_x s_y d_x d_y].
    rewrite Q2R_plus, !Q2R_mult, !Q2R_minus. reflexivity.
  Qed.

  (* the premise of one edge type in terms of the scene: delta = peak error per axis, X = clearance
     between animals (Chebyshev, beyond delta + ps/2), kappa = cosine between candidate and label *)
  Record sampler_edge (k : nat) (e : nat * nat) (delta X kappa : R) (m : nat) : Prop := {
    se_edge : nth_error edges k = Some e;
    se_sigma : 0 < sigma;
    se_eps : 0 <= eps;
    se_X : 0 <= X;
    se_n : (0 < npts)%nat;
    se_grid : (0 < ps)%Z /\ (1 <= h)%Z /\ (1 <= w)%Z;
    se_cfg : (0 <= M)%Q /\ (0 <= wt)%Q;
    (* peaks inside the PAF grid (half a cell of slack): no subscript is clipped *)
    se_src_in : forall a, In a (srcs n_animals vis e) ->
      in_band ps w (c_sx k a) = false /\ in_band ps h (c_sy k a) = false;
    se_dst_in : forall b, In b (dsts n_animals vis e) ->
      in_band ps w (c_dx k b) = false /\ in_band ps h (c_dy k b) = false;
    (* candidate end points are distinct peaks (a zero-length line scores NaN) *)
    se_len : forall a b, In a (srcs n_animals vis e) -> In b (dsts n_animals vis e) -> (0 < cand_len2 k a b)%Q;
    (* TIE: the computed score is the ideal field read at the MODELLED cells, along the candidate's
       unit vector, plus the code's penalty, within eps *)
    se_tie : forall a b, In a (srcs n_animals vis e) -> In b (dsts n_animals vis e) ->
      exists s, score k a b = Some s /\
        Rabs (Q2R s - (line_score sigma (segs n_animals vis seg_truth k e) (s_pts k a b) (s_dirx k a b) (s_diry k a b)
                       + s_pen k a b)) <= eps;
    se_nondeg : forall a, In a (both n_animals vis e) -> 0 < len2 (seg_truth k a);
    (* decode accuracy: both peaks of a complete animal within delta (per axis) of the labels *)
    se_near : forall a, In a (both n_animals vis e) ->
      (- delta <= Q2R (c_sx k a) - s_x (seg_truth k a) <= delta /\
       - delta <= Q2R (c_sy k a) - s_y (seg_truth k a) <= delta) /\
      (- delta <= Q2R (c_dx k a) - d_x (seg_truth k a) <= delta /\
       - delta <= Q2R (c_dy k a) - d_y (seg_truth k a) <= delta);
    (* true edges no longer than max_edge_length, nearly parallel to the labelled segment *)
    se_short : forall a, In a (both n_animals vis e) -> (cand_len2 k a a <= M * M)%Q;
    se_par : forall a, In a (both n_animals vis e) ->
      0 <= kappa <= u_x (seg_truth k a) * s_dirx k a a + u_y (seg_truth k a) * s_diry k a a;
    (* WELL SEPARATED: bounding boxes of the labelled segments of two complete animals are
       X + delta + ps/2 apart *)
    se_apart : forall a c, In a (both n_animals vis e) -> In c (both n_animals vis e) -> c <> a ->
      boxes_apart (seg_truth k a) (seg_truth k c) (X + delta + half_cell ps);
    (* CROSS candidates: at most m of the modelled cells come within X of any labelled segment of the
       edge type, none within X of two of them *)
    se_cross : forall a b, In a (srcs n_animals vis e) -> In b (dsts n_animals vis e) -> a <> b ->
      exists near far, Permutation (s_pts k a b) (near ++ far) /\ (length near <= m)%nat /\
        (forall p, In p far -> forall c, In c (both n_animals vis e) -> X * X <= seg_d2 (seg_truth k c) (fst p) (snd p)) /\
        (forall p, In p near -> exists c0, forall c, In c (both n_animals vis e) -> c <> c0 ->
                                           X * X <= seg_d2 (seg_truth k c) (fst p) (snd p))
  }.

  Theorem sampler_gives_geo_edge k e delta X kappa m :
    sampler_edge k e delta X kappa m ->
    geo_edge n_animals vis score sigma eps seg_truth s_pts s_dirx s_diry s_pen k e
             (sample_r2 ps delta) (X * X) kappa (Q2R wt) m npts.
  Proof.
    intro S. destruct (se_grid _ _ _ _ _ _ S) as [Hps [Hh Hw]]. destruct (se_cfg _ _ _ _ _ _ S) as [HM Hwt].
    assert (Hhc := half_cell_nonneg ps Hps).
    constructor.
    - exact (se_sigma _ _ _ _ _ _ S).
    - exact (se_eps _ _ _ _ _ _ S).
    - unfold sample_r2. pose proof (Rle_0_sqr (delta + half_cell ps)) as Q. unfold Rsqr in Q. lra.
    - pose proof (se_X _ _ _ _ _ _ S). nra.
    - exact (se_n _ _ _ _ _ _ S).
    - apply Qle_Rle in Hwt. rewrite Q2R_0 in Hwt. exact Hwt.
    - exact (se_tie _ _ _ _ _ _ S).
    - intros a b Ha Hb. split.
      + apply unit_norm. rewrite cand_len2_R. pose proof (se_len _ _ _ _ _ _ S a b Ha Hb) as L.
        apply Qlt_Rlt in L. rewrite Q2R_0 in L. exact L.
      + apply line_pts_R_length.
    - exact (se_nondeg _ _ _ _ _ _ S).
    - intros a Ha. pose proof (proj1 (both_In n_animals vis score e a) Ha) as [Hs Hd].
      destruct (se_src_in _ _ _ _ _ _ S a Hs) as [B1 B3]. destruct (se_dst_in _ _ _ _ _ _ S a Hd) as [B2 B4].
      destruct (se_near _ _ _ _ _ _ S a Ha) as [[Esx Esy] [Edx Edy]].
      split; [|split].
      + apply penalty_zero; [exact (se_len _ _ _ _ _ _ S a a Hs Hd)|exact HM|exact (se_short _ _ _ _ _ _ S a Ha)].
      + exact (se_par _ _ _ _ _ _ S a Ha).
      + intros p Hp. split.
        * exact (sampled_cell_near_segment _ _ _ _ _ ps h w npts (seg_truth k a) delta p Hps Hh Hw B1 B2 B3 B4
                   (se_nondeg _ _ _ _ _ _ S a Ha) Esx Esy Edx Edy Hp).
        * intros c Hc Hne.
          exact (sampled_cell_far_from_other _ _ _ _ _ ps h w npts (seg_truth k a) (seg_truth k c) delta X p
                   Hps Hh Hw B1 B2 B3 B4 Esx Esy Edx Edy (se_X _ _ _ _ _ _ S) (se_apart _ _ _ _ _ _ S a c Ha Hc Hne) Hp).
    - intros a b Ha Hb Hne. split.
      + split.
        * apply penalty_lower; [exact (se_len _ _ _ _ _ _ S a b Ha Hb)|exact HM|exact Hwt].
        * apply penalty_nonpos. exact Hwt.
      + exact (se_cross _ _ _ _ _ _ S a b Ha Hb Hne).
  Qed.

  (* explicit inequality ==> the separation premise of the reassembly theorems, for the modelled sampler *)
  Theorem sampler_gives_separation k e delta X kappa m :
    sampler_edge k e delta X kappa m ->
    let A := INR (length (both n_animals vis e)) in
    let T := paf_weight sigma (sample_r2 ps delta) * kappa - A * paf_weight sigma (X * X) - eps in
    let C := INR m / INR npts + A * paf_weight sigma (X * X) + eps in
    3 * C + Q2R wt < T -> C < Q2R mls -> Q2R mls <= T ->
    separated n_animals vis score mls k e.
  Proof.
    intros S A T C H1 H2 H3.
    exact (geo_separated n_animals vis score mls sigma eps seg_truth s_pts s_dirx s_diry s_pen k e
             (sample_r2 ps delta) (X * X) kappa (Q2R wt) m npts (sampler_gives_geo_edge k e delta X kappa m S) H1 H2 H3).
  Qed.

  Definition sampler_premise (k : nat) (e : nat * nat) : Prop :=
    exists delta X kappa m,
      sampler_edge k e delta X kappa m /\
      let A := INR (length (both n_animals vis e)) in
      let T := paf_weight sigma (sample_r2 ps delta) * kappa - A * paf_weight sigma (X * X) - eps in
      let C := INR m / INR npts + A * paf_weight sigma (X * X) + eps in
      Q2R mls <= T /\
      ((3 * C + Q2R wt < T /\ C < Q2R mls)
       \/ (exists Tq : Q, C < Q2R Tq <= T /\
             length (true_pairs (srcs n_animals vis e) (dsts n_animals vis e))
             = Nat.min (length (srcs n_animals vis e)) (length (dsts n_animals vis e)))).

  Lemma sampler_premise_geo k e : sampler_premise k e ->
    geo_premise n_animals vis score mls sigma eps seg_truth s_pts s_dirx s_diry s_pen k e.
  Proof.
    intros [delta [X [kappa [m [S [H3 H]]]]]].
    exists (sample_r2 ps delta), (X * X), kappa, (Q2R wt), m, npts.
    split; [exact (sampler_gives_geo_edge k e delta X kappa m S)|]. split; [exact H3|exact H].
  Qed.

  (* rooted-tree skeleton, modelled sampler: the property's groups *)
  Theorem reassembly_from_sampler_tree (r : nat) (matching : nat -> list (nat * nat)) :
    C17.Lemmas.arborescence edges r ->
    (forall k e, nth_error edges k = Some e -> all_finite n_animals vis score k e ->
       optimal (srcs n_animals vis e) (dsts n_animals vis e) (sck score k) (matching k)) ->
    (forall k e, nth_error edges k = Some e -> sampler_premise k e) ->
    forall output : list instance,
    (forall I, In I output ->
       exists p, member p I /\ (forall q, member q I <-> conn edges score mls matching (processed edges) p q) /\
                 (exists q, q <> p /\ member q I)) ->
    (forall p q, adj edges score mls matching (processed edges) p q -> exists I, In I output /\ member p I) ->
    (forall i j I J p, nth_error output i = Some I -> nth_error output j = Some J ->
       member p I -> member p J -> i = j) ->
    reassembled edges n_animals vis all_edges output.
  Proof.
    intros Harb Hopt Hs output H1 H2 H3.
    exact (reassembly_from_geometry_tree edges r n_animals vis score mls matching sigma eps seg_truth s_pts s_dirx s_diry
             s_pen Harb Hopt (fun k e Hk => sampler_premise_geo k e (Hs k e Hk)) output H1 H2 H3).
  Qed.
End SamplerScene.
