(* LineGeoEx.v (C03) — non-vacuity of the scene-level premise of LineGeo.v (sampler_edge) and of the
   explicit inequality: one animal, skeleton 0 -> 1, labels = peaks (0,0) -> (8,0), PAF stride 2 on an
   8 x 8 grid, n_points 3 (cells (0,0), (0,2), (0,4) = positions x = 0, 4, 8), sigma 15, clearance X = 10,
   computed score 1 within 1/20 of the ideal one, max_edge_length 40, dist_penalty_weight 0. *)
From Coq Require Import List ZArith QArith Qabs Bool Arith Lia Lra Psatz Permutation Reals Qreals.
From SV Require Import C03.BottomUp C03.Lemmas C03.SkelLemmas C03.IdealPaf C03.SepLemmas C03.LineGeo.
Import ListNotations.
Open Scope R_scope.

Section SamplerExample.
  Let vis1 : nat -> nat -> bool := fun _ _ => true.
  Let score1 : nat -> nat -> nat -> option Q := fun _ _ _ => Some 1%Q.
  Let edges1 : list (nat * nat) := [(0, 1)%nat].
  Let peak1 : nat -> nat -> Q * Q := fun _ j => match j with O => (0, 0)%Q | _ => (8 # 1, 0)%Q end.
  Let truth1 : nat -> nat -> R * R := fun a j => (Q2R (fst (peak1 a j)), Q2R (snd (peak1 a j))).
  Let g1 : seg := cand_seg edges1 peak1 0 0 0.

  Lemma ex_g1_len : 0 < len2 g1.
  Proof.
    unfold g1. rewrite cand_len2_R. replace 0 with (Q2R 0) by apply Q2R_0. apply Qlt_Rlt. reflexivity.
  Qed.

  Lemma ex_r2 : sample_r2 2 0 = 2.
  Proof. unfold sample_r2. rewrite half_cell_eq. field. Qed.

  Lemma ex_weight_near : 1 - 1 / 100 <= paf_weight 15 (sample_r2 2 0).
  Proof.
    rewrite ex_r2. unfold paf_weight. pose proof (exp_ineq1_le (- (2 * 2) / (2 * 15 * 15))) as H.
    eapply Rle_trans; [|exact H]. lra.
  Qed.

  Lemma ex_in_band : in_band 2 8 0 = false /\ in_band 2 8 (8 # 1) = false.
  Proof. split; reflexivity. Qed.

  Lemma ex_line_score : 1 - 1 / 100 <= line_score 15 [g1] (s_pts edges1 peak1 2 8 8 3 0 0 0) (u_x g1) (u_y g1) <= 1.
  Proof.
    pose proof ex_g1_len as HL. destruct ex_in_band as [I0 I8].
    assert (Z0 : forall x : R, - 0 <= x - x <= 0) by (intro x; lra).
    split.
    - eapply Rle_trans; [exact ex_weight_near|].
      apply (sampled_true_score_bound 15 0 0 (8 # 1) 0 0%Z 2 8 8 3 g1 0); try lra; try lia; try assumption;
        apply Z0.
    - unfold line_score.
      assert (F : forall p, In p (s_pts edges1 peak1 2 8 8 3 0 0 0) ->
                  0 <= field_dot 15 [g1] (fst p) (snd p) (u_x g1) (u_y g1) <= 1).
      { intros p _. split; [apply sampled_vector_dot_nonneg; exact HL|].
        cbn [field_dot]. rewrite (own_paf_dot 15 g1 _ _ HL).
        pose proof (weight_le_1 15 (seg_d2 g1 (fst p) (snd p)) ltac:(lra)). lra. }
      pose proof (line_sum_bounds 15 [g1] _ (u_x g1) (u_y g1) 0 1 F) as [_ LB].
      unfold s_pts in *. rewrite line_pts_R_length in *.
      assert (I3 : INR 3 = 3) by (simpl; ring). rewrite I3 in *. lra.
  Qed.

  Lemma ex_both1 : both 1 vis1 (0, 1)%nat = [0%nat].
  Proof. reflexivity. Qed.

  Lemma ex_sampler_edge :
    sampler_edge 1 vis1 score1 15 (1 / 20) edges1 peak1 truth1 2 8 8 3 40 0 0 (0, 1)%nat 0 10 1 0.
  Proof.
    pose proof ex_g1_len as HL. destruct ex_in_band as [I0 I8].
    assert (Hsrc : forall a, In a (srcs 1 vis1 (0, 1)%nat) -> a = 0%nat).
    { intros a Ha. apply (srcs_In 1 vis1 score1) in Ha. lia. }
    assert (Hdst : forall a, In a (dsts 1 vis1 (0, 1)%nat) -> a = 0%nat).
    { intros a Ha. apply (dsts_In 1 vis1 score1) in Ha. lia. }
    assert (Z0 : forall x : R, - 0 <= x - x <= 0) by (intro x; lra).
    constructor; try lra; try lia.
    - reflexivity.
    - intros a _. split; assumption.
    - intros b _. split; assumption.
    - intros a b _ _. reflexivity.
    - intros a b Ha Hb. rewrite (Hsrc a Ha), (Hdst b Hb). exists 1%Q. split; [reflexivity|].
      assert (P0 : s_pen edges1 peak1 40 0 0 0 0 = 0).
      { unfold s_pen, penalty_R. rewrite Q2R_0. ring. }
      rewrite P0. unfold segs. rewrite ex_both1.
      change (map (seg_truth edges1 truth1 0) [0%nat]) with [g1].
      change (s_dirx edges1 peak1 0 0 0) with (u_x g1). change (s_diry edges1 peak1 0 0 0) with (u_y g1).
      pose proof ex_line_score as [L0 L1].
      replace (Q2R 1) with 1 by (unfold Q2R; simpl; field).
      apply Rabs_le. lra.
    - intros a _. exact HL.
    - intros a _. split; split; apply Z0.
    - intros a _. unfold Qle. simpl. lia.
    - intros a _. change (seg_truth edges1 truth1 0 a) with g1.
      change (s_dirx edges1 peak1 0 a a) with (u_x g1). change (s_diry edges1 peak1 0 a a) with (u_y g1).
      rewrite (unit_norm g1 HL). lra.
    - intros a c Ha Hc Hne. rewrite ex_both1 in Ha, Hc. destruct Ha as [<-|[]]. destruct Hc as [<-|[]]. congruence.
    - intros a b Ha Hb Hne. rewrite (Hsrc a Ha), (Hdst b Hb) in Hne. congruence.
  Qed.

  (* the explicit inequality holds: 3 (w(100) + 1/20) + 0 < (1 - 1/100) - w(100) - 1/20, threshold 3/10 *)
  Lemma ex_sampler_separated : separated 1 vis1 score1 (3 # 10) 0 (0, 1)%nat.
  Proof.
    pose proof ex_weight_small as W. pose proof (weight_pos 15 100) as Wp. pose proof ex_weight_near as Wn.
    assert (Q310 : Q2R (3 # 10) = 3 / 10) by (unfold Q2R; simpl; field).
    apply (sampler_gives_separation 1 vis1 score1 (3 # 10) 15 (1 / 20) edges1 peak1 truth1 2 8 8 3 40 0 0 (0, 1)%nat
             0 10 1 0 ex_sampler_edge);
      rewrite ex_both1; simpl length; rewrite ?Q310, ?Q2R_0; simpl INR;
      replace (10 * 10) with 100 by ring; lra.
  Qed.
End SamplerExample.
Print Assumptions ex_sampler_edge.
Print Assumptions ex_sampler_separated.
