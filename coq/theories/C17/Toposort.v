(* Toposort.v — executable model of sleap_nn.inference.paf_grouping.toposort_edges
   (no proofs in this file).

     edges = [(src, dst) ...]
     dg = nx.DiGraph(edges)                       -- nodes/adjacency in insertion order
     root_ind = next(nx.topological_sort(dg))     -- first in-degree-0 node, insertion order
     sorted_edges = nx.bfs_edges(dg, root_ind)    -- queue BFS, children in insertion order
     return tuple(edges.index(e) for e in sorted_edges)   -- first occurrence

   The model follows the code for every edge list on which the code returns
   (acyclic input; networkx raises on a cycle and the model returns None when
   there is no in-degree-0 node). *)
From Coq Require Import List Arith Bool.
Import ListNotations.

Definition edge := (nat * nat)%type.

Definition edge_eqb (a b : edge) : bool :=
  (fst a =? fst b) && (snd a =? snd b).

Definition memb (x : nat) (l : list nat) : bool := existsb (Nat.eqb x) l.

(* keep the first occurrence of every element *)
Fixpoint dedup_acc (seen l : list nat) : list nat :=
  match l with
  | [] => []
  | x :: t => if memb x seen then dedup_acc seen t else x :: dedup_acc (x :: seen) t
  end.
Definition dedup (l : list nat) : list nat := dedup_acc [] l.

(* nodes in the order nx.DiGraph(edges) inserts them: u then v, edge by edge *)
Definition nodes_in_order (es : list edge) : list nat :=
  dedup (flat_map (fun e => [fst e; snd e]) es).

Definition indeg0 (es : list edge) (v : nat) : bool :=
  negb (existsb (fun e => snd e =? v) es).

Definition root (es : list edge) : option nat :=
  find (indeg0 es) (nodes_in_order es).

(* successors of u in adjacency (edge insertion) order; DiGraph collapses
   repeated edges *)
Definition children (es : list edge) (u : nat) : list nat :=
  dedup (map snd (filter (fun e => fst e =? u) es)).

(* generic_bfs_edges: visited is updated as each child is discovered *)
Fixpoint visit_children (u : nat) (cs visited : list nat)
  : list nat * list edge :=   (* (newly visited in order, emitted edges in order) *)
  match cs with
  | [] => ([], [])
  | c :: t =>
      if memb c visited then visit_children u t visited
      else let '(nv, em) := visit_children u t (c :: visited) in
           (c :: nv, (u, c) :: em)
  end.

Fixpoint bfs (fuel : nat) (es : list edge) (queue visited : list nat)
  : option (list edge) :=
  match queue with
  | [] => Some []
  | u :: q =>
      match fuel with
      | O => None                                  (* out of fuel: excluded by the theorems *)
      | S f =>
          let '(nv, em) := visit_children u (children es u) visited in
          match bfs f es (q ++ nv) (rev nv ++ visited) with
          | None => None
          | Some rest => Some (em ++ rest)
          end
      end
  end.

Fixpoint index_of (e : edge) (es : list edge) : option nat :=
  match es with
  | [] => None
  | x :: t => if edge_eqb e x then Some 0
              else match index_of e t with None => None | Some i => Some (S i) end
  end.

Fixpoint all_some {A} (l : list (option A)) : option (list A) :=
  match l with
  | [] => Some []
  | None :: _ => None
  | Some a :: t => match all_some t with None => None | Some r => Some (a :: r) end
  end.

Definition bfs_edges (es : list edge) : option (list edge) :=
  match root es with
  | None => None
  | Some r => bfs (S (length es)) es [r] [r]
  end.

Definition toposort (es : list edge) : option (list nat) :=
  match bfs_edges es with
  | None => None
  | Some sorted => all_some (map (fun e => index_of e es) sorted)
  end.

(* --- executable statement of the property (used by theorems and as the
       specification side of the correspondence) --- *)

(* every index 0..n-1 exactly once *)
Definition is_perm_of_range (out : list nat) (n : nat) : bool :=
  (length out =? n) && forallb (fun i => memb i out) (seq 0 n).

(* an edge is listed only after the edge leading into its source node
   (edges out of the root have no such edge) *)
Fixpoint parent_before (es : list edge) (r : nat) (seen_dst : list nat) (out : list nat) : bool :=
  match out with
  | [] => true
  | i :: t =>
      match nth_error es i with
      | None => false
      | Some (u, v) =>
          ((u =? r) || memb u seen_dst) && parent_before es r (v :: seen_dst) t
      end
  end.

Definition order_ok (es : list edge) (out : list nat) : bool :=
  match root es with
  | None => false
  | Some r => is_perm_of_range out (length es) && parent_before es r [] out
  end.

(* a boolean recogniser of rooted trees written as edge lists: every node has
   at most one incoming edge, no self loop, and following parents from any
   source reaches a node without parent within |es| steps (acyclic, connected
   to the root), and the parentless node is unique *)
Definition parent_of (es : list edge) (v : nat) : option nat :=
  match find (fun e => snd e =? v) es with Some e => Some (fst e) | None => None end.

Fixpoint climb (fuel : nat) (es : list edge) (v : nat) : option nat :=
  match parent_of es v with
  | None => Some v
  | Some p => match fuel with O => None | S f => climb f es p end
  end.

Fixpoint nodupb (l : list nat) : bool :=
  match l with [] => true | x :: t => negb (memb x t) && nodupb t end.

Definition is_tree (es : list edge) : bool :=
  match es, root es with
  | [], _ => false
  | _, None => false
  | _, Some r =>
      nodupb (map snd es) &&
      forallb (fun e => match climb (length es) es (fst e) with
                        | Some t => t =? r | None => false end) es
  end.
