(* Walk.v (C17) — executable model of the edge order that grouping actually USES
   (no proofs in this file; Toposort.v is unchanged and imported).

   sleap_nn.inference.paf_grouping:

     group_instances_batch(..., sorted_edge_inds, edge_types, ...):
         for sample in range(n_samples):
             group_instances_sample(<data of that sample>, sorted_edge_inds, edge_types, ...)

     group_instances_sample:
         connections = {}                                   -- a NEW dict for every sample
         for edge_ind in sorted_edge_inds:
             connections[edge_types[edge_ind]] = [accepted matches of that edge in the sample]
         assign_connections_to_instances(connections, ...)

     assign_connections_to_instances:
         for edge_type, edge_connections in connections.items():   -- key (insertion) order
             for connection in edge_connections: ...               -- nothing happens for []

   So the order in which a sample's connections are consumed is the key order
   of a Python dict filled in `sorted_edge_inds` order, restricted to the edge
   types that have at least one accepted match in that sample.  Keys are
   `EdgeType(src, dst)`; for a tree-shaped skeleton different edge indices have
   different edge types (theorem `tree_edge_types_distinct`), so the dict is
   modelled with the edge index as the key. *)
From Coq Require Import List Arith Bool.
Import ListNotations.
From SV Require Import C17.Toposort.

(* keys of an insertion-ordered dict after `d[k] = ...`: an existing key keeps
   its place, a new key goes to the end.
   NOTE (review round 4, item 4): the overwrite branch (`x =? k`) is never
   reached on the evaluated path: `toposort` never returns a repeated index, so
   `conn_keys (toposort es) = toposort es` and `walk_sample` is a plain `filter`
   on every input the harness produces (theorem `conn_keys_is_toposort` says so
   for trees).  Only `ex_stale_dict_changes_order` reaches that branch; the
   dict is kept because it is what the code writes, not because the
   correspondence could tell it from a list. *)
Fixpoint dict_set (k : nat) (keys : list nat) : list nat :=
  match keys with
  | [] => [k]
  | x :: t => if x =? k then x :: t else x :: dict_set k t
  end.

(* `connections = {}; for edge_ind in sorted_edge_inds: connections[...] = ...` *)
Definition conn_keys (sorted : list nat) : list nat :=
  fold_left (fun keys i => dict_set i keys) sorted [].

(* one sample, as far as the order is concerned: the indices of the edges that
   have at least one accepted match (line score >= min_line_scores) in it *)
Definition sample := list nat.

(* the edge types whose connections `assign_connections_to_instances` consumes,
   in the order it consumes them *)
Definition walk_sample (sorted : list nat) (present : sample) : list nat :=
  filter (fun i => memb i present) (conn_keys sorted).

(* a batch: `sorted_edge_inds` is computed once (PAFScorer.__attrs_post_init__),
   every sample gets its own dict *)
Definition walk_batch (es : list edge) (samples : list sample) : option (list (list nat)) :=
  match toposort es with
  | None => None
  | Some sorted => Some (map (walk_sample sorted) samples)
  end.

(* --- executable statement of the clause for one sample ------------------- *)

(* index of the edge leading into node u, if any *)
Fixpoint edge_into (es : list edge) (u : nat) (i : nat) : option nat :=
  match es with
  | [] => None
  | e :: t => if snd e =? u then Some i else edge_into t u (S i)
  end.

(* every walked edge whose parent edge is present comes after it *)
Fixpoint walk_parent_before (es : list edge) (present : sample) (seen w : list nat) : bool :=
  match w with
  | [] => true
  | i :: t =>
      match nth_error es i with
      | None => false
      | Some (u, _) =>
          (match edge_into es u 0 with
           | None => true
           | Some j => negb (memb j present) || memb j seen
           end) && walk_parent_before es present (i :: seen) t
      end
  end.

(* complete for the sample (every present edge index, exactly once, nothing
   else) and parent-before-child among the present edges *)
Definition walk_ok (es : list edge) (present : sample) (w : list nat) : bool :=
  nodupb w &&
  forallb (fun i => memb i present && (i <? length es)) w &&
  forallb (fun i => negb (i <? length es) || memb i w) present &&
  walk_parent_before es present [] w.

(* --- evaluation entry point for the harness ------------------------------ *)

(* a skeleton and, per sample of a batch, (edges present, order observed in the
   implementation); result: the model's orders and walk_ok on the observed ones *)
Definition walk_case := (list edge * list (sample * list nat))%type.

Definition run_walk (c : walk_case) : option (list (list nat)) * list bool :=
  (walk_batch (fst c) (map fst (snd c)),
   map (fun po => walk_ok (fst c) (fst po) (snd po)) (snd c)).

(* --- evaluation entry point for the first half (Toposort.v) -------------- *)

(* an edge list and the order the implementation returned for it (None: it
   raised).  Result: the model's order, whether the edge list is inside the
   domain of the theorems (`is_tree`, sound AND complete for `arborescence`:
   `is_tree_spec`), and the property's boolean statement `order_ok` on the
   IMPLEMENTATION's output (`order_ok_spec`).  The harness requires
   `is_tree = true` on every generated tree, `is_tree = false` on every
   polytree, and `order_ok = true` whenever `is_tree = true`. *)
Definition topo_case := (list edge * option (list nat))%type.

Definition run_topo (c : topo_case) : option (list nat) * (bool * bool) :=
  (toposort (fst c),
   (is_tree (fst c),
    match snd c with Some out => order_ok (fst c) out | None => false end)).
