(* WalkLemmas.v (C17) — proofs about the order USED for grouping (model: Walk.v).
   Everything is unbounded: any tree, any numbering, any listing, any batch,
   any set of edges present in a sample. *)
From Coq Require Import List Arith Bool Lia Permutation.
Import ListNotations.
From SV Require Import C17.Toposort C17.Lemmas C17.Walk.

(* ------------------------------------------------------------------ *)
(* The clause for one sample                                           *)

(* `has j = true` : edge j has at least one accepted match in the sample.
   A walked edge whose source is not the root comes strictly after the edge
   leading into its source, whenever that edge is present in the sample. *)
Definition parent_before_child_among (es : list edge) (w : list nat) (r : nat)
           (has : nat -> bool) : Prop :=
  forall k i u v, nth_error w k = Some i -> nth_error es i = Some (u,v) -> u <> r ->
  forall j p, nth_error es j = Some (p,u) -> has j = true ->
  exists k', k' < k /\ nth_error w k' = Some j.

Lemma parent_before_child_among_unfold : forall es w r has,
  parent_before_child_among es w r has =
  (forall k i u v, nth_error w k = Some i -> nth_error es i = Some (u,v) -> u <> r ->
   forall j p, nth_error es j = Some (p,u) -> has j = true ->
   exists k', k' < k /\ nth_error w k' = Some j).
Proof. reflexivity. Qed.

(* ------------------------------------------------------------------ *)
(* Positions in a filtered list                                        *)

Definition cnt {A : Type} (f : A -> bool) (l : list A) (k : nat) : nat :=
  length (filter f (firstn k l)).

Lemma nth_error_filter_pos : forall (A : Type) (f : A -> bool) (l : list A) k x,
  nth_error l k = Some x -> f x = true ->
  nth_error (filter f l) (cnt f l k) = Some x.
Proof.
  intros A f l. unfold cnt. induction l as [|a t IH]; intros k x Hk Hf.
  - destruct k; discriminate.
  - destruct k as [|k1].
    + simpl in Hk. inversion Hk. subst a. simpl. rewrite Hf. reflexivity.
    + simpl in Hk. simpl. destruct (f a) eqn:Ha; simpl.
      * apply IH; assumption.
      * apply IH; assumption.
Qed.

Lemma filter_nth_error_origin : forall (A : Type) (f : A -> bool) (l : list A) m x,
  nth_error (filter f l) m = Some x ->
  exists k, nth_error l k = Some x /\ f x = true /\ m = cnt f l k.
Proof.
  intros A f l. unfold cnt. induction l as [|a t IH]; intros m x Hm.
  - destruct m; discriminate.
  - simpl in Hm. destruct (f a) eqn:Ha.
    + destruct m as [|m1].
      * simpl in Hm. inversion Hm. subst a. exists 0. simpl. auto.
      * simpl in Hm. destruct (IH m1 x Hm) as [k1 [H1 [H2 H3]]].
        exists (S k1). simpl. rewrite Ha. simpl. auto.
    + destruct (IH m x Hm) as [k1 [H1 [H2 H3]]].
      exists (S k1). simpl. rewrite Ha. auto.
Qed.

Lemma cnt_lt : forall (A : Type) (f : A -> bool) (l : list A) k' k x,
  k' < k -> nth_error l k' = Some x -> f x = true -> cnt f l k' < cnt f l k.
Proof.
  intros A f l. unfold cnt. induction l as [|a t IH]; intros k' k x Hlt Hk' Hf.
  - destruct k'; discriminate.
  - destruct k as [|k1]; [lia|]. destruct k' as [|k1'].
    + simpl in Hk'. inversion Hk'. subst a. simpl. rewrite Hf. simpl. lia.
    + simpl in Hk'. simpl. assert (Hlt1 : k1' < k1) by lia.
      specialize (IH k1' k1 x Hlt1 Hk' Hf).
      destruct (f a); simpl; lia.
Qed.

(* ------------------------------------------------------------------ *)
(* Filtering keeps parent-before-child (for any order, any sample)     *)

Lemma filter_keeps_parent_before_child_proof : forall es out r has,
  NoDup (map snd es) -> parent_before_child es out r ->
  parent_before_child_among es (filter has out) r has.
Proof.
  intros es out r has Hnd Hpbc k i u v Hk Hi Hur j p Hj Hhas.
  destruct (filter_nth_error_origin _ has out k i Hk) as [K [HK [Hfi Hkc]]].
  destruct (Hpbc K i u v HK Hi Hur) as [K' [j' [p' [Hlt [HK' Hj']]]]].
  assert (j = j') by (apply (NoDup_snd_index es j j' p p' u Hnd Hj Hj')). subst j'.
  exists (cnt has out K'). split.
  - subst k. apply (cnt_lt _ has out K' K j Hlt HK' Hhas).
  - apply nth_error_filter_pos; assumption.
Qed.

(* ------------------------------------------------------------------ *)
(* The dict of one sample                                              *)

Lemma dict_set_notin : forall k keys, ~ In k keys -> dict_set k keys = keys ++ [k].
Proof.
  intros k keys. induction keys as [|x t IH]; intros Hn; simpl.
  - reflexivity.
  - destruct (x =? k) eqn:E.
    + apply Nat.eqb_eq in E. exfalso. apply Hn. left. exact E.
    + rewrite IH; [reflexivity|]. intros H. apply Hn. right. exact H.
Qed.

Lemma fold_dict_set_nodup : forall l acc, NoDup (acc ++ l) ->
  fold_left (fun keys i => dict_set i keys) l acc = acc ++ l.
Proof.
  induction l as [|a t IH]; intros acc Hnd; simpl.
  - rewrite app_nil_r. reflexivity.
  - assert (Hna : ~ In a acc).
    { apply NoDup_remove_2 in Hnd. intros H. apply Hnd. apply in_or_app. left. exact H. }
    rewrite (dict_set_notin a acc Hna).
    rewrite IH.
    + rewrite <- app_assoc. reflexivity.
    + rewrite <- app_assoc. exact Hnd.
Qed.

(* a dict filled in an order without repetitions has exactly that key order *)
Lemma conn_keys_nodup : forall sorted, NoDup sorted -> conn_keys sorted = sorted.
Proof.
  intros sorted H. unfold conn_keys. rewrite fold_dict_set_nodup; [reflexivity | exact H].
Qed.

(* in a tree-shaped skeleton two different edge indices never carry the same
   EdgeType (src, dst): keying the dict by index is keying it by EdgeType *)
Lemma tree_edge_types_distinct_proof : forall es r i j e, arborescence es r ->
  nth_error es i = Some e -> nth_error es j = Some e -> i = j.
Proof.
  intros es r i j [u v] [_ [Hnd _]] Hi Hj.
  exact (NoDup_snd_index es i j u u v Hnd Hi Hj).
Qed.

(* ------------------------------------------------------------------ *)
(* The batch                                                           *)

Lemma toposort_nodup : forall es r out, arborescence es r -> toposort es = Some out ->
  NoDup out /\ (forall i, In i out <-> i < length es) /\ parent_before_child es out r.
Proof.
  intros es r out Harb Ht.
  destruct (toposort_tree_complete_ordered_proof es r Harb) as [out' [Ht' [Hperm Hpbc]]].
  rewrite Ht in Ht'. inversion Ht'. subst out'. clear Ht'.
  split; [|split].
  - apply (Permutation_NoDup (Permutation_sym Hperm)). apply seq_NoDup.
  - intros i. split.
    + intros H. apply (Permutation_in _ Hperm) in H. apply in_seq in H. lia.
    + intros H. apply (Permutation_in _ (Permutation_sym Hperm)). apply in_seq. lia.
  - exact Hpbc.
Qed.

(* the order used for a sample = sorted_edge_inds filtered to the edges present
   in THAT sample.  Content: `conn_keys out = out`.  (That no other sample of the
   batch has any influence is how Walk.v writes `connections = {}` per sample:
   `walk_batch` is a `map`, so it holds by definition for any edge list; for the
   CODE it is validated by the walk correspondence, not proved.) *)
Lemma walk_batch_filtered_proof : forall es r samples, arborescence es r ->
  exists out, toposort es = Some out /\
    walk_batch es samples =
    Some (map (fun present => filter (fun i => memb i present) out) samples).
Proof.
  intros es r samples Harb.
  destruct (toposort_tree_complete_ordered_proof es r Harb) as [out [Ht _]].
  exists out. split; [exact Ht|].
  unfold walk_batch. rewrite Ht. f_equal.
  apply map_ext. intros present. unfold walk_sample.
  destruct (toposort_nodup es r out Harb Ht) as [Hnd _].
  rewrite (conn_keys_nodup out Hnd). reflexivity.
Qed.

Lemma walk_batch_nth : forall es r samples ws b present w, arborescence es r ->
  walk_batch es samples = Some ws -> nth_error samples b = Some present ->
  nth_error ws b = Some w ->
  exists out, toposort es = Some out /\ w = filter (fun i => memb i present) out.
Proof.
  intros es r samples ws b present w Harb Hwb Hs Hw.
  destruct (walk_batch_filtered_proof es r samples Harb) as [out [Ht Hwb']].
  rewrite Hwb in Hwb'. inversion Hwb'. subst ws. clear Hwb'.
  exists out. split; [exact Ht|].
  rewrite (map_nth_error _ _ _ Hs) in Hw. inversion Hw. reflexivity.
Qed.

(* every edge type that has connections in the sample is walked exactly once,
   and nothing else is *)
Lemma walk_sample_complete_proof : forall es r samples ws b present w, arborescence es r ->
  walk_batch es samples = Some ws -> nth_error samples b = Some present ->
  nth_error ws b = Some w ->
  NoDup w /\ (forall i, In i w <-> In i present /\ i < length es).
Proof.
  intros es r samples ws b present w Harb Hwb Hs Hw.
  destruct (walk_batch_nth es r samples ws b present w Harb Hwb Hs Hw) as [out [Ht Hwe]].
  destruct (toposort_nodup es r out Harb Ht) as [Hnd [Hin _]].
  subst w. split.
  - apply NoDup_filter. exact Hnd.
  - intros i. rewrite filter_In, Hin, memb_true_iff. tauto.
Qed.

Lemma walk_sample_parent_before_child_proof : forall es r samples ws b present w,
  arborescence es r ->
  walk_batch es samples = Some ws -> nth_error samples b = Some present ->
  nth_error ws b = Some w ->
  parent_before_child_among es w r (fun i => memb i present).
Proof.
  intros es r samples ws b present w Harb Hwb Hs Hw.
  destruct (walk_batch_nth es r samples ws b present w Harb Hwb Hs Hw) as [out [Ht Hwe]].
  destruct (toposort_nodup es r out Harb Ht) as [_ [_ Hpbc]].
  subst w. apply filter_keeps_parent_before_child_proof; [|exact Hpbc].
  destruct Harb as [_ [Hnd _]]. exact Hnd.
Qed.

Lemma filter_all_id : forall (A : Type) (f : A -> bool) (l : list A),
  (forall x, In x l -> f x = true) -> filter f l = l.
Proof.
  intros A f l. induction l as [|a t IH]; intros H; simpl.
  - reflexivity.
  - rewrite (H a (or_introl eq_refl)). rewrite IH; [reflexivity|].
    intros x Hx. apply H. right. exact Hx.
Qed.

(* a sample in which every edge has a match is walked in the full order *)
Lemma walk_sample_full_proof : forall es r samples ws b present w, arborescence es r ->
  walk_batch es samples = Some ws -> nth_error samples b = Some present ->
  nth_error ws b = Some w ->
  (forall i, i < length es -> In i present) ->
  toposort es = Some w /\ Permutation w (seq 0 (length es)) /\ parent_before_child es w r.
Proof.
  intros es r samples ws b present w Harb Hwb Hs Hw Hall.
  destruct (walk_batch_nth es r samples ws b present w Harb Hwb Hs Hw) as [out [Ht Hwe]].
  destruct (toposort_nodup es r out Harb Ht) as [_ [Hin _]].
  assert (E : w = out).
  { subst w. apply filter_all_id. intros i Hi.
    apply memb_true_iff. apply Hall. apply Hin. exact Hi. }
  subst w.
  destruct (toposort_tree_complete_ordered_proof es r Harb) as [out' [Ht' [Hperm Hpbc]]].
  rewrite Ht in Ht'. inversion Ht'. subst out'.
  rewrite E at 1. split; [exact Ht|]. rewrite E. split; assumption.
Qed.

(* when an edge (u,v) is consumed, no edge consumed earlier has v as its source
   or as its destination: the ORDERING part of what C08 needs to prove that
   assign_connections_to_instances only meets its cases 1 and 2 (C08 also needs
   one-to-one, in-range matches per edge type, and uses the full-order form
   `toposort_dst_fresh_proof`; nothing consumes this per-sample form) *)
Lemma walk_sample_dst_fresh_proof : forall es r samples ws b present w, arborescence es r ->
  walk_batch es samples = Some ws -> nth_error samples b = Some present ->
  nth_error ws b = Some w ->
  forall k i u v, nth_error w k = Some i -> nth_error es i = Some (u,v) ->
  forall k' j a c, k' < k -> nth_error w k' = Some j -> nth_error es j = Some (a,c) ->
  a <> v /\ c <> v.
Proof.
  intros es r samples ws b present w Harb Hwb Hs Hw k i u v Hk Hi k' j a c Hlt Hk' Hj.
  destruct (walk_batch_nth es r samples ws b present w Harb Hwb Hs Hw) as [out [Ht Hwe]].
  subst w.
  destruct (filter_nth_error_origin _ _ out k i Hk) as [K [HK [Hfi Hkc]]].
  destruct (filter_nth_error_origin _ _ out k' j Hk') as [K' [HK' [Hfj Hkc']]].
  assert (HKlt : K' < K).
  { destruct (lt_eq_lt_dec K' K) as [[H|H]|H]; [exact H | |].
    - subst K'. lia.
    - pose proof (cnt_lt _ (fun i0 => memb i0 present) out K K' i H HK Hfi). lia. }
  exact (toposort_dst_fresh_proof es r out Harb Ht K i u v HK Hi K' j a c HKlt HK' Hj).
Qed.

(* when the edge leading into u has no accepted match in the sample, no matched
   edge leads into u: it is the ONLY edge into u.  Follows from
   `NoDup (map snd es)` alone (`absent_parent_edge_is_only_edge_into_proof`
   below; the binders k i v and the walk are not used); nothing more is proved *)
Lemma walk_sample_parent_absent_proof : forall es r samples ws b present w,
  arborescence es r ->
  walk_batch es samples = Some ws -> nth_error samples b = Some present ->
  nth_error ws b = Some w ->
  forall k i u v, nth_error w k = Some i -> nth_error es i = Some (u,v) ->
  forall j p, nth_error es j = Some (p,u) -> ~ In j present ->
  (forall k' j' a, nth_error w k' = Some j' -> nth_error es j' = Some (a,u) -> False) /\
  (forall j' a, In j' present -> nth_error es j' = Some (a,u) -> False).
Proof.
  intros es r samples ws b present w Harb Hwb Hs Hw k i u v _ _ j p Hj Hnot.
  destruct (walk_sample_complete_proof es r samples ws b present w Harb Hwb Hs Hw) as [_ Hin].
  destruct Harb as [_ [Hnd _]].
  assert (Hany : forall j' a, In j' present -> nth_error es j' = Some (a,u) -> False).
  { intros j' a Hp Hj'.
    assert (j = j') by (apply (NoDup_snd_index es j j' p a u Hnd Hj Hj')). subst j'.
    exact (Hnot Hp). }
  split; [|exact Hany].
  intros k' j' a Hk' Hj'. apply (Hany j' a); [|exact Hj'].
  apply Hin. apply (nth_error_In _ _ Hk').
Qed.

(* ------------------------------------------------------------------ *)
(* The boolean statement walk_ok                                       *)

Lemma edge_into_spec : forall es u i0 j, edge_into es u i0 = Some j ->
  exists p, i0 <= j /\ nth_error es (j - i0) = Some (p,u).
Proof.
  induction es as [|e t IH]; intros u i0 j H; simpl in H.
  - discriminate.
  - destruct (snd e =? u) eqn:E.
    + inversion H. subst j. apply Nat.eqb_eq in E. destruct e as [p q]. simpl in E. subst q.
      exists p. split; [lia|]. rewrite Nat.sub_diag. reflexivity.
    + destruct (IH u (S i0) j H) as [p [Hle Hn]]. exists p. split; [lia|].
      replace (j - i0) with (S (j - S i0)) by lia. simpl. exact Hn.
Qed.

Lemma edge_into_none : forall es u i0, edge_into es u i0 = None ->
  forall j p, nth_error es j = Some (p,u) -> False.
Proof.
  induction es as [|e t IH]; intros u i0 H j p Hj; simpl in H.
  - destruct j; discriminate.
  - destruct (snd e =? u) eqn:E; [discriminate|].
    destruct j as [|j1].
    + simpl in Hj. inversion Hj. subst e. simpl in E. rewrite Nat.eqb_refl in E. discriminate.
    + simpl in Hj. exact (IH u (S i0) H j1 p Hj).
Qed.

Lemma walk_parent_before_sound : forall es present w seen,
  NoDup (map snd es) ->
  walk_parent_before es present seen w = true ->
  forall k i u v, nth_error w k = Some i -> nth_error es i = Some (u,v) ->
  forall j p, nth_error es j = Some (p,u) -> memb j present = true ->
  In j seen \/ exists k', k' < k /\ nth_error w k' = Some j.
Proof.
  intros es present w. induction w as [|x t IH]; intros seen Hnd H k i u v Hk Hi j p Hj Hp.
  - destruct k; discriminate.
  - simpl in H. unfold edge in *. destruct (nth_error es x) as [[ux vx]|] eqn:Hx; [|discriminate].
    apply andb_true_iff in H. destruct H as [H1 H2].
    destruct k as [|k1].
    + simpl in Hk. inversion Hk. subst x. rewrite Hi in Hx. inversion Hx. subst ux vx.
      destruct (edge_into es u 0) as [j0|] eqn:Ej.
      * destruct (edge_into_spec es u 0 j0 Ej) as [p0 [_ Hn]]. rewrite Nat.sub_0_r in Hn.
        assert (j = j0) by (apply (NoDup_snd_index es j j0 p p0 u Hnd Hj Hn)). subst j0.
        rewrite Hp in H1. simpl in H1. left. apply memb_true_iff. exact H1.
      * exfalso. exact (edge_into_none es u 0 Ej j p Hj).
    + simpl in Hk. destruct (IH (x :: seen) Hnd H2 k1 i u v Hk Hi j p Hj Hp) as [Hs|[k' [Hlt Hk']]].
      * destruct Hs as [Hs|Hs].
        -- subst x. right. exists 0. split; [lia | reflexivity].
        -- left. exact Hs.
      * right. exists (S k'). split; [lia | exact Hk'].
Qed.

Lemma walk_ok_sound_proof : forall es present w r, NoDup (map snd es) ->
  walk_ok es present w = true ->
  NoDup w /\ (forall i, In i w <-> In i present /\ i < length es) /\
  parent_before_child_among es w r (fun i => memb i present).
Proof.
  intros es present w r Hnd H. unfold walk_ok in H.
  apply andb_true_iff in H. destruct H as [H H4].
  apply andb_true_iff in H. destruct H as [H H3].
  apply andb_true_iff in H. destruct H as [H1 H2].
  rewrite forallb_forall in H2, H3.
  split; [|split].
  - apply nodupb_NoDup. exact H1.
  - intros i. split.
    + intros Hi. specialize (H2 i Hi). apply andb_true_iff in H2. destruct H2 as [Ha Hb].
      apply memb_true_iff in Ha. apply Nat.ltb_lt in Hb. split; assumption.
    + intros [Ha Hb]. specialize (H3 i Ha). apply orb_true_iff in H3. destruct H3 as [H3|H3].
      * apply negb_true_iff in H3. apply Nat.ltb_ge in H3. unfold edge in *. lia.
      * apply memb_true_iff. exact H3.
  - intros k i u v Hk Hi _ j p Hj Hp.
    destruct (walk_parent_before_sound es present w [] Hnd H4 k i u v Hk Hi j p Hj Hp) as [[]|Hx].
    exact Hx.
Qed.

(* the converse on trees: what the model returns passes the boolean statement *)
Lemma walk_parent_before_complete : forall es present w seen,
  (forall k i, nth_error w k = Some i -> exists u v, nth_error es i = Some (u,v) /\
     forall j p, nth_error es j = Some (p,u) -> memb j present = true ->
     In j seen \/ exists k', k' < k /\ nth_error w k' = Some j) ->
  walk_parent_before es present seen w = true.
Proof.
  intros es present w. induction w as [|x t IH]; intros seen H; simpl.
  - reflexivity.
  - unfold edge in *. destruct (H 0 x eq_refl) as [u [v [Hx Hpar]]]. rewrite Hx.
    apply andb_true_iff. split.
    + destruct (edge_into es u 0) as [j0|] eqn:Ej; [|reflexivity].
      destruct (edge_into_spec es u 0 j0 Ej) as [p0 [_ Hn]]. rewrite Nat.sub_0_r in Hn.
      destruct (memb j0 present) eqn:Hp; [|reflexivity]. simpl.
      destruct (Hpar j0 p0 Hn Hp) as [Hs|[k' [Hlt _]]]; [|lia].
      apply memb_true_iff. exact Hs.
    + apply IH. intros k i Hk.
      destruct (H (S k) i Hk) as [u' [v' [Hi Hpar']]].
      exists u', v'. split; [exact Hi|]. intros j p Hj Hp.
      destruct (Hpar' j p Hj Hp) as [Hs|[k' [Hlt Hk']]].
      * left. right. exact Hs.
      * destruct k' as [|k1'].
        -- simpl in Hk'. inversion Hk'. left. left. reflexivity.
        -- right. exists k1'. split; [lia | exact Hk'].
Qed.

Lemma NoDup_nodupb : forall l, NoDup l -> nodupb l = true.
Proof.
  induction l as [|x t IH]; intros H; simpl.
  - reflexivity.
  - inversion H as [|? ? Hx Ht]. subst. apply andb_true_iff. split.
    + apply negb_true_iff. apply memb_false_iff. exact Hx.
    + apply IH. exact Ht.
Qed.

Lemma walk_batch_ok_proof : forall es r samples ws b present w, arborescence es r ->
  walk_batch es samples = Some ws -> nth_error samples b = Some present ->
  nth_error ws b = Some w -> walk_ok es present w = true.
Proof.
  intros es r samples ws b present w Harb Hwb Hs Hw.
  destruct (walk_sample_complete_proof es r samples ws b present w Harb Hwb Hs Hw) as [Hnd Hin].
  pose proof (walk_sample_parent_before_child_proof es r samples ws b present w Harb Hwb Hs Hw) as Hp.
  assert (Hroot : ~ In r (map snd es)) by (destruct Harb as [_ [_ [Hr _]]]; exact Hr).
  unfold walk_ok. repeat (apply andb_true_iff; split).
  - apply NoDup_nodupb. exact Hnd.
  - apply forallb_forall. intros i Hi. apply Hin in Hi. destruct Hi as [Ha Hb].
    apply andb_true_iff. split; [apply memb_true_iff; exact Ha | apply Nat.ltb_lt; exact Hb].
  - apply forallb_forall. intros i Hi. destruct (i <? length es) eqn:E; [|reflexivity].
    simpl. apply memb_true_iff. apply Hin. split; [exact Hi | apply Nat.ltb_lt; exact E].
  - apply walk_parent_before_complete. intros k i Hk.
    assert (Hlt : i < length es) by (apply Hin; apply (nth_error_In _ _ Hk)).
    destruct (nth_error es i) as [[u v]|] eqn:Hi; [|apply nth_error_None in Hi; lia].
    exists u, v. split; [exact Hi|]. intros j p Hj Hpj. right.
    apply (Hp k i u v Hk Hi) with (p := p); [|exact Hj|exact Hpj].
    intros E. subst u. apply Hroot. change r with (snd (p, r)). apply in_map.
    apply (nth_error_In _ _ Hj).
Qed.

(* ------------------------------------------------------------------ *)
(* Non-vacuity / necessity                                             *)

(* docstring skeleton (root 3, sorted_edge_inds = [1;2;0;3;4]); a batch of four
   samples: the non-leaf edge 1 = (3,2) has no match; everything matched; an
   empty frame; only the two leaf edges under node 2 *)
Lemma walk_batch_example :
  walk_batch [(2,0);(3,2);(3,1);(2,4);(1,5)] [[0;2;3;4]; [0;1;2;3;4]; []; [3;0]] =
  Some [[2;0;3;4]; [1;2;0;3;4]; []; [0;3]].
Proof. vm_compute. reflexivity. Qed.

(* the clause is not true of an arbitrary order: consuming the child edge
   0 = (2,0) before its present parent edge 1 = (3,2) is rejected *)
Lemma walk_ok_rejects_child_first :
  walk_ok [(2,0);(3,2);(3,1);(2,4);(1,5)] [0;1] [0;1] = false /\
  walk_ok [(2,0);(3,2);(3,1);(2,4);(1,5)] [0;1] [1;0] = true /\
  walk_ok [(2,0);(3,2);(3,1);(2,4);(1,5)] [0;1] [1] = false.
Proof. vm_compute. auto. Qed.

(* a dict that is NOT fresh for the sample (keys left over from an earlier
   sample in another order) would not give the sorted order: the freshness of
   `connections = {}` is used *)
Lemma stale_dict_changes_order :
  fold_left (fun keys i => dict_set i keys) [1;2;0;3;4] [0;3] = [0;3;1;2;4].
Proof. vm_compute. reflexivity. Qed.

(* ================================================================== *)
(* Review round 4 additions                                            *)
(* ================================================================== *)

(* ------------------------------------------------------------------ *)
(* item 7: the FULL key order of the dict of a sample (empty lists     *)
(* included) is sorted_edge_inds itself: every edge exactly once,      *)
(* parent before child                                                 *)

Lemma conn_keys_is_toposort_proof : forall es r, arborescence es r ->
  exists out, toposort es = Some out /\ conn_keys out = out /\
              Permutation out (seq 0 (length es)) /\ parent_before_child es out r.
Proof.
  intros es r Harb.
  destruct (toposort_tree_complete_ordered_proof es r Harb) as [out [Ht [Hperm Hpbc]]].
  exists out. split; [exact Ht|]. split; [|split; assumption].
  apply conn_keys_nodup. destruct (toposort_nodup es r out Harb Ht) as [Hnd _]. exact Hnd.
Qed.

(* ------------------------------------------------------------------ *)
(* item 5: what `walk_sample_parent_absent` really rests on: with at   *)
(* most one incoming edge per node, an absent edge into u is the only  *)
(* edge into u, so no present edge leads into u.  Neither toposort nor *)
(* the walk is involved.                                               *)

Lemma absent_parent_edge_is_only_edge_into_proof : forall (es : list edge) present j p u,
  NoDup (map snd es) -> nth_error es j = Some (p,u) -> ~ In j present ->
  forall j' a, In j' present -> nth_error es j' = Some (a,u) -> False.
Proof.
  intros es present j p u Hnd Hj Hnot j' a Hp Hj'.
  assert (j = j') by (apply (NoDup_snd_index es j j' p a u Hnd Hj Hj')). subst j'.
  exact (Hnot Hp).
Qed.

(* ------------------------------------------------------------------ *)
(* item 2: `is_tree` is COMPLETE for the hypothesis of the theorems    *)
(* (with `is_tree_sound_proof`: a decision procedure for it)           *)

Lemma parent_of_None : forall es v, ~ In v (map snd es) -> parent_of es v = None.
Proof.
  intros es v Hn. unfold parent_of.
  destruct (find (fun e : nat * nat => snd e =? v) es) as [[a b]|] eqn:Hf; [|reflexivity].
  apply find_some in Hf. destruct Hf as [Hin Hq]. simpl in Hq. apply Nat.eqb_eq in Hq. subst b.
  exfalso. apply Hn. change v with (snd (a,v)). apply in_map. exact Hin.
Qed.

Lemma climb_root : forall es r f, ~ In r (map snd es) -> climb f es r = Some r.
Proof.
  intros es r f Hr. destruct f; simpl; rewrite (parent_of_None es r Hr); reflexivity.
Qed.

(* the ancestors of a non-root node: distinct destinations, no deeper than the
   node; fuel = their number suffices to climb to the root *)
Lemma climb_chain : forall es r (depth : nat -> nat),
  NoDup (map snd es) -> ~ In r (map snd es) ->
  (forall u v, In (u,v) es -> depth v = S (depth u) /\ (u = r \/ In u (map snd es))) ->
  forall n u, depth u < n -> In u (map snd es) ->
  exists l, NoDup l /\ incl l (map snd es) /\ (forall x, In x l -> depth x <= depth u) /\
            forall f, length l <= f -> climb f es u = Some r.
Proof.
  intros es r depth Hnd Hr Hdepth. induction n as [|n IH]; intros u Hlt Hu; [lia|].
  apply in_map_iff in Hu. destruct Hu as [[p u'] [E Hin]]. simpl in E. subst u'.
  destruct (Hdepth p u Hin) as [Hd Hp].
  pose proof (parent_of_edge es p u Hnd Hin) as Hpar.
  assert (Hu : In u (map snd es)) by (change u with (snd (p,u)); apply in_map; exact Hin).
  destruct Hp as [Hp|Hp].
  - subst p. exists [u]. split; [constructor; [intros []|constructor]|]. split; [|split].
    + intros x [Hx|[]]. subst x. exact Hu.
    + intros x [Hx|[]]. subst x. lia.
    + intros f Hf. simpl in Hf. destruct f as [|f]; [lia|]. simpl. rewrite Hpar.
      apply climb_root. exact Hr.
  - destruct (IH p) as [l [Hl1 [Hl2 [Hl3 Hl4]]]]; [lia | exact Hp |].
    exists (u :: l). split; [|split; [|split]].
    + constructor; [|exact Hl1]. intros Hx. apply Hl3 in Hx. lia.
    + intros x [Hx|Hx]; [subst x; exact Hu | apply Hl2; exact Hx].
    + intros x [Hx|Hx]; [subst x; lia | apply Hl3 in Hx; lia].
    + intros f Hf. simpl in Hf. destruct f as [|f]; [lia|]. simpl. rewrite Hpar.
      apply Hl4. lia.
Qed.

Lemma is_tree_complete_proof : forall es r, arborescence es r -> is_tree es = true.
Proof.
  intros es r Harb. pose proof (arborescence_root es r Harb) as Hroot.
  destruct Harb as [Hne [Hnd [Hr [depth Hdepth]]]].
  unfold is_tree. destruct es as [|e0 t] eqn:Ees; [congruence|]. rewrite <- Ees in *.
  rewrite Hroot. apply andb_true_iff. split; [apply NoDup_nodupb; exact Hnd|].
  apply forallb_forall. intros [u v] Hin. simpl.
  destruct (Hdepth u v Hin) as [_ [Hu|Hu]].
  - subst u. rewrite (climb_root es r _ Hr). apply Nat.eqb_refl.
  - destruct (climb_chain es r depth Hnd Hr Hdepth (S (depth u)) u (Nat.lt_succ_diag_r _) Hu)
      as [l [Hl1 [Hl2 [_ Hl4]]]].
    rewrite (Hl4 (length es)); [apply Nat.eqb_refl|].
    pose proof (NoDup_incl_length Hl1 Hl2) as Hlen. rewrite map_length in Hlen. exact Hlen.
Qed.

Lemma is_tree_iff : forall es, is_tree es = true <-> exists r, arborescence es r.
Proof.
  intros es. split; [apply is_tree_sound_proof|].
  intros [r H]. exact (is_tree_complete_proof es r H).
Qed.

(* ------------------------------------------------------------------ *)
(* item 1: polytrees (an undirected tree with an edge written towards  *)
(* a node that already has a parent) are OUTSIDE `arborescence`, and   *)
(* on them the model (like the code, networkx 3.6.1) returns an        *)
(* INCOMPLETE order                                                    *)

Lemma two_incoming_edges_not_arborescence_proof : forall es r i j a b v,
  nth_error es i = Some (a,v) -> nth_error es j = Some (b,v) -> i <> j ->
  ~ arborescence es r.
Proof.
  intros es r i j a b v Hi Hj Hne [_ [Hnd _]].
  apply Hne. exact (NoDup_snd_index es i j a b v Hnd Hi Hj).
Qed.

Lemma toposort_polytree_incomplete_proof :
  toposort [(0,1);(2,1)] = Some [0] /\
  toposort [(1,0);(1,2);(3,2)] = Some [0;1] /\
  is_tree [(0,1);(2,1)] = false /\
  order_ok [(0,1);(2,1)] [0] = false /\
  (forall r, ~ arborescence [(0,1);(2,1)] r).
Proof.
  split; [vm_compute; reflexivity|]. split; [vm_compute; reflexivity|].
  split; [vm_compute; reflexivity|]. split; [vm_compute; reflexivity|].
  intros r. apply (two_incoming_edges_not_arborescence_proof _ r 0 1 0 2 1); [reflexivity | reflexivity | discriminate].
Qed.

(* ------------------------------------------------------------------ *)
(* item 1, general form: the model returns a COMPLETE order only if no *)
(* node has two incoming edges (BFS discovers every node at most once, *)
(* so the destinations of the emitted edges are distinct).  Holds for  *)
(* every edge list, tree or not.                                       *)

Lemma visit_children_spec : forall u cs visited nv em,
  visit_children u cs visited = (nv, em) ->
  map snd em = nv /\ NoDup nv /\ (forall c, In c nv -> ~ In c visited).
Proof.
  intros u. induction cs as [|c t IH]; intros visited nv em H; simpl in H.
  - inversion H. subst. split; [reflexivity|]. split; [constructor | intros c []].
  - destruct (memb c visited) eqn:E.
    + exact (IH visited nv em H).
    + destruct (visit_children u t (c :: visited)) as [nv' em'] eqn:Hv.
      inversion H. subst nv em. clear H.
      destruct (IH (c :: visited) nv' em' Hv) as [H1 [H2 H3]].
      apply memb_false_iff in E.
      split; [simpl; f_equal; exact H1|]. split.
      * constructor; [|exact H2]. intros Hc. apply (H3 c Hc). left. reflexivity.
      * intros c' [Hc'|Hc']; [subst c'; exact E|].
        intros Hv'. apply (H3 c' Hc'). right. exact Hv'.
Qed.

Lemma bfs_dst_fresh : forall f es q visited out,
  bfs f es q visited = Some out ->
  NoDup (map snd out) /\ (forall v, In v (map snd out) -> ~ In v visited).
Proof.
  induction f as [|f IH]; intros es q visited out H.
  - destruct q; simpl in H; [|discriminate]. inversion H. subst out.
    split; [constructor | intros v []].
  - destruct q as [|u q]; [simpl in H; inversion H; subst out; split; [constructor | intros v []]|].
    rewrite bfs_cons in H.
    destruct (visit_children u (children es u) visited) as [nv em] eqn:Hv.
    destruct (bfs f es (q ++ nv) (rev nv ++ visited)) as [rest|] eqn:Hb; [|discriminate].
    inversion H. subst out. clear H.
    destruct (visit_children_spec _ _ _ _ _ Hv) as [H1 [H2 H3]].
    destruct (IH _ _ _ _ Hb) as [H4 H5].
    unfold edge in *. rewrite map_app, H1. split.
    + apply NoDup_app_intro; [exact H2 | exact H4 |].
      intros x Hx Hx'. apply (H5 x Hx'). apply in_or_app. left. apply -> in_rev. exact Hx.
    + intros v Hvin. apply in_app_or in Hvin. destruct Hvin as [Hvin|Hvin].
      * apply H3. exact Hvin.
      * intros Hvis. apply (H5 v Hvin). apply in_or_app. right. exact Hvis.
Qed.

Lemma nth_seq_id : forall (A : Type) (d : A) (l : list A),
  map (fun i => nth i l d) (seq 0 (length l)) = l.
Proof.
  intros A d. induction l as [|a t IH]; simpl; [reflexivity|].
  f_equal. rewrite <- seq_shift, map_map. exact IH.
Qed.

Lemma index_map_nth : forall (es : list edge) d sorted out,
  map (fun e => index_of e es) sorted = map Some out ->
  map (fun i => nth i es d) out = sorted.
Proof.
  intros es d. induction sorted as [|e t IH]; intros out H; destruct out as [|i o]; simpl in H; try discriminate.
  - reflexivity.
  - inversion H as [[H1 H2]]. simpl. f_equal.
    + apply nth_error_nth. apply index_of_nth. exact H1.
    + apply IH. exact H2.
Qed.

(* the model returns a complete order ONLY IF no node has two incoming edges *)
Lemma toposort_complete_only_if_one_parent_proof : forall es out,
  toposort es = Some out -> Permutation out (seq 0 (length es)) -> NoDup (map snd es).
Proof.
  intros es out Ht Hperm. unfold toposort in Ht.
  destruct (bfs_edges es) as [sorted|] eqn:Hb; [|discriminate].
  apply all_some_Some in Ht.
  pose proof (index_map_nth es (0,0) sorted out Ht) as Hs.
  assert (Hp : Permutation sorted es).
  { rewrite <- Hs. pose proof (Permutation_map (fun i => nth i es (0,0)) Hperm) as Hm.
    unfold edge in *. rewrite (nth_seq_id (nat * nat) (0,0) es) in Hm. exact Hm. }
  unfold bfs_edges in Hb. destruct (root es) as [r|]; [|discriminate].
  destruct (bfs_dst_fresh _ _ _ _ _ Hb) as [Hnd _].
  apply (Permutation_NoDup (Permutation_map snd Hp)). exact Hnd.
Qed.

Lemma two_incoming_edges_incomplete_proof : forall es i j a b v out,
  nth_error es i = Some (a,v) -> nth_error es j = Some (b,v) -> i <> j ->
  toposort es = Some out -> ~ Permutation out (seq 0 (length es)).
Proof.
  intros es i j a b v out Hi Hj Hne Ht Hperm.
  apply Hne. apply (NoDup_snd_index es i j a b v); [|exact Hi|exact Hj].
  exact (toposort_complete_only_if_one_parent_proof es out Ht Hperm).
Qed.
