(* Props.v (C17) — statements only; proofs live in C17/Lemmas.v.

   The predicates `arborescence` and `parent_before_child` are defined in
   C17/Lemmas.v and restated here (`arborescence_def` and
   `parent_before_child_def` below hold by `reflexivity`, so the text
   shown in this file is, up to conversion, the definition the theorems are
   about).

   All theorems are unbounded: no bound on the number of nodes, on the node
   labels, or on the length of the edge list. *)
From Coq Require Import List Arith Bool Permutation.
Import ListNotations.
From SV Require Import C17.Toposort C17.Lemmas.

(* smoke example: the docstring case of the test-suite *)
Example ex_toposort_smoke :
  toposort [(2,0);(3,2);(3,1);(2,4);(1,5)] = Some [1;2;0;3;4].
Proof. exact toposort_smoke. Qed.
Print Assumptions ex_toposort_smoke.

(* --- the predicates, restated ------------------------------------------ *)

(* a tree-shaped skeleton written as an edge list (src, dst) with root r:
   every node has at most one incoming edge, r has none, edges go strictly
   down in depth (acyclic), every source is the root or has a parent edge
   (connected).  Node labels and the order of the edges are arbitrary. *)
Lemma arborescence_def : forall es r,
  arborescence es r =
  (es <> [] /\ NoDup (map snd es) /\ ~ In r (map snd es) /\
   exists depth : nat -> nat, forall u v, In (u,v) es ->
     depth v = S (depth u) /\ (u = r \/ In u (map snd es))).
Proof. exact arborescence_unfold. Qed.
Print Assumptions arborescence_def.

(* `out` lists edge indices; an edge whose source is not the root appears
   strictly after the edge leading into its source *)
Lemma parent_before_child_def : forall es out r,
  parent_before_child es out r =
  (forall k i u v, nth_error out k = Some i -> nth_error es i = Some (u,v) -> u <> r ->
   exists k' j p, k' < k /\ nth_error out k' = Some j /\ nth_error es j = Some (p,u)).
Proof. exact parent_before_child_unfold. Qed.
Print Assumptions parent_before_child_def.

(* the hypothesis is satisfiable: the docstring skeleton, root 3 *)
Example ex_arborescence_nonvacuous :
  arborescence [(2,0);(3,2);(3,1);(2,4);(1,5)] 3.
Proof. exact arborescence_nonvacuous. Qed.
Print Assumptions ex_arborescence_nonvacuous.

(* --- C17, main theorem -------------------------------------------------- *)

(* For every tree-shaped skeleton, however its nodes are numbered and its
   edges are listed, the model of toposort_edges returns (never runs out of
   fuel, never fails to find the root or an index), the returned order
   contains every edge index exactly once, and lists an edge only after the
   edge leading into its source node. *)
Theorem toposort_tree_complete_ordered : forall es r, arborescence es r ->
  exists out, toposort es = Some out /\
              Permutation out (seq 0 (length es)) /\
              parent_before_child es out r.
Proof. exact toposort_tree_complete_ordered_proof. Qed.
Print Assumptions toposort_tree_complete_ordered.

(* the root the model picks (first in-degree-0 node in insertion order) is
   the root of the arborescence *)
Theorem arborescence_root_is_model_root : forall es r,
  arborescence es r -> root es = Some r.
Proof. exact arborescence_root. Qed.
Print Assumptions arborescence_root_is_model_root.

(* --- the executable statement order_ok (Toposort.v) --------------------- *)

(* the boolean checker used on the specification side of the correspondence
   means exactly the Prop-level statement (both directions) *)
Theorem order_ok_sound : forall es out, order_ok es out = true ->
  exists r, root es = Some r /\ Permutation out (seq 0 (length es)) /\
            parent_before_child es out r.
Proof. exact order_ok_sound_proof. Qed.
Print Assumptions order_ok_sound.

Theorem order_ok_spec : forall es out,
  order_ok es out = true <->
  exists r, root es = Some r /\ Permutation out (seq 0 (length es)) /\
            parent_before_child es out r.
Proof. exact order_ok_iff. Qed.
Print Assumptions order_ok_spec.

Corollary toposort_tree_order_ok : forall es r, arborescence es r ->
  exists out, toposort es = Some out /\ order_ok es out = true.
Proof. exact toposort_tree_order_ok_proof. Qed.
Print Assumptions toposort_tree_order_ok.

(* the boolean tree recogniser of Toposort.v implies the hypothesis *)
Theorem is_tree_sound : forall es, is_tree es = true -> exists r, arborescence es r.
Proof. exact is_tree_sound_proof. Qed.
Print Assumptions is_tree_sound.

(* --- corollary used by C08 ---------------------------------------------- *)

(* when edge (u,v) is processed in the returned order, no earlier edge of the
   order has v as its source or as its destination *)
Corollary toposort_dst_fresh : forall es r out, arborescence es r -> toposort es = Some out ->
  forall k i u v, nth_error out k = Some i -> nth_error es i = Some (u,v) ->
  forall k' j a b, k' < k -> nth_error out k' = Some j -> nth_error es j = Some (a,b) ->
  a <> v /\ b <> v.
Proof. exact toposort_dst_fresh_proof. Qed.
Print Assumptions toposort_dst_fresh.
