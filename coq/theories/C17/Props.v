(* Props.v (C17) — statements only; proofs live in C17/Lemmas.v *)
From Coq Require Import List Arith Bool.
Import ListNotations.
From SV Require Import C17.Toposort C17.Lemmas.

(* smoke example: the docstring case of the test-suite *)
Example ex_toposort_smoke :
  toposort [(2,0);(3,2);(3,1);(2,4);(1,5)] = Some [1;2;0;3;4].
Proof. exact toposort_smoke. Qed.
Print Assumptions ex_toposort_smoke.
