(* Props.v (C17) — statements only; proofs live in C17/Lemmas.v.

   The predicates `arborescence` and `parent_before_child` are defined in
   C17/Lemmas.v and restated here (`arborescence_def` and
   `parent_before_child_def` below hold by `reflexivity`, so the text
   shown in this file is, up to conversion, the definition the theorems are
   about).

   All theorems are unbounded: no bound on the number of nodes, on the node
   labels, or on the length of the edge list (and, in the second half, on the
   number of samples of a batch or on which edges have matches in a sample).

   First half: the order `toposort_edges` computes (model Toposort.v).
   Second half: the order USED FOR GROUPING in every sample of a batch
   (model Walk.v: group_instances_batch / group_instances_sample /
   the loop of assign_connections_to_instances). *)
From Coq Require Import List Arith Bool Permutation.
Import ListNotations.
From SV Require Import C17.Toposort C17.Lemmas C17.Walk C17.WalkLemmas.

(* smoke example: the docstring case of the test-suite *)
Example ex_toposort_smoke :
  toposort [(2,0);(3,2);(3,1);(2,4);(1,5)] = Some [1;2;0;3;4].
Proof. exact toposort_smoke. Qed.
Print Assumptions ex_toposort_smoke.

(* --- the predicates, restated ------------------------------------------ *)

(* a tree-shaped skeleton written as an edge list (src, dst) with root r:
   every node has at most one incoming edge, r has none, edges go strictly
   down in depth (acyclic), every source is the root or has a parent edge
   (connected).  Node labels and the order of the edges are arbitrary.
   SCOPE: tree = rooted OUT-tree, every edge directed away from one root (the
   property's quantifier: "rooted labelled trees"; its phrase "THE edge leading
   into its source node" presupposes at most one incoming edge per node).
   Polytrees (undirected trees with an edge written towards a node that already
   has a parent, e.g. [(0,1);(2,1)]) are OUTSIDE: `toposort_polytree_incomplete`. *)
Lemma arborescence_def : forall es r,
  arborescence es r =
  (es <> [] /\ NoDup (map snd es) /\ ~ In r (map snd es) /\
   exists depth : nat -> nat, forall u v, In (u,v) es ->
     depth v = S (depth u) /\ (u = r \/ In u (map snd es))).
Proof. exact arborescence_unfold. Qed.
Print Assumptions arborescence_def.

(* `out` lists edge indices; an edge whose source is not the root appears
   strictly after the edge leading into its source *)
Lemma parent_before_child_def : forall es out r,
  parent_before_child es out r =
  (forall k i u v, nth_error out k = Some i -> nth_error es i = Some (u,v) -> u <> r ->
   exists k' j p, k' < k /\ nth_error out k' = Some j /\ nth_error es j = Some (p,u)).
Proof. exact parent_before_child_unfold. Qed.
Print Assumptions parent_before_child_def.

(* the hypothesis is satisfiable: the docstring skeleton, root 3 *)
Example ex_arborescence_nonvacuous :
  arborescence [(2,0);(3,2);(3,1);(2,4);(1,5)] 3.
Proof. exact arborescence_nonvacuous. Qed.
Print Assumptions ex_arborescence_nonvacuous.

(* --- C17, main theorem -------------------------------------------------- *)

(* For every tree-shaped skeleton, however its nodes are numbered and its
   edges are listed, the model of toposort_edges returns (never runs out of
   fuel, never fails to find the root or an index), the returned order
   contains every edge index exactly once, and lists an edge only after the
   edge leading into its source node. *)
Theorem toposort_tree_complete_ordered : forall es r, arborescence es r ->
  exists out, toposort es = Some out /\
              Permutation out (seq 0 (length es)) /\
              parent_before_child es out r.
Proof. exact toposort_tree_complete_ordered_proof. Qed.
Print Assumptions toposort_tree_complete_ordered.

(* the root the model picks (first in-degree-0 node in insertion order) is
   the root of the arborescence *)
Theorem arborescence_root_is_model_root : forall es r,
  arborescence es r -> root es = Some r.
Proof. exact arborescence_root. Qed.
Print Assumptions arborescence_root_is_model_root.

(* --- the executable statement order_ok (Toposort.v) --------------------- *)

(* the boolean checker means exactly the Prop-level statement (both
   directions).  Since review round 4 the harness EVALUATES it (Walk.run_topo)
   on the implementation's output for every case of the first stream and
   requires `true` whenever `is_tree` is `true`; before, only the Python oracle
   played that role. *)
Theorem order_ok_sound : forall es out, order_ok es out = true ->
  exists r, root es = Some r /\ Permutation out (seq 0 (length es)) /\
            parent_before_child es out r.
Proof. exact order_ok_sound_proof. Qed.
Print Assumptions order_ok_sound.

Theorem order_ok_spec : forall es out,
  order_ok es out = true <->
  exists r, root es = Some r /\ Permutation out (seq 0 (length es)) /\
            parent_before_child es out r.
Proof. exact order_ok_iff. Qed.
Print Assumptions order_ok_spec.

Corollary toposort_tree_order_ok : forall es r, arborescence es r ->
  exists out, toposort es = Some out /\ order_ok es out = true.
Proof. exact toposort_tree_order_ok_proof. Qed.
Print Assumptions toposort_tree_order_ok.

(* the boolean tree recogniser of Toposort.v implies the hypothesis *)
Theorem is_tree_sound : forall es, is_tree es = true -> exists r, arborescence es r.
Proof. exact is_tree_sound_proof. Qed.
Print Assumptions is_tree_sound.

(* ... and is implied by it (fuel |es| of `climb` always suffices: the proper
   ancestors of a node are distinct destinations).  So `is_tree`, which the
   harness evaluates on every case of the first stream (Walk.run_topo: must be
   true on the generated trees, false on the generated polytrees), DECIDES the
   hypothesis of every theorem of this file. *)
Theorem is_tree_complete : forall es r, arborescence es r -> is_tree es = true.
Proof. exact is_tree_complete_proof. Qed.
Print Assumptions is_tree_complete.

Theorem is_tree_spec : forall es, is_tree es = true <-> exists r, arborescence es r.
Proof. exact is_tree_iff. Qed.
Print Assumptions is_tree_spec.

(* --- outside the domain: polytrees --------------------------------------- *)

(* a node with two incoming edges excludes the edge list from the domain,
   whatever the root *)
Theorem two_incoming_edges_not_arborescence : forall es r i j a b v,
  nth_error es i = Some (a,v) -> nth_error es j = Some (b,v) -> i <> j ->
  ~ arborescence es r.
Proof. exact two_incoming_edges_not_arborescence_proof. Qed.
Print Assumptions two_incoming_edges_not_arborescence.

(* ... and, for EVERY edge list (tree or not), the model returns a complete
   order only if no node has two incoming edges: BFS discovers a node once, so
   the emitted edges have distinct destinations.  Hence every polytree (and
   every other skeleton with a two-parent node) gets an incomplete order or
   none: the domain `arborescence` cannot be widened in that direction. *)
Theorem toposort_complete_only_if_one_parent : forall es out,
  toposort es = Some out -> Permutation out (seq 0 (length es)) -> NoDup (map snd es).
Proof. exact toposort_complete_only_if_one_parent_proof. Qed.
Print Assumptions toposort_complete_only_if_one_parent.

Theorem two_incoming_edges_incomplete : forall es i j a b v out,
  nth_error es i = Some (a,v) -> nth_error es j = Some (b,v) -> i <> j ->
  toposort es = Some out -> ~ Permutation out (seq 0 (length es)).
Proof. exact two_incoming_edges_incomplete_proof. Qed.
Print Assumptions two_incoming_edges_incomplete.

(* NEGATIVE example (the witnesses of the two theorems above).  The
   skeleton 0 -> 1 <- 2 is a tree as an undirected graph but not a rooted
   out-tree: node 1 has two incoming edges, nodes 0 and 2 have none.  The model
   returns the INCOMPLETE order [0] (so does the code: networkx 3.6.1
   `toposort_edges` gives (0,), compared on every run by the polytree stream of
   the harness); edge 1 = (2,1) is never put into `connections` and part 2 is
   never grouped.  Second witness: 1 -> 0, 1 -> 2 <- 3 gives [0;1].  Nothing
   between sleap-io `Skeleton` and `PAFScorer` rejects such a skeleton.  They are
   outside this property (`is_tree` = false, no root makes them arborescences),
   and `order_ok` does reject the incomplete order. *)
Theorem toposort_polytree_incomplete :
  toposort [(0,1);(2,1)] = Some [0] /\
  toposort [(1,0);(1,2);(3,2)] = Some [0;1] /\
  is_tree [(0,1);(2,1)] = false /\
  order_ok [(0,1);(2,1)] [0] = false /\
  (forall r, ~ arborescence [(0,1);(2,1)] r).
Proof. exact toposort_polytree_incomplete_proof. Qed.
Print Assumptions toposort_polytree_incomplete.

(* --- corollary used by C08 ---------------------------------------------- *)

(* when edge (u,v) is processed in the returned order, no earlier edge of the
   order has v as its source or as its destination *)
Corollary toposort_dst_fresh : forall es r out, arborescence es r -> toposort es = Some out ->
  forall k i u v, nth_error out k = Some i -> nth_error es i = Some (u,v) ->
  forall k' j a b, k' < k -> nth_error out k' = Some j -> nth_error es j = Some (a,b) ->
  a <> v /\ b <> v.
Proof. exact toposort_dst_fresh_proof. Qed.
Print Assumptions toposort_dst_fresh.

(* ======================================================================== *)
(* The edge order USED FOR GROUPING, per sample of a batch (model: Walk.v)  *)
(* ======================================================================== *)

(* the clause for one sample, restated.  `has j = true`: edge j has at least
   one accepted match in the sample.  A consumed edge whose source is not the
   root comes strictly after the edge leading into its source whenever that
   edge has a match in the sample. *)
Lemma parent_before_child_among_def : forall es w r has,
  parent_before_child_among es w r has =
  (forall k i u v, nth_error w k = Some i -> nth_error es i = Some (u,v) -> u <> r ->
   forall j p, nth_error es j = Some (p,u) -> has j = true ->
   exists k', k' < k /\ nth_error w k' = Some j).
Proof. exact parent_before_child_among_unfold. Qed.
Print Assumptions parent_before_child_among_def.

(* a batch of four samples on the docstring skeleton: a non-leaf edge without
   match, everything matched, an empty frame, two leaf edges only *)
Example ex_walk_batch :
  walk_batch [(2,0);(3,2);(3,1);(2,4);(1,5)] [[0;2;3;4]; [0;1;2;3;4]; []; [3;0]] =
  Some [[2;0;3;4]; [1;2;0;3;4]; []; [0;3]].
Proof. exact walk_batch_example. Qed.

(* the clause is not true of an arbitrary order (child edge 0 before its
   present parent edge 1; a present edge left out) *)
Example ex_walk_ok_rejects :
  walk_ok [(2,0);(3,2);(3,1);(2,4);(1,5)] [0;1] [0;1] = false /\
  walk_ok [(2,0);(3,2);(3,1);(2,4);(1,5)] [0;1] [1;0] = true /\
  walk_ok [(2,0);(3,2);(3,1);(2,4);(1,5)] [0;1] [1] = false.
Proof. exact walk_ok_rejects_child_first. Qed.

(* the model uses that `connections = {}` is a NEW dict for every sample: keys
   left over in another order would not give the sorted order *)
Example ex_stale_dict_changes_order :
  fold_left (fun keys i => dict_set i keys) [1;2;0;3;4] [0;3] = [0;3;1;2;4].
Proof. exact stale_dict_changes_order. Qed.

(* keying the dict by edge index is keying it by EdgeType(src, dst): in a
   tree-shaped skeleton two different indices never carry the same edge type *)
Theorem tree_edge_types_distinct : forall es r i j e, arborescence es r ->
  nth_error es i = Some e -> nth_error es j = Some e -> i = j.
Proof. exact tree_edge_types_distinct_proof. Qed.
Print Assumptions tree_edge_types_distinct.

(* For every tree-shaped skeleton and every batch, the order in which the
   connections of a sample are consumed is sorted_edge_inds (= toposort es)
   restricted to the edges that have a match in THAT sample.  The content of
   the theorem is `conn_keys out = out` (a dict filled in a duplicate-free order
   has that key order).  That no other sample of the batch has any influence is
   NOT proved here: it is how Walk.v models `connections = {}` per sample
   (`walk_batch` is a `map` over the samples, so independence holds by
   definition, for any edge list); that the CODE creates a new dict per sample
   is validated by the walk correspondence only (seeded change m5, self-test
   "cache per skeleton"). *)
Theorem walk_batch_is_filtered_toposort : forall es r samples, arborescence es r ->
  exists out, toposort es = Some out /\
    walk_batch es samples =
    Some (map (fun present => filter (fun i => memb i present) out) samples).
Proof. exact walk_batch_filtered_proof. Qed.
Print Assumptions walk_batch_is_filtered_toposort.

(* the literal clause "the edge order used for grouping contains every edge
   exactly once ...": the FULL key order of the dict `connections` of a sample
   (every edge type, those with an empty connection list included) is
   sorted_edge_inds itself, a permutation of all edge indices, parent before
   child.  (The harness compares only the keys that carry connections.) *)
Theorem conn_keys_is_toposort : forall es r, arborescence es r ->
  exists out, toposort es = Some out /\ conn_keys out = out /\
              Permutation out (seq 0 (length es)) /\ parent_before_child es out r.
Proof. exact conn_keys_is_toposort_proof. Qed.
Print Assumptions conn_keys_is_toposort.

(* every edge type that has connections in the sample is consumed exactly
   once, and nothing else is *)
Theorem walk_sample_complete : forall es r samples ws b present w, arborescence es r ->
  walk_batch es samples = Some ws -> nth_error samples b = Some present ->
  nth_error ws b = Some w ->
  NoDup w /\ (forall i, In i w <-> In i present /\ i < length es).
Proof. exact walk_sample_complete_proof. Qed.
Print Assumptions walk_sample_complete.

(* ... and an edge is consumed only after the edge leading into its source
   node, whenever that edge has a match in the sample *)
Theorem walk_sample_parent_before_child : forall es r samples ws b present w,
  arborescence es r ->
  walk_batch es samples = Some ws -> nth_error samples b = Some present ->
  nth_error ws b = Some w ->
  parent_before_child_among es w r (fun i => memb i present).
Proof. exact walk_sample_parent_before_child_proof. Qed.
Print Assumptions walk_sample_parent_before_child.

(* a sample in which every edge has a match is walked in the full order of the
   main theorem: every edge exactly once, parent before child *)
Theorem walk_sample_full : forall es r samples ws b present w, arborescence es r ->
  walk_batch es samples = Some ws -> nth_error samples b = Some present ->
  nth_error ws b = Some w ->
  (forall i, i < length es -> In i present) ->
  toposort es = Some w /\ Permutation w (seq 0 (length es)) /\ parent_before_child es w r.
Proof. exact walk_sample_full_proof. Qed.
Print Assumptions walk_sample_full.

(* the general fact behind it: restricting ANY parent-before-child order to
   ANY set of edges keeps parent-before-child for the edges whose parent edge
   is in the set *)
Theorem filter_keeps_parent_before_child : forall es out r has,
  NoDup (map snd es) -> parent_before_child es out r ->
  parent_before_child_among es (filter has out) r has.
Proof. exact filter_keeps_parent_before_child_proof. Qed.
Print Assumptions filter_keeps_parent_before_child.

(* "Hence no body part is left ungrouped", the ordering half only: when an edge
   (u,v) is consumed, no edge consumed earlier in that sample has v as its
   source or destination.  This is a PRECONDITION, not the conclusion: C08
   proves that the instances are the connected components of the accepted
   matches from this ordering fact PLUS one-to-one, in-range matches per edge
   type (`matches_one_to_one`, `matches_in_range` of C08's `group_hyps`; two
   connections of one edge type sharing a destination peak reach case 3
   whatever the edge order).  C08 consumes the full-order form
   `toposort_dst_fresh` (through `c17_order_is_edges_ordered`); no theorem uses
   this per-sample form, it documents that filtering keeps the fact. *)
Theorem walk_sample_dst_fresh : forall es r samples ws b present w, arborescence es r ->
  walk_batch es samples = Some ws -> nth_error samples b = Some present ->
  nth_error ws b = Some w ->
  forall k i u v, nth_error w k = Some i -> nth_error es i = Some (u,v) ->
  forall k' j a c, k' < k -> nth_error w k' = Some j -> nth_error es j = Some (a,c) ->
  a <> v /\ c <> v.
Proof. exact walk_sample_dst_fresh_proof. Qed.
Print Assumptions walk_sample_dst_fresh.

(* what is proved when the parent edge has NO match in the sample: the unique
   edge into u has no match, hence no matched edge (consumed or not) leads into
   u.  This rests on `NoDup (map snd es)` alone (general form:
   `absent_parent_edge_is_only_edge_into` below; neither toposort nor the walk
   matters, and the binders k i v are not used).  Reading it as "the part has no
   parent because of the detections, not of the listing" is an interpretation,
   not part of the statement. *)
Theorem walk_sample_parent_absent : forall es r samples ws b present w,
  arborescence es r ->
  walk_batch es samples = Some ws -> nth_error samples b = Some present ->
  nth_error ws b = Some w ->
  forall k i u v, nth_error w k = Some i -> nth_error es i = Some (u,v) ->
  forall j p, nth_error es j = Some (p,u) -> ~ In j present ->
  (forall k' j' a, nth_error w k' = Some j' -> nth_error es j' = Some (a,u) -> False) /\
  (forall j' a, In j' present -> nth_error es j' = Some (a,u) -> False).
Proof. exact walk_sample_parent_absent_proof. Qed.
Print Assumptions walk_sample_parent_absent.

Theorem absent_parent_edge_is_only_edge_into : forall (es : list edge) present j p u,
  NoDup (map snd es) -> nth_error es j = Some (p,u) -> ~ In j present ->
  forall j' a, In j' present -> nth_error es j' = Some (a,u) -> False.
Proof. exact absent_parent_edge_is_only_edge_into_proof. Qed.
Print Assumptions absent_parent_edge_is_only_edge_into.

(* the executable statement walk_ok (Walk.v; evaluated by the harness on the
   order observed in the implementation) means the Prop-level clause, and the
   model's own order passes it *)
Theorem walk_ok_sound : forall es present w r, NoDup (map snd es) ->
  walk_ok es present w = true ->
  NoDup w /\ (forall i, In i w <-> In i present /\ i < length es) /\
  parent_before_child_among es w r (fun i => memb i present).
Proof. exact walk_ok_sound_proof. Qed.
Print Assumptions walk_ok_sound.

Theorem walk_batch_ok : forall es r samples ws b present w, arborescence es r ->
  walk_batch es samples = Some ws -> nth_error samples b = Some present ->
  nth_error ws b = Some w -> walk_ok es present w = true.
Proof. exact walk_batch_ok_proof. Qed.
Print Assumptions walk_batch_ok.
