(* Lemmas.v (C17) — proofs about the executable model in Toposort.v.
   No size bound anywhere: the BFS loop is handled by an invariant and
   induction on the fuel; completeness by induction on the depth of a node. *)
From Coq Require Import List Arith Bool Lia Permutation.
Import ListNotations.
From SV Require Import C17.Toposort.

Lemma toposort_smoke :
  toposort [(2,0);(3,2);(3,1);(2,4);(1,5)] = Some [1;2;0;3;4].
Proof. vm_compute. reflexivity. Qed.

(* ------------------------------------------------------------------ *)
(* Specification predicates                                            *)

(* every node has at most one incoming edge, r has none, edges go strictly
   down in depth (acyclic), every source is the root or has a parent edge
   (connected) *)
Definition arborescence (es : list edge) (r : nat) : Prop :=
  es <> [] /\ NoDup (map snd es) /\ ~ In r (map snd es) /\
  exists depth : nat -> nat, forall u v, In (u,v) es ->
    depth v = S (depth u) /\ (u = r \/ In u (map snd es)).

Definition parent_before_child (es : list edge) (out : list nat) (r : nat) : Prop :=
  forall k i u v, nth_error out k = Some i -> nth_error es i = Some (u,v) -> u <> r ->
  exists k' j p, k' < k /\ nth_error out k' = Some j /\ nth_error es j = Some (p,u).

(* the two definitions, unfolded (Props.v restates them through these) *)
Lemma arborescence_unfold : forall es r,
  arborescence es r =
  (es <> [] /\ NoDup (map snd es) /\ ~ In r (map snd es) /\
   exists depth : nat -> nat, forall u v, In (u,v) es ->
     depth v = S (depth u) /\ (u = r \/ In u (map snd es))).
Proof. reflexivity. Qed.

Lemma parent_before_child_unfold : forall es out r,
  parent_before_child es out r =
  (forall k i u v, nth_error out k = Some i -> nth_error es i = Some (u,v) -> u <> r ->
   exists k' j p, k' < k /\ nth_error out k' = Some j /\ nth_error es j = Some (p,u)).
Proof. reflexivity. Qed.

(* ------------------------------------------------------------------ *)
(* Basic facts about the boolean helpers                               *)

Lemma memb_true_iff : forall x l, memb x l = true <-> In x l.
Proof.
  intros x l. unfold memb. rewrite existsb_exists. split.
  - intros [y [Hy He]]. apply Nat.eqb_eq in He. subst y. exact Hy.
  - intros H. exists x. split; [exact H | apply Nat.eqb_refl].
Qed.

Lemma memb_false_iff : forall x l, memb x l = false <-> ~ In x l.
Proof.
  intros x l. rewrite <- memb_true_iff. destruct (memb x l); split; intros H; congruence.
Qed.

Lemma edge_eqb_eq : forall a b, edge_eqb a b = true <-> a = b.
Proof.
  intros [a1 a2] [b1 b2]. unfold edge_eqb. simpl.
  rewrite andb_true_iff, !Nat.eqb_eq. split.
  - intros [H1 H2]. subst. reflexivity.
  - intros H. inversion H. split; reflexivity.
Qed.

Lemma edge_eqb_refl : forall a, edge_eqb a a = true.
Proof. intros a. apply edge_eqb_eq. reflexivity. Qed.

Lemma NoDup_app_intro : forall (A : Type) (l1 l2 : list A),
  NoDup l1 -> NoDup l2 -> (forall x, In x l1 -> ~ In x l2) -> NoDup (l1 ++ l2).
Proof.
  intros A l1 l2 H1 H2 Hd. induction H1 as [|a l Ha Hl IH]; simpl.
  - exact H2.
  - constructor.
    + intros Hin. apply in_app_or in Hin. destruct Hin as [Hin|Hin].
      * exact (Ha Hin).
      * apply (Hd a); [left; reflexivity | exact Hin].
    + apply IH. intros x Hx. apply Hd. right. exact Hx.
Qed.

Lemma nth_error_Some_lt : forall (A : Type) (l : list A) k x,
  nth_error l k = Some x -> k < length l.
Proof.
  intros A l k x H. apply nth_error_Some. rewrite H. discriminate.
Qed.

(* dedup *)
Lemma dedup_acc_In : forall l seen x,
  In x (dedup_acc seen l) <-> In x l /\ ~ In x seen.
Proof.
  induction l as [|a t IH]; intros seen x; simpl.
  - tauto.
  - destruct (memb a seen) eqn:E.
    + apply memb_true_iff in E. rewrite IH. split.
      * intros [H1 H2]. split; [right; exact H1 | exact H2].
      * intros [[H1|H1] H2]; [subst a; contradiction | split; assumption].
    + apply memb_false_iff in E. simpl. rewrite IH. simpl. split.
      * intros [H1|[H1 H2]].
        -- subst a. split; [left; reflexivity | exact E].
        -- split; [right; exact H1 | intros H; apply H2; right; exact H].
      * intros [[H1|H1] H2].
        -- left. exact H1.
        -- destruct (Nat.eq_dec a x) as [Heq|Hneq]; [left; exact Heq|].
           right. split; [exact H1|]. intros [H|H]; [exact (Hneq H) | exact (H2 H)].
Qed.

Lemma dedup_In : forall l x, In x (dedup l) <-> In x l.
Proof.
  intros l x. unfold dedup. rewrite dedup_acc_In. simpl. tauto.
Qed.

Lemma dedup_acc_id : forall l seen,
  NoDup l -> (forall x, In x l -> ~ In x seen) -> dedup_acc seen l = l.
Proof.
  induction l as [|a t IH]; intros seen Hnd Hs; simpl.
  - reflexivity.
  - inversion Hnd as [|a' t' Ha Ht]; subst.
    assert (E : memb a seen = false).
    { apply memb_false_iff. apply Hs. left. reflexivity. }
    rewrite E. f_equal. apply IH; [exact Ht|].
    intros x Hx [Hax|Hxs].
    + subst x. exact (Ha Hx).
    + apply (Hs x); [right; exact Hx | exact Hxs].
Qed.

Lemma dedup_id : forall l, NoDup l -> dedup l = l.
Proof.
  intros l H. unfold dedup. apply dedup_acc_id; [exact H|]. intros x _ [].
Qed.

Lemma NoDup_map_filter : forall (A B : Type) (g : A -> B) (f : A -> bool) (l : list A),
  NoDup (map g l) -> NoDup (map g (filter f l)).
Proof.
  intros A B g f l. induction l as [|a t IH]; simpl; intros H.
  - constructor.
  - inversion H as [|x y Ha Ht]; subst.
    destruct (f a); simpl.
    + constructor; [|apply IH; exact Ht].
      intros Hin. apply Ha. apply in_map_iff in Hin. destruct Hin as [e [He Hf]].
      apply filter_In in Hf. destruct Hf as [Hf _].
      rewrite <- He. apply in_map. exact Hf.
    + apply IH. exact Ht.
Qed.

Lemma NoDup_snd_unique : forall (l : list edge) p q v,
  NoDup (map snd l) -> In (p,v) l -> In (q,v) l -> p = q.
Proof.
  induction l as [|a t IH]; intros p q v Hnd Hp Hq; simpl in *.
  - contradiction.
  - inversion Hnd as [|x y Ha Ht]; subst.
    destruct Hp as [Hp|Hp]; destruct Hq as [Hq|Hq].
    + congruence.
    + exfalso. apply Ha. subst a. simpl. change v with (snd (q,v)). apply in_map. exact Hq.
    + exfalso. apply Ha. subst a. simpl. change v with (snd (p,v)). apply in_map. exact Hp.
    + apply (IH p q v Ht Hp Hq).
Qed.

Lemma find_first_unique : forall (A : Type) (p : A -> bool) (l : list A) (x : A),
  In x l -> p x = true -> (forall y, In y l -> p y = true -> y = x) ->
  find p l = Some x.
Proof.
  intros A p l x. induction l as [|a t IH]; intros Hin Hpx Hu; simpl.
  - contradiction.
  - destruct (p a) eqn:E.
    + f_equal. apply Hu; [left; reflexivity | exact E].
    + apply IH.
      * destruct Hin as [Hin|Hin]; [subst a; congruence | exact Hin].
      * exact Hpx.
      * intros y Hy. apply Hu. right. exact Hy.
Qed.

Lemma indeg0_true_iff : forall es v, indeg0 es v = true <-> ~ In v (map snd es).
Proof.
  intros es v. unfold indeg0. rewrite negb_true_iff.
  assert (H : existsb (fun e : edge => snd e =? v) es = true <-> In v (map snd es)).
  { rewrite existsb_exists, in_map_iff. split.
    - intros [e [H1 H2]]. exists e. apply Nat.eqb_eq in H2. split; assumption.
    - intros [e [H1 H2]]. exists e. split; [exact H2 | apply Nat.eqb_eq; exact H1]. }
  rewrite <- H. symmetry. apply not_true_iff_false.
Qed.

Lemma nonempty_has_edge : forall l : list edge, l <> [] -> exists u v, In (u,v) l.
Proof.
  intros [|[u v] t] H; [congruence|]. exists u, v. left. reflexivity.
Qed.

Lemma visit_children_fresh : forall u cs visited,
  NoDup cs -> (forall c, In c cs -> ~ In c visited) ->
  visit_children u cs visited = (cs, map (pair u) cs).
Proof.
  intros u. induction cs as [|c t IH]; intros visited Hnd Hf; simpl.
  - reflexivity.
  - inversion Hnd as [|x y Hc Ht]; subst.
    assert (E : memb c visited = false).
    { apply memb_false_iff. apply Hf. left. reflexivity. }
    rewrite E. rewrite IH.
    + reflexivity.
    + exact Ht.
    + intros c' Hc' [H|H].
      * subst c'. exact (Hc Hc').
      * apply (Hf c'); [right; exact Hc' | exact H].
Qed.

Lemma bfs_cons : forall f es u q visited,
  bfs (S f) es (u :: q) visited =
  let '(nv, em) := visit_children u (children es u) visited in
  match bfs f es (q ++ nv) (rev nv ++ visited) with
  | None => None
  | Some rest => Some (em ++ rest)
  end.
Proof. reflexivity. Qed.

(* index_of / all_some *)
Lemma index_of_nth : forall e l i, index_of e l = Some i -> nth_error l i = Some e.
Proof.
  intros e. induction l as [|x t IH]; intros i H; simpl in H.
  - discriminate.
  - destruct (edge_eqb e x) eqn:E.
    + apply edge_eqb_eq in E. inversion H. subst. reflexivity.
    + destruct (index_of e t) as [j|]; [|discriminate].
      inversion H. subst i. simpl. apply IH. reflexivity.
Qed.

Lemma index_of_self_map : forall l, NoDup l ->
  map (fun e => index_of e l) l = map Some (seq 0 (length l)).
Proof.
  induction l as [|x t IH]; intros Hnd.
  - reflexivity.
  - inversion Hnd as [|x' t' Hx Ht]; subst.
    simpl. rewrite edge_eqb_refl. f_equal.
    transitivity (map (fun e => option_map S (index_of e t)) t).
    + apply map_ext_in. intros e He.
      destruct (edge_eqb e x) eqn:E.
      * apply edge_eqb_eq in E. subst e. contradiction.
      * destruct (index_of e t); reflexivity.
    + rewrite <- (map_map (fun e => index_of e t) (option_map S)).
      rewrite (IH Ht). rewrite map_map. rewrite <- seq_shift. rewrite map_map.
      reflexivity.
Qed.

Lemma all_some_map_Some : forall (A : Type) (l : list A), all_some (map Some l) = Some l.
Proof.
  intros A. induction l as [|a t IH]; simpl.
  - reflexivity.
  - rewrite IH. reflexivity.
Qed.

Lemma all_some_Some : forall (A : Type) (l : list (option A)) out,
  all_some l = Some out -> l = map Some out.
Proof.
  intros A. induction l as [|a t IH]; intros out H; simpl in H.
  - inversion H. reflexivity.
  - destruct a as [a|]; [|discriminate].
    destruct (all_some t) as [r|]; [|discriminate].
    inversion H. subst out. simpl. f_equal. apply IH. reflexivity.
Qed.

(* ------------------------------------------------------------------ *)
(* The BFS invariant, for a fixed arborescence                         *)

Section Arb.
  Variable es : list edge.
  Variable r : nat.
  Variable depth : nat -> nat.
  Hypothesis Hne : es <> [].
  Hypothesis Hnd : NoDup (map snd es).
  Hypothesis Hr : ~ In r (map snd es).
  Hypothesis Hdepth : forall u v, In (u,v) es ->
    depth v = S (depth u) /\ (u = r \/ In u (map snd es)).

  Lemma unique_parent : forall p q v, In (p,v) es -> In (q,v) es -> p = q.
  Proof. intros p q v. apply NoDup_snd_unique. exact Hnd. Qed.

  Lemma in_snd_parent : forall (l : list edge) u, In u (map snd l) -> exists p, In (p,u) l.
  Proof.
    intros l u H. apply in_map_iff in H. destruct H as [[p u'] [H1 H2]].
    simpl in H1. subst u'. exists p. exact H2.
  Qed.

  Lemma in_parent_snd : forall (l : list edge) p u, In (p,u) l -> In u (map snd l).
  Proof.
    intros l p u H. change u with (snd (p,u)). apply in_map. exact H.
  Qed.

  Lemma NoDup_es : NoDup es.
  Proof. apply NoDup_map_inv with (f := snd). exact Hnd. Qed.

  Lemma children_eq : forall u,
    children es u = map snd (filter (fun e : edge => fst e =? u) es).
  Proof.
    intros u. unfold children. apply dedup_id. apply NoDup_map_filter. exact Hnd.
  Qed.

  Lemma children_In : forall u c, In c (children es u) <-> In (u,c) es.
  Proof.
    intros u c. rewrite children_eq, in_map_iff. split.
    - intros [[a b] [Hs Hf]]. simpl in Hs. subst b.
      apply filter_In in Hf. destruct Hf as [Hin Hq]. simpl in Hq.
      apply Nat.eqb_eq in Hq. subst a. exact Hin.
    - intros H. exists (u,c). split; [reflexivity|].
      apply filter_In. split; [exact H|]. simpl. apply Nat.eqb_refl.
  Qed.

  Lemma children_NoDup : forall u, NoDup (children es u).
  Proof.
    intros u. rewrite children_eq. apply NoDup_map_filter. exact Hnd.
  Qed.

  (* the root really occurs as a source *)
  Lemma root_has_child_aux : forall n u v,
    depth u < n -> In (u,v) es -> exists w, In (r,w) es.
  Proof.
    induction n as [|n IH]; intros u v Hlt Hin.
    - lia.
    - destruct (Hdepth u v Hin) as [_ [Hu|Hu]].
      + subst u. exists v. exact Hin.
      + destruct (in_snd_parent es u Hu) as [p Hp].
        destruct (Hdepth p u Hp) as [Hd _].
        apply (IH p u); [lia | exact Hp].
  Qed.

  Lemma root_has_child : exists w, In (r,w) es.
  Proof.
    destruct (nonempty_has_edge es Hne) as [u [v Huv]].
    apply (root_has_child_aux (S (depth u)) u v); [lia | exact Huv].
  Qed.

  Lemma root_eq : root es = Some r.
  Proof.
    unfold root. apply find_first_unique.
    - unfold nodes_in_order. rewrite dedup_In. apply in_flat_map.
      destruct root_has_child as [w Hw]. exists (r,w). split; [exact Hw|].
      simpl. left. reflexivity.
    - apply indeg0_true_iff. exact Hr.
    - intros y Hy Hp. apply indeg0_true_iff in Hp.
      unfold nodes_in_order in Hy. rewrite dedup_In in Hy. apply in_flat_map in Hy.
      destruct Hy as [[u v] [He Hy]]. simpl in Hy.
      destruct Hy as [Hy|[Hy|[]]]; subst y.
      + destruct (Hdepth u v He) as [_ [Hu|Hu]]; [exact Hu | contradiction].
      + exfalso. apply Hp. apply (in_parent_snd es u v He).
  Qed.

  Record Inv (done queue visited : list nat) (acc : list edge) : Prop := {
    inv_vis : forall x, In x visited <-> x = r \/ In x (map snd acc);
    inv_nd : NoDup (done ++ queue);
    inv_dq : forall x, In x (done ++ queue) <-> In x visited;
    inv_complete : forall u v, In (u,v) es -> In u done -> In (u,v) acc;
    inv_sound : forall u v, In (u,v) acc -> In (u,v) es /\ In u done;
    inv_acc_nd : NoDup (map snd acc);
    inv_ord : forall k u v, nth_error acc k = Some (u,v) -> u <> r ->
              exists k' p, k' < k /\ nth_error acc k' = Some (p,u)
  }.

  Lemma Inv_init : Inv [] [r] [r] [].
  Proof.
    constructor; simpl.
    - intros x. split; [intros [H|[]]; left; symmetry; exact H | intros [H|[]]; left; symmetry; exact H].
    - constructor; [intros [] | constructor].
    - intros x. tauto.
    - intros u v _ [].
    - intros u v [].
    - constructor.
    - intros k u v H. destruct k; discriminate.
  Qed.

  Lemma Inv_acc_length : forall done queue visited acc,
    Inv done queue visited acc -> length acc <= length es.
  Proof.
    intros done queue visited acc I. apply NoDup_incl_length.
    - apply NoDup_map_inv with (f := snd). exact (inv_acc_nd _ _ _ _ I).
    - intros [u v] H. exact (proj1 (inv_sound _ _ _ _ I u v H)).
  Qed.

  Lemma Inv_fresh : forall done u q visited acc,
    Inv done (u :: q) visited acc ->
    forall c, In c (children es u) -> ~ In c visited.
  Proof.
    intros done u q visited acc I c Hc Hv.
    apply children_In in Hc.
    apply (inv_vis _ _ _ _ I) in Hv. destruct Hv as [Hv|Hv].
    - subst c. apply Hr. apply (in_parent_snd es u r Hc).
    - destruct (in_snd_parent acc c Hv) as [p Hp].
      destruct (inv_sound _ _ _ _ I p c Hp) as [Hpe Hpd].
      assert (p = u) by (apply (unique_parent p u c); assumption). subst p.
      apply (NoDup_remove_2 _ _ _ (inv_nd _ _ _ _ I)).
      apply in_or_app. left. exact Hpd.
  Qed.

  Lemma Inv_step : forall done u q visited acc,
    Inv done (u :: q) visited acc ->
    Inv (done ++ [u]) (q ++ children es u) (rev (children es u) ++ visited)
        (acc ++ map (pair u) (children es u)).
  Proof.
    intros done u q visited acc I.
    pose proof (Inv_fresh _ _ _ _ _ I) as Hfresh.
    set (cs := children es u) in *.
    assert (Hms : @map edge nat snd (map (pair u) cs) = cs).
    { rewrite map_map. simpl. apply map_id. }
    assert (Hre : (done ++ [u]) ++ q ++ cs = (done ++ u :: q) ++ cs).
    { rewrite <- !app_assoc. reflexivity. }
    assert (Hu_vis : In u visited).
    { apply (inv_dq _ _ _ _ I). apply in_or_app. right. left. reflexivity. }
    constructor.
    - intros x. rewrite in_app_iff, <- in_rev, map_app, in_app_iff, Hms.
      rewrite (inv_vis _ _ _ _ I). tauto.
    - rewrite Hre. apply NoDup_app_intro.
      + exact (inv_nd _ _ _ _ I).
      + apply children_NoDup.
      + intros x Hx Hc. apply (Hfresh x Hc). apply (inv_dq _ _ _ _ I). exact Hx.
    - intros x. rewrite Hre.
      rewrite (in_app_iff (done ++ u :: q) cs), (in_app_iff (rev cs) visited), <- in_rev.
      rewrite (inv_dq _ _ _ _ I). tauto.
    - intros a b Hab Ha. apply in_or_app. apply in_app_or in Ha.
      destruct Ha as [Ha|[Ha|[]]].
      + left. apply (inv_complete _ _ _ _ I); assumption.
      + subst a. right. apply in_map. apply children_In. exact Hab.
    - intros a b Hab. apply in_app_or in Hab. destruct Hab as [Hab|Hab].
      + destruct (inv_sound _ _ _ _ I a b Hab) as [H1 H2].
        split; [exact H1 | apply in_or_app; left; exact H2].
      + apply in_map_iff in Hab. destruct Hab as [c [Hc1 Hc2]].
        inversion Hc1. subst a b. split.
        * apply children_In. exact Hc2.
        * apply in_or_app. right. left. reflexivity.
    - rewrite map_app, Hms. apply NoDup_app_intro.
      + exact (inv_acc_nd _ _ _ _ I).
      + apply children_NoDup.
      + intros x Hx Hc. apply (Hfresh x Hc). apply (inv_vis _ _ _ _ I). right. exact Hx.
    - intros k a b Hk Har.
      destruct (Nat.lt_ge_cases k (length acc)) as [Hlt|Hge].
      + rewrite nth_error_app1 in Hk by exact Hlt.
        destruct (inv_ord _ _ _ _ I k a b Hk Har) as [k' [p [Hk' Hp]]].
        exists k', p. split; [exact Hk'|].
        rewrite nth_error_app1 by lia. exact Hp.
      + rewrite nth_error_app2 in Hk by exact Hge.
        apply nth_error_In in Hk. apply in_map_iff in Hk.
        destruct Hk as [c [Hc1 Hc2]]. inversion Hc1. subst a b.
        apply (inv_vis _ _ _ _ I) in Hu_vis. destruct Hu_vis as [Hur|Hua]; [contradiction|].
        destruct (in_snd_parent acc u Hua) as [p Hp].
        apply In_nth_error in Hp. destruct Hp as [k' Hk'].
        exists k', p.
        assert (k' < length acc) by (exact (nth_error_Some_lt _ _ _ _ Hk')).
        split; [lia|]. rewrite nth_error_app1 by assumption. exact Hk'.
  Qed.

  Lemma bfs_inv : forall fuel done queue visited acc,
    Inv done queue visited acc ->
    length queue + length es <= fuel + length acc ->
    exists rest done' visited',
      bfs fuel es queue visited = Some rest /\ Inv done' [] visited' (acc ++ rest).
  Proof.
    induction fuel as [|f IH]; intros done queue visited acc I Hlen;
      pose proof (Inv_acc_length _ _ _ _ I) as Hacc;
      destruct queue as [|u q].
    - exists [], done, visited. simpl. rewrite app_nil_r. split; [reflexivity | exact I].
    - simpl in Hlen. lia.
    - exists [], done, visited. simpl. rewrite app_nil_r. split; [reflexivity | exact I].
    - rewrite bfs_cons.
      rewrite (visit_children_fresh u (children es u) visited
                 (children_NoDup u) (Inv_fresh _ _ _ _ _ I)).
      pose proof (Inv_step _ _ _ _ _ I) as I'.
      destruct (IH _ _ _ _ I') as [rest [d' [v' [Hb Hinv]]]].
      { rewrite !app_length, map_length. simpl in Hlen. lia. }
      rewrite Hb. exists (map (pair u) (children es u) ++ rest), d', v'.
      split; [reflexivity|]. rewrite app_assoc. exact Hinv.
  Qed.

  (* what the finished loop has produced *)
  Definition sorted_spec (sorted : list edge) : Prop :=
    Permutation sorted es /\
    forall k u v, nth_error sorted k = Some (u,v) -> u <> r ->
      exists k' p, k' < k /\ nth_error sorted k' = Some (p,u).

  Lemma Inv_final_complete : forall done visited sorted,
    Inv done [] visited sorted ->
    forall n u v, depth u < n -> In (u,v) es -> In (u,v) sorted.
  Proof.
    intros done visited sorted I.
    assert (Hdone : forall x, (x = r \/ In x (map snd sorted)) -> In x done).
    { intros x Hx. apply (inv_vis _ _ _ _ I) in Hx. apply (inv_dq _ _ _ _ I) in Hx.
      rewrite app_nil_r in Hx. exact Hx. }
    induction n as [|n IH]; intros u v Hlt Hin.
    - lia.
    - apply (inv_complete _ _ _ _ I u v Hin). apply Hdone.
      destruct (Hdepth u v Hin) as [_ [Hu|Hu]].
      + left. exact Hu.
      + right. destruct (in_snd_parent es u Hu) as [p Hp].
        destruct (Hdepth p u Hp) as [Hd _].
        apply (in_parent_snd sorted p u). apply (IH p u); [lia | exact Hp].
  Qed.

  Lemma bfs_edges_spec : exists sorted, bfs_edges es = Some sorted /\ sorted_spec sorted.
  Proof.
    unfold bfs_edges. rewrite root_eq.
    destruct (bfs_inv (S (length es)) [] [r] [r] [] Inv_init) as [rest [d' [v' [Hb I]]]].
    { simpl. lia. }
    simpl in I. exists rest. split; [exact Hb|]. split.
    - apply NoDup_Permutation.
      + apply NoDup_map_inv with (f := snd). exact (inv_acc_nd _ _ _ _ I).
      + exact NoDup_es.
      + intros [u v]. split.
        * intros H. exact (proj1 (inv_sound _ _ _ _ I u v H)).
        * intros H. apply (Inv_final_complete _ _ _ I (S (depth u)) u v); [lia | exact H].
    - exact (inv_ord _ _ _ _ I).
  Qed.

  Lemma toposort_arb :
    exists out, toposort es = Some out /\ Permutation out (seq 0 (length es)) /\
                parent_before_child es out r.
  Proof.
    destruct bfs_edges_spec as [sorted [Hb [Hperm Hord]]].
    unfold toposort. rewrite Hb.
    pose proof (Permutation_map (fun e => index_of e es) Hperm) as HP.
    rewrite (index_of_self_map es NoDup_es) in HP.
    apply Permutation_map_inv in HP. destruct HP as [out [Hmap Hpo]].
    exists out. rewrite Hmap. split; [apply all_some_map_Some|].
    split; [apply Permutation_sym; exact Hpo|].
    intros k i u v Hk Hi Hur.
    assert (Hnth : forall k0, option_map (fun e => index_of e es) (nth_error sorted k0)
                              = option_map Some (nth_error out k0)).
    { intros k0. rewrite <- !nth_error_map. rewrite Hmap. reflexivity. }
    pose proof (Hnth k) as Hk1. rewrite Hk in Hk1. simpl in Hk1.
    destruct (nth_error sorted k) as [e|] eqn:He; [|discriminate].
    simpl in Hk1. inversion Hk1 as [Hidx]. apply index_of_nth in Hidx.
    rewrite Hi in Hidx. inversion Hidx. subst e.
    destruct (Hord k u v He Hur) as [k' [p [Hlt Hp]]].
    pose proof (Hnth k') as Hk2. rewrite Hp in Hk2. simpl in Hk2.
    destruct (nth_error out k') as [j|] eqn:Hj; [|discriminate].
    simpl in Hk2. inversion Hk2 as [Hidx2]. apply index_of_nth in Hidx2.
    exists k', j, p. split; [exact Hlt|]. split; [exact Hj | exact Hidx2].
  Qed.

End Arb.

Theorem toposort_tree_complete_ordered_proof : forall es r, arborescence es r ->
  exists out, toposort es = Some out /\ Permutation out (seq 0 (length es)) /\
              parent_before_child es out r.
Proof.
  intros es r [Hne [Hnd [Hr [depth Hdepth]]]].
  exact (toposort_arb es r depth Hne Hnd Hr Hdepth).
Qed.

Lemma arborescence_root : forall es r, arborescence es r -> root es = Some r.
Proof.
  intros es r [Hne [Hnd [Hr [depth Hdepth]]]].
  apply (root_eq es r depth); assumption.
Qed.

(* ------------------------------------------------------------------ *)
(* Freshness of the destination (used by C08)                          *)

Lemma NoDup_nth_error_inj : forall (A : Type) (l : list A) i j x,
  NoDup l -> nth_error l i = Some x -> nth_error l j = Some x -> i = j.
Proof.
  intros A l i j x Hnd Hi Hj.
  apply (proj1 (NoDup_nth_error l) Hnd).
  - exact (nth_error_Some_lt _ _ _ _ Hi).
  - rewrite Hi, Hj. reflexivity.
Qed.

Lemma NoDup_snd_index : forall (es : list edge) i j u a v,
  NoDup (map snd es) -> nth_error es i = Some (u,v) -> nth_error es j = Some (a,v) -> i = j.
Proof.
  intros es i j u a v Hnd Hi Hj.
  apply (NoDup_nth_error_inj _ (map snd es) i j v Hnd).
  - exact (map_nth_error snd _ _ Hi).
  - exact (map_nth_error snd _ _ Hj).
Qed.

Lemma toposort_dst_fresh_proof : forall es r out, arborescence es r -> toposort es = Some out ->
  forall k i u v, nth_error out k = Some i -> nth_error es i = Some (u,v) ->
  forall k' j a b, k' < k -> nth_error out k' = Some j -> nth_error es j = Some (a,b) ->
  a <> v /\ b <> v.
Proof.
  intros es r out Harb Ht k i u v Hk Hi k' j a b Hlt Hk' Hj.
  destruct (toposort_tree_complete_ordered_proof es r Harb) as [out' [Ht' [Hperm Hpbc]]].
  rewrite Ht in Ht'. inversion Ht'. subst out'. clear Ht'.
  destruct Harb as [Hne [Hnd [Hr _]]].
  assert (Hndo : NoDup out).
  { apply (Permutation_NoDup (Permutation_sym Hperm)). apply seq_NoDup. }
  split.
  - intros Hav. subst a.
    assert (Hvr : v <> r).
    { intros E. subst v. apply Hr. change r with (snd (u,r)). apply in_map.
      apply (nth_error_In _ _ Hi). }
    destruct (Hpbc k' j v b Hk' Hj Hvr) as [k'' [j' [p [Hlt' [Hk'' Hj']]]]].
    assert (i = j') by (apply (NoDup_snd_index es i j' u p v Hnd Hi Hj')). subst j'.
    assert (k = k'') by (apply (NoDup_nth_error_inj _ out k k'' i Hndo Hk Hk'')).
    lia.
  - intros Hbv. subst b.
    assert (i = j) by (apply (NoDup_snd_index es i j u a v Hnd Hi Hj)). subst j.
    assert (k = k') by (apply (NoDup_nth_error_inj _ out k k' i Hndo Hk Hk')).
    lia.
Qed.

(* ------------------------------------------------------------------ *)
(* The boolean statement order_ok agrees with the Prop-level statement *)

Definition pb_spec (es : list edge) (r : nat) (seen out : list nat) : Prop :=
  forall k i, nth_error out k = Some i ->
    exists u v, nth_error es i = Some (u,v) /\
      (u = r \/ In u seen \/
       exists k' j p, k' < k /\ nth_error out k' = Some j /\ nth_error es j = Some (p,u)).

Lemma parent_before_complete : forall es r out seen,
  pb_spec es r seen out -> parent_before es r seen out = true.
Proof.
  intros es r. induction out as [|i t IH]; intros seen H; simpl.
  - reflexivity.
  - destruct (H 0 i eq_refl) as [u [v [Hi Hc]]]. rewrite Hi.
    apply andb_true_iff. split.
    + apply orb_true_iff. destruct Hc as [Hc|[Hc|Hc]].
      * left. apply Nat.eqb_eq. exact Hc.
      * right. apply memb_true_iff. exact Hc.
      * destruct Hc as [k' [j [p [Hlt _]]]]. lia.
    + apply IH. intros k i' Hk.
      destruct (H (S k) i' Hk) as [u' [v' [Hi' Hc']]].
      exists u', v'. split; [exact Hi'|].
      destruct Hc' as [Hc'|[Hc'|Hc']].
      * left. exact Hc'.
      * right. left. right. exact Hc'.
      * destruct Hc' as [k' [j [p [Hlt [Hk' Hj]]]]].
        destruct k' as [|k'']; simpl in Hk'.
        -- inversion Hk'. subst j. rewrite Hi in Hj. inversion Hj. subst.
           right. left. left. reflexivity.
        -- right. right. exists k'', j, p. split; [lia|]. split; assumption.
Qed.

Lemma parent_before_sound : forall es r out seen,
  parent_before es r seen out = true -> pb_spec es r seen out.
Proof.
  intros es r. induction out as [|i t IH]; intros seen H k i' Hk.
  - destruct k; discriminate.
  - simpl in H. destruct (nth_error es i) as [[u v]|] eqn:Hi; [|discriminate].
    apply andb_true_iff in H. destruct H as [H1 H2].
    destruct k as [|k]; simpl in Hk.
    + inversion Hk. subst i'. exists u, v. split; [exact Hi|].
      apply orb_true_iff in H1. destruct H1 as [H1|H1].
      * left. apply Nat.eqb_eq. exact H1.
      * right. left. apply memb_true_iff. exact H1.
    + destruct (IH _ H2 k i' Hk) as [u' [v' [Hi' Hc]]].
      exists u', v'. split; [exact Hi'|].
      destruct Hc as [Hc|[[Hc|Hc]|Hc]].
      * left. exact Hc.
      * subst u'. right. right. exists 0, i, u. split; [lia|]. split; [reflexivity | exact Hi].
      * right. left. exact Hc.
      * destruct Hc as [k' [j [p [Hlt [Hk' Hj]]]]].
        right. right. exists (S k'), j, p. split; [lia|]. split; assumption.
Qed.

Lemma is_perm_of_range_iff : forall out n,
  is_perm_of_range out n = true <-> Permutation out (seq 0 n).
Proof.
  intros out n. unfold is_perm_of_range. rewrite andb_true_iff, Nat.eqb_eq, forallb_forall.
  split.
  - intros [Hlen Hall].
    assert (Hincl : incl (seq 0 n) out).
    { intros x Hx. apply memb_true_iff. apply Hall. exact Hx. }
    assert (Hle : length out <= length (seq 0 n)) by (rewrite seq_length; lia).
    apply NoDup_Permutation.
    + apply NoDup_incl_NoDup with (l := seq 0 n); [apply seq_NoDup | exact Hle | exact Hincl].
    + apply seq_NoDup.
    + intros x. split.
      * apply NoDup_length_incl; [apply seq_NoDup | exact Hle | exact Hincl].
      * apply Hincl.
  - intros HP. split.
    + rewrite (Permutation_length HP). apply seq_length.
    + intros x Hx. apply memb_true_iff.
      apply (Permutation_in x (Permutation_sym HP) Hx).
Qed.

Lemma order_ok_iff : forall es out,
  order_ok es out = true <->
  exists r, root es = Some r /\ Permutation out (seq 0 (length es)) /\
            parent_before_child es out r.
Proof.
  intros es out. unfold order_ok. split.
  - destruct (root es) as [r|]; [|discriminate].
    intros H. apply andb_true_iff in H. destruct H as [H1 H2].
    exists r. split; [reflexivity|]. split; [apply is_perm_of_range_iff; exact H1|].
    intros k i u v Hk Hi Hur.
    destruct (parent_before_sound es r out [] H2 k i Hk) as [u' [v' [Hi' Hc]]].
    rewrite Hi in Hi'. inversion Hi'. subst u' v'.
    destruct Hc as [Hc|[[]|Hc]]; [contradiction | exact Hc].
  - intros [r [Hroot [HP Hpbc]]]. rewrite Hroot.
    apply andb_true_iff. split; [apply is_perm_of_range_iff; exact HP|].
    apply parent_before_complete. intros k i Hk.
    assert (Hin : In i (seq 0 (length es))).
    { apply (Permutation_in i HP). apply (nth_error_In _ _ Hk). }
    apply in_seq in Hin.
    destruct (nth_error es i) as [[u v]|] eqn:Hi.
    + exists u, v. split; [reflexivity|].
      destruct (Nat.eq_dec u r) as [E|E]; [left; exact E|].
      right. right. exact (Hpbc k i u v Hk Hi E).
    + exfalso. apply nth_error_None in Hi. lia.
Qed.

Lemma order_ok_sound_proof : forall es out, order_ok es out = true ->
  exists r, root es = Some r /\ Permutation out (seq 0 (length es)) /\
            parent_before_child es out r.
Proof. intros es out. apply order_ok_iff. Qed.

Lemma toposort_tree_order_ok_proof : forall es r, arborescence es r ->
  exists out, toposort es = Some out /\ order_ok es out = true.
Proof.
  intros es r Harb.
  destruct (toposort_tree_complete_ordered_proof es r Harb) as [out [Ht [HP Hpbc]]].
  exists out. split; [exact Ht|]. apply order_ok_iff.
  exists r. split; [exact (arborescence_root es r Harb)|]. split; assumption.
Qed.

(* ------------------------------------------------------------------ *)
(* The boolean tree recogniser implies the hypothesis of the theorem   *)

Lemma nodupb_NoDup : forall l, nodupb l = true -> NoDup l.
Proof.
  induction l as [|x t IH]; simpl; intros H.
  - constructor.
  - apply andb_true_iff in H. destruct H as [H1 H2].
    apply negb_true_iff in H1. apply memb_false_iff in H1.
    constructor; [exact H1 | apply IH; exact H2].
Qed.

Lemma parent_of_edge : forall es u v,
  NoDup (map snd es) -> In (u,v) es -> parent_of es v = Some u.
Proof.
  intros es u v Hnd Hin. unfold parent_of.
  rewrite (find_first_unique _ (fun e : nat * nat => snd e =? v) es (u,v)).
  - reflexivity.
  - exact Hin.
  - simpl. apply Nat.eqb_refl.
  - intros [q w] Hy Hp. simpl in Hp. apply Nat.eqb_eq in Hp. subst w.
    f_equal. apply (NoDup_snd_unique es q u v Hnd Hy Hin).
Qed.

Lemma parent_of_Some : forall es v p, parent_of es v = Some p -> In (p,v) es.
Proof.
  intros es v p H. unfold parent_of in H.
  destruct (find (fun e : nat * nat => snd e =? v) es) as [[a b]|] eqn:Hf; [|discriminate].
  apply find_some in Hf. destruct Hf as [Hin Hq]. simpl in Hq, H.
  apply Nat.eqb_eq in Hq. inversion H. subst. exact Hin.
Qed.

Fixpoint climb_len (fuel : nat) (es : list edge) (v : nat) : nat :=
  match parent_of es v with
  | None => 0
  | Some p => match fuel with O => 0 | S f => S (climb_len f es p) end
  end.

Lemma climb_len_mono : forall es f v t f',
  climb f es v = Some t -> f <= f' -> climb_len f' es v = climb_len f es v.
Proof.
  intros es. induction f as [|f IH]; intros v t f' H Hle.
  - simpl in H. destruct (parent_of es v) as [p|] eqn:Hp; [discriminate|].
    destruct f'; simpl; rewrite Hp; reflexivity.
  - simpl in H. destruct f' as [|f']; [lia|]. simpl.
    destruct (parent_of es v) as [p|] eqn:Hp; [|reflexivity].
    f_equal. apply (IH p t f' H). lia.
Qed.

Lemma is_tree_unfold : forall es, is_tree es = true ->
  es <> [] /\ exists r, root es = Some r /\ nodupb (map snd es) = true /\
  forallb (fun e : edge => match climb (length es) es (fst e) with
                           | Some t => t =? r | None => false end) es = true.
Proof.
  intros es H. destruct es as [|e0 t]; [discriminate|].
  split; [discriminate|]. unfold is_tree in H.
  destruct (root (e0 :: t)) as [r|]; [|discriminate].
  exists r. split; [reflexivity|]. apply andb_true_iff in H. exact H.
Qed.

Lemma is_tree_sound_proof : forall es, is_tree es = true -> exists r, arborescence es r.
Proof.
  intros es H. destruct (is_tree_unfold es H) as [Hne [r [Hroot [Hnd Hall]]]].
  apply nodupb_NoDup in Hnd. rewrite forallb_forall in Hall.
  exists r. split; [exact Hne|]. split; [exact Hnd|]. split.
  - unfold root in Hroot. apply find_some in Hroot. destruct Hroot as [_ Hroot].
    apply indeg0_true_iff. exact Hroot.
  - exists (climb_len (S (length es)) es). intros u v Hin.
    pose proof (Hall (u,v) Hin) as Hc. simpl in Hc.
    destruct (climb (length es) es u) as [t|] eqn:Hcl; [|discriminate].
    apply Nat.eqb_eq in Hc. subst t. split.
    + simpl. rewrite (parent_of_edge es u v Hnd Hin). f_equal.
      symmetry. apply (climb_len_mono es (length es) u r (S (length es)) Hcl). lia.
    + destruct (parent_of es u) as [p|] eqn:Hp.
      * right. apply parent_of_Some in Hp. change u with (snd (p,u)). apply in_map. exact Hp.
      * left. destruct (length es); simpl in Hcl; rewrite Hp in Hcl; inversion Hcl; reflexivity.
Qed.

Lemma arborescence_nonvacuous : arborescence [(2,0);(3,2);(3,1);(2,4);(1,5)] 3.
Proof.
  split; [discriminate|]. split.
  - simpl. repeat constructor; simpl; intros H; repeat destruct H as [H|H]; try discriminate H; exact H.
  - split.
    + simpl. intros H. repeat destruct H as [H|H]; try discriminate H; exact H.
    + exists (fun n => match n with 3 => 0 | 1 => 1 | 2 => 1 | _ => 2 end).
      intros u v H. simpl in H.
      repeat destruct H as [H|H]; try contradiction; inversion H; subst; simpl;
        (split; [reflexivity | auto 10]).
Qed.
