From Coq Require Import List Arith Bool Lia.
Import ListNotations.
From SV Require Import C17.Toposort.

Lemma toposort_smoke :
  toposort [(2,0);(3,2);(3,1);(2,4);(1,5)] = Some [1;2;0;3;4].
Proof. vm_compute. reflexivity. Qed.
