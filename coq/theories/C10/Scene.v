(* Scene.v (C10) — definitions on top of the tracker model of C09
   (C09/Tracker.v): ground-truth identities, the ownership map computed from
   the tracker's own outputs, and the DOMINANCE premise on score matrices.
   Executable, no proofs.

   In a C10 scene the uid of a detection IS the identity of the animal it
   belongs to (unique within a frame).  `owners` records, in creation order,
   which animal was given which NEW track id; it is computed from the
   outputs alone (a returned track id that was not a current track before the
   call is new), not from any hidden state. *)
From Coq Require Import List Arith Bool ZArith QArith.
Import ListNotations.
From SV Require Import C09.Tracker C09.TrackerX.

Definition owners := list (nat * nat).          (* (animal, track id) *)

Fixpoint own_of (own : owners) (a : nat) : option nat :=
  match own with
  | [] => None
  | (b, t) :: r => if b =? a then Some t else own_of r a
  end.

Fixpoint owner_of (own : owners) (t : nat) : option nat :=
  match own with
  | [] => None
  | (b, t') :: r => if t' =? t then Some b else owner_of r t
  end.

(* the (animal, new track) pairs of an output; m = number of tracks before the call *)
Fixpoint new_owners (m : nat) (out : list (nat * option nat)) : owners :=
  match out with
  | [] => []
  | (u, Some t) :: r => if m <=? t then (u, t) :: new_owners m r else new_owners m r
  | (_, None) :: r => new_owners m r
  end.

Definition owners_after (own : owners) (m : nat) (o : outcome) : owners :=
  match o with Ok out => own ++ new_owners m out | Raise _ => own end.

(* ---------------------------------------------------------------------- *)
(* the dominance premise for one call.  Row i is the detection of animal
   a_i; if a_i owns track t_i then
     D1  the score (i, t_i) is a number (the track has a candidate),
     D2  it beats every other score of row i    (NaN counts as lowest),
     D3  it beats every other score of column t_i.                        *)
Definition row_dominant (M : matrix) (n m : nat) (i t : nat) : bool :=
  is_some (cell M i t) &&
  forallb (fun t' => (t' =? t) || cost_lt (cell M i t) (cell M i t')) (seq 0 m) &&
  forallb (fun j => (j =? i) || cost_lt (cell M i t) (cell M j t)) (seq 0 n).

Definition dominant (own : owners) (ds : list det) (M : matrix) (m : nat) : bool :=
  forallb (fun ia =>
             match own_of own (snd ia) with
             | Some t => row_dominant M (length ds) m (fst ia) t
             | None => true
             end)
          (combine (seq 0 (length ds)) (uids ds)).

(* side condition of the property: a new animal appears only in a frame in
   which every previously seen animal is detected *)
Definition all_known (own : owners) (ds : list det) : bool :=
  forallb (fun a => is_some (own_of own a)) (uids ds).

Definition all_present (own : owners) (ds : list det) : bool :=
  forallb (fun at_ => memb (fst at_) (uids ds)) own.

Definition scene_ok (own : owners) (ds : list det) (M : matrix) (m : nat) : bool :=
  nodupb (uids ds) && forallb snd ds &&            (* one detection per animal, all above threshold *)
  (all_known own ds || all_present own ds) &&
  dominant own ds M m.

(* ---------------------------------------------------------------------- *)
(* the executed calls of a history together with the ownership map before each *)
Fixpoint trace10 (cfg : config) (st : state) (own : owners) (h : list frame)
  : list (state * owners * frame * outcome) :=
  match h with
  | [] => []
  | f :: r =>
      let so := step cfg st f in
      (st, own, f, snd so) ::
      match snd so with
      | Ok _ => trace10 cfg (fst so) (owners_after own (length (cur st)) (snd so)) r
      | Raise _ => []
      end
  end.

(* the same for the widened tracker C09/TrackerX.v (max_tracks, name checks,
   the repairs of F4cap / F4iv as switches): executed calls of `xstep` *)
Fixpoint xtrace10 (X : xconfig) (st : state) (own : owners) (h : list frame)
  : list (state * owners * frame * outcome) :=
  match h with
  | [] => []
  | f :: r =>
      let so := xstep X st f in
      (st, own, f, snd so) ::
      match snd so with
      | Ok _ => xtrace10 X (fst so) (owners_after own (length (cur st)) (snd so)) r
      | Raise _ => []
      end
  end.

Definition s_state (x : state * owners * frame * outcome) : state := fst (fst (fst x)).
Definition s_own (x : state * owners * frame * outcome) : owners := snd (fst (fst x)).
Definition s_frame (x : state * owners * frame * outcome) : frame := snd (fst x).
Definition s_out (x : state * owners * frame * outcome) : outcome := snd x.

(* the premise actually used at a call: only when the matcher is consulted *)
Definition scene_step_ok (cfg : config) (x : state * owners * frame * outcome) : bool :=
  let ds := f_dets (s_frame x) in
  nodupb (uids ds) && forallb snd ds &&
  (is_init cfg (s_state x) ||
   scene_ok (s_own x) ds (f_matrix (s_frame x)) (length (cur (s_state x)))).

(* ---------------------------------------------------------------------- *)
(* evaluation for the harness: outcomes, the premise per call, final owners *)
Fixpoint final_owners (l : list (state * owners * frame * outcome)) (own0 : owners) : owners :=
  match l with
  | [] => own0
  | x :: r => final_owners r (owners_after (s_own x) (length (cur (s_state x))) (s_out x))
  end.

Definition run10 (cfg : config) (h : list frame)
  : list (outcome * bool) * owners :=
  let tr := trace10 cfg init [] h in
  (map (fun x => (s_out x, scene_step_ok cfg x)) tr, final_owners tr []).
