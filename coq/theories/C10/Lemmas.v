(* Lemmas.v (C10) — proofs: on row/column-dominant score matrices the
   Hungarian optimum and every greedy run are the identity-preserving
   assignment; by induction over the history every animal keeps its track. *)
From Coq Require Import List Arith Bool ZArith QArith Lia Permutation.
Import ListNotations.
From SV Require Import C09.Tracker C09.Lemmas C10.Scene.
Close Scope Q_scope.
Open Scope nat_scope.

(* ====================================================================== *)
(* sums of rationals *)

Lemma qsum_perm : forall l l', Permutation l l' -> (qsum l == qsum l')%Q.
Proof.
  induction 1; simpl.
  - reflexivity.
  - rewrite IHPermutation. reflexivity.
  - ring.
  - etransitivity; eauto.
Qed.

Lemma qsum_map_le : forall A (g1 g2 : A -> Q) l,
  (forall x, In x l -> (g1 x <= g2 x)%Q) -> (qsum (map g1 l) <= qsum (map g2 l))%Q.
Proof.
  induction l as [|a l IH]; intros H; simpl.
  - apply Qle_refl.
  - apply Qplus_le_compat; [apply H; left; auto | apply IH; intros; apply H; right; auto].
Qed.

Lemma qsum_map_lt : forall A (g1 g2 : A -> Q) l,
  (forall x, In x l -> (g1 x <= g2 x)%Q) -> (exists x, In x l /\ (g1 x < g2 x)%Q) ->
  (qsum (map g1 l) < qsum (map g2 l))%Q.
Proof.
  induction l as [|a l IH]; intros H [x [Hx Hlt]]; simpl; [destruct Hx|].
  destruct Hx as [->|Hx].
  - apply Qplus_lt_le_compat; auto. apply qsum_map_le. intros; apply H; right; auto.
  - rewrite (Qplus_comm (g1 a)), (Qplus_comm (g2 a)).
    apply Qplus_lt_le_compat; [|apply H; left; auto].
    apply IH; [intros; apply H; right; auto | exists x; auto].
Qed.

(* ====================================================================== *)
(* assignments on an abstract score function (so that rows and columns can
   be exchanged) *)

Definition scoref := nat -> nat -> score.

Definition valQ (sc : scoref) (rc : nat * nat) : Q :=
  match sc (fst rc) (snd rc) with Some x => x | None => 0%Q end.

Definition finite_onf (sc : scoref) (p : pairs) : Prop :=
  forall r c, In (r, c) p -> sc r c <> None.

Definition totf (sc : scoref) (p : pairs) : Q := qsum (map (valQ sc) p).

Lemma tot_totf : forall M p, tot M p = totf (cell M) p.
Proof. reflexivity. Qed.

Lemma finite_on_f : forall M p, finite_on M p = finite_onf (cell M) p.
Proof. reflexivity. Qed.

Lemma cost_lt_some : forall x y, cost_lt (Some y) (Some x) = true -> (x < y)%Q.
Proof.
  intros x y H. unfold cost_lt, cost_le in H. apply negb_true_iff in H.
  apply Qnot_le_lt. intro K. apply Qle_bool_iff in K. congruence.
Qed.

Lemma cost_lt_not_le : forall a b, cost_lt a b = true -> cost_le b a = true -> False.
Proof. intros a b H K. unfold cost_lt in H. rewrite K in H. discriminate. Qed.

Lemma NoDup_map_inj_on : forall (g : nat -> nat) l,
  (forall x y, In x l -> In y l -> g x = g y -> x = y) -> NoDup l -> NoDup (map g l).
Proof.
  induction l as [|a l IH]; intros Hi ND; simpl; [constructor|].
  inversion ND; subst. constructor.
  - intro K. apply in_map_iff in K. destruct K as [y [E Hy]].
    assert (y = a) by (apply Hi; simpl; auto). subst. auto.
  - apply IH; auto. intros; apply Hi; simpl; auto.
Qed.

Lemma matching_length_le : forall n m p, matching n m p -> length p <= n /\ length p <= m.
Proof.
  intros n m p (A & B & C & D). split.
  - rewrite <- (map_length fst), <- (seq_length n 0).
    apply NoDup_incl_length; auto. intros r Hr. apply in_seq. specialize (C r Hr). lia.
  - rewrite <- (map_length snd), <- (seq_length m 0).
    apply NoDup_incl_length; auto. intros c Hc. apply in_seq. specialize (D c Hc). lia.
Qed.

(* greedy runs on an abstract score function *)
Fixpoint greedy_run (sc : scoref) (n m : nat) (ur uc : list nat) (p : pairs) : Prop :=
  match p with
  | [] => forall r c, r < n -> c < m -> In r ur \/ In c uc
  | (r, c) :: p' =>
      r < n /\ c < m /\ ~ In r ur /\ ~ In c uc /\
      (forall r' c', r' < n -> c' < m -> ~ In r' ur -> ~ In c' uc ->
                     cost_le (sc r c) (sc r' c') = true) /\
      greedy_run sc n m (r :: ur) (c :: uc) p'
  end.

Lemma greedy_runb_run : forall M n m p ur uc,
  greedy_runb M n m ur uc p = true -> greedy_run (cell M) n m ur uc p.
Proof.
  induction p as [|[r c] p IH]; intros ur uc H; simpl in *.
  - intros r c Hr Hc. rewrite forallb_forall in H.
    assert (H1 := H r (proj2 (in_seq _ _ _) (conj (Nat.le_0_l r) Hr))).
    rewrite forallb_forall in H1.
    assert (H2 := H1 c (proj2 (in_seq _ _ _) (conj (Nat.le_0_l c) Hc))).
    apply orb_true_iff in H2. rewrite !memb_In in H2. exact H2.
  - repeat rewrite andb_true_iff in H. destruct H as [[[[[A B] C] D] E] F].
    apply Nat.ltb_lt in A. apply Nat.ltb_lt in B.
    apply negb_true_iff in C. apply negb_true_iff in D.
    apply memb_false in C. apply memb_false in D.
    repeat split; auto.
    intros r' c' Hr Hc Nr Nc. rewrite forallb_forall in E.
    assert (H1 := E r' (proj2 (in_seq _ _ _) (conj (Nat.le_0_l r') Hr))).
    rewrite forallb_forall in H1.
    assert (H2 := H1 c' (proj2 (in_seq _ _ _) (conj (Nat.le_0_l c') Hc))).
    apply memb_false in Nr. apply memb_false in Nc. rewrite Nr, Nc in H2. exact H2.
Qed.

(* ---------------------------------------------------------------------- *)
(* rows version: every row r < n has its own column f r, which dominates row r *)

Section Rows.
Variable sc : scoref.
Variables n m : nat.
Variable f : nat -> nat.
Hypothesis Hf : forall r, r < n -> f r < m.
Hypothesis Hinj : forall r r', r < n -> r' < n -> f r = f r' -> r = r'.
Hypothesis D1 : forall r, r < n -> sc r (f r) <> None.
Hypothesis D2 : forall r c, r < n -> c < m -> c <> f r -> cost_lt (sc r (f r)) (sc r c) = true.

Definition idm : pairs := map (fun r => (r, f r)) (seq 0 n).

Lemma idm_fst : map fst idm = seq 0 n.
Proof. unfold idm. rewrite map_map. simpl. apply map_id. Qed.

Lemma idm_snd : map snd idm = map f (seq 0 n).
Proof. unfold idm. rewrite map_map. reflexivity. Qed.

Lemma idm_matching : matching n m idm.
Proof.
  repeat split.
  - rewrite idm_fst. apply seq_NoDup.
  - rewrite idm_snd. apply NoDup_map_inj_on; [|apply seq_NoDup].
    intros x y Hx Hy. apply in_seq in Hx. apply in_seq in Hy. apply Hinj; lia.
  - rewrite idm_fst. intros r Hr. apply in_seq in Hr. lia.
  - rewrite idm_snd. intros c Hc. apply in_map_iff in Hc. destruct Hc as [r [<- Hr]].
    apply in_seq in Hr. apply Hf. lia.
Qed.

Lemma idm_finite : finite_onf sc idm.
Proof.
  intros r c H. unfold idm in H. apply in_map_iff in H. destruct H as [r0 [E Hr]].
  inversion E; subst. apply in_seq in Hr. apply D1. lia.
Qed.

Lemma idm_length : length idm = n.
Proof. unfold idm. rewrite map_length, seq_length. reflexivity. Qed.

Lemma rows_n_le_m : n <= m.
Proof. rewrite <- idm_length. apply (matching_length_le n m idm idm_matching). Qed.

Lemma rows_perm : forall p, matching n m p -> length p = n -> Permutation (map fst p) (seq 0 n).
Proof.
  intros p (A & B & C & D) L. apply NoDup_Permutation_bis; auto.
  - rewrite seq_length, map_length. lia.
  - intros r Hr. apply in_seq. specialize (C r Hr). lia.
Qed.

Lemma hungarian_rows : forall p,
  matching n m p -> finite_onf sc p -> length p = n ->
  (forall q, matching n m q -> finite_onf sc q -> length q = length p ->
             (totf sc q <= totf sc p)%Q) ->
  forall r c, In (r, c) p -> c = f r.
Proof.
  intros p Mp Fp Lp Opt r c Hrc.
  destruct (Nat.eq_dec c (f r)) as [|Ne]; auto. exfalso.
  set (g := fun rc : nat * nat => (fst rc, f (fst rc))).
  assert (Range : forall r0 c0, In (r0, c0) p -> r0 < n /\ c0 < m).
  { destruct Mp as (_ & _ & C & D). intros r0 c0 H. split.
    - apply C. apply (in_map fst) in H. exact H.
    - apply D. apply (in_map snd) in H. exact H. }
  assert (Le : forall rc, In rc p -> (valQ sc rc <= valQ sc (g rc))%Q).
  { intros [r0 c0] H. destruct (Range _ _ H) as [Hr Hc].
    unfold valQ, g. simpl fst; simpl snd.
    destruct (Nat.eq_dec c0 (f r0)) as [->|N0]; [apply Qle_refl|].
    pose proof (D2 r0 c0 Hr Hc N0) as K.
    pose proof (Fp _ _ H) as F0. pose proof (D1 r0 Hr) as F1.
    destruct (sc r0 c0) as [x|]; [|congruence]. destruct (sc r0 (f r0)) as [y|]; [|congruence].
    apply Qlt_le_weak. apply cost_lt_some; auto. }
  assert (Lt : (totf sc p < totf sc (map g p))%Q).
  { unfold totf. rewrite map_map. apply qsum_map_lt; auto.
    exists (r, c). split; auto.
    destruct (Range _ _ Hrc) as [Hr Hc].
    pose proof (D2 r c Hr Hc Ne) as K.
    pose proof (Fp _ _ Hrc) as F0. pose proof (D1 r Hr) as F1.
    unfold valQ, g. simpl fst; simpl snd.
    destruct (sc r c) as [x|]; [|congruence]. destruct (sc r (f r)) as [y|]; [|congruence].
    apply cost_lt_some; auto. }
  assert (Eq : (totf sc (map g p) == totf sc idm)%Q).
  { unfold totf. apply qsum_perm. apply Permutation_map.
    replace (map g p) with (map (fun r => (r, f r)) (map fst p)) by (rewrite map_map; reflexivity).
    unfold idm. apply Permutation_map. apply rows_perm; auto. }
  assert (O : (totf sc idm <= totf sc p)%Q).
  { apply Opt; [apply idm_matching | apply idm_finite | rewrite idm_length; auto]. }
  rewrite Eq in Lt. apply (Qlt_irrefl (totf sc p)). eapply Qlt_le_trans; eauto.
Qed.

Lemma rows_cover : forall p, matching n m p -> length p = n ->
  (forall r c, In (r, c) p -> c = f r) -> forall r, r < n -> In (r, f r) p.
Proof.
  intros p Mp Lp Id r Hr.
  assert (In r (map fst p)).
  { eapply Permutation_in; [apply Permutation_sym; apply rows_perm; auto|]. apply in_seq. lia. }
  apply in_map_iff in H. destruct H as [[r0 c0] [E H]]. simpl in E. subst r0.
  rewrite (Id _ _ H) in H. exact H.
Qed.

Lemma greedy_rows : forall p ur uc,
  greedy_run sc n m ur uc p ->
  (forall r, r < n -> (In r ur <-> In (f r) uc)) ->
  (forall r c, In (r, c) p -> c = f r) /\ (forall r, r < n -> ~ In r ur -> In (r, f r) p).
Proof.
  induction p as [|[r0 c0] p IH]; intros ur uc G Inv; simpl in G.
  - split; [intros r c []|]. intros r Hr Nr. exfalso.
    destruct (G r (f r) Hr (Hf r Hr)) as [K|K]; [auto | apply Inv in K; auto].
  - destruct G as (Hr0 & Hc0 & Nr0 & Nc0 & Min & G).
    assert (E0 : c0 = f r0).
    { destruct (Nat.eq_dec c0 (f r0)) as [|Ne]; auto. exfalso.
      eapply cost_lt_not_le; [apply (D2 r0 c0 Hr0 Hc0 Ne)|].
      apply Min; auto. intro K. apply Inv in K; auto. }
    subst c0.
    destruct (IH (r0 :: ur) (f r0 :: uc) G) as [I1 I2].
    { intros r Hr. simpl. split; intros [K|K].
      - left. subst; reflexivity.
      - right. apply Inv; auto.
      - left. apply Hinj; auto.
      - right. apply Inv; auto. }
    split.
    + intros r c [E|H]; [inversion E; subst; auto | apply I1; auto].
    + intros r Hr Nr. destruct (Nat.eq_dec r r0) as [->|Ne]; [left; auto|].
      right. apply I2; auto. simpl. intros [K|K]; auto.
Qed.

End Rows.

(* ---------------------------------------------------------------------- *)
(* contracts on an abstract score function, and exchanging rows and columns *)

Definition hung_contract_f (fix3 : bool) (sc : scoref) (n m : nat) (a : answer) : Prop :=
  match a with
  | APairs p =>
      matching n m p /\ finite_onf sc p /\
      (if fix3 then forall q, matching n m q -> finite_onf sc q -> length q <= length p
       else length p = Nat.min n m) /\
      (forall q, matching n m q -> finite_onf sc q -> length q = length p ->
                 (totf sc q <= totf sc p)%Q)
  | AFail => fix3 = false /\
             forall q, matching n m q -> finite_onf sc q -> length q <> Nat.min n m
  end.

Definition matcher_f (gr fix3 : bool) (sc : scoref) (n m : nat) (a : answer) : Prop :=
  if gr then exists p, a = APairs p /\ greedy_run sc n m [] [] p
  else hung_contract_f fix3 sc n m a.

Lemma matcher_contract_f : forall cfg M n m a,
  matcher_contract cfg M n m a -> matcher_f (greedy cfg) (fix_iii cfg) (cell M) n m a.
Proof.
  intros cfg M n m a H. unfold matcher_contract in H. unfold matcher_f.
  destruct (greedy cfg).
  - destruct H as (p & E & G). exists p. split; auto. apply greedy_runb_run; auto.
  - exact H.
Qed.

Definition swap (p : pairs) : pairs := map (fun rc => (snd rc, fst rc)) p.
Definition flip (sc : scoref) : scoref := fun c r => sc r c.
Definition swap_ans (a : answer) : answer :=
  match a with AFail => AFail | APairs p => APairs (swap p) end.

Lemma swap_swap : forall p, swap (swap p) = p.
Proof.
  intros. unfold swap. rewrite map_map. simpl. rewrite <- (map_id p) at 2.
  apply map_ext. intros [r c]; reflexivity.
Qed.

Lemma swap_in : forall p r c, In (r, c) (swap p) <-> In (c, r) p.
Proof.
  intros. unfold swap. rewrite in_map_iff. split.
  - intros [[a b] [E H]]. simpl in E. inversion E; subst. auto.
  - intros H. exists (c, r). auto.
Qed.

Lemma swap_fst : forall p, map fst (swap p) = map snd p.
Proof. intros. unfold swap. rewrite map_map. reflexivity. Qed.

Lemma swap_snd : forall p, map snd (swap p) = map fst p.
Proof. intros. unfold swap. rewrite map_map. reflexivity. Qed.

Lemma swap_length : forall p, length (swap p) = length p.
Proof. intros. apply map_length. Qed.

Lemma swap_matching : forall n m p, matching n m p -> matching m n (swap p).
Proof.
  intros n m p (A & B & C & D). unfold matching. rewrite swap_fst, swap_snd. auto.
Qed.

Lemma swap_finite : forall sc p, finite_onf sc p -> finite_onf (flip sc) (swap p).
Proof. intros sc p H r c K. apply (proj1 (swap_in _ _ _)) in K. exact (H _ _ K). Qed.

Lemma swap_tot : forall sc p, totf (flip sc) (swap p) = totf sc p.
Proof.
  intros. unfold totf, swap. rewrite map_map. f_equal.
Qed.

Lemma hung_contract_f_swap : forall fix3 sc n m a,
  hung_contract_f fix3 sc n m a -> hung_contract_f fix3 (flip sc) m n (swap_ans a).
Proof.
  intros fix3 sc n m [|p] H; simpl in *.
  - destruct H as [E H]. split; auto. intros q Mq Fq. rewrite Nat.min_comm.
    rewrite <- (swap_length q). apply H; [apply swap_matching; auto|].
    apply (swap_finite (flip sc) q Fq).
  - destruct H as (Mp & Fp & Sz & Opt).
    split; [apply swap_matching; auto|]. split; [apply swap_finite; auto|]. split.
    + destruct fix3.
      * intros q Mq Fq. rewrite swap_length, <- (swap_length q).
        apply Sz; [apply swap_matching; auto | apply (swap_finite (flip sc) q Fq)].
      * rewrite swap_length, Nat.min_comm. auto.
    + intros q Mq Fq L. rewrite swap_tot.
      change (totf (flip sc) q) with (totf (flip (flip (flip sc))) q).
      rewrite <- (swap_swap q). rewrite (swap_tot (flip (flip sc)) (swap q)).
      apply Opt; [apply swap_matching; auto | apply (swap_finite (flip sc) q Fq) |].
      rewrite !swap_length in *. auto.
Qed.

Lemma greedy_run_swap : forall sc n m p ur uc,
  greedy_run sc n m ur uc p -> greedy_run (flip sc) m n uc ur (swap p).
Proof.
  induction p as [|[r c] p IH]; intros ur uc G; simpl in *.
  - intros c r Hc Hr. destruct (G r c Hr Hc); auto.
  - destruct G as (A & B & C & D & E & F). repeat split; auto.
    intros c' r' Hc Hr Nc Nr. unfold flip. apply E; auto.
Qed.

Lemma matcher_f_swap : forall gr fix3 sc n m a,
  matcher_f gr fix3 sc n m a -> matcher_f gr fix3 (flip sc) m n (swap_ans a).
Proof.
  intros gr fix3 sc n m a H. unfold matcher_f in *. destruct gr.
  - destruct H as (p & -> & G). exists (swap p). split; auto. apply greedy_run_swap; auto.
  - apply hung_contract_f_swap; auto.
Qed.

(* under row dominance every answer allowed by the contract is the identity assignment *)
Lemma matcher_rows : forall gr fix3 sc n m f a,
  (forall r, r < n -> f r < m) ->
  (forall r r', r < n -> r' < n -> f r = f r' -> r = r') ->
  (forall r, r < n -> sc r (f r) <> None) ->
  (forall r c, r < n -> c < m -> c <> f r -> cost_lt (sc r (f r)) (sc r c) = true) ->
  matcher_f gr fix3 sc n m a ->
  exists p, a = APairs p /\ matching n m p /\
            (forall r c, In (r, c) p -> c = f r) /\ (forall r, r < n -> In (r, f r) p).
Proof.
  intros gr fix3 sc n m f a Hf Hinj D1 D2 H. unfold matcher_f in H. destruct gr.
  - destruct H as (p & -> & G). exists p. split; auto.
    destruct (greedy_rows sc n m f Hf Hinj D2 p [] [] G) as [I1 I2].
    { intros; simpl; tauto. }
    split; [|split; [auto | intros r Hr; apply I2; auto]].
    (* validity of a greedy run *)
    { clear I1 I2.
      assert (S : forall p ur uc, greedy_run sc n m ur uc p ->
                  NoDup (map fst p) /\ NoDup (map snd p) /\
                  (forall r, In r (map fst p) -> r < n /\ ~ In r ur) /\
                  (forall c, In c (map snd p) -> c < m /\ ~ In c uc)).
      { induction p0 as [|[r c] p0 IH]; intros ur uc G0; simpl in *.
        - split; [constructor|]. split; [constructor|]. split; intros ? [].
        - destruct G0 as (A & B & C & D & _ & F). apply IH in F.
          destruct F as (F1 & F2 & F3 & F4). repeat split.
          + constructor; auto. intro K. apply F3 in K. simpl in K. tauto.
          + constructor; auto. intro K. apply F4 in K. simpl in K. tauto.
          + destruct H; [subst; auto | apply F3; auto].
          + destruct H; [subst; auto | apply F3 in H; simpl in H; tauto].
          + destruct H; [subst; auto | apply F4; auto].
          + destruct H; [subst; auto | apply F4 in H; simpl in H; tauto]. }
      destruct (S p [] [] G) as (A & B & C & D).
      repeat split; auto; intros x Hx; [apply C in Hx | apply D in Hx]; tauto. }
  - pose proof (idm_matching n m f Hf Hinj) as IM.
    pose proof (idm_finite sc n f D1) as IF.
    pose proof (idm_length n f) as IL.
    pose proof (rows_n_le_m n m f Hf Hinj) as Le.
    destruct a as [|p]; simpl in H.
    + exfalso. destruct H as [_ H]. apply (H (idm n f)); auto. lia.
    + destruct H as (Mp & Fp & Sz & Opt). exists p. split; auto. split; auto.
      assert (Lp : length p = n).
      { destruct fix3.
        - specialize (Sz (idm n f) IM IF). destruct (matching_length_le _ _ _ Mp). lia.
        - lia. }
      assert (Id : forall r c, In (r, c) p -> c = f r).
      { eapply hungarian_rows; eauto. }
      split; auto. eapply rows_cover; eauto.
Qed.

(* ====================================================================== *)
(* owners *)

Record OwnInv (own : owners) (m : nat) : Prop := mkOwnInv {
  oi_fst : NoDup (map fst own);                       (* an animal owns at most one track *)
  oi_snd : NoDup (map snd own);                       (* a track has at most one owner *)
  oi_lt  : forall a t, In (a, t) own -> t < m;
  oi_sur : forall t, t < m -> exists a, In (a, t) own (* every current track has an owner *)
}.

Lemma own_of_In : forall own a t, NoDup (map fst own) ->
  (own_of own a = Some t <-> In (a, t) own).
Proof.
  induction own as [|[b t'] own IH]; intros a t ND; simpl.
  - split; [discriminate | tauto].
  - inversion ND as [|x0 l0 Hnin Hnd]; subst. destruct (b =? a) eqn:E.
    + apply Nat.eqb_eq in E. subst b. split.
      * intros H. inversion H. auto.
      * intros [H|H]; [inversion H; auto|].
        exfalso. apply Hnin. apply (in_map fst) in H. exact H.
    + rewrite (IH a t Hnd). split; auto.
      intros [H|H]; auto. inversion H; subst. rewrite Nat.eqb_refl in E. discriminate.
Qed.

Lemma owner_of_In : forall own a t, NoDup (map snd own) ->
  (owner_of own t = Some a <-> In (a, t) own).
Proof.
  induction own as [|[b t'] own IH]; intros a t ND; simpl.
  - split; [discriminate | tauto].
  - inversion ND as [|x0 l0 Hnin Hnd]; subst. destruct (t' =? t) eqn:E.
    + apply Nat.eqb_eq in E. subst t'. split.
      * intros H. inversion H. auto.
      * intros [H|H]; [inversion H; auto|].
        exfalso. apply Hnin. apply (in_map snd) in H. exact H.
    + rewrite (IH a t Hnd). split; auto.
      intros [H|H]; auto. inversion H; subst. rewrite Nat.eqb_refl in E. discriminate.
Qed.

Lemma own_fun : forall (own : owners) (a t t' : nat), NoDup (map fst own) -> In (a, t) own -> In (a, t') own -> t = t'.
Proof.
  intros own a t t' ND H H'. apply own_of_In in H; auto. apply own_of_In in H'; auto. congruence.
Qed.

Lemma own_inj : forall (own : owners) (a a' t : nat), NoDup (map snd own) -> In (a, t) own -> In (a', t) own -> a = a'.
Proof.
  intros own a a' t ND H H'. apply owner_of_In in H; auto. apply owner_of_In in H'; auto. congruence.
Qed.

Fixpoint index_of (a : nat) (l : list nat) : option nat :=
  match l with
  | [] => None
  | x :: t => if x =? a then Some 0 else option_map S (index_of a t)
  end.

Lemma index_of_nth : forall a l r, index_of a l = Some r -> nth_error l r = Some a.
Proof.
  induction l as [|x l IH]; intros r H; simpl in H; [discriminate|].
  destruct (x =? a) eqn:E.
  - inversion H; subst. apply Nat.eqb_eq in E. subst. reflexivity.
  - destruct (index_of a l) as [k|]; simpl in H; [|discriminate].
    inversion H; subst. simpl. apply IH; auto.
Qed.

Lemma index_of_In : forall a l, In a l -> exists r, index_of a l = Some r.
Proof.
  induction l as [|x l IH]; intros H; simpl in *; [destruct H|].
  destruct (x =? a) eqn:E; [eauto|].
  destruct H as [H|H]; [subst; rewrite Nat.eqb_refl in E; discriminate|].
  destruct (IH H) as [r ->]. simpl. eauto.
Qed.

Definition rowtrack (own : owners) (us : list nat) (r : nat) : option nat :=
  match nth_error us r with Some a => own_of own a | None => None end.

Definition colrow (own : owners) (us : list nat) (c : nat) : option nat :=
  match owner_of own c with Some a => index_of a us | None => None end.

Lemma in_combine_seq : forall (us : list nat) r a,
  nth_error us r = Some a -> In (r, a) (combine (seq 0 (length us)) us).
Proof.
  intros us r a H. eapply nth_error_In. apply nth_error_combine; eauto.
  apply nth_error_seq0. apply nth_error_Some. congruence.
Qed.

Lemma row_dominant_spec : forall M n m i t, row_dominant M n m i t = true ->
  cell M i t <> None /\
  (forall t', t' < m -> t' <> t -> cost_lt (cell M i t) (cell M i t') = true) /\
  (forall j, j < n -> j <> i -> cost_lt (cell M i t) (cell M j t) = true).
Proof.
  intros M n m i t H. unfold row_dominant in H.
  repeat rewrite andb_true_iff in H. destruct H as [[A B] C].
  rewrite forallb_forall in B, C. repeat split.
  - destruct (cell M i t); [discriminate | discriminate A].
  - intros t' L N. assert (K := B t' (proj2 (in_seq _ _ _) (conj (Nat.le_0_l t') L))).
    apply orb_true_iff in K. destruct K as [K|K]; auto. apply Nat.eqb_eq in K. congruence.
  - intros j L N. assert (K := C j (proj2 (in_seq _ _ _) (conj (Nat.le_0_l j) L))).
    apply orb_true_iff in K. destruct K as [K|K]; auto. apply Nat.eqb_eq in K. congruence.
Qed.

Lemma dominant_row : forall own ds M m r a t,
  dominant own ds M m = true -> nth_error (uids ds) r = Some a -> own_of own a = Some t ->
  row_dominant M (length ds) m r t = true.
Proof.
  intros own ds M m r a t H Hr Ho. unfold dominant in H. rewrite forallb_forall in H.
  assert (K : In (r, a) (combine (seq 0 (length ds)) (uids ds))).
  { rewrite <- (uids_length ds). apply in_combine_seq; auto. }
  apply H in K. simpl in K. rewrite Ho in K. exact K.
Qed.

Lemma NoDup_nth_error_inj : forall (l : list nat) i j a,
  NoDup l -> nth_error l i = Some a -> nth_error l j = Some a -> i = j.
Proof.
  intros l i j a ND Hi Hj. apply (proj1 (NoDup_nth_error l) ND); [|congruence].
  apply nth_error_Some. congruence.
Qed.

(* the answer of either matcher on a dominant matrix: exactly the pairs
   (row of animal a, track owned by a) *)
Lemma matcher_identity : forall cfg own ds M m ans,
  OwnInv own m -> NoDup (uids ds) ->
  all_known own ds = true \/ all_present own ds = true ->
  dominant own ds M m = true ->
  matcher_contract cfg M (length ds) m ans ->
  exists p, ans = APairs p /\ matching (length ds) m p /\
            forall r c, In (r, c) p <-> rowtrack own (uids ds) r = Some c.
Proof.
  intros cfg own ds M m ans OI ND Side Dom H.
  apply matcher_contract_f in H.
  set (us := uids ds) in *. set (n := length ds) in *.
  assert (Ln : length us = n) by apply uids_length.
  destruct OI as [O1 O2 O3 O4].
  destruct Side as [AK|AP].
  - (* every detection belongs to a known animal: rows dominate *)
    set (f := fun r => match rowtrack own us r with Some c => c | None => 0 end).
    assert (RT : forall r, r < n -> exists a, nth_error us r = Some a /\ In (a, f r) own /\
                                         rowtrack own us r = Some (f r)).
    { intros r Hr. rewrite <- Ln in Hr. apply nth_error_Some in Hr.
      destruct (nth_error us r) as [a|] eqn:E; [|congruence]. exists a. split; auto.
      unfold all_known in AK. rewrite forallb_forall in AK.
      assert (K := AK a (nth_error_In _ _ E)).
      unfold f, rowtrack. rewrite E. destruct (own_of own a) as [t|] eqn:Eo; [|discriminate].
      split; auto. apply own_of_In; auto. }
    destruct (matcher_rows (greedy cfg) (fix_iii cfg) (cell M) n m f ans) as (p & -> & Mp & I1 & I2); auto.
    + intros r Hr. destruct (RT r Hr) as (a & _ & Ho & _). eapply O3; eauto.
    + intros r r' Hr Hr' E. destruct (RT r Hr) as (a & Ea & Ho & _).
      destruct (RT r' Hr') as (a' & Ea' & Ho' & _). rewrite E in Ho.
      assert (a = a') by (eapply own_inj; eauto). subst a'.
      eapply NoDup_nth_error_inj; eauto.
    + intros r Hr. destruct (RT r Hr) as (a & Ea & Ho & _).
      apply own_of_In in Ho; auto.
      destruct (row_dominant_spec _ _ _ _ _ (dominant_row _ _ _ _ _ _ _ Dom Ea Ho)) as (A & _ & _). auto.
    + intros r c Hr Hc Ne. destruct (RT r Hr) as (a & Ea & Ho & _).
      apply own_of_In in Ho; auto.
      destruct (row_dominant_spec _ _ _ _ _ (dominant_row _ _ _ _ _ _ _ Dom Ea Ho)) as (_ & B & _). auto.
    + exists p. split; auto. split; auto. intros r c. split.
      * intros K. assert (Hr : r < n) by (destruct Mp as (_ & _ & C & _); apply C; apply (in_map fst) in K; exact K).
        rewrite (I1 _ _ K). destruct (RT r Hr) as (_ & _ & _ & E). exact E.
      * intros K. assert (Hr : r < n).
        { unfold rowtrack in K. rewrite <- Ln. apply nth_error_Some. destruct (nth_error us r); congruence. }
        destruct (RT r Hr) as (_ & _ & _ & E). rewrite E in K. inversion K; subst. apply I2; auto.
  - (* every known animal is detected: columns dominate (rows and columns exchanged) *)
    set (g := fun c => match colrow own us c with Some r => r | None => 0 end).
    assert (CT : forall c, c < m -> exists a, In (a, c) own /\ nth_error us (g c) = Some a /\ g c < n).
    { intros c Hc. destruct (O4 c Hc) as [a Ha]. exists a. split; auto.
      unfold all_present in AP. fold us in AP. rewrite forallb_forall in AP.
      assert (K := AP _ Ha). simpl in K. apply memb_In in K.
      destruct (index_of_In _ _ K) as [r Er].
      assert (G : g c = r).
      { unfold g, colrow. rewrite (proj2 (owner_of_In own a c O2) Ha). rewrite Er. reflexivity. }
      rewrite G. apply index_of_nth in Er. split; auto.
      rewrite <- Ln. apply nth_error_Some. congruence. }
    destruct (matcher_rows (greedy cfg) (fix_iii cfg) (flip (cell M)) m n g (swap_ans ans))
      as (p' & Ep & Mp & I1 & I2).
    + intros c Hc. destruct (CT c Hc) as (_ & _ & _ & L). exact L.
    + intros c c' Hc Hc' E. destruct (CT c Hc) as (a & Ha & Na & _).
      destruct (CT c' Hc') as (a' & Ha' & Na' & _). rewrite E in Na.
      assert (a = a') by congruence. subst a'. eapply own_fun; eauto.
    + intros c Hc. destruct (CT c Hc) as (a & Ha & Na & _). unfold flip.
      apply own_of_In in Ha; auto.
      destruct (row_dominant_spec _ _ _ _ _ (dominant_row _ _ _ _ _ _ _ Dom Na Ha)) as (A & _ & _). auto.
    + intros c r Hc Hr Ne. destruct (CT c Hc) as (a & Ha & Na & _). unfold flip.
      apply own_of_In in Ha; auto.
      destruct (row_dominant_spec _ _ _ _ _ (dominant_row _ _ _ _ _ _ _ Dom Na Ha)) as (_ & _ & C). auto.
    + apply matcher_f_swap; auto.
    + destruct ans as [|p]; simpl in Ep; [discriminate|]. inversion Ep; subst p'. clear Ep.
      exists p. split; auto. split; [rewrite <- (swap_swap p); apply swap_matching; auto|].
      intros r c. split.
      * intros K. assert (K' : In (c, r) (swap p)) by (apply swap_in; auto).
        assert (Hc : c < m) by (destruct Mp as (_ & _ & C & _); apply C; apply (in_map fst) in K'; exact K').
        rewrite (I1 _ _ K'). destruct (CT c Hc) as (a & Ha & Na & _).
        unfold rowtrack. rewrite Na. apply own_of_In; auto.
      * intros K. unfold rowtrack in K. destruct (nth_error us r) as [a|] eqn:Ea; [|discriminate].
        apply own_of_In in K; auto.
        assert (Hc : c < m) by (eapply O3; eauto).
        destruct (CT c Hc) as (a' & Ha' & Na' & _).
        assert (a' = a) by (eapply own_inj; eauto). subst a'.
        assert (g c = r) by (eapply NoDup_nth_error_inj; eauto).
        subst r. apply swap_in. apply I2; auto.
Qed.

(* ====================================================================== *)
(* the repaired step in closed form *)

Lemma fill_false : forall k tids n, fill (repeat false k) tids n = tids /\ cnt (repeat false k) tids = 0.
Proof.
  induction k as [|k IH]; intros [|t tids] n; simpl; auto.
  destruct (IH tids n) as [A B]. rewrite A, B. auto.
Qed.

Lemma nth_error_repeat : forall A (x : A) k i, i < k -> nth_error (repeat x k) i = Some x.
Proof.
  induction k as [|k IH]; intros i H; [lia|]. destruct i; simpl; auto. apply IH; lia.
Qed.

Lemma push_nonempty : forall A w (q : list A) x, 1 <= w -> push w q x <> [].
Proof.
  intros A w q x Hw E. unfold push, lastn in E.
  assert (L : length (skipn (length (q ++ [x]) - w) (q ++ [x])) = 0) by (rewrite E; reflexivity).
  rewrite skipn_length, app_length in L. simpl in L. lia.
Qed.

Lemma forallb_snd_nth : forall (ds : list det) i u a,
  forallb snd ds = true -> nth_error ds i = Some (u, a) -> a = true.
Proof.
  intros ds i u a H E. rewrite forallb_forall in H. apply (H (u, a)). eapply nth_error_In; eauto.
Qed.

Lemma nth_error_lt_some : forall A (l : list A) i, i < length l -> exists x, nth_error l i = Some x.
Proof.
  intros A l i H. apply nth_error_Some in H. destruct (nth_error l i); [eauto | congruence].
Qed.

(* no F4(i)/(ii) defect fires on this answer (always true on the repaired tree) *)
Definition no_quirk (cfg : config) (n : nat) (ans : answer) : Prop :=
  (fix_i cfg = true \/ forall p, ans = APairs p -> sel_F4i p = false) /\
  (fix_ii cfg = true \/ forall p, ans = APairs p -> sel_F4ii cfg n p = false).

Lemma no_quirk_repaired : forall cfg n ans, fix_i cfg = true -> fix_ii cfg = true -> no_quirk cfg n ans.
Proof. intros; split; auto. Qed.

Lemma guard_nil : forall cfg, guard cfg [] = false.
Proof. intros. unfold guard. destruct (fix_i cfg); reflexivity. Qed.

Lemma step_form_m : forall cfg fq lqs m ds M ans,
  let st := mkState fq lqs (seq 0 m) in
  let n := length ds in
  (is_init cfg st = false -> no_quirk cfg n ans) -> 1 <= window cfg -> forallb snd ds = true ->
  (is_init cfg st = true -> m = 0) ->
  (is_init cfg st = false ->
     scores_raise cfg st n = false /\
     exists p, ans = APairs p /\ (forall r, In r (map fst p) -> r < n) /\ (0 < n -> p <> [])) ->
  exists p want,
    (is_init cfg st = true -> p = []) /\ (is_init cfg st = false -> ans = APairs p) /\
    length want = n /\
    (forall i, i < n -> nth_error want i = Some (negb (memb i (map fst p)))) /\
    let tids0 := assign p (repeat None n) in
    snd (step cfg st (ds, M, ans)) = Ok (output cfg ds (fill want tids0 m)) /\
    cur (fst (step cfg st (ds, M, ans))) = seq 0 (m + cnt want tids0) /\
    (is_init cfg (fst (step cfg st (ds, M, ans))) = true -> m + cnt want tids0 = 0).
Proof.
  intros cfg fq lqs m ds M ans st n NQ Hw Ab Hi0 Hs.
  set (none := repeat (@None nat) n).
  assert (Ln : length none = n) by (subst none; apply repeat_length).
  assert (Above : forall i, i < n -> exists u, nth_error ds i = Some (u, true)).
  { intros i Hi. destruct (nth_error_lt_some _ ds i Hi) as [[u a] E].
    exists u. rewrite E. f_equal. f_equal. eapply forallb_snd_nth; eauto. }
  unfold step. cbv zeta. change (length ds) with n. change (repeat (@None nat) n) with none.
  destruct (is_init cfg st) eqn:Ei.
  - (* first frame *)
    clear Hs. assert (Hm0 : m = 0) by auto.
    exists [], (if lq cfg then map snd ds else want_fw ds none).
    split; auto. split; [discriminate|].
    assert (Lw : length (if lq cfg then map snd ds else want_fw ds none) = n).
    { destruct (lq cfg); [apply map_length|].
      unfold want_fw. rewrite map_length, combine_length, Ln. apply Nat.min_id. }
    split; auto. split.
    { intros i Hi. destruct (Above i Hi) as [u E]. simpl. destruct (lq cfg).
      - erewrite map_nth_error; eauto. reflexivity.
      - rewrite (want_fw_nth ds none i u true None E); [reflexivity|].
        subst none. apply nth_error_repeat_none; auto. }
    simpl assign. subst st. simpl cur. rewrite add_new_fill. cbv beta iota.
    destruct (lq cfg) eqn:El; simpl fst; simpl snd.
    + split; [reflexivity|]. split; [reflexivity|].
      unfold is_init. rewrite El. simpl cur.
      change (repeat None (length ds)) with none.
      destruct (m + cnt (map snd ds) none); [auto | simpl; intros K; discriminate K].
    + split; [reflexivity|]. split; [reflexivity|].
      unfold is_init. rewrite El. simpl fwq. rewrite !seq_length.
      change (repeat None (length ds)) with none.
      unfold is_init in Ei. rewrite El in Ei. simpl in Ei. destruct fq; [|discriminate].
      destruct (m <? m + cnt (want_fw ds none) none) eqn:Eg.
      * intros K. exfalso.
        destruct (push (window cfg) [] (combine (uids ds) (fill (want_fw ds none) none m))) eqn:Ep;
          [|discriminate].
        eapply push_nonempty; eauto.
      * intros _. apply Nat.ltb_ge in Eg. lia.
  - destruct (Hs eq_refl) as (Er & p & -> & Rr & Ne). clear Hs.
    rewrite Er.
    exists p.
    destruct (NQ eq_refl) as [NQ1 NQ2].
    assert (G : guard cfg p = (0 <? length p)).
    { destruct p as [|pc p']; [apply guard_nil|].
      unfold guard. destruct (fix_i cfg) eqn:F1; [reflexivity|].
      destruct NQ1 as [NQ1|NQ1]; [discriminate|].
      specialize (NQ1 _ eq_refl). unfold sel_F4i in NQ1. simpl length in *. simpl Nat.ltb in *.
      simpl in NQ1. apply negb_false_iff in NQ1. exact NQ1. }
    rewrite G.
    destruct p as [|pc p'] eqn:Ep.
    + (* no match at all: only possible without detections *)
      assert (n = 0) by (destruct n; auto; exfalso; apply Ne; [lia | reflexivity]).
      assert (ds = []) by (destruct ds; [auto | subst n; simpl in *; discriminate]).
      subst ds. exists []. simpl.
      split; [discriminate|]. split; [auto|]. split; [auto|]. split; [intros i Hi; lia|].
      split; [destruct (lq cfg); reflexivity|]. split; [rewrite Nat.add_0_r; reflexivity|].
      intros K. subst st. rewrite K in Ei. discriminate.
    + rewrite <- Ep in *. assert (Lp : (0 <? length p) = true) by (subst p; reflexivity).
      rewrite Lp. clear G.
      set (tids0 := assign p none).
      assert (L0 : length tids0 = n) by (subst tids0; rewrite assign_length; auto).
      assert (T0 : forall i, i < n ->
                nth_error tids0 i <> None /\
                (forall t, nth_error tids0 i = Some t -> is_none t = negb (memb i (map fst p)))).
      { intros i Hi. split; [apply nth_error_Some; lia|]. intros t Et.
        destruct (memb i (map fst p)) eqn:Em.
        - apply memb_In in Em. destruct (assign_some_row p none i Em) as [c Ec]; [lia|].
          fold tids0 in Ec. rewrite Ec in Et. inversion Et; subst. reflexivity.
        - apply memb_false in Em. subst tids0. rewrite assign_not_row in Et by auto.
          subst none. rewrite nth_error_repeat_none in Et by auto. inversion Et; subst. reflexivity. }
      assert (Push : forall q x c, is_init cfg (mkState (push (window cfg) q x) lqs c) = true ->
                     lq cfg = false -> False).
      { intros q x c K El. unfold is_init in K. rewrite El in K. simpl in K.
        destruct (push (window cfg) q x) eqn:E; [|discriminate]. eapply push_nonempty; eauto. }
      destruct (lq cfg) eqn:El.
      * destruct (fix_ii cfg) eqn:F2.
        2:{ (* unrepaired local queues: no detection is unmatched *)
            destruct NQ2 as [NQ2|NQ2]; [discriminate|].
            specialize (NQ2 _ eq_refl). unfold sel_F4ii in NQ2.
            assert (Gt : guard cfg p = true).
            { destruct p as [|pc0 p0]; [discriminate|].
              unfold guard. destruct (fix_i cfg) eqn:F1; [reflexivity|].
              destruct NQ1 as [NQ1|NQ1]; [discriminate|].
              specialize (NQ1 _ eq_refl). unfold sel_F4i in NQ1. simpl in NQ1.
              apply negb_false_iff in NQ1. exact NQ1. }
            rewrite El, Gt in NQ2. simpl in NQ2. fold n in NQ2.
            destruct (unmatched n p) eqn:Eu; [|discriminate].
            simpl fst; simpl snd. exists (repeat false n).
            destruct (fill_false n tids0 m) as [Ff Fc]. fold none. fold tids0.
            split; [discriminate|]. split; [auto|]. split; [apply repeat_length|]. split.
            { intros i Hi. rewrite nth_error_repeat by auto.
              assert (In i (map fst p)) by (eapply unmatched_nil; eauto).
              apply memb_In in H. rewrite H. reflexivity. }
            rewrite Ff, Fc, Nat.add_0_r. split; [reflexivity|]. split; [reflexivity|].
            unfold is_init. rewrite El. simpl cur. intros K.
            destruct m; [|discriminate]. exfalso. unfold is_init in Ei. rewrite El in Ei. discriminate. }
        subst st. simpl cur. rewrite add_new_fill. cbv beta iota. simpl fst; simpl snd.
        exists (want_lq ds (map fst p)).
        split; [discriminate|]. split; [auto|].
        split; [unfold want_lq; rewrite map_length, combine_length, seq_length; apply Nat.min_id|].
        split.
        { intros i Hi. destruct (Above i Hi) as [u E].
          rewrite (want_lq_nth ds (map fst p) i u true E). reflexivity. }
        split; [reflexivity|]. split; [reflexivity|].
        unfold is_init. rewrite El. simpl cur. intros K.
        destruct m; [|discriminate]. exfalso. unfold is_init in Ei. rewrite El in Ei. discriminate.
      * destruct (unmatched n p) eqn:Eu.
        -- cbv beta iota. simpl fst; simpl snd. exists (repeat false n).
           destruct (fill_false n tids0 m) as [Ff Fc]. fold none. fold tids0.
           split; [discriminate|]. split; [auto|]. split; [apply repeat_length|]. split.
           { intros i Hi. rewrite nth_error_repeat by auto.
             assert (In i (map fst p)) by (eapply unmatched_nil; eauto).
             apply memb_In in H. rewrite H. reflexivity. }
           rewrite Ff, Fc, Nat.add_0_r. split; [reflexivity|]. split; [reflexivity|].
           intros K. exfalso. eapply Push; eauto.
        -- subst st. simpl cur. rewrite add_new_fill. cbv beta iota. simpl fst; simpl snd.
           exists (want_fw ds tids0).
           split; [discriminate|]. split; [auto|].
           split; [unfold want_fw; rewrite map_length, combine_length, L0; apply Nat.min_id|].
           split.
           { intros i Hi. destruct (Above i Hi) as [u E]. destruct (T0 i Hi) as [Nn Tv].
             destruct (nth_error tids0 i) as [t|] eqn:Et; [|congruence].
             rewrite (want_fw_nth ds tids0 i u true t E Et). rewrite (Tv t eq_refl). reflexivity. }
           split; [reflexivity|]. split; [reflexivity|].
           intros K. exfalso. eapply Push; eauto.
Qed.

(* ---------------------------------------------------------------------- *)
(* values written by fill / assign *)

Lemma fill_want_val : forall want tids n i,
  nth_error want i = Some true -> i < length tids ->
  exists x, nth_error (fill want tids n) i = Some (Some x) /\ n <= x < n + cnt want tids.
Proof.
  induction want as [|w want IH]; intros [|t tids] n i H L; simpl in *; try lia;
    destruct i; simpl in *; try discriminate.
  - inversion H; subst. exists n. split; auto. lia.
  - destruct w; simpl.
    + destruct (IH tids (S n) i H) as [x [A B]]; [lia|]. exists x. split; auto. lia.
    + destruct (IH tids n i H) as [x [A B]]; [lia|]. exists x. split; auto.
Qed.

Lemma fill_surj : forall want tids n x,
  n <= x < n + cnt want tids ->
  exists i, nth_error (fill want tids n) i = Some (Some x) /\ nth_error want i = Some true.
Proof.
  induction want as [|w want IH]; intros [|t tids] n x H; simpl in *; try lia.
  destruct w; simpl in *.
  - destruct (Nat.eq_dec x n) as [->|Ne].
    + exists 0. auto.
    + destruct (IH tids (S n) x) as [i [A B]]; [lia|]. exists (S i). auto.
  - destruct (IH tids n x) as [i [A B]]; [lia|]. exists (S i). auto.
Qed.

Lemma nth_error_set_nth_same : forall A (l : list A) r x, r < length l ->
  nth_error (set_nth r x l) r = Some x.
Proof.
  induction l as [|y l IH]; intros r x H; simpl in *; [lia|].
  destruct r; simpl; auto. apply IH. lia.
Qed.

Lemma assign_in : forall p tids r c,
  NoDup (map fst p) -> In (r, c) p -> r < length tids ->
  nth_error (assign p tids) r = Some (Some c).
Proof.
  induction p as [|[r0 c0] p IH]; intros tids r c ND H L; simpl in *; [destruct H|].
  inversion ND as [|x0 l0 Hnin Hnd]; subst.
  destruct H as [H|H].
  - inversion H; subst. rewrite assign_not_row by auto. apply nth_error_set_nth_same; auto.
  - apply IH; auto. rewrite set_nth_length; auto.
Qed.

Lemma nodup_app : forall A (l1 l2 : list A),
  NoDup l1 -> NoDup l2 -> (forall x, In x l1 -> ~ In x l2) -> NoDup (l1 ++ l2).
Proof.
  induction l1 as [|a l1 IH]; intros l2 N1 N2 D; simpl; auto.
  inversion N1; subst. constructor.
  - intro K. apply in_app_or in K. destruct K as [K|K]; [auto|]. apply (D a); simpl; auto.
  - apply IH; auto. intros x Hx. apply D. simpl; auto.
Qed.

Lemma new_owners_In : forall m out u t,
  In (u, t) (new_owners m out) <-> In (u, Some t) out /\ m <= t.
Proof.
  induction out as [|[v [s|]] out IH]; intros u t; simpl.
  - tauto.
  - destruct (m <=? s) eqn:E.
    + apply Nat.leb_le in E. simpl. rewrite IH. split.
      * intros [H|H]; [inversion H; subst; auto | tauto].
      * intros [[H|H] L]; [inversion H; subst; auto | auto].
    + apply Nat.leb_gt in E. rewrite IH. split; [tauto|].
      intros [[H|H] L]; [inversion H; subst; lia | auto].
  - rewrite IH. split; [tauto|]. intros [[H|H] L]; [discriminate | auto].
Qed.

Lemma new_owners_fst_nodup : forall m out, NoDup (map fst out) -> NoDup (map fst (new_owners m out)).
Proof.
  induction out as [|[v [s|]] out IH]; intros ND; simpl in *; auto; inversion ND; subst; auto.
  destruct (m <=? s); auto. simpl. constructor; auto.
  intro K. apply in_map_iff in K. destruct K as [[u t] [E K]]. simpl in E. subst u.
  apply new_owners_In in K. destruct K as [K _]. apply H1. apply (in_map fst) in K. exact K.
Qed.

Lemma new_owners_snd_nodup : forall m out,
  NoDup (somes (map snd out)) -> NoDup (map snd (new_owners m out)).
Proof.
  induction out as [|[v [s|]] out IH]; intros ND; simpl in *; auto.
  inversion ND; subst. destruct (m <=? s); auto. simpl. constructor; auto.
  intro K. apply in_map_iff in K. destruct K as [[u t] [E K]]. simpl in E. subst t.
  apply new_owners_In in K. destruct K as [K _]. apply H1.
  apply in_somes. apply (in_map snd) in K. exact K.
Qed.

Lemma map_fst_combine : forall A B (a : list A) (b : list B),
  length a = length b -> map fst (combine a b) = a.
Proof.
  induction a as [|x a IH]; intros [|y b] H; simpl in *; try discriminate; auto.
  f_equal. apply IH. lia.
Qed.

Lemma filter_all : forall A (f : A -> bool) l, (forall x, In x l -> f x = true) -> filter f l = l.
Proof.
  induction l as [|a l IH]; intros H; simpl; auto.
  rewrite (H a) by (simpl; auto). f_equal. apply IH. intros; apply H; simpl; auto.
Qed.

Lemma in_combine_nth : forall A B (a : list A) (b : list B) x y,
  In (x, y) (combine a b) -> exists i, nth_error a i = Some x /\ nth_error b i = Some y.
Proof.
  induction a as [|x0 a IH]; intros [|y0 b] x y H; simpl in *; try tauto.
  destruct H as [H|H].
  - inversion H; subst. exists 0. auto.
  - destruct (IH _ _ _ H) as [i [A1 B1]]. exists (S i). auto.
Qed.

(* ====================================================================== *)
(* one call on a scene of the property's class (repaired guard and list) *)

Definition Inv10 (cfg : config) (st : state) (own : owners) : Prop :=
  Inv cfg st /\ OwnInv own (length (cur st)) /\ (is_init cfg st = true -> cur st = []).

(* premise at an executed call: the scene conditions and dominance hold for
   the recorded matrix (w.r.t. the owners so far), the matcher's answer
   satisfies its contract, get_scores does not raise (F4 iii) *)
Definition scene_hyp (cfg : config) (x : state * owners * frame * outcome) : Prop :=
  scene_step_ok cfg x = true /\
  contract_step cfg (s_state x, s_frame x, s_out x) /\
  (is_init cfg (s_state x) = false ->
   scores_raise cfg (s_state x) (length (f_dets (s_frame x))) = false /\
   no_quirk cfg (length (f_dets (s_frame x))) (f_answer (s_frame x))).

(* conclusion at a call: it returns every detection, each with the track its
   animal owns in own' *)
Definition identity_step (x : state * owners * frame * outcome) (own' : owners) : Prop :=
  exists out, s_out x = Ok out /\ map fst out = uids (f_dets (s_frame x)) /\
              forall u o, In (u, o) out -> exists t, o = Some t /\ In (u, t) own'.

Lemma OwnInv_0 : forall own, OwnInv own 0 -> own = [].
Proof.
  intros [|[a t] own] [_ _ L _]; auto. specialize (L a t (or_introl eq_refl)). lia.
Qed.

Opaque step.

Lemma step10 : forall cfg st own f,
  1 <= window cfg ->
  Inv10 cfg st own ->
  scene_hyp cfg (st, own, f, snd (step cfg st f)) ->
  let o := snd (step cfg st f) in
  let own' := owners_after own (length (cur st)) o in
  identity_step (st, own, f, o) own' /\ Inv10 cfg (fst (step cfg st f)) own' /\ incl own own'.
Proof.
  intros cfg st own f Hw ((Hc & Hi) & OI & H0) (SOK & CS & NRQ).
  assert (NR : is_init cfg st = false -> scores_raise cfg st (length (f_dets f)) = false)
    by (intros E; apply NRQ; auto).
  assert (NQ : is_init cfg st = false -> no_quirk cfg (length (f_dets f)) (f_answer f))
    by (intros E; apply NRQ; auto).
  clear NRQ.
  assert (InvSt : Inv cfg st) by (split; auto).
  destruct st as [fq lqs c]. simpl in Hc. remember (length c) as m eqn:Em. subst c.
  destruct f as [[ds M] ans].
  unfold s_state, s_own, s_frame, s_out, f_dets, f_matrix in *. simpl fst in *. simpl snd in *.
  set (st := mkState fq lqs (seq 0 m)) in *.
  set (n := length ds) in *. set (us := uids ds) in *.
  assert (Lc : length (cur st) = m) by (subst st; simpl; apply seq_length).
  assert (Lu : length us = n) by apply uids_length.
  rewrite Lc in *.
  (* unpack the scene premise *)
  unfold scene_step_ok, s_state, s_own, s_frame, f_dets, f_matrix in SOK.
  simpl fst in SOK. simpl snd in SOK. fold us in SOK. rewrite Lc in SOK.
  repeat rewrite andb_true_iff in SOK. destruct SOK as [[NDb Ab] Sc].
  assert (ND : NoDup us) by (apply nodupb_NoDup; auto).
  (* the matcher's answer *)
  assert (Ans : is_init cfg st = false ->
            scores_raise cfg st n = false /\
            exists p, ans = APairs p /\ matching n m p /\
                      (forall r c, In (r, c) p <-> rowtrack own us r = Some c) /\
                      (0 < n -> p <> [])).
  { intros Ei. assert (Er := NR Ei). split; auto.
    rewrite Ei in Sc. simpl in Sc. unfold scene_ok in Sc.
    repeat rewrite andb_true_iff in Sc. destruct Sc as [[_ Side] Dom].
    apply orb_true_iff in Side.
    assert (C : matcher_contract cfg M n m ans).
    { unfold contract_step, answer_used, t_state, t_frame, f_dets, f_matrix, f_answer in CS.
      simpl fst in CS. simpl snd in CS. fold n in CS. rewrite Ei, Er, Lc in CS. apply CS. reflexivity. }
    destruct (matcher_identity cfg own ds M m ans OI ND Side Dom C) as (p & Ea & Mp & Id).
    change (uids ds) with us in Id. change (length ds) with n in Mp.
    exists p. split; [auto|]. split; [exact Mp|]. split; [exact Id|].
    intros Hn Ep. subst p.
    destruct Side as [AK|AP].
    - unfold all_known in AK. fold us in AK. rewrite forallb_forall in AK.
      destruct (nth_error_lt_some _ us 0) as [a Ea0]; [lia|].
      assert (K := AK a (nth_error_In _ _ Ea0)).
      destruct (own_of own a) as [t|] eqn:Eo; [|discriminate].
      assert (In (0, t) []) by (apply Id; unfold rowtrack; rewrite Ea0; auto). auto.
    - assert (Hm : 0 < m).
      { destruct m; [|lia]. exfalso. apply (Hi Ei). reflexivity. }
      destruct (oi_sur _ _ OI 0 Hm) as [a Ha].
      unfold all_present in AP. fold us in AP. rewrite forallb_forall in AP.
      assert (K := AP _ Ha). simpl in K. apply memb_In in K.
      destruct (index_of_In _ _ K) as [r Er0]. apply index_of_nth in Er0.
      assert (In (r, 0) []).
      { apply Id. unfold rowtrack. rewrite Er0. apply own_of_In; [apply OI | auto]. }
      auto. }
  (* closed form of the step *)
  destruct (step_form_m cfg fq lqs m ds M ans NQ Hw Ab) as (p & want & P0 & P1 & Lw & Wv & Out & Cur & Ini).
  { intros Ei. specialize (H0 Ei). simpl in H0. destruct m; [auto | discriminate]. }
  { intros Ei. destruct (Ans Ei) as (Er & p & Ea & Mp & _ & Ne). split; auto.
    exists p. split; auto. split; auto. destruct Mp as (_ & _ & C & _). auto. }
  set (none := repeat (@None nat) n) in *.
  set (tids0 := assign p none) in *.
  set (tids := fill want tids0 m) in *.
  set (k := cnt want tids0) in *.
  change (assign p (repeat None (length ds))) with tids0 in Out, Cur, Ini.
  change (fill want tids0 m) with tids in Out.
  change (cnt want tids0) with k in Cur, Ini.
  change (length ds) with n in Lw, Wv.
  fold st in Out, Cur, Ini.
  assert (Ln : length none = n) by (subst none; apply repeat_length).
  assert (L0 : length tids0 = n) by (subst tids0; rewrite assign_length; auto).
  assert (Lt : length tids = n) by (subst tids; rewrite fill_length; auto).
  (* the answer is the identity assignment; in the first frames nothing is owned *)
  assert (PI : NoDup (map fst p) /\ NoDup (map snd p) /\ (forall c, In c (map snd p) -> c < m) /\
               forall r c, In (r, c) p <-> rowtrack own us r = Some c).
  { destruct (is_init cfg st) eqn:Ei.
    - rewrite (P0 Ei). simpl. split; [constructor|]. split; [constructor|]. split; [intros c []|].
      assert (Hm0 : m = 0) by (specialize (H0 eq_refl); simpl in H0; destruct m; [auto | discriminate]).
      assert (Eo : own = []) by (apply OwnInv_0; rewrite <- Hm0; exact OI).
      rewrite Eo. intros r c. unfold rowtrack. simpl.
      destruct (nth_error us r); split; try tauto; discriminate.
    - destruct (Ans eq_refl) as (_ & p1 & Ea & Mp & Id & _).
      assert (E : APairs p = APairs p1) by (rewrite <- Ea; symmetry; apply P1; auto).
      inversion E; subst p1. destruct Mp as (A & B & _ & D). auto. }
  destruct PI as (NDr & NDc & Rc & Id).
  (* every position holds a track: the owned one, or a new one *)
  assert (V : forall i a, nth_error us i = Some a ->
            exists t, nth_error tids i = Some (Some t) /\
                      ((own_of own a = Some t) \/ (own_of own a = None /\ m <= t < m + k))).
  { intros i a Ea. assert (Hi' : i < n) by (rewrite <- Lu; apply nth_error_Some; congruence).
    assert (RT : rowtrack own us i = own_of own a) by (unfold rowtrack; rewrite Ea; auto).
    destruct (own_of own a) as [t|] eqn:Eo.
    - exists t. split; auto.
      assert (Hp : In (i, t) p) by (apply Id; auto).
      subst tids. rewrite fill_not_want.
      + subst tids0. apply assign_in; auto. lia.
      + rewrite Wv by auto. apply (in_map fst) in Hp. simpl in Hp.
        apply memb_In in Hp. rewrite Hp. reflexivity.
    - assert (Np : ~ In i (map fst p)).
      { intro K. apply in_map_iff in K. destruct K as [[r c] [E K]]. simpl in E. subst r.
        apply Id in K. congruence. }
      destruct (fill_want_val want tids0 m i) as [x [A B]].
      + rewrite Wv by auto. apply memb_false in Np. rewrite Np. reflexivity.
      + lia.
      + exists x. split; auto. }
  (* the output: all detections, in order *)
  assert (AllSome : forall x, In x (combine us tids) -> is_some (snd x) = true).
  { intros [u o] H. destruct (in_combine_nth _ _ _ _ _ _ H) as [i [A B]].
    destruct (V i u A) as [t [E _]]. simpl. rewrite E in B. injection B as <-. reflexivity. }
  assert (OutE : output cfg ds tids = combine us tids).
  { unfold output. fold us. destruct (lq cfg); auto. apply filter_all. auto. }
  rewrite OutE in Out.
  set (out := combine us tids) in *.
  assert (Fo : map fst out = us) by (subst out; apply map_fst_combine; lia).
  assert (So : map snd out = tids) by (subst out; apply map_snd_combine; lia).
  assert (Out' : snd (step cfg st (ds, M, ans)) = Ok out) by exact Out.
  assert (Cur' : cur (fst (step cfg st (ds, M, ans))) = seq 0 (m + k)) by exact Cur.
  assert (Ini' : is_init cfg (fst (step cfg st (ds, M, ans))) = true -> m + k = 0) by exact Ini.
  clear Out Cur Ini. rename Out' into Out. rename Cur' into Cur. rename Ini' into Ini.
  cbv zeta. unfold owners_after. rewrite Out.
  set (own' := own ++ new_owners m out).
  assert (InOut : forall u o, In (u, o) out -> exists t, o = Some t /\ In (u, t) own').
  { intros u o H. destruct (in_combine_nth _ _ _ _ _ _ H) as [i [A B]].
    destruct (V i u A) as [t [E W]]. rewrite E in B. inversion B; subst o.
    exists t. split; auto. subst own'. apply in_or_app.
    destruct W as [W|[W R]].
    - left. apply own_of_In; [apply OI | auto].
    - right. apply new_owners_In. split; [auto | lia]. }
  assert (NDt : NoDup (somes tids)).
  { subst tids. apply nodup_somes_fill.
    - subst tids0. apply nodup_somes_assign; auto; subst none; rewrite somes_repeat_none;
        [constructor | intros x []].
    - intros x H. subst tids0. apply in_somes_assign in H. subst none.
      rewrite somes_repeat_none in H. destruct H as [[]|H]. auto. }
  split; [|split].
  - exists out. split; [reflexivity|]. split; auto.
  - split; [|split].
    + (* Inv of the new state *)
      pose proof (step_spec cfg st (ds, M, ans) InvSt) as SP.
      destruct SP as (I1 & _); auto.
      eapply contract_valid. exact CS.
    + rewrite Cur, seq_length.
      destruct OI as [O1 O2 O3 O4].
      constructor.
      * subst own'. rewrite map_app. apply nodup_app; auto.
        -- apply new_owners_fst_nodup. rewrite Fo. auto.
        -- intros u Hu K. apply in_map_iff in Hu. destruct Hu as [[u0 t0] [E Hu]]. simpl in E. subst u0.
           apply in_map_iff in K. destruct K as [[u1 t1] [E K]]. simpl in E. subst u1.
           apply new_owners_In in K. destruct K as [K L].
           destruct (in_combine_nth _ _ _ _ _ _ K) as [i [A B]].
           destruct (V i u A) as [t [E W]]. rewrite E in B. inversion B; subst t1.
           apply own_of_In in Hu; auto.
           destruct W as [W|[W _]]; [|congruence].
           rewrite Hu in W. inversion W; subst t0.
           apply own_of_In in Hu; auto. specialize (O3 _ _ Hu). lia.
      * subst own'. rewrite map_app. apply nodup_app; auto.
        -- apply new_owners_snd_nodup. rewrite So. auto.
        -- intros t Ht K. apply in_map_iff in Ht. destruct Ht as [[u0 t0] [E Ht]]. simpl in E. subst t0.
           apply in_map_iff in K. destruct K as [[u1 t1] [E K]]. simpl in E. subst t1.
           apply new_owners_In in K. destruct K as [_ L]. specialize (O3 _ _ Ht). lia.
      * intros a t H. subst own'. apply in_app_or in H. destruct H as [H|H].
        -- specialize (O3 _ _ H). lia.
        -- apply new_owners_In in H. destruct H as [H L].
           destruct (in_combine_nth _ _ _ _ _ _ H) as [i [A B]].
           destruct (V i a A) as [t' [E W]]. rewrite E in B. inversion B; subst t'.
           destruct W as [W|[_ W]]; [|lia].
           apply own_of_In in W; auto. specialize (O3 _ _ W). lia.
      * intros t Ht. destruct (Nat.lt_ge_cases t m) as [Lo|Hi'].
        -- destruct (O4 t Lo) as [a Ha]. exists a. subst own'. apply in_or_app. auto.
        -- destruct (fill_surj want tids0 m t) as [i [A B]]; [fold k; lia|].
           fold tids in A.
           assert (Hi2 : i < n) by (rewrite <- Lw; apply nth_error_Some; congruence).
           destruct (nth_error_lt_some _ us i) as [a Ea]; [lia|].
           exists a. subst own'. apply in_or_app. right. apply new_owners_In. split; auto.
           subst out. eapply nth_error_In. apply nth_error_combine; eauto.
    + intros K. rewrite Cur. rewrite (Ini K). reflexivity.
  - subst own'. apply incl_appl. apply incl_refl.
Qed.

(* ====================================================================== *)
(* histories *)

Lemma identity_step_mono : forall x own own', incl own own' -> identity_step x own -> identity_step x own'.
Proof.
  intros x own own' I (out & A & B & C). exists out. split; auto. split; auto.
  intros u o H. destruct (C u o H) as [t [E K]]. exists t. split; auto.
Qed.

Lemma trace10_identity : forall cfg, 1 <= window cfg ->
  forall h st own, Inv10 cfg st own ->
  Forall (scene_hyp cfg) (trace10 cfg st own h) ->
  exists ownF, incl own ownF /\ NoDup (map fst ownF) /\ NoDup (map snd ownF) /\
               length (trace10 cfg st own h) = length h /\
               Forall (fun x => identity_step x ownF) (trace10 cfg st own h).
Proof.
  intros cfg Hw. induction h as [|f r IH]; intros st own I H.
  - exists own. destruct I as (_ & [O1 O2 _ _] & _). simpl. repeat split; auto. apply incl_refl.
  - simpl in H. inversion H as [|x l Hx Hl]; subst. clear H.
    destruct (step10 cfg st own f Hw I Hx) as (Id & I' & Inc).
    cbv zeta in Id, I', Inc.
    destruct Id as (out & Eo & Fo & Io). unfold s_out in Eo. simpl snd in Eo.
    simpl trace10. rewrite Eo in *.
    destruct (IH _ _ I' Hl) as (ownF & IncF & N1 & N2 & Len & All).
    exists ownF. split; [eapply incl_tran; eauto|]. split; auto. split; auto.
    split; [simpl; f_equal; exact Len|].
    constructor; auto.
    apply (identity_step_mono _ (owners_after own (length (cur st)) (Ok out))); auto.
    exists out. unfold s_out. simpl snd. split; [reflexivity|]. split; auto.
Qed.

Transparent step.

Lemma trace10_trace : forall cfg h st own,
  map (fun x => (s_state x, s_frame x, s_out x)) (trace10 cfg st own h) = trace cfg st h.
Proof.
  induction h as [|f r IH]; intros st own; simpl; auto.
  unfold s_state, s_frame, s_out at 1. simpl. f_equal.
  destruct (snd (step cfg st f)); auto.
Qed.

Lemma Inv10_init : forall cfg, Inv10 cfg init [].
Proof.
  intros cfg. split; [apply Inv_init|]. split.
  - constructor; simpl; [apply NoDup_nil | apply NoDup_nil | intros a t [] | intros t H; lia].
  - reflexivity.
Qed.

(* the main theorem: any setting of the switches, no F4 defect firing *)
Theorem identity_preserved_general : forall cfg h, 1 <= window cfg ->
  Forall (scene_hyp cfg) (trace10 cfg init [] h) ->
  exists track_of : owners,
    NoDup (map fst track_of) /\ NoDup (map snd track_of) /\
    length (run cfg h) = length h /\
    Forall (fun x => identity_step x track_of) (trace10 cfg init [] h).
Proof.
  intros cfg h Hw H.
  destruct (trace10_identity cfg Hw h init [] (Inv10_init cfg) H) as (ownF & _ & N1 & N2 & Len & All).
  exists ownF. repeat split; auto.
  unfold run. rewrite run_trace, <- (trace10_trace cfg h init []), !map_length. exact Len.
Qed.

(* the premise on the repaired tree: scene conditions + dominance, contract, no nanmax failure *)
Definition scene_hyp_repaired (cfg : config) (x : state * owners * frame * outcome) : Prop :=
  scene_step_ok cfg x = true /\
  contract_step cfg (s_state x, s_frame x, s_out x) /\
  (is_init cfg (s_state x) = false ->
   scores_raise cfg (s_state x) (length (f_dets (s_frame x))) = false).

Theorem identity_preserved_repaired : forall cfg h,
  fix_i cfg = true -> fix_ii cfg = true -> 1 <= window cfg ->
  Forall (scene_hyp_repaired cfg) (trace10 cfg init [] h) ->
  exists track_of : owners,
    NoDup (map fst track_of) /\ NoDup (map snd track_of) /\
    length (run cfg h) = length h /\
    Forall (fun x => identity_step x track_of) (trace10 cfg init [] h).
Proof.
  intros cfg h F1 F2 Hw H. apply identity_preserved_general; auto.
  eapply Forall_impl; [|exact H]. intros x (A & B & C). split; auto. split; auto.
  intros E. split; auto. apply no_quirk_repaired; auto.
Qed.

(* with fix_iii (or scoring_reduction = mean) get_scores never raises *)
Lemma scores_raise_mean_or_fixed : forall cfg st n,
  red_max cfg = false \/ fix_iii cfg = true -> scores_raise cfg st n = false.
Proof.
  intros cfg st n [H|H]; unfold scores_raise; rewrite H; [reflexivity|].
  destruct (red_max cfg); reflexivity.
Qed.

(* ---------------------------------------------------------------------- *)
(* the PINNED (historic) tree, all F4 switches off: refuted by one animal seen in three frames *)

Definition wit10_one_animal : list frame :=
  [ ([(7, true)], [], AFail);
    ([(7, true)], [[Q1]], APairs [(0, 0)]);
    ([(7, true)], [[Q1]], APairs [(0, 0)]) ].

Lemma wit10_premise : forall l,
  let cfg := cfg_now l false 3 false in
  Forall (scene_hyp_repaired cfg) (trace10 cfg init [] wit10_one_animal).
Proof.
  intros l cfg. subst cfg.
  destruct l; vm_compute trace10;
    repeat (apply Forall_cons; [split; [vm_compute; reflexivity|]; split;
              [ unfold contract_step, answer_used, matcher_contract; simpl;
                let U := fresh "U" in intros U; try discriminate U; apply contract_1x1
              | intros _; vm_compute; reflexivity ] |]); apply Forall_nil.
Qed.

Lemma wit10_not_identity : forall l,
  let cfg := cfg_now l false 3 false in
  ~ exists track_of, Forall (fun x => identity_step x track_of) (trace10 cfg init [] wit10_one_animal).
Proof.
  intros l cfg [tr H]. subst cfg.
  assert (K : exists x, In x (trace10 (cfg_now l false 3 false) init [] wit10_one_animal) /\
                        (s_out x = Ok [] \/ s_out x = Ok [(7, None)]) /\
                        uids (f_dets (s_frame x)) = [7]).
  { destruct l; vm_compute; eexists; (split; [right; left; reflexivity|]); split; auto. }
  destruct K as (x & Hx & Ho & Hu).
  rewrite Forall_forall in H. destruct (H x Hx) as (out & Eo & Fo & Io).
  rewrite Hu in Fo.
  destruct Ho as [Ho|Ho]; rewrite Ho in Eo; inversion Eo; subst out.
  - discriminate Fo.
  - destruct (Io 7 None (or_introl eq_refl)) as [t [E _]]. discriminate E.
Qed.

(* ====================================================================== *)
(* round 2: the widened tracker model (C09/TrackerX.v: max_tracks, name checks,
   optical-flow tracker) keeps identities whenever the cap is never binding *)
From SV Require Import C09.TrackerX C09.LemmasX.

Theorem identity_preserved_widened : forall X h,
  names_ok X = true -> fix_iv X = false -> cap_asis_or_none X ->
  fix_i (base X) = true -> fix_ii (base X) = true -> 1 <= window (base X) ->
  Forall (scene_hyp_repaired (base X)) (trace10 (base X) init [] h) ->
  Forall (cap_silent X) (trace (base X) init h) ->
  xrun X h = run (base X) h /\
  exists track_of : owners,
    NoDup (map fst track_of) /\ NoDup (map snd track_of) /\
    length (xrun X h) = length h /\
    Forall (fun x => identity_step x track_of) (trace10 (base X) init [] h).
Proof.
  intros X h Hn Hiv Hcap F1 F2 Hw H HS.
  assert (HC : Forall (contract_step (base X)) (trace (base X) init h)).
  { rewrite <- (trace10_trace (base X) h init []). apply Forall_map.
    eapply Forall_impl; [|exact H]. intros x (_ & C & _). exact C. }
  assert (E : xrun X h = run (base X) h).
  { unfold xrun, run. rewrite xrun_trace, run_trace.
    rewrite (xtrace_eq_trace_base X Hn Hiv Hcap h init (Inv_init _) HC HS). reflexivity. }
  split; [exact E|]. rewrite E. apply identity_preserved_repaired; auto.
Qed.
