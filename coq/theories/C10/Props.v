(* Props.v (C10) — statements only; proofs live in C10/Lemmas.v.

   Property C10: "when animals are far apart compared with how far they move
   between frames, and a new animal only ever appears in a frame in which all
   previously seen animals are also detected, each animal keeps the same track
   identity on every frame in which it is detected, whatever order the
   detections are listed in and across absences shorter than the tracking
   window; the newcomer receives an identity no other animal has held — for
   every candidate method, matching algorithm and feature/score combination".

   Model: the tracker state machines of C09 (C09/Tracker.v) plus C10/Scene.v:
   in a scene the uid of a detection is the identity of its animal; `owners`
   (animal, track) is computed from the tracker's own outputs.  "Far apart
   compared with the motion" enters as the DOMINANCE premise on the recorded
   score matrix of each call (`dominant`, measured by the harness on every
   recorded matrix): the score of an animal's detection against the track it
   owns is a number (D1: the track still has a candidate in the window — proved
   from "absences shorter than the window" by c10_recent_animal_has_candidate +
   c10_candidate_gives_a_number) and beats every other score of its row and of
   its column.  `scene_step_ok` adds the side conditions: one detection per
   animal, all above the threshold, and either every detection belongs to a
   known animal or every known animal is detected (late arrivals only while
   everyone is visible).

   All theorems are unbounded in the number of frames, animals and tracks and
   hold for every configuration (both candidate methods, both matchers, every
   window >= 1, both reductions) and every matcher answer satisfying the
   matcher's contract (C09). *)
From Coq Require Import List Arith Bool ZArith QArith.
Import ListNotations.
From SV Require Import C09.Tracker C09.Lemmas C09.TrackerX C09.LemmasX C09.LemmasR C10.Scene C10.Lemmas C10.LemmasR C10.Geometry.
Close Scope Q_scope.
Open Scope nat_scope.

(* --- definitions restated ------------------------------------------------ *)

Lemma row_dominant_def : forall M n m i t,
  row_dominant M n m i t =
  (is_some (cell M i t) &&
   forallb (fun t' => (t' =? t) || cost_lt (cell M i t) (cell M i t')) (seq 0 m) &&
   forallb (fun j => (j =? i) || cost_lt (cell M i t) (cell M j t)) (seq 0 n)).
Proof. reflexivity. Qed.
Print Assumptions row_dominant_def.

(* cost_lt a b: the cost -a is strictly below -b, i.e. score a > score b; NaN is the worst *)
Lemma cost_lt_def : forall a b,
  cost_lt a b = match a, b with
                | None, _ => false
                | Some _, None => true
                | Some x, Some y => negb (Qle_bool x y)
                end.
Proof. intros [x|] [y|]; reflexivity. Qed.
Print Assumptions cost_lt_def.

Lemma scene_step_ok_def : forall cfg x,
  scene_step_ok cfg x =
  (let ds := f_dets (s_frame x) in
   nodupb (uids ds) && forallb snd ds &&
   (is_init cfg (s_state x) ||
    (nodupb (uids ds) && forallb snd ds &&
     (all_known (s_own x) ds || all_present (s_own x) ds) &&
     dominant (s_own x) ds (f_matrix (s_frame x)) (length (cur (s_state x)))))).
Proof. reflexivity. Qed.
Print Assumptions scene_step_ok_def.

(* premise at an executed call *)
Lemma scene_hyp_def : forall cfg x,
  scene_hyp cfg x =
  (scene_step_ok cfg x = true /\
   contract_step cfg (s_state x, s_frame x, s_out x) /\
   (is_init cfg (s_state x) = false ->
    scores_raise cfg (s_state x) (length (f_dets (s_frame x))) = false /\
    no_quirk cfg (length (f_dets (s_frame x))) (f_answer (s_frame x)))).
Proof. reflexivity. Qed.
Print Assumptions scene_hyp_def.

Lemma no_quirk_def : forall cfg n ans,
  no_quirk cfg n ans =
  ((fix_i cfg = true \/ forall p, ans = APairs p -> sel_F4i p = false) /\
   (fix_ii cfg = true \/ forall p, ans = APairs p -> sel_F4ii cfg n p = false)).
Proof. reflexivity. Qed.
Print Assumptions no_quirk_def.

(* conclusion at a call: it returns, lists every detection once and in
   order, each with the track that `track_of` gives to its animal *)
Lemma identity_step_def : forall x track_of,
  identity_step x track_of =
  (exists out, s_out x = Ok out /\ map fst out = uids (f_dets (s_frame x)) /\
               forall u o, In (u, o) out -> exists t, o = Some t /\ In (u, t) track_of).
Proof. reflexivity. Qed.
Print Assumptions identity_step_def.

Lemma trace10_is_trace : forall cfg h,
  map (fun x => (s_state x, s_frame x, s_out x)) (trace10 cfg init [] h) = trace cfg init h.
Proof. intros; apply trace10_trace. Qed.
Print Assumptions trace10_is_trace.

(* --- (a) dominance => both matchers answer the identity assignment ------- *)

(* On a dominant matrix, under the scene's side condition, EVERY answer the
   Hungarian contract allows (an optimum of scipy's solver, repaired or not;
   it cannot be a failure) and EVERY admissible greedy run consists exactly
   of the pairs (row of animal a, track owned by a). *)
Theorem c10_dominant_matrix_identity_assignment : forall cfg own ds M m ans,
  OwnInv own m -> NoDup (uids ds) ->
  all_known own ds = true \/ all_present own ds = true ->
  dominant own ds M m = true ->
  matcher_contract cfg M (length ds) m ans ->
  exists p, ans = APairs p /\ matching (length ds) m p /\
            forall r c, In (r, c) p <-> rowtrack own (uids ds) r = Some c.
Proof. exact matcher_identity. Qed.
Print Assumptions c10_dominant_matrix_identity_assignment.

(* --- (b) identity is preserved along every in-class history -------------- *)

(* PINNED tree (historic: all F4 switches off, before fix 0429c9b; no code
   implements it any more): refuted.  One animal, three frames (dominance holds
   trivially, the contract holds), both candidate methods: from the second
   frame on the animal has no track. *)
Theorem c10_identity_refuted : forall l,
  let cfg := cfg_now l false 3 false in
  Forall (scene_hyp_repaired cfg) (trace10 cfg init [] wit10_one_animal) /\
  ~ exists track_of,
      Forall (fun x => identity_step x track_of) (trace10 cfg init [] wit10_one_animal).
Proof. intros l; split; [apply wit10_premise | apply wit10_not_identity]. Qed.
Print Assumptions c10_identity_refuted.

(* ANY setting of the switches, provided no F4 selector fires (`no_quirk`,
   `scores_raise = false` inside `scene_hyp`): there is ONE injective map
   animal -> track such that every call of the history returns all its
   detections, each with the track of its animal.  Hence an animal has the
   same track on every frame in which it is detected, and no two animals ever
   hold the same track (a newcomer's identity was held by nobody). *)
Theorem c10_identity_partial : forall cfg h, 1 <= window cfg ->
  Forall (scene_hyp cfg) (trace10 cfg init [] h) ->
  exists track_of : owners,
    NoDup (map fst track_of) /\ NoDup (map snd track_of) /\
    length (run cfg h) = length h /\
    Forall (fun x => identity_step x track_of) (trace10 cfg init [] h).
Proof. exact identity_preserved_general. Qed.
Print Assumptions c10_identity_partial.

(* CURRENT tree (fix_i, fix_ii; /repo HEAD has all F4 repairs): the full
   statement for the base model `step`; `c10x_identity_preserved_widened_any_fix`
   below carries it to the widened tracker `xstep` in the current configuration
   (the two agree on every in-class call).  The remaining premise
   `scores_raise = false` is F4(iii)'s nanmax failure; it holds by definition
   when scoring_reduction = mean or fix_iii is applied (next lemma). *)
Theorem c10_identity_preserved_repaired : forall cfg h,
  fix_i cfg = true -> fix_ii cfg = true -> 1 <= window cfg ->
  Forall (scene_hyp_repaired cfg) (trace10 cfg init [] h) ->
  exists track_of : owners,
    NoDup (map fst track_of) /\ NoDup (map snd track_of) /\
    length (run cfg h) = length h /\
    Forall (fun x => identity_step x track_of) (trace10 cfg init [] h).
Proof. exact identity_preserved_repaired. Qed.
Print Assumptions c10_identity_preserved_repaired.

(* (definitional: an unfolding of `scores_raise`) *)
Lemma c10_scores_never_raise_mean_or_fixed : forall cfg st n,
  red_max cfg = false \/ fix_iii cfg = true -> scores_raise cfg st n = false.
Proof. exact scores_raise_mean_or_fixed. Qed.
Print Assumptions c10_scores_never_raise_mean_or_fixed.

Lemma scene_hyp_repaired_def : forall cfg x,
  scene_hyp_repaired cfg x =
  (scene_step_ok cfg x = true /\
   contract_step cfg (s_state x, s_frame x, s_out x) /\
   (is_init cfg (s_state x) = false ->
    scores_raise cfg (s_state x) (length (f_dets (s_frame x))) = false)).
Proof. reflexivity. Qed.
Print Assumptions scene_hyp_repaired_def.

(* non-vacuity: two animals, the second arrives late while the first is
   visible, then they are listed in the other order; repaired tree *)
Example ex_two_animals_repaired :
  let cfg := mkConfig false false 3 false true true true in
  let h : list frame :=
    [ ([(1, true)], [], AFail);
      ([(1, true); (2, true)], [[Some 1%Q]; [Some 0%Q]], APairs [(0, 0)]);
      ([(2, true); (1, true)], [[Some 0%Q; Some 1%Q]; [Some 1%Q; Some 0%Q]], APairs [(0, 1); (1, 0)]) ] in
  map fst (fst (run10 cfg h)) =
    [Ok [(1, Some 0)]; Ok [(1, Some 0); (2, Some 1)]; Ok [(2, Some 1); (1, Some 0)]]
  /\ map snd (fst (run10 cfg h)) = [true; true; true]
  /\ snd (run10 cfg h) = [(1, 0); (2, 1)].
Proof. vm_compute. auto. Qed.

(* non-vacuity of the WHOLE premise (incl. the matcher contract): fixed window 2,
   greedy; animal 1 is absent for one frame (shorter than the window), comes
   back listed second, then animal 3 arrives late while 1 and 2 are visible *)
Example ex_scene_hyp_absence_late_arrival :
  Forall (scene_hyp_repaired cfgG) (trace10 cfgG init [] hG) /\
  map fst (fst (run10 cfgG hG)) =
    [Ok [(1, Some 0); (2, Some 1)]; Ok [(2, Some 1)]; Ok [(2, Some 1); (1, Some 0)];
     Ok [(3, Some 2); (2, Some 1); (1, Some 0)]].
Proof. exact (conj exG_premise exG_run). Qed.

(* --- "across absences shorter than the tracking window" ------------------ *)

(* D1 of the dominance premise (the score of an animal against its own track is
   a number) is where the window enters.  It is not an independent assumption:
   the state machine guarantees that the track still HAS a candidate whenever
   the animal's absence was shorter than the window (fixed window: it was
   detected in one of the last `window` earlier calls that had detections —
   empty frames do not count; local queues: always, a deque once created never
   becomes empty), and a candidate means a number wherever the NaN pattern
   follows the queues (`nan_consistent`, checked by the harness on every recorded
   matrix without optical flow).  What remains measured is only the numeric
   part (D2, D3: "far apart compared with the motion"). *)
Lemma has_dets_def : forall x,
  has_dets x = match f_dets (s_frame x) with [] => false | _ :: _ => true end.
Proof. reflexivity. Qed.
Print Assumptions has_dets_def.

Lemma lastn_def : forall A w (l : list A), lastn w l = skipn (length l - w) l.
Proof. reflexivity. Qed.
Print Assumptions lastn_def.

Theorem c10_recent_animal_has_candidate : forall cfg h,
  fix_i cfg = true -> fix_ii cfg = true -> 1 <= window cfg ->
  Forall (scene_hyp_repaired cfg) (trace10 cfg init [] h) ->
  forall pre x post, trace10 cfg init [] h = pre ++ x :: post ->
  forall a t, own_of (s_own x) a = Some t ->
  lq cfg = true \/
  (exists y, In y (lastn (window cfg) (filter has_dets pre)) /\ In a (uids (f_dets (s_frame y)))) ->
  has_cand cfg (s_state x) t = true.
Proof. exact recent_animal_has_candidate. Qed.
Print Assumptions c10_recent_animal_has_candidate.

(* local queues, ANY history with valid matcher answers (no scene premise at
   all): no current track is ever without a candidate *)
Theorem c10_local_queue_tracks_keep_candidates : forall cfg h, lq cfg = true -> 1 <= window cfg ->
  Forall (contract_step cfg) (trace cfg init h) ->
  Forall (fun x => forall t, In t (cur (t_state x)) -> has_cand cfg (t_state x) t = true)
         (trace cfg init h).
Proof. exact lq_tracks_keep_candidates. Qed.
Print Assumptions c10_local_queue_tracks_keep_candidates.

(* fixed window: what the deque holds after an in-class call *)
Theorem c10_fixed_window_queue_step : forall cfg st own f,
  lq cfg = false -> fix_i cfg = true -> fix_ii cfg = true -> 1 <= window cfg ->
  Inv10 cfg st own -> scene_hyp_repaired cfg (st, own, f, snd (step cfg st f)) ->
  exists out, snd (step cfg st f) = Ok out /\ map fst out = uids (f_dets f) /\
    fwq (fst (step cfg st f)) =
      match f_dets f with [] => fwq st | _ :: _ => push (window cfg) (fwq st) out end.
Proof. exact fw_step_fwq. Qed.
Print Assumptions c10_fixed_window_queue_step.

(* candidate + NaN pattern of the queues => D1 *)
Theorem c10_candidate_gives_a_number : forall cfg st n M r t,
  nan_consistent cfg st n M = true -> r < n -> In t (cur st) ->
  has_cand cfg st t = true -> is_some (cell M r t) = true.
Proof. exact nan_consistent_has_cand. Qed.
Print Assumptions c10_candidate_gives_a_number.

(* the bound is sharp: fixed window 1, animal 1 absent for one frame (= the
   window): its track 0 has lost its candidate, track 1 has not *)
Example ex_absence_of_window_length_loses_candidate :
  let cfg := mkConfig false true 1 false true true true in
  let h : list frame :=
    [ ([(1,true);(2,true)], [], AFail);
      ([(2,true)], [[Some 0%Q; Some 1%Q]], APairs [(0,1)]) ] in
  has_cand cfg (final_state cfg init h) 0 = false /\ has_cand cfg (final_state cfg init h) 1 = true.
Proof. exact ex_window_exceeded. Qed.

(* --- round 2: the widened tracker model --------------------------------- *)

(* C09/TrackerX.v adds `max_tracks`, the name checks and (through the recorded
   score matrices) FlowShiftTracker, and the switches fix_cap / fix_iv.

   CURRENT tree and every other setting of fix_cap / fix_iv (OPERATIVE; the
   harness evaluates `xrun_case` with fix_cap = fix_iv = true): valid names, ANY
   max_tracks; premises on the widened tracker's OWN executed calls
   (`xtrace10`): the scene premise, and room under the cap (`cap_room`: tracks
   that exist + new tracks the call asks for <= max_tracks; evaluated inside Coq
   on every recorded call as `TrackerX.cap_roomb`).  Then `xstep` IS `step` at
   every call, and every identity is kept. *)
Lemma xtrace10_def : forall X st own f r,
  xtrace10 X st own (f :: r) =
  (st, own, f, snd (xstep X st f)) ::
  match snd (xstep X st f) with
  | Ok _ => xtrace10 X (fst (xstep X st f)) (owners_after own (length (cur st)) (snd (xstep X st f))) r
  | Raise _ => []
  end.
Proof. reflexivity. Qed.
Print Assumptions xtrace10_def.

Lemma room10_def : forall X x,
  room10 X x =
  (forall K, cap_of X = Some K ->
     length (cur (s_state x)) + need X (s_state x) (s_frame x) <= K).
Proof. reflexivity. Qed.
Print Assumptions room10_def.

Theorem c10x_room_is_checked : forall X st f o, cap_roomb X st f = true <-> cap_room X (st, f, o).
Proof. exact cap_roomb_spec. Qed.
Print Assumptions c10x_room_is_checked.

Theorem c10x_xstep_is_step_in_class : forall X h x,
  names_ok X = true -> fix_i (base X) = true -> fix_ii (base X) = true -> 1 <= window (base X) ->
  Forall (scene_hyp_repaired (base X)) (xtrace10 X init [] h) ->
  Forall (room10 X) (xtrace10 X init [] h) ->
  In x (xtrace10 X init [] h) ->
  xstep X (s_state x) (s_frame x) = step (base X) (s_state x) (s_frame x).
Proof. exact xstep_is_step_in_class. Qed.
Print Assumptions c10x_xstep_is_step_in_class.

Theorem c10x_identity_preserved_widened_any_fix : forall X h,
  names_ok X = true -> fix_i (base X) = true -> fix_ii (base X) = true -> 1 <= window (base X) ->
  Forall (scene_hyp_repaired (base X)) (xtrace10 X init [] h) ->
  Forall (room10 X) (xtrace10 X init [] h) ->
  xtrace10 X init [] h = trace10 (base X) init [] h /\
  xrun X h = run (base X) h /\
  exists track_of : owners,
    NoDup (map fst track_of) /\ NoDup (map snd track_of) /\
    length (xrun X h) = length h /\
    Forall (fun x => identity_step x track_of) (xtrace10 X init [] h).
Proof. exact identity_preserved_widened_any. Qed.
Print Assumptions c10x_identity_preserved_widened_any_fix.

(* non-vacuity for the CURRENT configuration `x_rep` (fix_cap = fix_iv = true):
   local queues, window 2, greedy, max_tracks = 3 = number of animals (the cap is
   reached, never exceeded); the scene above with an absence and a late arrival *)
Example ex_widened_current_absence_late_arrival :
  fix_cap XG = true /\ fix_iv XG = true /\ cap_of XG = Some 3 /\
  Forall (scene_hyp_repaired (base XG)) (xtrace10 XG init [] hG) /\
  Forall (room10 XG) (xtrace10 XG init [] hG) /\
  xrun XG hG =
    [Ok [(1, Some 0); (2, Some 1)]; Ok [(2, Some 1)]; Ok [(2, Some 1); (1, Some 0)];
     Ok [(3, Some 2); (2, Some 1); (1, Some 0)]].
Proof. repeat split; try reflexivity. exact exXG_premise. exact exXG_room. Qed.

(* HISTORIC variant (tree before 6da44fb / afd312c: fix_iv = false, cap as it
   was; no code implements it any more — kept as documentation of round 2 and
   for regression reports).  For valid names and ANY max_tracks: if no
   call needs a track id beyond the cap (`cap_silent`, C09's selector of F4cap;
   e.g. max_tracks >= number of animals), the widened tracker returns exactly
   what Tracker.v's model returns, and therefore keeps every identity on every
   in-class scene. *)
Theorem c10x_identity_preserved_widened : forall X h,
  names_ok X = true -> fix_iv X = false -> cap_asis_or_none X ->
  fix_i (base X) = true -> fix_ii (base X) = true -> 1 <= window (base X) ->
  Forall (scene_hyp_repaired (base X)) (trace10 (base X) init [] h) ->
  Forall (cap_silent X) (trace (base X) init h) ->
  xrun X h = run (base X) h /\
  exists track_of : owners,
    NoDup (map fst track_of) /\ NoDup (map snd track_of) /\
    length (xrun X h) = length h /\
    Forall (fun x => identity_step x track_of) (trace10 (base X) init [] h).
Proof. exact identity_preserved_widened. Qed.
Print Assumptions c10x_identity_preserved_widened.

(* non-vacuity (historic variant `x_now`): the two-animal scene above under local queues with max_tracks = 2 *)
Example ex_two_animals_widened :
  let X := x_now (mkConfig true false 3 false true true true) (Some 2) in
  let h : list frame :=
    [ ([(1, true)], [], AFail);
      ([(1, true); (2, true)], [[Some 1%Q]; [Some 0%Q]], APairs [(0, 0)]);
      ([(2, true); (1, true)], [[Some 0%Q; Some 1%Q]; [Some 1%Q; Some 0%Q]], APairs [(0, 1); (1, 0)]) ] in
  xrun X h = [Ok [(1, Some 0)]; Ok [(1, Some 0); (2, Some 1)]; Ok [(2, Some 1); (1, Some 0)]]
  /\ forallb (fun x => negb (sel_cap X (t_state x) (t_frame x))) (trace (base X) init h) = true.
Proof. vm_compute. auto. Qed.

(* --- round 6: "far apart compared with the motion" => dominance, PROVED for
   features = bboxes, scoring_method = iou (C10/Geometry.v) ------------------ *)

(* compute_iou over Q, exactly as utils.py computes it (max / min / +1 / one
   division); the reduction over a track's candidates (np.nanmean / np.nanmax,
   no candidate -> NaN) and the score matrix of Tracker.get_scores.  The harness
   evaluates `iou` and `gmatrix` on the boxes of the generated scenes against
   /repo's compute_iou and the matrix recorded from get_scores. *)
Lemma iou_def : forall a b : box,
  iou a b = (inter_area a b / (area a + area b - inter_area a b))%Q.
Proof. reflexivity. Qed.
Print Assumptions iou_def.

Lemma inter_area_def : forall a b : box,
  inter_area a b =
  (qmax 0 (qmin (bx1 a) (bx1 b) - qmax (bx0 a) (bx0 b) + 1) *
   qmax 0 (qmin (by1 a) (by1 b) - qmax (by0 a) (by0 b) + 1))%Q.
Proof. reflexivity. Qed.
Print Assumptions inter_area_def.

Lemma area_def : forall b : box, area b = ((bx1 b - bx0 b + 1) * (by1 b - by0 b + 1))%Q.
Proof. reflexivity. Qed.
Print Assumptions area_def.

Lemma gmatrix_cell_def : forall mx bs C i t, i < length bs -> t < length C ->
  cell (gmatrix mx bs C) i t = score_cell mx (nth i bs bzero) (nth t C []).
Proof. exact cell_gmatrix. Qed.
Print Assumptions gmatrix_cell_def.

Lemma score_cell_def : forall mx b cs,
  score_cell mx b cs =
  match map (iou b) cs with
  | [] => None
  | x :: r => Some (if mx then qmaxl x r
                    else (qsum (x :: r) / inject_Z (Z.of_nat (length (x :: r))))%Q)
  end.
Proof. intros mx b cs. unfold score_cell, reduce. destruct (map (iou b) cs); reflexivity. Qed.
Print Assumptions score_cell_def.

(* the two sign facts: boxes one pixel apart on some axis have IoU 0, overlapping
   well-formed boxes have IoU > 0 *)
Theorem c10_iou_apart_is_zero : forall a b, apart a b -> (iou a b == 0)%Q.
Proof. exact iou_apart. Qed.
Print Assumptions c10_iou_apart_is_zero.

Theorem c10_iou_overlap_is_positive : forall a b, wf a -> wf b -> overlap a b -> (0 < iou a b)%Q.
Proof. exact iou_overlap_pos. Qed.
Print Assumptions c10_iou_overlap_is_positive.

Lemma separated_def : forall P : pos,
  separated P <->
  ((forall a b, P a b -> wf b) /\
   (forall a b b', P a b -> P a b' -> overlap b b') /\
   (forall a a' b b', a <> a' -> P a b -> P a' b' -> apart b b')).
Proof.
  intros P. split; [intros [A B C]; auto | intros (A & B & C); constructor; auto].
Qed.
Print Assumptions separated_def.

Lemma geo_matrix_def : forall P cfg st ds M m,
  geo_matrix P cfg st ds M m =
  exists (bs : list box) (C : list (list box)),
    Forall2 P (uids ds) bs /\ length C = m /\
    (forall t, t < m -> Forall2 P (cands cfg st t) (nth t C [])) /\
    M = gmatrix (red_max cfg) bs C.
Proof. reflexivity. Qed.
Print Assumptions geo_matrix_def.

(* ONE CALL, any configuration (both candidate methods, both reductions): if the
   scene's geometry P is separated (boxes of one animal overlap, boxes of two
   animals are a pixel apart), the candidates of every track are detections of
   its owner (`QOwn`), the matrix is get_scores(bboxes, iou) of boxes the scene
   allows, and the own track of every detected known animal has a candidate
   (the window clause), then the dominance premise D1-D3 HOLDS. *)
Theorem c10_geometry_gives_dominance : forall P cfg st own ds M m,
  separated P -> OwnInv own m ->
  (forall t u, t < m -> In u (cands cfg st t) -> In (u, t) own) ->
  NoDup (uids ds) ->
  geo_matrix P cfg st ds M m ->
  (forall a t, In a (uids ds) -> own_of own a = Some t -> cands cfg st t <> []) ->
  dominant own ds M m = true.
Proof. exact geo_dominant. Qed.
Print Assumptions c10_geometry_gives_dominance.

Lemma geo_hyp_def : forall P cfg x,
  geo_hyp P cfg x =
  (let ds := f_dets (s_frame x) in
   nodupb (uids ds) && forallb snd ds = true /\
   contract_step cfg (s_state x, s_frame x, s_out x) /\
   (is_init cfg (s_state x) = false ->
      (all_known (s_own x) ds || all_present (s_own x) ds) = true /\
      geo_matrix P cfg (s_state x) ds (f_matrix (s_frame x)) (length (cur (s_state x))))).
Proof. reflexivity. Qed.
Print Assumptions geo_hyp_def.

Lemma recent_def : forall cfg tr,
  recent cfg tr =
  (forall pre x post, tr = pre ++ x :: post ->
   forall a t, In a (uids (f_dets (s_frame x))) -> own_of (s_own x) a = Some t ->
   exists y, In y (lastn (window cfg) (filter has_dets pre)) /\ In a (uids (f_dets (s_frame y)))).
Proof. reflexivity. Qed.
Print Assumptions recent_def.

(* WHOLE HISTORIES, fixed window, both matchers, both reductions, any window >= 1:
   identity preservation from the GEOMETRY.  No dominance premise, no premise on
   the tracker's state: the calls' matrices are get_scores(bboxes, iou) of boxes a
   separated scene allows (`geo_hyp`), absences are shorter than the window
   (`recent`), a newcomer appears only while everyone is visible, the matcher
   meets its contract.  The dominance premise of c10_identity_preserved_repaired
   is DERIVED at every call (first conjunct). *)
Theorem c10_geometry_identity_fixed_window : forall P cfg h, separated P ->
  lq cfg = false -> fix_i cfg = true -> fix_ii cfg = true ->
  red_max cfg = false \/ fix_iii cfg = true -> 1 <= window cfg ->
  Forall (geo_hyp P cfg) (trace10 cfg init [] h) ->
  recent cfg (trace10 cfg init [] h) ->
  Forall (scene_hyp_repaired cfg) (trace10 cfg init [] h) /\
  exists track_of : owners,
    NoDup (map fst track_of) /\ NoDup (map snd track_of) /\
    length (run cfg h) = length h /\
    Forall (fun x => identity_step x track_of) (trace10 cfg init [] h).
Proof.
  intros P cfg h SP El F1 F2 F3 Hw HG HR.
  split; [eapply geometry_scene_hyp_fw; eauto | eapply geometry_identity_fw; eauto].
Qed.
Print Assumptions c10_geometry_identity_fixed_window.

(* the explicit scene: every animal's box centre stays within d of its home on
   both axes, half extents between wlo and whi, homes at least S apart along some
   axis, with  S >= 2 d + 2 whi + 1  and  d <= wlo *)
Lemma far_apart_def : forall H S,
  far_apart H S =
  (forall a a', a <> a' ->
    (fst (H a) + S <= fst (H a') \/ fst (H a') + S <= fst (H a) \/
     snd (H a) + S <= snd (H a') \/ snd (H a') + S <= snd (H a))%Q).
Proof. reflexivity. Qed.
Print Assumptions far_apart_def.

Lemma inhome_def : forall H d wlo whi a b, inhome H d wlo whi a b ->
  (bx0 b + bx1 b - 2 * fst (H a) <= 2 * d /\ - (2 * d) <= bx0 b + bx1 b - 2 * fst (H a) /\
   by0 b + by1 b - 2 * snd (H a) <= 2 * d /\ - (2 * d) <= by0 b + by1 b - 2 * snd (H a) /\
   2 * wlo <= bx1 b - bx0 b /\ bx1 b - bx0 b <= 2 * whi /\
   2 * wlo <= by1 b - by0 b /\ by1 b - by0 b <= 2 * whi)%Q.
Proof. exact inhome_ineq. Qed.
Print Assumptions inhome_def.

Theorem c10_far_apart_homes_are_separated : forall H S d wlo whi,
  (0 <= d)%Q -> (d <= wlo)%Q -> far_apart H S -> (2 * d + 2 * whi + 1 <= S)%Q ->
  separated (inhome H d wlo whi).
Proof. exact homes_separated. Qed.
Print Assumptions c10_far_apart_homes_are_separated.

Theorem c10_geometry_identity_homes_fixed_window : forall H S d wlo whi cfg h,
  (0 <= d)%Q -> (d <= wlo)%Q -> far_apart H S -> (2 * d + 2 * whi + 1 <= S)%Q ->
  lq cfg = false -> fix_i cfg = true -> fix_ii cfg = true ->
  red_max cfg = false \/ fix_iii cfg = true -> 1 <= window cfg ->
  Forall (geo_hyp (inhome H d wlo whi) cfg) (trace10 cfg init [] h) ->
  recent cfg (trace10 cfg init [] h) ->
  Forall (scene_hyp_repaired cfg) (trace10 cfg init [] h) /\
  exists track_of : owners,
    NoDup (map fst track_of) /\ NoDup (map snd track_of) /\
    length (run cfg h) = length h /\
    Forall (fun x => identity_step x track_of) (trace10 cfg init [] h).
Proof. exact geometry_identity_homes_fw. Qed.
Print Assumptions c10_geometry_identity_homes_fixed_window.

(* non-vacuity: three animals with homes (0,0), (100,0), (0,100), d = 4, half
   extents in [8,10], S = 100 >= 8 + 20 + 1; fixed window 2, greedy, mean.  Animal
   2 is listed first from the 2nd call on and absent at the 3rd call (shorter than
   the window); animal 3 arrives at the 5th call while 1 and 2 are visible.  ALL
   premises of the theorem above are proved, and the run is shown. *)
Example ex_geometry_three_animals :
  (0 <= 4)%Q /\ (4 <= 8)%Q /\ far_apart exH 100 /\ (2 * 4 + 2 * 10 + 1 <= 100)%Q /\
  Forall (geo_hyp (inhome exH 4 8 10) cfgE) (trace10 cfgE init [] hE) /\
  recent cfgE (trace10 cfgE init [] hE) /\
  run cfgE hE =
    [Ok [(1, Some 0); (2, Some 1)]; Ok [(2, Some 1); (1, Some 0)]; Ok [(1, Some 0)];
     Ok [(2, Some 1); (1, Some 0)]; Ok [(3, Some 2); (1, Some 0); (2, Some 1)]].
Proof.
  split; [discriminate|]. split; [discriminate|]. split; [exact exE_far|].
  split; [discriminate|]. split; [exact exE_geo|]. split; [exact exE_recent | exact exE_run].
Qed.

(* the box-level premise in the form the harness EVALUATES inside Coq on the boxes of
   every recorded call of the bboxes+iou scenes (`geo_premb bs C tr`: every detection box
   is well-formed, overlaps every candidate box of its own track `tr[i]` and is one pixel
   apart from every candidate box of the other tracks): every row whose own track has a
   candidate is dominant (D1-D3) in the Coq score matrix — which the harness compares
   with the matrix recorded from Tracker.get_scores. *)
Lemma geo_premb_def : forall bs C tr,
  geo_premb bs C tr =
  forallb (fun bt =>
    forallb (fun tc =>
      forallb (fun c => wfb c && wfb (fst bt) &&
                 (if match snd bt with Some t => t =? fst tc | None => false end
                  then overlapb (fst bt) c else apartb (fst bt) c)) (snd tc))
      (combine (seq 0 (length C)) C))
    (combine bs tr).
Proof. reflexivity. Qed.
Print Assumptions geo_premb_def.

Theorem c10_box_premise_gives_row_dominance : forall mx bs C tr i t,
  geo_premb bs C tr = true -> length tr = length bs ->
  nth_error tr i = Some (Some t) -> t < length C -> nth t C [] <> [] ->
  (forall j, j <> i -> nth_error tr j <> Some (Some t)) ->
  row_dominant (gmatrix mx bs C) (length bs) (length C) i t = true.
Proof. exact geo_premb_row_dominant. Qed.
Print Assumptions c10_box_premise_gives_row_dominance.

Example ex_box_premise :
  geo_premb [p2d; p1d] [[p1b; p1c]; [p2b]] [Some 1; Some 0] = true /\
  row_dominant (gmatrix false [p2d; p1d] [[p1b; p1c]; [p2b]]) 2 2 0 1 = true.
Proof. vm_compute. auto. Qed.

(* --- BOTH candidate methods ---------------------------------------------- *)

(* local queues: the candidates of a track are detections of its owner (`LQOwn`) — an
   invariant of every in-class call (with the outputs' identity), like the ghost log of
   the fixed window; and a current track never loses its candidates, so no clause on
   absences is needed (`lq cfg = true \/ recent ...`). *)
Lemma LQOwn_def : forall st own,
  LQOwn st own = (forall t u, In u (lq_get (lqq st) t) -> In (u, t) own).
Proof. reflexivity. Qed.
Print Assumptions LQOwn_def.

Theorem c10_local_queue_candidates_stay_with_owner : forall cfg st own own' f m,
  lq cfg = true -> fix_ii cfg = true -> cur st = seq 0 m ->
  LQOwn st own -> incl own own' ->
  (forall out, snd (step cfg st f) = Ok out -> forall u t, In (u, Some t) out -> In (u, t) own') ->
  LQOwn (fst (step cfg st f)) own'.
Proof. exact lq_step_qown. Qed.
Print Assumptions c10_local_queue_candidates_stay_with_owner.

(* WHOLE HISTORIES, EVERY candidate method, both matchers, both reductions, any window:
   identity preservation from the GEOMETRY (bboxes + iou).  The dominance premise is
   derived at every call (first conjunct). *)
Theorem c10_geometry_identity_any_method : forall P cfg h, separated P ->
  fix_i cfg = true -> fix_ii cfg = true ->
  red_max cfg = false \/ fix_iii cfg = true -> 1 <= window cfg ->
  Forall (geo_hyp P cfg) (trace10 cfg init [] h) ->
  lq cfg = true \/ recent cfg (trace10 cfg init [] h) ->
  Forall (scene_hyp_repaired cfg) (trace10 cfg init [] h) /\
  exists track_of : owners,
    NoDup (map fst track_of) /\ NoDup (map snd track_of) /\
    length (run cfg h) = length h /\
    Forall (fun x => identity_step x track_of) (trace10 cfg init [] h).
Proof. exact geometry_identity_any. Qed.
Print Assumptions c10_geometry_identity_any_method.

(* ... for the explicit scene: within d of the home, homes S apart, S >= 2 d + 2 whi + 1, d <= wlo *)
Theorem c10_geometry_identity_homes_any_method : forall H S d wlo whi cfg h,
  (0 <= d)%Q -> (d <= wlo)%Q -> far_apart H S -> (2 * d + 2 * whi + 1 <= S)%Q ->
  fix_i cfg = true -> fix_ii cfg = true ->
  red_max cfg = false \/ fix_iii cfg = true -> 1 <= window cfg ->
  Forall (geo_hyp (inhome H d wlo whi) cfg) (trace10 cfg init [] h) ->
  lq cfg = true \/ recent cfg (trace10 cfg init [] h) ->
  Forall (scene_hyp_repaired cfg) (trace10 cfg init [] h) /\
  exists track_of : owners,
    NoDup (map fst track_of) /\ NoDup (map snd track_of) /\
    length (run cfg h) = length h /\
    Forall (fun x => identity_step x track_of) (trace10 cfg init [] h).
Proof.
  intros H S d wlo whi cfg h D0 Dw FA HS. apply geometry_identity_any.
  exact (homes_separated H S d wlo whi D0 Dw FA HS).
Qed.
Print Assumptions c10_geometry_identity_homes_any_method.

(* non-vacuity for local queues (window 2, greedy, mean): the three-animal scene above;
   track 1 keeps two candidates through animal 2's absence *)
Example ex_geometry_three_animals_local_queues :
  lq cfgL = true /\ far_apart exH 100 /\
  Forall (geo_hyp (inhome exH 4 8 10) cfgL) (trace10 cfgL init [] hL) /\
  run cfgL hL =
    [Ok [(1, Some 0); (2, Some 1)]; Ok [(2, Some 1); (1, Some 0)]; Ok [(1, Some 0)];
     Ok [(2, Some 1); (1, Some 0)]; Ok [(3, Some 2); (1, Some 0); (2, Some 1)]].
Proof.
  split; [reflexivity|]. split; [exact exE_far|]. split; [exact exL_geo | exact exL_run].
Qed.

(* box relations used above, restated *)
Lemma wf_def : forall b : box, wf b = ((bx0 b <= bx1 b)%Q /\ (by0 b <= by1 b)%Q).
Proof. reflexivity. Qed.
Print Assumptions wf_def.

Lemma overlap_def : forall a b : box,
  overlap a b = ((bx0 a <= bx1 b)%Q /\ (bx0 b <= bx1 a)%Q /\ (by0 a <= by1 b)%Q /\ (by0 b <= by1 a)%Q).
Proof. reflexivity. Qed.
Print Assumptions overlap_def.

Lemma apart_def : forall a b : box,
  apart a b = ((bx1 a + 1 <= bx0 b)%Q \/ (bx1 b + 1 <= bx0 a)%Q \/
               (by1 a + 1 <= by0 b)%Q \/ (by1 b + 1 <= by0 a)%Q).
Proof. reflexivity. Qed.
Print Assumptions apart_def.
