(* Props.v (C10) — statements only; proofs live in C10/Lemmas.v.

   Property C10: "when animals are far apart compared with how far they move
   between frames, and a new animal only ever appears in a frame in which all
   previously seen animals are also detected, each animal keeps the same track
   identity on every frame in which it is detected, whatever order the
   detections are listed in and across absences shorter than the tracking
   window; the newcomer receives an identity no other animal has held — for
   every candidate method, matching algorithm and feature/score combination".

   Model: the tracker state machines of C09 (C09/Tracker.v) plus C10/Scene.v:
   in a scene the uid of a detection is the identity of its animal; `owners`
   (animal, track) is computed from the tracker's own outputs.  "Far apart
   compared with the motion" enters as the DOMINANCE premise on the recorded
   score matrix of each call (`dominant`, measured by the harness on every
   recorded matrix): the score of an animal's detection against the track it
   owns is a number (the track still has a candidate in the window: absences
   shorter than the window) and beats every other score of its row and of its
   column.  `scene_step_ok` adds the side conditions: one detection per
   animal, all above the threshold, and either every detection belongs to a
   known animal or every known animal is detected (late arrivals only while
   everyone is visible).

   All theorems are unbounded in the number of frames, animals and tracks and
   hold for every configuration (both candidate methods, both matchers, every
   window >= 1, both reductions) and every matcher answer satisfying the
   matcher's contract (C09). *)
From Coq Require Import List Arith Bool ZArith QArith.
Import ListNotations.
From SV Require Import C09.Tracker C09.Lemmas C09.TrackerX C09.LemmasX C10.Scene C10.Lemmas.
Close Scope Q_scope.
Open Scope nat_scope.

(* --- definitions restated ------------------------------------------------ *)

Lemma row_dominant_def : forall M n m i t,
  row_dominant M n m i t =
  (is_some (cell M i t) &&
   forallb (fun t' => (t' =? t) || cost_lt (cell M i t) (cell M i t')) (seq 0 m) &&
   forallb (fun j => (j =? i) || cost_lt (cell M i t) (cell M j t)) (seq 0 n)).
Proof. reflexivity. Qed.
Print Assumptions row_dominant_def.

(* cost_lt a b: the cost -a is strictly below -b, i.e. score a > score b; NaN is the worst *)
Lemma cost_lt_def : forall a b,
  cost_lt a b = match a, b with
                | None, _ => false
                | Some _, None => true
                | Some x, Some y => negb (Qle_bool x y)
                end.
Proof. intros [x|] [y|]; reflexivity. Qed.
Print Assumptions cost_lt_def.

Lemma scene_step_ok_def : forall cfg x,
  scene_step_ok cfg x =
  (let ds := f_dets (s_frame x) in
   nodupb (uids ds) && forallb snd ds &&
   (is_init cfg (s_state x) ||
    (nodupb (uids ds) && forallb snd ds &&
     (all_known (s_own x) ds || all_present (s_own x) ds) &&
     dominant (s_own x) ds (f_matrix (s_frame x)) (length (cur (s_state x)))))).
Proof. reflexivity. Qed.
Print Assumptions scene_step_ok_def.

(* premise at an executed call *)
Lemma scene_hyp_def : forall cfg x,
  scene_hyp cfg x =
  (scene_step_ok cfg x = true /\
   contract_step cfg (s_state x, s_frame x, s_out x) /\
   (is_init cfg (s_state x) = false ->
    scores_raise cfg (s_state x) (length (f_dets (s_frame x))) = false /\
    no_quirk cfg (length (f_dets (s_frame x))) (f_answer (s_frame x)))).
Proof. reflexivity. Qed.
Print Assumptions scene_hyp_def.

Lemma no_quirk_def : forall cfg n ans,
  no_quirk cfg n ans =
  ((fix_i cfg = true \/ forall p, ans = APairs p -> sel_F4i p = false) /\
   (fix_ii cfg = true \/ forall p, ans = APairs p -> sel_F4ii cfg n p = false)).
Proof. reflexivity. Qed.
Print Assumptions no_quirk_def.

(* conclusion at a call: it returns, lists every detection once and in
   order, each with the track that `track_of` gives to its animal *)
Lemma identity_step_def : forall x track_of,
  identity_step x track_of =
  (exists out, s_out x = Ok out /\ map fst out = uids (f_dets (s_frame x)) /\
               forall u o, In (u, o) out -> exists t, o = Some t /\ In (u, t) track_of).
Proof. reflexivity. Qed.
Print Assumptions identity_step_def.

Lemma trace10_is_trace : forall cfg h,
  map (fun x => (s_state x, s_frame x, s_out x)) (trace10 cfg init [] h) = trace cfg init h.
Proof. intros; apply trace10_trace. Qed.
Print Assumptions trace10_is_trace.

(* --- (a) dominance => both matchers answer the identity assignment ------- *)

(* On a dominant matrix, under the scene's side condition, EVERY answer the
   Hungarian contract allows (an optimum of scipy's solver, repaired or not;
   it cannot be a failure) and EVERY admissible greedy run consists exactly
   of the pairs (row of animal a, track owned by a). *)
Theorem c10_dominant_matrix_identity_assignment : forall cfg own ds M m ans,
  OwnInv own m -> NoDup (uids ds) ->
  all_known own ds = true \/ all_present own ds = true ->
  dominant own ds M m = true ->
  matcher_contract cfg M (length ds) m ans ->
  exists p, ans = APairs p /\ matching (length ds) m p /\
            forall r c, In (r, c) p <-> rowtrack own (uids ds) r = Some c.
Proof. exact matcher_identity. Qed.
Print Assumptions c10_dominant_matrix_identity_assignment.

(* --- (b) identity is preserved along every in-class history -------------- *)

(* CURRENT tree: refuted.  One animal, three frames (dominance holds
   trivially, the contract holds), both candidate methods: from the second
   frame on the animal has no track. *)
Theorem c10_identity_refuted : forall l,
  let cfg := cfg_now l false 3 false in
  Forall (scene_hyp_repaired cfg) (trace10 cfg init [] wit10_one_animal) /\
  ~ exists track_of,
      Forall (fun x => identity_step x track_of) (trace10 cfg init [] wit10_one_animal).
Proof. intros l; split; [apply wit10_premise | apply wit10_not_identity]. Qed.
Print Assumptions c10_identity_refuted.

(* ANY setting of the switches, provided no F4 selector fires (`no_quirk`,
   `scores_raise = false` inside `scene_hyp`): there is ONE injective map
   animal -> track such that every call of the history returns all its
   detections, each with the track of its animal.  Hence an animal has the
   same track on every frame in which it is detected, and no two animals ever
   hold the same track (a newcomer's identity was held by nobody). *)
Theorem c10_identity_partial : forall cfg h, 1 <= window cfg ->
  Forall (scene_hyp cfg) (trace10 cfg init [] h) ->
  exists track_of : owners,
    NoDup (map fst track_of) /\ NoDup (map snd track_of) /\
    length (run cfg h) = length h /\
    Forall (fun x => identity_step x track_of) (trace10 cfg init [] h).
Proof. exact identity_preserved_general. Qed.
Print Assumptions c10_identity_partial.

(* REPAIRED tree (fix_i, fix_ii): the full statement.  The remaining premise
   `scores_raise = false` is F4(iii)'s nanmax failure; it holds by definition
   when scoring_reduction = mean or fix_iii is applied (next lemma). *)
Theorem c10_identity_preserved_repaired : forall cfg h,
  fix_i cfg = true -> fix_ii cfg = true -> 1 <= window cfg ->
  Forall (scene_hyp_repaired cfg) (trace10 cfg init [] h) ->
  exists track_of : owners,
    NoDup (map fst track_of) /\ NoDup (map snd track_of) /\
    length (run cfg h) = length h /\
    Forall (fun x => identity_step x track_of) (trace10 cfg init [] h).
Proof. exact identity_preserved_repaired. Qed.
Print Assumptions c10_identity_preserved_repaired.

Lemma c10_scores_never_raise_mean_or_fixed : forall cfg st n,
  red_max cfg = false \/ fix_iii cfg = true -> scores_raise cfg st n = false.
Proof. exact scores_raise_mean_or_fixed. Qed.
Print Assumptions c10_scores_never_raise_mean_or_fixed.

Lemma scene_hyp_repaired_def : forall cfg x,
  scene_hyp_repaired cfg x =
  (scene_step_ok cfg x = true /\
   contract_step cfg (s_state x, s_frame x, s_out x) /\
   (is_init cfg (s_state x) = false ->
    scores_raise cfg (s_state x) (length (f_dets (s_frame x))) = false)).
Proof. reflexivity. Qed.
Print Assumptions scene_hyp_repaired_def.

(* non-vacuity: two animals, the second arrives late while the first is
   visible, then they are listed in the other order; repaired tree *)
Example ex_two_animals_repaired :
  let cfg := mkConfig false false 3 false true true true in
  let h : list frame :=
    [ ([(1, true)], [], AFail);
      ([(1, true); (2, true)], [[Some 1%Q]; [Some 0%Q]], APairs [(0, 0)]);
      ([(2, true); (1, true)], [[Some 0%Q; Some 1%Q]; [Some 1%Q; Some 0%Q]], APairs [(0, 1); (1, 0)]) ] in
  map fst (fst (run10 cfg h)) =
    [Ok [(1, Some 0)]; Ok [(1, Some 0); (2, Some 1)]; Ok [(2, Some 1); (1, Some 0)]]
  /\ map snd (fst (run10 cfg h)) = [true; true; true]
  /\ snd (run10 cfg h) = [(1, 0); (2, 1)].
Proof. vm_compute. auto. Qed.

(* --- round 2: the widened tracker model --------------------------------- *)

(* C09/TrackerX.v adds `max_tracks`, the name checks and (through the recorded
   score matrices) FlowShiftTracker.  For valid names and ANY max_tracks: if no
   call needs a track id beyond the cap (`cap_silent`, C09's selector of F4cap;
   e.g. max_tracks >= number of animals), the widened tracker returns exactly
   what Tracker.v's model returns, and therefore keeps every identity on every
   in-class scene. *)
Theorem c10x_identity_preserved_widened : forall X h,
  names_ok X = true -> fix_iv X = false -> cap_asis_or_none X ->
  fix_i (base X) = true -> fix_ii (base X) = true -> 1 <= window (base X) ->
  Forall (scene_hyp_repaired (base X)) (trace10 (base X) init [] h) ->
  Forall (cap_silent X) (trace (base X) init h) ->
  xrun X h = run (base X) h /\
  exists track_of : owners,
    NoDup (map fst track_of) /\ NoDup (map snd track_of) /\
    length (xrun X h) = length h /\
    Forall (fun x => identity_step x track_of) (trace10 (base X) init [] h).
Proof. exact identity_preserved_widened. Qed.
Print Assumptions c10x_identity_preserved_widened.

(* non-vacuity: the two-animal scene above under local queues with max_tracks = 2 *)
Example ex_two_animals_widened :
  let X := x_now (mkConfig true false 3 false true true true) (Some 2) in
  let h : list frame :=
    [ ([(1, true)], [], AFail);
      ([(1, true); (2, true)], [[Some 1%Q]; [Some 0%Q]], APairs [(0, 0)]);
      ([(2, true); (1, true)], [[Some 0%Q; Some 1%Q]; [Some 1%Q; Some 0%Q]], APairs [(0, 1); (1, 0)]) ] in
  xrun X h = [Ok [(1, Some 0)]; Ok [(1, Some 0); (2, Some 1)]; Ok [(2, Some 1); (1, Some 0)]]
  /\ forallb (fun x => negb (sel_cap X (t_state x) (t_frame x))) (trace (base X) init h) = true.
Proof. vm_compute. auto. Qed.
