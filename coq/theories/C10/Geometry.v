(* Geometry.v (C10) — "far apart compared with the motion" => DOMINANCE, proved
   for one scoring function of the tracker: features = "bboxes",
   scoring_method = "iou" (sleap_nn/tracking/utils.py: compute_iou), reduced
   over a track's candidates by np.nanmean / np.nanmax (Tracker.get_scores).

   compute_iou is an exact rational function of the box corners
   (max / min / +1 / one division), so the score matrix is modelled EXACTLY over Q
   as a function of the geometry: `iou`, `reduce`, `score_cell`, `gmatrix`.
   The harness evaluates these definitions on the boxes of the generated scenes
   and compares them with /repo's compute_iou and with the matrix recorded from
   Tracker.get_scores (harness/props/c10.py: check_geometry).

   Contents: (1) the score over Q and its sign facts; (2) box-level premise
   (boxes of one animal overlap, boxes of different animals are apart) =>
   `dominant` (D1 from a candidate, D2/D3 proved) for ANY configuration given
   that the candidates of a track are detections of its owner (`QOwn`);
   (3) fixed window: `QOwn` and the window clause are invariants of the state
   machine, so identity preservation follows from the GEOMETRY of the scene
   alone; (4) the instance "every animal stays within d of its home, homes at
   least S apart (on some axis), S >= 2 d + 2 whi + 1, d <= wlo"; (5) a concrete
   scene.  Everything is over Q / nat: closed under the global context. *)
From Coq Require Import List Arith Bool ZArith QArith Lia Lqa.
Import ListNotations.
From SV Require Import C09.Tracker C09.Lemmas C09.TrackerX C09.LemmasX C09.LemmasR
                       C10.Scene C10.Lemmas C10.LemmasR.
Open Scope Q_scope.

(* ====================================================================== *)
(* 1. compute_iou over Q                                                   *)

Definition box := (Q * Q * Q * Q)%type.       (* xmin, ymin, xmax, ymax : get_bbox *)
Definition bx0 (b : box) : Q := fst (fst (fst b)).
Definition by0 (b : box) : Q := snd (fst (fst b)).
Definition bx1 (b : box) : Q := snd (fst b).
Definition by1 (b : box) : Q := snd b.

Definition qmax (a b : Q) : Q := if Qle_bool a b then b else a.
Definition qmin (a b : Q) : Q := if Qle_bool a b then a else b.

(* max(0, hi - lo + 1) *)
Definition ext (lo hi : Q) : Q := qmax 0 (hi - lo + 1).

Definition inter_area (a b : box) : Q :=
  ext (qmax (bx0 a) (bx0 b)) (qmin (bx1 a) (bx1 b)) *
  ext (qmax (by0 a) (by0 b)) (qmin (by1 a) (by1 b)).

Definition area (b : box) : Q := (bx1 b - bx0 b + 1) * (by1 b - by0 b + 1).

(* compute_iou(a, b) *)
Definition iou (a b : box) : Q :=
  inter_area a b / (area a + area b - inter_area a b).

(* scoring_reduction over the candidates of one track: np.nanmean / np.nanmax;
   no candidate -> NaN (tracker.py: `if len(oks) > 0 else np.nan`) *)
Definition qsum (l : list Q) : Q := fold_right Qplus 0 l.
Fixpoint qmaxl (x : Q) (l : list Q) : Q :=
  match l with [] => x | y :: r => qmax x (qmaxl y r) end.

Definition reduce (mx : bool) (l : list Q) : score :=
  match l with
  | [] => None
  | x :: r => Some (if mx then qmaxl x r else qsum l / inject_Z (Z.of_nat (length l)))
  end.

Definition score_cell (mx : bool) (b : box) (cs : list box) : score :=
  reduce mx (map (iou b) cs).

(* Tracker.get_scores for bboxes + iou: rows = detections, columns = tracks *)
Definition gmatrix (mx : bool) (bs : list box) (C : list (list box)) : matrix :=
  map (fun b => map (score_cell mx b) C) bs.

Definition bzero : box := (0, 0, 0, 0).

(* box relations *)
Definition wf (b : box) : Prop := bx0 b <= bx1 b /\ by0 b <= by1 b.
Definition overlap (a b : box) : Prop :=
  bx0 a <= bx1 b /\ bx0 b <= bx1 a /\ by0 a <= by1 b /\ by0 b <= by1 a.
(* a gap of at least one pixel on some axis (compute_iou adds 1 to every extent) *)
Definition apart (a b : box) : Prop :=
  bx1 a + 1 <= bx0 b \/ bx1 b + 1 <= bx0 a \/ by1 a + 1 <= by0 b \/ by1 b + 1 <= by0 a.

Definition wfb (b : box) : bool := Qle_bool (bx0 b) (bx1 b) && Qle_bool (by0 b) (by1 b).
Definition overlapb (a b : box) : bool :=
  Qle_bool (bx0 a) (bx1 b) && Qle_bool (bx0 b) (bx1 a) &&
  Qle_bool (by0 a) (by1 b) && Qle_bool (by0 b) (by1 a).
Definition apartb (a b : box) : bool :=
  Qle_bool (bx1 a + 1) (bx0 b) || Qle_bool (bx1 b + 1) (bx0 a) ||
  Qle_bool (by1 a + 1) (by0 b) || Qle_bool (by1 b + 1) (by0 a).

Lemma qmax_spec : forall a b, (a <= b /\ qmax a b = b) \/ (b < a /\ qmax a b = a).
Proof.
  intros a b. unfold qmax. destruct (Qle_bool a b) eqn:E.
  - left. split; auto. apply Qle_bool_iff; auto.
  - right. split; auto. apply Qnot_le_lt. intro H. apply Qle_bool_iff in H. congruence.
Qed.

Lemma qmin_spec : forall a b, (a <= b /\ qmin a b = a) \/ (b < a /\ qmin a b = b).
Proof.
  intros a b. unfold qmin. destruct (Qle_bool a b) eqn:E.
  - left. split; auto. apply Qle_bool_iff; auto.
  - right. split; auto. apply Qnot_le_lt. intro H. apply Qle_bool_iff in H. congruence.
Qed.

(* one axis: l1..h1 and l2..h2 *)
Lemma ext_axis : forall l1 h1 l2 h2,
  let e := ext (qmax l1 l2) (qmin h1 h2) in
  0 <= e /\
  (l1 <= h1 -> e <= h1 - l1 + 1) /\
  (l1 <= h2 -> l2 <= h1 -> l1 <= h1 -> l2 <= h2 -> 1 <= e) /\
  (h1 + 1 <= l2 \/ h2 + 1 <= l1 -> e == 0).
Proof.
  intros l1 h1 l2 h2. cbv zeta. unfold ext.
  destruct (qmax_spec l1 l2) as [[A ->]|[A ->]];
  destruct (qmin_spec h1 h2) as [[B ->]|[B ->]];
  match goal with |- context [qmax 0 ?z] => destruct (qmax_spec 0 z) as [[C ->]|[C ->]] end;
  repeat split; intros; try lra; try (destruct H; lra).
Qed.

Lemma iou_apart : forall a b, apart a b -> iou a b == 0.
Proof.
  intros a b H.
  assert (Hi : inter_area a b == 0).
  { unfold inter_area.
    destruct (ext_axis (bx0 a) (bx1 a) (bx0 b) (bx1 b)) as (_ & _ & _ & X).
    destruct (ext_axis (by0 a) (by1 a) (by0 b) (by1 b)) as (_ & _ & _ & Y).
    cbv zeta in X, Y.
    destruct H as [H|[H|[H|H]]].
    - rewrite X; [ring | auto].
    - rewrite X; [ring | auto].
    - rewrite Y; [ring | auto].
    - rewrite Y; [ring | auto]. }
  unfold iou, Qdiv. rewrite Hi. ring.
Qed.

Lemma iou_overlap_pos : forall a b, wf a -> wf b -> overlap a b -> 0 < iou a b.
Proof.
  intros a b [Wa1 Wa2] [Wb1 Wb2] (O1 & O2 & O3 & O4).
  unfold iou, inter_area, area.
  destruct (ext_axis (bx0 a) (bx1 a) (bx0 b) (bx1 b)) as (X0 & X1 & X2 & _).
  destruct (ext_axis (by0 a) (by1 a) (by0 b) (by1 b)) as (Y0 & Y1 & Y2 & _).
  cbv zeta in *.
  set (ex := ext (qmax (bx0 a) (bx0 b)) (qmin (bx1 a) (bx1 b))) in *.
  set (ey := ext (qmax (by0 a) (by0 b)) (qmin (by1 a) (by1 b))) in *.
  specialize (X1 Wa1). specialize (Y1 Wa2).
  specialize (X2 O1 O2 Wa1 Wb1). specialize (Y2 O3 O4 Wa2 Wb2).
  set (wa := bx1 a - bx0 a + 1) in *. set (ha := by1 a - by0 a + 1) in *.
  set (wb := bx1 b - bx0 b + 1) in *. set (hb := by1 b - by0 b + 1) in *.
  assert (Wb : 1 <= wb) by (subst wb; lra). assert (Hb : 1 <= hb) by (subst hb; lra).
  clearbody ex ey wa ha wb hb.
  apply Qlt_shift_div_l; nra.
Qed.

(* sign of the reduced score *)
Lemma qmaxl_pos : forall r x, 0 < x -> (forall y, In y r -> 0 < y) -> 0 < qmaxl x r.
Proof.
  induction r as [|y r IH]; intros x Hx H; simpl; auto.
  assert (K : 0 < qmaxl y r) by (apply IH; [apply H; left; auto | intros; apply H; right; auto]).
  destruct (qmax_spec x (qmaxl y r)) as [[_ ->]|[_ ->]]; auto.
Qed.

Lemma qmaxl_nonpos : forall r x, x <= 0 -> (forall y, In y r -> y <= 0) -> qmaxl x r <= 0.
Proof.
  induction r as [|y r IH]; intros x Hx H; simpl; auto.
  assert (K : qmaxl y r <= 0) by (apply IH; [apply H; left; auto | intros; apply H; right; auto]).
  destruct (qmax_spec x (qmaxl y r)) as [[_ ->]|[_ ->]]; auto.
Qed.

Lemma qsum_pos : forall l, l <> [] -> (forall y, In y l -> 0 < y) -> 0 < qsum l.
Proof.
  induction l as [|x [|y r] IH]; intros NE H; [congruence| |].
  - simpl. specialize (H x (or_introl eq_refl)). lra.
  - change (qsum (x :: y :: r)) with (x + qsum (y :: r)).
    assert (0 < qsum (y :: r)) by (apply IH; [discriminate | intros; apply H; right; auto]).
    specialize (H x (or_introl eq_refl)). lra.
Qed.

Lemma qsum_nonpos : forall l, (forall y, In y l -> y <= 0) -> qsum l <= 0.
Proof.
  induction l as [|x r IH]; intros H; simpl; [lra|].
  assert (qsum r <= 0) by (apply IH; intros; apply H; right; auto).
  specialize (H x (or_introl eq_refl)). lra.
Qed.

Lemma len_pos : forall n, 0 < inject_Z (Z.of_nat (S n)).
Proof. intros n. unfold Qlt, inject_Z. simpl. lia. Qed.

Lemma reduce_pos : forall mx l, l <> [] -> (forall y, In y l -> 0 < y) ->
  exists v, reduce mx l = Some v /\ 0 < v.
Proof.
  intros mx [|x r] NE H; [congruence|]. unfold reduce. eexists. split; [reflexivity|].
  destruct mx.
  - apply qmaxl_pos; [apply H; left; auto | intros; apply H; right; auto].
  - apply Qlt_shift_div_l; [apply len_pos|].
    assert (0 < qsum (x :: r)) by (apply qsum_pos; auto). lra.
Qed.

Lemma reduce_nonpos : forall mx l, (forall y, In y l -> y <= 0) ->
  reduce mx l = None \/ exists v, reduce mx l = Some v /\ v <= 0.
Proof.
  intros mx [|x r] H; [left; reflexivity|]. right. unfold reduce. eexists. split; [reflexivity|].
  destruct mx.
  - apply qmaxl_nonpos; [apply H; left; auto | intros; apply H; right; auto].
  - apply Qle_shift_div_r; [apply len_pos|].
    assert (qsum (x :: r) <= 0) by (apply qsum_nonpos; auto). lra.
Qed.

Lemma cost_lt_pos_nonpos : forall x s, 0 < x ->
  (s = None \/ exists y, s = Some y /\ y <= 0) -> cost_lt (Some x) s = true.
Proof.
  intros x s Hx [->|(y & -> & Hy)]; [reflexivity|].
  unfold cost_lt, cost_le. destruct (Qle_bool x y) eqn:E; [|reflexivity].
  apply Qle_bool_iff in E. lra.
Qed.

(* the two sign facts for one cell *)
Lemma score_cell_own : forall mx b cs, cs <> [] -> wf b ->
  (forall c, In c cs -> wf c /\ overlap b c) ->
  exists v, score_cell mx b cs = Some v /\ 0 < v.
Proof.
  intros mx b cs NE Wb H. unfold score_cell. apply reduce_pos.
  - destruct cs; [congruence | discriminate].
  - intros y Hy. apply in_map_iff in Hy. destruct Hy as (c & <- & Hc).
    destruct (H c Hc). apply iou_overlap_pos; auto.
Qed.

Lemma score_cell_other : forall mx b cs, (forall c, In c cs -> apart b c) ->
  score_cell mx b cs = None \/ exists v, score_cell mx b cs = Some v /\ v <= 0.
Proof.
  intros mx b cs H. unfold score_cell. apply reduce_nonpos.
  intros y Hy. apply in_map_iff in Hy. destruct Hy as (c & <- & Hc).
  rewrite (iou_apart b c (H c Hc)). lra.
Qed.

(* ====================================================================== *)
(* 2. box-level premise => dominance                                       *)
Close Scope Q_scope.
Open Scope nat_scope.

(* P a b : "b is a bounding box animal a may show" (the scene's geometry) *)
Definition pos := nat -> box -> Prop.

Record separated (P : pos) : Prop := mkSeparated {
  sep_wf    : forall a b, P a b -> wf b;
  sep_own   : forall a b b', P a b -> P a b' -> overlap b b';       (* small motion *)
  sep_other : forall a a' b b', a <> a' -> P a b -> P a' b' -> apart b b'  (* far apart *)
}.

(* the candidates of every track are detections of the animal owning it *)
Definition QOwn (cfg : config) (st : state) (own : owners) (m : nat) : Prop :=
  forall t u, t < m -> In u (cands cfg st t) -> In (u, t) own.

(* the matrix of the call IS get_scores(bboxes, iou) of some boxes the scene
   allows: bs = boxes of the detections, C t = boxes of the candidates of track t *)
Definition geo_matrix (P : pos) (cfg : config) (st : state) (ds : list det) (M : matrix) (m : nat) : Prop :=
  exists (bs : list box) (C : list (list box)),
    Forall2 P (uids ds) bs /\ length C = m /\
    (forall t, t < m -> Forall2 P (cands cfg st t) (nth t C [])) /\
    M = gmatrix (red_max cfg) bs C.

Lemma cell_gmatrix : forall mx bs C i t, i < length bs -> t < length C ->
  cell (gmatrix mx bs C) i t = score_cell mx (nth i bs bzero) (nth t C []).
Proof.
  intros mx bs C i t Hi Ht. unfold cell, gmatrix.
  rewrite (nth_indep _ [] ((fun b => map (score_cell mx b) C) bzero)) by (rewrite map_length; auto).
  rewrite (map_nth (fun b => map (score_cell mx b) C)).
  change (@None Q) with (score_cell mx (nth i bs bzero) []).
  rewrite (map_nth (score_cell mx (nth i bs bzero))). reflexivity.
Qed.

Lemma Forall2_nth_l : forall A B (R : A -> B -> Prop) l1 l2 i a (d : B),
  Forall2 R l1 l2 -> nth_error l1 i = Some a -> R a (nth i l2 d).
Proof.
  intros A B R l1 l2 i a d H. revert i. induction H; intros [|i] E; simpl in *; try discriminate.
  - inversion E; subst; auto.
  - apply IHForall2; auto.
Qed.

Lemma Forall2_len : forall A B (R : A -> B -> Prop) l1 l2, Forall2 R l1 l2 -> length l1 = length l2.
Proof. intros A B R l1 l2 H. induction H; simpl; auto. Qed.

Lemma Forall2_in_r : forall A B (R : A -> B -> Prop) l1 l2 b,
  Forall2 R l1 l2 -> In b l2 -> exists a, In a l1 /\ R a b.
Proof.
  intros A B R l1 l2 b H. induction H; intros Hb; [destruct Hb|].
  destruct Hb as [<-|Hb]; [exists x; split; [left|]; auto|].
  destruct (IHForall2 Hb) as (a & Ha & Ra). exists a. split; [right|]; auto.
Qed.

Lemma in_combine_seq_inv : forall (us : list nat) k i a,
  In (i, a) (combine (seq k (length us)) us) -> k <= i /\ nth_error us (i - k) = Some a.
Proof.
  induction us as [|u us IH]; intros k i a H; simpl in H; [destruct H|].
  destruct H as [H|H].
  - inversion H; subst. split; auto. rewrite Nat.sub_diag. reflexivity.
  - destruct (IH (S k) i a H) as [L E]. split; [lia|].
    replace (i - k) with (S (i - S k)) by lia. exact E.
Qed.

Lemma own_unique_owner : forall own m a u t, OwnInv own m -> In (a, t) own -> In (u, t) own -> u = a.
Proof.
  intros own m a u t OI Ha Hu.
  apply (owner_of_In own a t (oi_snd _ _ OI)) in Ha.
  apply (owner_of_In own u t (oi_snd _ _ OI)) in Hu. congruence.
Qed.

Theorem geo_dominant : forall P cfg st own ds M m,
  separated P -> OwnInv own m -> QOwn cfg st own m -> NoDup (uids ds) ->
  geo_matrix P cfg st ds M m ->
  (forall a t, In a (uids ds) -> own_of own a = Some t -> cands cfg st t <> []) ->
  dominant own ds M m = true.
Proof.
  intros P cfg st own ds M m SP OI QO ND (bs & C & HB & LC & HC & ->) Hcand.
  pose proof (Forall2_len _ _ _ _ _ HB) as LB. rewrite uids_length in LB.
  unfold dominant. apply forallb_forall. intros [i a] Hin. cbn [fst snd].
  rewrite <- (uids_length ds) in Hin.
  apply in_combine_seq_inv in Hin. destruct Hin as [_ Ei]. rewrite Nat.sub_0_r in Ei.
  destruct (own_of own a) as [t|] eqn:Eo; [|reflexivity].
  assert (Li : i < length ds).
  { rewrite <- uids_length. apply nth_error_Some. congruence. }
  assert (Ia : In a (uids ds)) by (eapply nth_error_In; eauto).
  assert (Hat : In (a, t) own) by (apply (own_of_In own a t (oi_fst _ _ OI)); auto).
  assert (Lt : t < m) by (eapply oi_lt; eauto).
  assert (Pb : P a (nth i bs bzero)) by (eapply Forall2_nth_l; eauto).
  (* the own cell *)
  assert (OwnC : forall c, In c (nth t C []) -> P a c).
  { intros c Hc. destruct (Forall2_in_r _ _ _ _ _ c (HC t Lt) Hc) as (u & Hu & Pu).
    rewrite (own_unique_owner own m a u t OI Hat (QO t u Lt Hu)) in Pu. exact Pu. }
  destruct (score_cell_own (red_max cfg) (nth i bs bzero) (nth t C [])) as (v & Ev & Hv).
  { intros E. apply (Hcand a t Ia Eo).
    pose proof (Forall2_len _ _ _ _ _ (HC t Lt)) as K. rewrite E in K.
    destruct (cands cfg st t); [reflexivity | discriminate K]. }
  { eapply sep_wf; eauto. }
  { intros c Hc. split; [eapply sep_wf; eauto | eapply sep_own; eauto]. }
  unfold row_dominant.
  rewrite (cell_gmatrix _ bs C i t) by lia. rewrite Ev.
  apply andb_true_iff. split; [apply andb_true_iff; split; [reflexivity|]|].
  - (* D2: every other track of the row *)
    apply forallb_forall. intros t' Ht'. apply in_seq in Ht'.
    destruct (t' =? t) eqn:Et; [reflexivity|]. apply Nat.eqb_neq in Et. cbn [orb].
    rewrite (cell_gmatrix _ bs C i t') by lia.
    apply cost_lt_pos_nonpos; [exact Hv|]. apply score_cell_other.
    intros c Hc. destruct (Forall2_in_r _ _ _ _ _ c (HC t' ltac:(lia)) Hc) as (u & Hu & Pu).
    assert (Hut : In (u, t') own) by (apply QO; [lia | exact Hu]).
    eapply (sep_other P SP a u); eauto.
    intros ->. apply (own_of_In own u t' (oi_fst _ _ OI)) in Hut. congruence.
  - (* D3: every other detection against the own track *)
    apply forallb_forall. intros j Hj. apply in_seq in Hj.
    destruct (j =? i) eqn:Ej; [reflexivity|]. apply Nat.eqb_neq in Ej. cbn [orb].
    rewrite (cell_gmatrix _ bs C j t) by lia.
    apply cost_lt_pos_nonpos; [exact Hv|]. apply score_cell_other.
    intros c Hc.
    destruct (nth_error (uids ds) j) as [aj|] eqn:Eaj.
    2:{ apply nth_error_None in Eaj. rewrite uids_length in Eaj. lia. }
    eapply (sep_other P SP aj a); eauto.
    + intros ->. apply Ej. eapply (proj1 (NoDup_nth_error (uids ds)) ND); [|congruence].
      apply nth_error_Some. congruence.
    + eapply Forall2_nth_l; eauto.
Qed.

(* ====================================================================== *)
(* 3. fixed window: identity preservation from the geometry alone          *)

(* premise at an executed call: the side conditions of the class, the matcher's
   contract, and — instead of dominance — "the matrix is get_scores of boxes
   the scene allows" *)
Definition geo_hyp (P : pos) (cfg : config) (x : state * owners * frame * outcome) : Prop :=
  let ds := f_dets (s_frame x) in
  nodupb (uids ds) && forallb snd ds = true /\
  contract_step cfg (s_state x, s_frame x, s_out x) /\
  (is_init cfg (s_state x) = false ->
     (all_known (s_own x) ds || all_present (s_own x) ds) = true /\
     geo_matrix P cfg (s_state x) ds (f_matrix (s_frame x)) (length (cur (s_state x)))).

(* the detections of the earlier calls that had detections *)
Definition ulog (tr : list (state * owners * frame * outcome)) : list (list nat) :=
  map (fun y => uids (f_dets (s_frame y))) (filter has_dets tr).

(* "absences shorter than the window": a known animal that is detected was
   detected in one of the last `window` earlier calls that had detections *)
Definition recent (cfg : config) (tr : list (state * owners * frame * outcome)) : Prop :=
  forall pre x post, tr = pre ++ x :: post ->
  forall a t, In a (uids (f_dets (s_frame x))) -> own_of (s_own x) a = Some t ->
  exists y, In y (lastn (window cfg) (filter has_dets pre)) /\ In a (uids (f_dets (s_frame y))).

Lemma fw_cands_in : forall q t u, In u (fw_cands q t) -> exists fr, In fr q /\ In (u, Some t) fr.
Proof.
  induction q as [|fr q IH]; intros t u H; [destruct H|].
  unfold fw_cands in H. simpl in H. apply in_app_or in H. destruct H as [H|H].
  - destruct (find _ fr) as [[u' o]|] eqn:E; [|destruct H].
    destruct H as [H|[]]. simpl in H. subst u'.
    apply find_some in E. destruct E as [Hin Hp]. simpl in Hp.
    destruct o as [t'|]; [|discriminate]. apply Nat.eqb_eq in Hp. subst t'.
    exists fr. split; [left; reflexivity | exact Hin].
  - destruct (IH t u H) as (fr' & A & B). exists fr'. split; [right|]; auto.
Qed.

Lemma fw_cands_nonempty : forall q fr u t, In fr q -> In (u, Some t) fr -> fw_cands q t <> [].
Proof.
  induction q as [|fr0 q IH]; intros fr u t Hin Hu; [destruct Hin|].
  unfold fw_cands. simpl. intros E. apply app_eq_nil in E. destruct E as [E1 E2].
  destruct Hin as [->|Hin].
  - destruct (find _ fr) eqn:F; [discriminate E1|].
    pose proof (find_none _ _ F _ Hu) as K. simpl in K. rewrite Nat.eqb_refl in K. discriminate.
  - exact (IH fr u t Hin Hu E2).
Qed.

Lemma ulog_cons : forall x pre,
  ulog (x :: pre) = match f_dets (s_frame x) with
                    | [] => ulog pre
                    | _ :: _ => uids (f_dets (s_frame x)) :: ulog pre
                    end.
Proof.
  intros x pre. unfold ulog. cbn [filter].
  replace (has_dets x) with (match f_dets (s_frame x) with [] => false | _ :: _ => true end) by reflexivity.
  destruct (f_dets (s_frame x)) eqn:Ed; [reflexivity|]. cbn [map]. rewrite Ed. reflexivity.
Qed.

Lemma geo_fw_gen : forall P cfg, separated P ->
  lq cfg = false -> fix_i cfg = true -> fix_ii cfg = true ->
  red_max cfg = false \/ fix_iii cfg = true -> 1 <= window cfg ->
  forall h st own L, Inv10 cfg st own ->
  fwq st = lastn (window cfg) L ->
  (forall fr u o, In fr L -> In (u, o) fr -> exists t, o = Some t /\ In (u, t) own) ->
  Forall (geo_hyp P cfg) (trace10 cfg st own h) ->
  (forall pre x post, trace10 cfg st own h = pre ++ x :: post ->
   forall a t, In a (uids (f_dets (s_frame x))) -> own_of (s_own x) a = Some t ->
   exists us, In us (lastn (window cfg) (map (map fst) L ++ ulog pre)) /\ In a us) ->
  Forall (scene_hyp_repaired cfg) (trace10 cfg st own h).
Proof.
  intros P cfg SP El F1 F2 F3 Hw. induction h as [|f r IH]; intros st own L I HQ HL HG HR; [constructor|].
  cbn [trace10] in HG, HR |- *.
  inversion HG as [|? ? G0 GR]; subst.
  assert (S0 : scene_hyp_repaired cfg (st, own, f, snd (step cfg st f))).
  { destruct G0 as (A & Cn & Gm). unfold s_state, s_own, s_frame, s_out in A, Cn, Gm. cbn [fst snd] in A, Cn, Gm.
    split; [|split; [exact Cn | intros _; apply scores_raise_mean_or_fixed; auto]].
    unfold scene_step_ok, s_state, s_own, s_frame. cbn [fst snd]. cbv zeta. rewrite A. cbn [andb].
    destruct (is_init cfg st) eqn:Ei; [reflexivity|]. cbn [orb].
    destruct (Gm eq_refl) as (AK & GM). unfold scene_ok. rewrite A, AK. cbn [andb].
    apply andb_true_iff in A. destruct A as [A1 A2]. apply nodupb_NoDup in A1.
    destruct I as (_ & OI & _).
    apply (geo_dominant P cfg st); auto.
    - intros t u Lt Hu. unfold cands in Hu. rewrite El in Hu.
      destruct (fw_cands_in _ _ _ Hu) as (fr & Hfr & Hin). rewrite HQ in Hfr. apply in_lastn in Hfr.
      destruct (HL fr u (Some t) Hfr Hin) as (t0 & Et & Hown). inversion Et; subst; auto.
    - intros a t Ia Eo.
      destruct (HR [] _ _ eq_refl a t Ia Eo) as (us & Hus & Ha).
      unfold ulog in Hus. simpl in Hus. rewrite app_nil_r, lastn_map in Hus.
      apply in_map_iff in Hus. destruct Hus as (fr & <- & Hfr).
      apply in_map_iff in Ha. destruct Ha as ([a' o] & Ea & Hin). simpl in Ea. subst a'.
      destruct (HL fr a o (in_lastn _ _ _ _ Hfr) Hin) as (t' & -> & Hown).
      apply (own_of_In own a t' (oi_fst _ _ OI)) in Hown.
      unfold s_own in Eo. cbn [fst snd] in Eo. rewrite Hown in Eo. inversion Eo; subst t'.
      unfold cands. rewrite El. rewrite HQ. eapply fw_cands_nonempty; eauto. }
  constructor; [exact S0|].
  destruct (fw_step_fwq cfg st own f El F1 F2 Hw I S0) as (out & Eo & Fo & Eq).
  pose proof (scene_hyp_of_repaired cfg _ F1 F2 S0) as S1.
  destruct (step10 cfg st own f Hw I S1) as (Id & I' & Inc). cbv zeta in Id, I', Inc.
  rewrite Eo in *.
  destruct Id as (out' & Eo' & _ & Io). unfold s_out in Eo'. simpl in Eo'. inversion Eo'; subst out'.
  set (own' := owners_after own (length (cur st)) (Ok out)) in *.
  set (L' := match f_dets f with [] => L | _ :: _ => L ++ [out] end).
  apply (IH (fst (step cfg st f)) own' L' I'); auto.
  - rewrite Eq. subst L'. destruct (f_dets f); [exact HQ|].
    rewrite HQ. unfold push. apply lastn_push; auto.
  - intros fr0 u o Hin0 Hin1. subst L'.
    assert (Old : In fr0 L -> exists t0, o = Some t0 /\ In (u, t0) own').
    { intros K. destruct (HL fr0 u o K Hin1) as (t0 & Et & Hown). exists t0. split; auto. }
    destruct (f_dets f); [auto|].
    apply in_app_or in Hin0. destruct Hin0 as [K|[K|[]]]; [auto|]. subst fr0.
    apply Io; auto.
  - intros pre x post E a t Ia Eown.
    destruct (HR ((st, own, f, Ok out) :: pre) x post) with (a := a) (t := t) as (us & Hus & Ha); auto.
    { simpl. rewrite E. reflexivity. }
    exists us. split; [|exact Ha].
    replace (map (map fst) L' ++ ulog pre) with (map (map fst) L ++ ulog ((st, own, f, Ok out) :: pre)); [exact Hus|].
    rewrite ulog_cons. unfold s_frame. cbn [fst snd]. subst L'.
    destruct (f_dets f) eqn:Ed; [reflexivity|].
    rewrite map_app. simpl. rewrite Fo, <- app_assoc. reflexivity.
Qed.

Theorem geometry_scene_hyp_fw : forall P cfg h, separated P ->
  lq cfg = false -> fix_i cfg = true -> fix_ii cfg = true ->
  red_max cfg = false \/ fix_iii cfg = true -> 1 <= window cfg ->
  Forall (geo_hyp P cfg) (trace10 cfg init [] h) ->
  recent cfg (trace10 cfg init [] h) ->
  Forall (scene_hyp_repaired cfg) (trace10 cfg init [] h).
Proof.
  intros P cfg h SP El F1 F2 F3 Hw HG HR.
  apply (geo_fw_gen P cfg SP El F1 F2 F3 Hw h init [] []); auto.
  - apply Inv10_init.
  - intros fr u o [].
  - intros pre x post E a t Ia Eo. destruct (HR pre x post E a t Ia Eo) as (y & Hy & Hay).
    exists (uids (f_dets (s_frame y))). split; [|exact Hay].
    simpl app. unfold ulog. rewrite lastn_map.
    apply (in_map (fun y => uids (f_dets (s_frame y)))). exact Hy.
Qed.

Theorem geometry_identity_fw : forall P cfg h, separated P ->
  lq cfg = false -> fix_i cfg = true -> fix_ii cfg = true ->
  red_max cfg = false \/ fix_iii cfg = true -> 1 <= window cfg ->
  Forall (geo_hyp P cfg) (trace10 cfg init [] h) ->
  recent cfg (trace10 cfg init [] h) ->
  exists track_of : owners,
    NoDup (map fst track_of) /\ NoDup (map snd track_of) /\
    length (run cfg h) = length h /\
    Forall (fun x => identity_step x track_of) (trace10 cfg init [] h).
Proof.
  intros P cfg h SP El F1 F2 F3 Hw HG HR.
  apply identity_preserved_repaired; auto.
  eapply geometry_scene_hyp_fw; eauto.
Qed.

(* ====================================================================== *)
(* 4. the scene "every animal stays within d of its home, homes S apart"    *)
Open Scope Q_scope.

Definition homes := nat -> Q * Q.

(* the homes of two different animals differ by at least S along some axis *)
Definition far_apart (H : homes) (S : Q) : Prop :=
  forall a a', a <> a' ->
    fst (H a) + S <= fst (H a') \/ fst (H a') + S <= fst (H a) \/
    snd (H a) + S <= snd (H a') \/ snd (H a') + S <= snd (H a).

(* box b may be shown by animal a: its centre ((x0+x1)/2, (y0+y1)/2) is within d
   of the home of a on both axes (all positions of an animal are within 2d of each
   other: the bound on its motion), its half extents are between wlo and whi.
   Written with doubled quantities (no division). *)
Definition inhomeb (H : homes) (d wlo whi : Q) (a : nat) (b : box) : bool :=
  Qle_bool (bx0 b + bx1 b - 2 * fst (H a)) (2 * d) &&
  Qle_bool (- (2 * d)) (bx0 b + bx1 b - 2 * fst (H a)) &&
  Qle_bool (by0 b + by1 b - 2 * snd (H a)) (2 * d) &&
  Qle_bool (- (2 * d)) (by0 b + by1 b - 2 * snd (H a)) &&
  Qle_bool (2 * wlo) (bx1 b - bx0 b) && Qle_bool (bx1 b - bx0 b) (2 * whi) &&
  Qle_bool (2 * wlo) (by1 b - by0 b) && Qle_bool (by1 b - by0 b) (2 * whi).

Definition inhome (H : homes) (d wlo whi : Q) : pos :=
  fun a b => inhomeb H d wlo whi a b = true.

Lemma inhome_ineq : forall H d wlo whi a b, inhome H d wlo whi a b ->
  bx0 b + bx1 b - 2 * fst (H a) <= 2 * d /\ - (2 * d) <= bx0 b + bx1 b - 2 * fst (H a) /\
  by0 b + by1 b - 2 * snd (H a) <= 2 * d /\ - (2 * d) <= by0 b + by1 b - 2 * snd (H a) /\
  2 * wlo <= bx1 b - bx0 b /\ bx1 b - bx0 b <= 2 * whi /\
  2 * wlo <= by1 b - by0 b /\ by1 b - by0 b <= 2 * whi.
Proof.
  intros H d wlo whi a b K. unfold inhome, inhomeb in K.
  repeat (apply andb_true_iff in K; destruct K as [K ?]).
  repeat match goal with X : Qle_bool _ _ = true |- _ => apply Qle_bool_iff in X end.
  repeat split; assumption.
Qed.

(* THE INEQUALITY between spacing and motion: S >= 2 d + 2 whi + 1 (the boxes of
   two animals can never come closer than one pixel), d <= wlo (a box always
   contains the home of its animal, so two boxes of one animal overlap) *)
Theorem homes_separated : forall H S d wlo whi,
  0 <= d -> d <= wlo -> far_apart H S -> 2 * d + 2 * whi + 1 <= S ->
  separated (inhome H d wlo whi).
Proof.
  intros H S d wlo whi D0 Dw FA HS. constructor.
  - intros a b K. apply inhome_ineq in K. unfold wf. lra.
  - intros a b b' K K'. apply inhome_ineq in K. apply inhome_ineq in K'. unfold overlap. lra.
  - intros a a' b b' Ne K K'. apply inhome_ineq in K. apply inhome_ineq in K'.
    unfold apart. destruct (FA a a' Ne) as [F|[F|[F|F]]]; lra.
Qed.
Close Scope Q_scope.

Theorem geometry_identity_homes_fw : forall H S d wlo whi cfg h,
  (0 <= d)%Q -> (d <= wlo)%Q -> far_apart H S -> (2 * d + 2 * whi + 1 <= S)%Q ->
  lq cfg = false -> fix_i cfg = true -> fix_ii cfg = true ->
  red_max cfg = false \/ fix_iii cfg = true -> 1 <= window cfg ->
  Forall (geo_hyp (inhome H d wlo whi) cfg) (trace10 cfg init [] h) ->
  recent cfg (trace10 cfg init [] h) ->
  Forall (scene_hyp_repaired cfg) (trace10 cfg init [] h) /\
  exists track_of : owners,
    NoDup (map fst track_of) /\ NoDup (map snd track_of) /\
    length (run cfg h) = length h /\
    Forall (fun x => identity_step x track_of) (trace10 cfg init [] h).
Proof.
  intros H S d wlo whi cfg h D0 Dw FA HS El F1 F2 F3 Hw HG HR.
  pose proof (homes_separated H S d wlo whi D0 Dw FA HS) as SP.
  split; [eapply geometry_scene_hyp_fw; eauto | eapply geometry_identity_fw; eauto].
Qed.

(* ====================================================================== *)
(* 5. a concrete scene                                                      *)

Definition recent_at (cfg : config) (pre : list (state * owners * frame * outcome))
                     (x : state * owners * frame * outcome) : Prop :=
  forall a t, In a (uids (f_dets (s_frame x))) -> own_of (s_own x) a = Some t ->
  exists y, In y (lastn (window cfg) (filter has_dets pre)) /\ In a (uids (f_dets (s_frame y))).

Fixpoint recent_list (cfg : config) (pre tr : list (state * owners * frame * outcome)) : Prop :=
  match tr with
  | [] => True
  | x :: r => recent_at cfg pre x /\ recent_list cfg (pre ++ [x]) r
  end.

Lemma recent_list_sound_gen : forall cfg tr p, recent_list cfg p tr ->
  forall pre x post, tr = pre ++ x :: post -> recent_at cfg (p ++ pre) x.
Proof.
  induction tr as [|x0 tr IH]; intros p H pre x post E; [destruct pre; discriminate|].
  destruct H as [H0 HR]. destruct pre as [|y pre]; simpl in E; inversion E; subst.
  - rewrite app_nil_r. exact H0.
  - replace (p ++ y :: pre) with ((p ++ [y]) ++ pre) by (rewrite <- app_assoc; reflexivity).
    eapply IH; eauto.
Qed.

Lemma recent_list_sound : forall cfg tr, recent_list cfg [] tr -> recent cfg tr.
Proof.
  intros cfg tr H pre x post E a t. exact (recent_list_sound_gen cfg tr [] H pre x post E a t).
Qed.

(* homes (0,0), (100,0), (0,100); d = 4, half extents between 8 and 10; S = 100 *)
Definition qnat (a : nat) : Q := inject_Z (Z.of_nat a).
Definition exH : homes := fun a =>
  match a with 1 => (0, 0)%Q | 2 => (100, 0)%Q | 3 => (0, 100)%Q | _ => (qnat a * 1000 + 1000, 0)%Q end.
Definition exP : pos := inhome exH 4 8 10.

Definition mkbox (cx cy w h : Q) : box := (cx - w, cy - h, cx + w, cy + h)%Q.
(* positions of animal 1, 2, 3 over time *)
Definition p1a := mkbox 0 0 8 8.      Definition p1b := mkbox 2 1 8 9.
Definition p1c := mkbox 4 (-2) 9 8.   Definition p1d := mkbox (-3) 3 8 8.   Definition p1e := mkbox (-4) (-4) 10 10.
Definition p2a := mkbox 100 0 8 8.    Definition p2b := mkbox 100 0 8 8.
Definition p2d := mkbox 96 4 9 9.     Definition p2e := mkbox 98 (-1) 8 10.
Definition p3e := mkbox 1 99 8 8.

Definition cfgE : config := mkConfig false true 2 false true true true.   (* fixed window 2, greedy, mean *)
(* animal 2 listed first from the 2nd call on, absent at the 3rd call (shorter than
   the window), animal 3 arrives at the 5th call while 1 and 2 are visible *)
Definition hE : list frame :=
 [ ([(1,true);(2,true)], [], AFail);
   ([(2,true);(1,true)], gmatrix false [p2b; p1b] [[p1a]; [p2a]], APairs [(0,1);(1,0)]);
   ([(1,true)],          gmatrix false [p1c] [[p1a; p1b]; [p2a; p2b]], APairs [(0,0)]);
   ([(2,true);(1,true)], gmatrix false [p2d; p1d] [[p1b; p1c]; [p2b]], APairs [(0,1);(1,0)]);
   ([(3,true);(1,true);(2,true)], gmatrix false [p3e; p1e; p2e] [[p1c; p1d]; [p2d]], APairs [(2,1);(1,0)]) ].

Ltac forall2_exP :=
  repeat (apply Forall2_cons; [vm_compute; reflexivity|]); apply Forall2_nil.

Ltac geo_step bs C :=
  apply Forall_cons;
  [ split; [vm_compute; reflexivity|]; split;
    [ unfold contract_step; cbn; let U := fresh "U" in intros U;
      first [ discriminate U | eexists; split; [reflexivity | vm_compute; reflexivity] ]
    | let U := fresh "U" in intros U;
      first [ vm_compute in U; discriminate U
            | split; [vm_compute; reflexivity|];
              exists bs, C; split; [forall2_exP|]; split; [reflexivity|]; split;
              [ let t := fresh "t" in let Lt := fresh "Lt" in
                intros t Lt; vm_compute in Lt;
                destruct t as [|[|t]];
                [ | | exfalso; lia ];
                (match goal with |- Forall2 _ ?l _ =>
                   let l' := eval vm_compute in l in change l with l' end);
                cbn [nth]; forall2_exP
              | vm_compute; reflexivity ] ] ]
  | ].

Lemma qnat_lt : forall a a', (a < a')%nat -> (qnat a + 1 <= qnat a')%Q.
Proof. intros a a' L. unfold qnat, Qle, Qplus, inject_Z. cbn [Qnum Qden]. lia. Qed.
Lemma qnat_0 : (qnat 0 == 0)%Q.
Proof. reflexivity. Qed.

Lemma exE_far : far_apart exH 100.
Proof.
  assert (K : forall a, (3 < a)%nat -> exH a = (qnat a * 1000 + 1000, 0)%Q).
  { intros a Ha. do 4 (destruct a as [|a]; [lia|]). reflexivity. }
  assert (K0 : exH 0 = (qnat 0 * 1000 + 1000, 0)%Q) by reflexivity.
  assert (V : forall a, (1 <= a <= 3)%nat -> (0 <= fst (exH a) <= 100 /\ 0 <= snd (exH a) <= 100)%Q).
  { intros a Ha. destruct a as [|[|[|[|a]]]]; [lia| | | |lia]; unfold exH; cbn [fst snd]; lra. }
  assert (B : forall a, (a = 0 \/ 3 < a)%nat -> exH a = (qnat a * 1000 + 1000, 0)%Q).
  { intros a [->|Ha]; auto. }
  intros a a' Ne.
  assert (Ca : (a = 0 \/ 3 < a)%nat \/ (1 <= a <= 3)%nat) by lia.
  assert (Ca' : (a' = 0 \/ 3 < a')%nat \/ (1 <= a' <= 3)%nat) by lia.
  destruct Ca as [A|A]; destruct Ca' as [A'|A'].
  - rewrite (B a A), (B a' A'). cbn [fst snd].
    assert (a < a' \/ a' < a)%nat as [L|L] by lia.
    + pose proof (qnat_lt _ _ L). left. lra.
    + pose proof (qnat_lt _ _ L). right. left. lra.
  - rewrite (B a A). cbn [fst snd]. pose proof (V a' A') as [V1 V2].
    destruct A as [->|A].
    + destruct a' as [|[|[|[|a']]]]; [lia| | | |lia]; unfold exH in *; cbn [fst snd] in *; pose proof qnat_0; lra.
    + assert (3 < a)%nat as L by lia. apply qnat_lt in L.
      assert (qnat 3 == 3)%Q by reflexivity. right. left. lra.
  - rewrite (B a' A'). cbn [fst snd]. pose proof (V a A) as [V1 V2].
    destruct A' as [->|A'].
    + destruct a as [|[|[|[|a]]]]; [lia| | | |lia]; unfold exH in *; cbn [fst snd] in *; pose proof qnat_0; lra.
    + assert (3 < a')%nat as L by lia. apply qnat_lt in L.
      assert (qnat 3 == 3)%Q by reflexivity. left. lra.
  - destruct a as [|[|[|[|a]]]]; [lia| | | |lia]; destruct a' as [|[|[|[|a']]]]; try lia; try congruence;
      unfold exH; cbn [fst snd]; lra.
Qed.

Lemma exE_geo : Forall (geo_hyp exP cfgE) (trace10 cfgE init [] hE).
Proof.
  vm_compute trace10.
  geo_step (@nil box) (@nil (list box)).
  geo_step [p2b; p1b] [[p1a]; [p2a]].
  geo_step [p1c] [[p1a; p1b]; [p2a; p2b]].
  geo_step [p2d; p1d] [[p1b; p1c]; [p2b]].
  geo_step [p3e; p1e; p2e] [[p1c; p1d]; [p2d]].
  apply Forall_nil.
Qed.

Lemma exE_recent : recent cfgE (trace10 cfgE init [] hE).
Proof.
  apply recent_list_sound. vm_compute trace10. cbn [recent_list app].
  repeat split; intros a t Ia Eo; vm_compute in Ia;
    repeat (destruct Ia as [<-|Ia]; [|]); try (destruct Ia); try (vm_compute in Eo; discriminate Eo);
    first [ solve [eexists; split; [left; reflexivity | vm_compute; tauto]]
          | solve [eexists; split; [right; left; reflexivity | vm_compute; tauto]] ].
Qed.

Lemma exE_run :
  run cfgE hE =
  [Ok [(1, Some 0); (2, Some 1)]; Ok [(2, Some 1); (1, Some 0)]; Ok [(1, Some 0)];
   Ok [(2, Some 1); (1, Some 0)]; Ok [(3, Some 2); (1, Some 0); (2, Some 1)]].
Proof. vm_compute. reflexivity. Qed.

(* the evaluation entry for the harness: IoU of two boxes, and the score matrix *)
Definition iou_case (ab : box * box) : Q := iou (fst ab) (snd ab).
Definition gmatrix_case (c : bool * list box * list (list box)) : matrix :=
  gmatrix (fst (fst c)) (snd (fst c)) (snd c).
(* box-level premise of a call, as booleans: every detection box overlaps every
   candidate box of its own track and is apart from all other candidate boxes;
   `tr_of` = index of the own track of each row (None: newcomer) *)
Definition geo_premb (bs : list box) (C : list (list box)) (tr_of : list (option nat)) : bool :=
  forallb (fun bt =>
    forallb (fun tc =>
      forallb (fun c => wfb c && wfb (fst bt) &&
                 (if match snd bt with Some t => t =? fst tc | None => false end
                  then overlapb (fst bt) c else apartb (fst bt) c)) (snd tc))
      (combine (seq 0 (length C)) C))
    (combine bs tr_of).

Definition geo_case := (bool * list box * list (list box) * list (option nat))%type.
(* (score matrix, box-level premise, all pairwise IoUs) *)
Definition geo_run (c : geo_case) : matrix * bool * list (list (list Q)) :=
  let '(mx, bs, C, tr) := c in
  (gmatrix mx bs C, geo_premb bs C tr, map (fun b => map (map (iou b)) C) bs).

(* ====================================================================== *)
(* 6. the box-level premise as the harness evaluates it (`geo_premb`, on the
      boxes of the real tracker's calls) => every row with a known own track is
      dominant in the Coq score matrix *)
Lemma wfb_wf : forall b, wfb b = true -> wf b.
Proof.
  intros b H. unfold wfb in H. apply andb_true_iff in H. destruct H as [A B].
  split; apply Qle_bool_iff; assumption.
Qed.

Lemma overlapb_overlap : forall a b, overlapb a b = true -> overlap a b.
Proof.
  intros a b H. unfold overlapb in H. repeat (apply andb_true_iff in H; destruct H as [H ?]).
  repeat split; apply Qle_bool_iff; assumption.
Qed.

Lemma apartb_apart : forall a b, apartb a b = true -> apart a b.
Proof.
  intros a b H. unfold apartb in H. unfold apart.
  apply orb_true_iff in H. destruct H as [H|H]; [|right; right; right; apply Qle_bool_iff; exact H].
  apply orb_true_iff in H. destruct H as [H|H]; [|right; right; left; apply Qle_bool_iff; exact H].
  apply orb_true_iff in H. destruct H as [H|H]; [left | right; left]; apply Qle_bool_iff; exact H.
Qed.

Definition own_col (o : option nat) (t' : nat) : bool :=
  match o with Some t => t =? t' | None => false end.

Lemma geo_premb_at : forall bs C tr i b o t' c,
  geo_premb bs C tr = true -> nth_error bs i = Some b -> nth_error tr i = Some o ->
  t' < length C -> In c (nth t' C []) ->
  wf c /\ wf b /\ (if own_col o t' then overlap b c else apart b c).
Proof.
  intros bs C tr i b o t' c H Eb Eo Lt Hc. unfold geo_premb in H.
  rewrite forallb_forall in H.
  specialize (H (b, o) (nth_error_In _ _ (nth_error_combine _ _ bs tr i b o Eb Eo))).
  rewrite forallb_forall in H.
  assert (Ec : nth_error C t' = Some (nth t' C [])) by (apply nth_error_nth'; exact Lt).
  specialize (H (t', nth t' C [])
                (nth_error_In _ _ (nth_error_combine _ _ (seq 0 (length C)) C t' t' _ (nth_error_seq0 _ _ Lt) Ec))).
  rewrite forallb_forall in H. specialize (H c Hc). cbn [fst snd] in H.
  apply andb_true_iff in H. destruct H as [H X]. apply andb_true_iff in H. destruct H as [Wc Wb].
  split; [apply wfb_wf; exact Wc|]. split; [apply wfb_wf; exact Wb|].
  fold (own_col o t') in X. destruct (own_col o t'); [apply overlapb_overlap | apply apartb_apart]; exact X.
Qed.

Theorem geo_premb_row_dominant : forall mx bs C tr i t,
  geo_premb bs C tr = true -> length tr = length bs ->
  nth_error tr i = Some (Some t) -> t < length C -> nth t C [] <> [] ->
  (forall j, j <> i -> nth_error tr j <> Some (Some t)) ->
  row_dominant (gmatrix mx bs C) (length bs) (length C) i t = true.
Proof.
  intros mx bs C tr i t H Len Ei Lt NE Inj.
  assert (Li : i < length bs) by (rewrite <- Len; apply nth_error_Some; congruence).
  assert (Eb : nth_error bs i = Some (nth i bs bzero)) by (apply nth_error_nth'; exact Li).
  destruct (score_cell_own mx (nth i bs bzero) (nth t C [])) as (v & Ev & Hv); auto.
  { destruct (nth t C []) as [|c0 r] eqn:E; [congruence|].
    destruct (geo_premb_at bs C tr i _ (Some t) t c0 H Eb Ei Lt) as (_ & W & _); auto.
    rewrite E. left. reflexivity. }
  { intros c Hc. destruct (geo_premb_at bs C tr i _ (Some t) t c H Eb Ei Lt Hc) as (Wc & _ & O).
    unfold own_col in O. rewrite Nat.eqb_refl in O. split; assumption. }
  unfold row_dominant. rewrite (cell_gmatrix mx bs C i t Li Lt), Ev.
  apply andb_true_iff. split; [apply andb_true_iff; split; [reflexivity|]|].
  - apply forallb_forall. intros t' Ht'. apply in_seq in Ht'.
    destruct (t' =? t) eqn:Et; [reflexivity|]. apply Nat.eqb_neq in Et. cbn [orb].
    rewrite (cell_gmatrix mx bs C i t' Li) by lia.
    apply cost_lt_pos_nonpos; [exact Hv|]. apply score_cell_other. intros c Hc.
    destruct (geo_premb_at bs C tr i _ (Some t) t' c H Eb Ei ltac:(lia) Hc) as (_ & _ & O).
    unfold own_col in O. destruct (t =? t') eqn:E2; [apply Nat.eqb_eq in E2; congruence | exact O].
  - apply forallb_forall. intros j Hj. apply in_seq in Hj.
    destruct (j =? i) eqn:Ej; [reflexivity|]. apply Nat.eqb_neq in Ej. cbn [orb].
    rewrite (cell_gmatrix mx bs C j t) by lia.
    apply cost_lt_pos_nonpos; [exact Hv|]. apply score_cell_other. intros c Hc.
    assert (Lj : j < length bs) by lia.
    assert (Ebj : nth_error bs j = Some (nth j bs bzero)) by (apply nth_error_nth'; exact Lj).
    destruct (nth_error tr j) as [o|] eqn:Eoj.
    2:{ apply nth_error_None in Eoj. lia. }
    destruct (geo_premb_at bs C tr j _ o t c H Ebj Eoj Lt Hc) as (_ & _ & O).
    destruct (own_col o t) eqn:E2; [|exact O].
    exfalso. apply (Inj j Ej). rewrite Eoj. unfold own_col in E2.
    destruct o as [t2|]; [|discriminate]. apply Nat.eqb_eq in E2. subst. reflexivity.
Qed.

(* ====================================================================== *)
(* 7. local queues: the candidates of a track are detections of its owner  *)

Definition LQOwn (st : state) (own : owners) : Prop :=
  forall t u, In u (lq_get (lqq st) t) -> In (u, t) own.

Lemma in_push : forall A w (q : list A) x y, In y (push w q x) -> In y q \/ y = x.
Proof.
  intros A w q x y H. unfold push in H. apply in_lastn in H.
  apply in_app_or in H. destruct H as [H|[H|[]]]; auto.
Qed.

Lemma lq_append_in : forall w ut q t u,
  In u (lq_get (lq_append w q ut) t) -> In u (lq_get q t) \/ In (u, Some t) ut.
Proof.
  induction ut as [|[u' [t'|]] ut IH]; intros q t u H; simpl in *; auto.
  - destruct (IH _ _ _ H) as [K|K]; [|right; right; exact K].
    rewrite lq_get_set in K. destruct (t' =? t) eqn:E; [|left; exact K].
    apply Nat.eqb_eq in E. subst t'.
    apply in_push in K. destruct K as [K | ->]; [left; exact K | right; left; reflexivity].
  - destruct (IH _ _ _ H) as [K|K]; [left; exact K | right; right; exact K].
Qed.

Lemma in_combine_nth_error : forall A B (a : list A) (b : list B) x y,
  In (x, y) (combine a b) -> exists i, nth_error a i = Some x /\ nth_error b i = Some y.
Proof.
  induction a as [|x0 a IH]; intros [|y0 b] x y H; simpl in H; try tauto.
  destruct H as [H|H].
  - inversion H; subst. exists 0. split; reflexivity.
  - destruct (IH b x y H) as (i & A1 & A2). exists (S i). split; assumption.
Qed.

Lemma newut_sub : forall (us : list nat) (want : list bool) (tids : list (option nat)) u t,
  In (u, Some t)
     (map (fun x : nat * bool * option nat => (fst (fst x), if snd (fst x) then snd x else @None nat))
          (combine (combine us want) tids)) ->
  In (u, Some t) (combine us tids).
Proof.
  intros us want tids u t H. apply in_map_iff in H. destruct H as ([[u' w] o] & E & Hin). cbn [fst snd] in E.
  destruct w; inversion E; subst.
  apply in_combine_nth_error in Hin. destruct Hin as (i & A1 & A2).
  destruct (nth_error us i) as [u0|] eqn:Eu.
  2:{ exfalso. apply nth_error_None in Eu.
      assert (K : i < length (combine us want)) by (apply nth_error_Some; congruence).
      rewrite combine_length in K. lia. }
  destruct (nth_error want i) as [w0|] eqn:Ew.
  2:{ exfalso. apply nth_error_None in Ew.
      assert (K : i < length (combine us want)) by (apply nth_error_Some; congruence).
      rewrite combine_length in K. lia. }
  rewrite (nth_error_combine _ _ us want i u0 w0 Eu Ew) in A1. inversion A1; subst.
  eapply nth_error_In. apply nth_error_combine; eauto.
Qed.

Lemma nth_error_repeat_none : forall n i (o : option nat),
  nth_error (repeat (@None nat) n) i = Some o -> o = None.
Proof.
  intros n i o H. apply nth_error_In in H. apply repeat_spec in H. exact H.
Qed.

Lemma uids_nth : forall (ds : list det) i u, nth_error (uids ds) i = Some u ->
  exists a, nth_error ds i = Some (u, a).
Proof.
  induction ds as [|[u0 a0] ds IH]; intros [|i] u H; simpl in *; try discriminate.
  - inversion H; subst. exists a0. reflexivity.
  - apply IH. exact H.
Qed.

Lemma uids_nth' : forall (ds : list det) i u a, nth_error ds i = Some (u, a) ->
  nth_error (uids ds) i = Some u.
Proof.
  induction ds as [|[u0 a0] ds IH]; intros [|i] u a H; simpl in *; try discriminate.
  - inversion H; subst. reflexivity.
  - eapply IH. exact H.
Qed.

Lemma lq_step_qown : forall cfg st own own' f m,
  lq cfg = true -> fix_ii cfg = true -> cur st = seq 0 m ->
  LQOwn st own -> incl own own' ->
  (forall out, snd (step cfg st f) = Ok out -> forall u t, In (u, Some t) out -> In (u, t) own') ->
  LQOwn (fst (step cfg st f)) own'.
Proof.
  intros cfg st own own' [[ds M] ans] m El F2 Hc HO Inc Hout.
  assert (Old : LQOwn st own') by (intros t u H; apply Inc; apply HO; exact H).
  revert Hout. unfold step. cbv beta iota zeta. rewrite El.
  set (n := length ds). set (none := repeat (@None nat) n).
  destruct (is_init cfg st) eqn:Ei.
  - rewrite Hc, add_new_fill. cbv beta iota. cbn [fst snd]. unfold output. rewrite El.
    intros Hout t u H. cbn [lqq] in H. apply lq_append_in in H. destruct H as [H|H]; [apply Old; exact H|].
    eapply Hout; [reflexivity | exact H].
  - destruct (scores_raise cfg st n); [intros _; exact Old|].
    destruct ans as [|p]; [intros _; exact Old|].
    destruct (guard cfg p); [|intros _; exact Old].
    rewrite F2. rewrite Hc, add_new_fill. cbv beta iota. cbn [fst snd]. unfold output. rewrite El.
    intros Hout t u H. cbn [lqq] in H.
    apply lq_append_in in H. destruct H as [H|H].
    + apply lq_append_in in H. destruct H as [H|H]; [apply Old; exact H|].
      (* a pair matched by the matcher: it is in the output as well *)
      eapply Hout; [reflexivity|].
      apply in_combine_nth_error in H. destruct H as (i & A1 & A2).
      assert (Hrow : In i (map fst p)).
      { destruct (in_dec Nat.eq_dec i (map fst p)) as [K|K]; [exact K|]. exfalso.
        rewrite (assign_not_row p none i K) in A2. apply nth_error_repeat_none in A2. discriminate. }
      destruct (uids_nth ds i u A1) as [a Ed].
      pose proof (want_lq_nth ds (map fst p) i u a Ed) as W.
      apply memb_In in Hrow. rewrite Hrow in W. rewrite andb_false_r in W.
      eapply nth_error_In. apply nth_error_combine.
      * eapply uids_nth'. exact Ed.
      * rewrite (fill_not_want _ _ _ _ W). exact A2.
    + eapply Hout; [reflexivity|]. eapply newut_sub. exact H.
Qed.

Lemma geo_lq_gen : forall P cfg, separated P ->
  lq cfg = true -> fix_i cfg = true -> fix_ii cfg = true ->
  red_max cfg = false \/ fix_iii cfg = true -> 1 <= window cfg ->
  forall h st own, Inv10 cfg st own -> LQOwn st own -> LqInv st ->
  Forall (geo_hyp P cfg) (trace10 cfg st own h) ->
  Forall (scene_hyp_repaired cfg) (trace10 cfg st own h).
Proof.
  intros P cfg SP El F1 F2 F3 Hw. induction h as [|f r IH]; intros st own I HO HI HG; [constructor|].
  cbn [trace10] in HG |- *.
  inversion HG as [|? ? G0 GR]; subst.
  assert (S0 : scene_hyp_repaired cfg (st, own, f, snd (step cfg st f))).
  { destruct G0 as (A & Cn & Gm). unfold s_state, s_own, s_frame, s_out in A, Cn, Gm. cbn [fst snd] in A, Cn, Gm.
    split; [|split; [exact Cn | intros _; apply scores_raise_mean_or_fixed; auto]].
    unfold scene_step_ok, s_state, s_own, s_frame. cbn [fst snd]. cbv zeta. rewrite A. cbn [andb].
    destruct (is_init cfg st) eqn:Ei; [reflexivity|]. cbn [orb].
    destruct (Gm eq_refl) as (AK & GM). unfold scene_ok. rewrite A, AK. cbn [andb].
    apply andb_true_iff in A. destruct A as [A1 A2]. apply nodupb_NoDup in A1.
    destruct I as ((Hc & _) & OI & _).
    apply (geo_dominant P cfg st); auto.
    - intros t u Lt Hu. unfold cands in Hu. rewrite El in Hu. apply HO. exact Hu.
    - intros a t Ia Eo. unfold cands. rewrite El. apply HI.
      apply (own_of_In own a t (oi_fst _ _ OI)) in Eo. pose proof (oi_lt _ _ OI a t Eo) as Lt.
      rewrite Hc. apply in_seq. lia. }
  constructor; [exact S0|].
  pose proof (scene_hyp_of_repaired cfg _ F1 F2 S0) as S1.
  destruct (step10 cfg st own f Hw I S1) as (Id & I' & Inc). cbv zeta in Id, I', Inc.
  destruct Id as (out & Eo & _ & Io). unfold s_out in Eo. simpl in Eo.
  pose proof I as ((Hc & _) & _ & _).
  assert (HO' : LQOwn (fst (step cfg st f)) (owners_after own (length (cur st)) (snd (step cfg st f)))).
  { eapply (lq_step_qown cfg st own _ f (length (cur st))); eauto.
    intros out' Eo' u t Hin. rewrite Eo in Eo'. inversion Eo'; subst out'.
    destruct (Io u (Some t) Hin) as (t0 & Et & Hown). inversion Et; subst.
    first [exact Hown | rewrite Eo in Hown; exact Hown | rewrite Eo; exact Hown]. }
  assert (HI' : LqInv (fst (step cfg st f))) by (eapply lq_step_inv; eauto).
  rewrite Eo in *. apply IH; auto.
Qed.

Theorem geometry_scene_hyp_lq : forall P cfg h, separated P ->
  lq cfg = true -> fix_i cfg = true -> fix_ii cfg = true ->
  red_max cfg = false \/ fix_iii cfg = true -> 1 <= window cfg ->
  Forall (geo_hyp P cfg) (trace10 cfg init [] h) ->
  Forall (scene_hyp_repaired cfg) (trace10 cfg init [] h).
Proof.
  intros P cfg h SP El F1 F2 F3 Hw HG.
  apply (geo_lq_gen P cfg SP El F1 F2 F3 Hw h init []); auto.
  - apply Inv10_init.
  - intros t u [].
  - intros t [].
Qed.

(* BOTH candidate methods *)
Theorem geometry_scene_hyp_any : forall P cfg h, separated P ->
  fix_i cfg = true -> fix_ii cfg = true ->
  red_max cfg = false \/ fix_iii cfg = true -> 1 <= window cfg ->
  Forall (geo_hyp P cfg) (trace10 cfg init [] h) ->
  lq cfg = true \/ recent cfg (trace10 cfg init [] h) ->
  Forall (scene_hyp_repaired cfg) (trace10 cfg init [] h).
Proof.
  intros P cfg h SP F1 F2 F3 Hw HG HR. destruct (lq cfg) eqn:El.
  - eapply geometry_scene_hyp_lq; eauto.
  - destruct HR as [K|HR]; [discriminate|]. eapply geometry_scene_hyp_fw; eauto.
Qed.

Theorem geometry_identity_any : forall P cfg h, separated P ->
  fix_i cfg = true -> fix_ii cfg = true ->
  red_max cfg = false \/ fix_iii cfg = true -> 1 <= window cfg ->
  Forall (geo_hyp P cfg) (trace10 cfg init [] h) ->
  lq cfg = true \/ recent cfg (trace10 cfg init [] h) ->
  Forall (scene_hyp_repaired cfg) (trace10 cfg init [] h) /\
  exists track_of : owners,
    NoDup (map fst track_of) /\ NoDup (map snd track_of) /\
    length (run cfg h) = length h /\
    Forall (fun x => identity_step x track_of) (trace10 cfg init [] h).
Proof.
  intros P cfg h SP F1 F2 F3 Hw HG HR.
  assert (S : Forall (scene_hyp_repaired cfg) (trace10 cfg init [] h)) by (eapply geometry_scene_hyp_any; eauto).
  split; [exact S | apply identity_preserved_repaired; auto].
Qed.

(* the scene of section 5 under LOCAL QUEUES (window 2): the candidates of a track are
   its last two detections, so track 1 keeps two candidates through animal 2's absence *)
Definition cfgL : config := mkConfig true true 2 false true true true.
Definition hL : list frame :=
 [ ([(1,true);(2,true)], [], AFail);
   ([(2,true);(1,true)], gmatrix false [p2b; p1b] [[p1a]; [p2a]], APairs [(0,1);(1,0)]);
   ([(1,true)],          gmatrix false [p1c] [[p1a; p1b]; [p2a; p2b]], APairs [(0,0)]);
   ([(2,true);(1,true)], gmatrix false [p2d; p1d] [[p1b; p1c]; [p2a; p2b]], APairs [(0,1);(1,0)]);
   ([(3,true);(1,true);(2,true)], gmatrix false [p3e; p1e; p2e] [[p1c; p1d]; [p2b; p2d]], APairs [(2,1);(1,0)]) ].

Lemma exL_geo : Forall (geo_hyp exP cfgL) (trace10 cfgL init [] hL).
Proof.
  vm_compute trace10.
  geo_step (@nil box) (@nil (list box)).
  geo_step [p2b; p1b] [[p1a]; [p2a]].
  geo_step [p1c] [[p1a; p1b]; [p2a; p2b]].
  geo_step [p2d; p1d] [[p1b; p1c]; [p2a; p2b]].
  geo_step [p3e; p1e; p2e] [[p1c; p1d]; [p2b; p2d]].
  apply Forall_nil.
Qed.

Lemma exL_run :
  run cfgL hL =
  [Ok [(1, Some 0); (2, Some 1)]; Ok [(2, Some 1); (1, Some 0)]; Ok [(1, Some 0)];
   Ok [(2, Some 1); (1, Some 0)]; Ok [(3, Some 2); (1, Some 0); (2, Some 1)]].
Proof. vm_compute. reflexivity. Qed.
