(* LemmasR.v (C10, round 4: repairs after the outside review, notes/review/C10.md)
   — proofs.

   1. The identity theorem for the widened tracker in ANY configuration with
      valid names (any fix_cap / fix_iv, in particular the CURRENT tree `x_rep`):
      on an in-class scene with room under the cap `xstep X = step (base X)`
      call by call, hence every identity is kept.
   2. The window clause: an animal returned in one of the last `window` calls
      that had detections still has a candidate (fixed window); with local
      queues a track never loses its candidates at all. *)
From Coq Require Import List Arith Bool ZArith QArith Lia.
Import ListNotations.
From SV Require Import C09.Tracker C09.Lemmas C09.TrackerX C09.LemmasX C09.LemmasR C10.Scene C10.Lemmas.
Close Scope Q_scope.
Open Scope nat_scope.

(* ====================================================================== *)
(* the matcher's answer at an in-class call (extracted from the proof of step10) *)

Lemma scene_answer : forall cfg st own f o,
  Inv10 cfg st own -> scene_hyp_repaired cfg (st, own, f, o) -> is_init cfg st = false ->
  exists p, f_answer f = APairs p /\ matching (length (f_dets f)) (length (cur st)) p /\
            (forall r c, In (r, c) p <-> rowtrack own (uids (f_dets f)) r = Some c) /\
            (0 < length (f_dets f) -> p <> []).
Proof.
  intros cfg st own f o ((Hc & Hi) & OI & H0) (SOK & CS & NR) Ei.
  destruct f as [[ds M] ans].
  unfold s_state, s_own, s_frame, s_out, f_dets, f_matrix, f_answer in *.
  simpl fst in *. simpl snd in *.
  assert (Hm : 0 < length (cur st)).
  { destruct (cur st) eqn:E; [exfalso; apply (Hi Ei); reflexivity | simpl; lia]. }
  unfold scene_step_ok, s_state, s_own, s_frame, f_dets, f_matrix in SOK.
  simpl fst in SOK. simpl snd in SOK. rewrite Ei in SOK. simpl orb in SOK.
  repeat rewrite andb_true_iff in SOK. destruct SOK as [[NDb Ab] Sc].
  assert (ND : NoDup (uids ds)) by (apply nodupb_NoDup; auto).
  assert (Er := NR Ei).
  unfold scene_ok in Sc. repeat rewrite andb_true_iff in Sc. destruct Sc as [[_ Side] Dom].
  apply orb_true_iff in Side.
  assert (C : matcher_contract cfg M (length ds) (length (cur st)) ans).
  { unfold contract_step, answer_used, t_state, t_frame, f_dets, f_matrix, f_answer in CS.
    simpl fst in CS. simpl snd in CS. rewrite Ei, Er in CS. apply CS. reflexivity. }
  destruct (matcher_identity cfg own ds M (length (cur st)) ans OI ND Side Dom C) as (p & Ea & Mp & Id).
  exists p. split; [auto|]. split; [exact Mp|]. split; [exact Id|].
  intros Hn Ep. subst p.
  destruct Side as [AK|AP].
  - unfold all_known in AK. rewrite forallb_forall in AK.
    destruct (nth_error_lt_some _ (uids ds) 0) as [a Ea0]; [rewrite uids_length; lia|].
    assert (K := AK a (nth_error_In _ _ Ea0)).
    destruct (own_of own a) as [t|] eqn:Eo; [|discriminate].
    assert (In (0, t) []) by (apply Id; unfold rowtrack; rewrite Ea0; auto). auto.
  - destruct (oi_sur _ _ OI 0 Hm) as [a Ha].
    unfold all_present in AP. rewrite forallb_forall in AP.
    assert (K := AP _ Ha). simpl in K. apply memb_In in K.
    destruct (index_of_In _ _ K) as [r Er0]. apply index_of_nth in Er0.
    assert (In (r, 0) []).
    { apply Id. unfold rowtrack. rewrite Er0. apply own_of_In; [apply OI | auto]. }
    auto.
Qed.

(* at an in-class call the branch added by afd312c is not taken: the matcher
   returns the pair of a known, present animal, or the frame is empty *)
Lemma scene_iv_inert : forall X st own f o, fix_i (base X) = true ->
  Inv10 (base X) st own -> scene_hyp_repaired (base X) (st, own, f, o) ->
  iv_branch X st f = false.
Proof.
  intros X st own f o F1 I H.
  unfold iv_branch.
  destruct (fix_iv X); [|reflexivity].
  destruct (is_init (base X) st) eqn:Ei; [reflexivity|].
  destruct (scores_raise (base X) st (length (f_dets f))); [reflexivity|].
  cbn [negb andb].
  destruct (scene_answer (base X) st own f o I H Ei) as (p & Ea & _ & _ & Ne).
  rewrite Ea, (guard_fix_i _ _ F1).
  destruct p as [|rc p']; [|reflexivity].
  destruct (f_dets f) as [|d ds]; [reflexivity|].
  exfalso. apply Ne; [simpl; lia | reflexivity].
Qed.

Lemma xstep_scene : forall X st own f o, names_ok X = true -> fix_i (base X) = true ->
  Inv10 (base X) st own -> scene_hyp_repaired (base X) (st, own, f, o) ->
  cap_room X (st, f, o) ->
  xstep X st f = step (base X) st f.
Proof.
  intros X st own f o Hn F1 I H R.
  pose proof I as ((Hc & _) & _).
  apply (xstep_room X st f (length (cur st))); auto;
    try (intros K HK; exact (R K HK)).
  eapply scene_iv_inert; eauto.
Qed.

Lemma scene_hyp_out_irrelevant : forall cfg st own f o o',
  scene_hyp_repaired cfg (st, own, f, o) -> scene_hyp_repaired cfg (st, own, f, o').
Proof. intros cfg st own f o o' H. exact H. Qed.

Definition room10 (X : xconfig) (x : state * owners * frame * outcome) : Prop :=
  cap_room X (s_state x, s_frame x, s_out x).

Lemma xtrace10_eq : forall X, names_ok X = true ->
  fix_i (base X) = true -> fix_ii (base X) = true -> 1 <= window (base X) ->
  forall h st own, Inv10 (base X) st own ->
  Forall (scene_hyp_repaired (base X)) (xtrace10 X st own h) ->
  Forall (room10 X) (xtrace10 X st own h) ->
  xtrace10 X st own h = trace10 (base X) st own h.
Proof.
  intros X Hn F1 F2 Hw. induction h as [|f r IH]; intros st own I HS HR; [reflexivity|].
  cbn [xtrace10 trace10] in *.
  inversion HS as [|? ? S0 SR]; subst. inversion HR as [|? ? R0 RR]; subst.
  assert (E : xstep X st f = step (base X) st f).
  { eapply xstep_scene; eauto. }
  rewrite E in *. f_equal.
  destruct (snd (step (base X) st f)) eqn:Eo; [|reflexivity].
  apply IH; auto.
  assert (S1 : scene_hyp (base X) (st, own, f, snd (step (base X) st f))).
  { rewrite Eo. destruct S0 as (A & B & C). split; auto. split; auto.
    intros Ei. split; auto. apply no_quirk_repaired; auto. }
  destruct (step10 (base X) st own f Hw I S1) as (_ & I' & _).
  cbv zeta in I'. rewrite Eo in I'. exact I'.
Qed.

Lemma xtrace10_xtrace : forall X h st own,
  map (fun x => (s_state x, s_frame x, s_out x)) (xtrace10 X st own h) = xtrace X st h.
Proof.
  induction h as [|f r IH]; intros st own; simpl; auto.
  unfold s_state, s_frame, s_out at 1. simpl. f_equal.
  destruct (snd (xstep X st f)); auto.
Qed.

(* the identity theorem for the widened tracker, ANY fix_cap / fix_iv *)
Theorem identity_preserved_widened_any : forall X h,
  names_ok X = true -> fix_i (base X) = true -> fix_ii (base X) = true -> 1 <= window (base X) ->
  Forall (scene_hyp_repaired (base X)) (xtrace10 X init [] h) ->
  Forall (room10 X) (xtrace10 X init [] h) ->
  xtrace10 X init [] h = trace10 (base X) init [] h /\
  xrun X h = run (base X) h /\
  exists track_of : owners,
    NoDup (map fst track_of) /\ NoDup (map snd track_of) /\
    length (xrun X h) = length h /\
    Forall (fun x => identity_step x track_of) (xtrace10 X init [] h).
Proof.
  intros X h Hn F1 F2 Hw HS HR.
  pose proof (xtrace10_eq X Hn F1 F2 Hw h init [] (Inv10_init _) HS HR) as E.
  assert (E2 : xrun X h = run (base X) h).
  { unfold xrun, run. rewrite xrun_trace, run_trace.
    rewrite <- (xtrace10_xtrace X h init []), <- (trace10_trace (base X) h init []), E. reflexivity. }
  split; [exact E|]. split; [exact E2|]. rewrite E in *. rewrite E2.
  apply identity_preserved_repaired; auto.
Qed.

(* the step function itself, at every in-class call with room under the cap *)
Theorem xstep_is_step_in_class : forall X h x,
  names_ok X = true -> fix_i (base X) = true -> fix_ii (base X) = true -> 1 <= window (base X) ->
  Forall (scene_hyp_repaired (base X)) (xtrace10 X init [] h) ->
  Forall (room10 X) (xtrace10 X init [] h) ->
  In x (xtrace10 X init [] h) ->
  xstep X (s_state x) (s_frame x) = step (base X) (s_state x) (s_frame x).
Proof.
  intros X h x Hn F1 F2 Hw HS HR.
  assert (G : forall h st own, Inv10 (base X) st own ->
            Forall (scene_hyp_repaired (base X)) (xtrace10 X st own h) ->
            Forall (room10 X) (xtrace10 X st own h) ->
            In x (xtrace10 X st own h) ->
            xstep X (s_state x) (s_frame x) = step (base X) (s_state x) (s_frame x)).
  { clear h HS HR. induction h as [|f r IH]; intros st own I HS HR Hx; [destruct Hx|].
    cbn [xtrace10] in *.
    inversion HS as [|? ? S0 SR]; subst. inversion HR as [|? ? R0 RR]; subst.
    assert (E : xstep X st f = step (base X) st f) by (eapply xstep_scene; eauto).
    destruct Hx as [<-|Hx]; [exact E|].
    rewrite E in *.
    destruct (snd (step (base X) st f)) eqn:Eo; [|destruct Hx].
    assert (S1 : scene_hyp (base X) (st, own, f, snd (step (base X) st f))).
    { rewrite Eo. destruct S0 as (A & B & C). split; auto. split; auto.
      intros Ei. split; auto. apply no_quirk_repaired; auto. }
    destruct (step10 (base X) st own f Hw I S1) as (_ & I' & _).
    cbv zeta in I'. rewrite Eo in I'. exact (IH _ _ I' SR RR Hx). }
  apply G. apply Inv10_init. exact HS. exact HR.
Qed.

(* ---------------------------------------------------------------------- *)
(* non-vacuity: animal 1 absent for one frame, rows permuted, animal 3 arrives
   late while 1 and 2 are visible *)

(* fixed window 2, greedy (base model) *)
Definition cfgG : config := mkConfig false true 2 false true true true.
Definition hG : list frame :=
 [ ([(1,true);(2,true)], [], AFail);
   ([(2,true)], [[Some 0%Q; Some 1%Q]], APairs [(0,1)]);
   ([(2,true);(1,true)], [[Some 0%Q; Some 1%Q];[Some 1%Q; Some 0%Q]], APairs [(0,1);(1,0)]);
   ([(3,true);(2,true);(1,true)],
    [[Some 0%Q; Some 0%Q];[Some 0%Q; Some 1%Q];[Some 1%Q; Some 0%Q]], APairs [(1,1);(2,0)]) ].

Ltac scene_hyp_step_greedy :=
  apply Forall_cons;
  [ split; [vm_compute; reflexivity|]; split;
    [ unfold contract_step; cbn; let U := fresh "U" in intros U;
      first [ discriminate U | eexists; split; [reflexivity | vm_compute; reflexivity] ]
    | let U := fresh "U" in intros U; first [ vm_compute in U; discriminate U | vm_compute; reflexivity ] ]
  | ].

Lemma exG_premise : Forall (scene_hyp_repaired cfgG) (trace10 cfgG init [] hG).
Proof.
  vm_compute trace10. repeat scene_hyp_step_greedy. apply Forall_nil.
Qed.

Lemma exG_run :
  map fst (fst (run10 cfgG hG)) =
  [Ok [(1, Some 0); (2, Some 1)]; Ok [(2, Some 1)]; Ok [(2, Some 1); (1, Some 0)];
   Ok [(3, Some 2); (2, Some 1); (1, Some 0)]].
Proof. vm_compute. reflexivity. Qed.

(* the CURRENT widened configuration: local queues, window 2, greedy, max_tracks = 3
   (exactly the number of animals: the cap is reached, never exceeded) *)
Definition XG : xconfig := x_rep (mkConfig true true 2 false true true true) (Some 3).

Lemma exXG_premise : Forall (scene_hyp_repaired (base XG)) (xtrace10 XG init [] hG).
Proof.
  vm_compute xtrace10. unfold XG, x_rep, base. repeat scene_hyp_step_greedy. apply Forall_nil.
Qed.

Lemma exXG_room : Forall (room10 XG) (xtrace10 XG init [] hG).
Proof.
  apply Forall_forall. intros x Hx. unfold room10. apply cap_roomb_spec.
  vm_compute in Hx. repeat (destruct Hx as [<-|Hx]; [vm_compute; reflexivity|]). destruct Hx.
Qed.

Lemma exXG_run :
  xrun XG hG =
  [Ok [(1, Some 0); (2, Some 1)]; Ok [(2, Some 1)]; Ok [(2, Some 1); (1, Some 0)];
   Ok [(3, Some 2); (2, Some 1); (1, Some 0)]].
Proof. vm_compute. reflexivity. Qed.

(* ====================================================================== *)
(* the window clause *)

(* --- local queues: a track never loses its candidates ------------------- *)

Lemma lq_get_set : forall q t l t', lq_get (lq_set q t l) t' = if t =? t' then l else lq_get q t'.
Proof.
  induction q as [|[k l0] q IH]; intros t l t'; simpl.
  - destruct (t =? t'); reflexivity.
  - destruct (k =? t) eqn:E; simpl.
    + apply Nat.eqb_eq in E. subst k. destruct (t =? t'); reflexivity.
    + rewrite IH. destruct (k =? t') eqn:E2; [|reflexivity].
      apply Nat.eqb_eq in E2. subst k. rewrite Nat.eqb_sym, E. reflexivity.
Qed.

Lemma lq_append_keeps : forall w ut q t, 1 <= w ->
  lq_get q t <> [] -> lq_get (lq_append w q ut) t <> [].
Proof.
  induction ut as [|[u [t'|]] ut IH]; intros q t Hw H; simpl; auto.
  apply IH; auto. rewrite lq_get_set. destruct (t' =? t) eqn:E; auto. apply push_nonempty; auto.
Qed.

Lemma lq_append_adds : forall w ut q u t, 1 <= w ->
  In (u, Some t) ut -> lq_get (lq_append w q ut) t <> [].
Proof.
  induction ut as [|[u' [t'|]] ut IH]; intros q u t Hw H; simpl in *; [destruct H| |].
  - destruct H as [H|H].
    + inversion H; subst. apply lq_append_keeps; auto.
      rewrite lq_get_set, Nat.eqb_refl. apply push_nonempty; auto.
    + eapply IH; eauto.
  - destruct H as [H|H]; [discriminate|]. eapply IH; eauto.
Qed.

(* every current track has a non-empty deque *)
Definition LqInv (st : state) : Prop := forall t, In t (cur st) -> lq_get (lqq st) t <> [].

Lemma newut_in : forall (us : list nat) (want : list bool) (tids : list (option nat)) i u t,
  nth_error us i = Some u -> nth_error want i = Some true -> nth_error tids i = Some (Some t) ->
  In (u, Some t)
     (map (fun x : nat * bool * option nat => (fst (fst x), if snd (fst x) then snd x else @None nat))
          (combine (combine us want) tids)).
Proof.
  intros us want tids i u t A B C. apply in_map_iff. exists (u, true, Some t). split; [reflexivity|].
  eapply nth_error_In. apply nth_error_combine; [apply nth_error_combine|]; eauto.
Qed.

Lemma lq_step_inv : forall cfg st f m, lq cfg = true -> 1 <= window cfg -> cur st = seq 0 m ->
  LqInv st -> LqInv (fst (step cfg st f)).
Proof.
  intros cfg st [[ds M] ans] m El Hw Hc HI.
  assert (Old : forall t, t < m -> lq_get (lqq st) t <> []).
  { intros t Ht. apply HI. rewrite Hc. apply in_seq. lia. }
  unfold step. cbv beta iota zeta. rewrite El.
  set (n := length ds). set (none := repeat (@None nat) n).
  assert (Ln : length none = n) by apply repeat_length.
  assert (Lu : length (uids ds) = n) by apply uids_length.
  destruct (is_init cfg st) eqn:Ei.
  - rewrite Hc, add_new_fill. cbv beta iota. simpl fst. intros t Ht. simpl cur in Ht. simpl lqq.
    apply in_seq in Ht. destruct (Nat.lt_ge_cases t m) as [Lo|Hi].
    + apply lq_append_keeps; auto.
    + destruct (fill_surj (map snd ds) none m t) as [i [A B]]; [lia|].
      assert (Li : i < length (uids ds)).
      { assert (K : i < length (map snd ds)) by (apply nth_error_Some; congruence).
        rewrite map_length in K. rewrite uids_length. exact K. }
      destruct (nth_error_lt_some _ (uids ds) i Li) as [u Eu].
      eapply (lq_append_adds _ _ _ u); auto.
      eapply nth_error_In. apply nth_error_combine; eauto.
  - destruct (scores_raise cfg st n); [exact HI|].
    destruct ans as [|p]; [exact HI|].
    destruct (guard cfg p); [|exact HI].
    destruct (fix_ii cfg).
    + rewrite Hc, add_new_fill. cbv beta iota. simpl fst. intros t Ht. simpl cur in Ht. simpl lqq.
      apply in_seq in Ht. destruct (Nat.lt_ge_cases t m) as [Lo|Hi].
      * apply lq_append_keeps; auto. apply lq_append_keeps; auto.
      * destruct (fill_surj (want_lq ds (map fst p)) (assign p none) m t) as [i [A B]]; [lia|].
        assert (Li : i < length (uids ds)).
        { assert (K : i < length (want_lq ds (map fst p))) by (apply nth_error_Some; congruence).
          rewrite want_lq_length in K. rewrite uids_length. exact K. }
        destruct (nth_error_lt_some _ (uids ds) i Li) as [u Eu].
        eapply (lq_append_adds _ _ _ u); auto.
        eapply newut_in; eauto.
    + destruct (unmatched n p); simpl fst; intros t Ht; simpl cur in Ht; simpl lqq;
        apply lq_append_keeps; auto.
Qed.

Lemma LqInv_has_cand : forall cfg st t, lq cfg = true -> LqInv st -> In t (cur st) -> has_cand cfg st t = true.
Proof.
  intros cfg st t El HI Ht. unfold has_cand. rewrite El. specialize (HI t Ht).
  destruct (lq_get (lqq st) t); [congruence | reflexivity].
Qed.

(* local queues, any history with valid matcher answers (no scene premise): no current track is
   ever without a candidate — the selector of F4iii never fires *)
Theorem lq_tracks_keep_candidates : forall cfg h, lq cfg = true -> 1 <= window cfg ->
  Forall (contract_step cfg) (trace cfg init h) ->
  Forall (fun x => forall t, In t (cur (t_state x)) -> has_cand cfg (t_state x) t = true) (trace cfg init h).
Proof.
  intros cfg h El Hw.
  apply (trace_induct cfg (fun st => Inv cfg st /\ LqInv st)).
  - intros st f [Hi HL] C. split.
    + unfold t_state. simpl fst. intros t Ht. apply LqInv_has_cand; auto.
    + split.
      * pose proof (step_spec cfg st f Hi (contract_valid _ _ _ _ C)) as (I1 & _). exact I1.
      * destruct Hi as [Hc _]. eapply lq_step_inv; eauto.
  - split; [apply Inv_init|]. intros t [].
Qed.

(* --- fixed window: the deque holds the last `window` calls that had detections --- *)

Definition has_dets (x : state * owners * frame * outcome) : bool :=
  match f_dets (s_frame x) with [] => false | _ :: _ => true end.
Definition pushed_of (x : state * owners * frame * outcome) : list (nat * option nat) :=
  match s_out x with Ok out => out | Raise _ => [] end.
Definition log10 (tr : list (state * owners * frame * outcome)) : list (list (nat * option nat)) :=
  map pushed_of (filter has_dets tr).

Lemma skipn_1_skipn : forall A k (l : list A), skipn 1 (skipn k l) = skipn (S k) l.
Proof.
  induction k as [|k IH]; intros l; [reflexivity|].
  destruct l as [|a l]; [reflexivity|]. simpl skipn at 2. rewrite IH. reflexivity.
Qed.

Lemma lastn_push : forall A w (L : list A) x, 1 <= w ->
  lastn w (lastn w L ++ [x]) = lastn w (L ++ [x]).
Proof.
  intros A w L x Hw. unfold lastn.
  destruct (Nat.le_gt_cases (length L) w) as [Le|Gt].
  - replace (length L - w) with 0 by lia. rewrite skipn_O. reflexivity.
  - rewrite !app_length, skipn_length. simpl length.
    replace (length L - (length L - w) + 1 - w) with 1 by lia.
    replace (length L + 1 - w) with (S (length L - w)) by lia.
    rewrite !skipn_app, skipn_length.
    replace (1 - (length L - (length L - w))) with 0 by lia.
    replace (S (length L - w) - length L) with 0 by lia.
    rewrite skipn_1_skipn. reflexivity.
Qed.

Lemma lastn_map : forall A B (g : A -> B) w l, lastn w (map g l) = map g (lastn w l).
Proof. intros. unfold lastn. rewrite map_length, skipn_map. reflexivity. Qed.

Lemma in_skipn : forall A n (l : list A) x, In x (skipn n l) -> In x l.
Proof.
  intros A n l x H. rewrite <- (firstn_skipn n l). apply in_or_app. right. exact H.
Qed.

Lemma in_lastn : forall A w (l : list A) x, In x (lastn w l) -> In x l.
Proof. intros A w l x H. eapply in_skipn; eauto. Qed.

Lemma filter_length_id : forall A (f : A -> bool) l, length (filter f l) = length l -> filter f l = l.
Proof.
  intros A f.
  assert (Le : forall l, length (filter f l) <= length l).
  { induction l as [|a l IH]; simpl; auto. destruct (f a); simpl; lia. }
  induction l as [|a l IH]; simpl; auto. intros H. destruct (f a); simpl in *.
  - f_equal. apply IH. lia.
  - exfalso. specialize (Le l). lia.
Qed.

Lemma fw_step_fwq : forall cfg st own f,
  lq cfg = false -> fix_i cfg = true -> fix_ii cfg = true -> 1 <= window cfg ->
  Inv10 cfg st own -> scene_hyp_repaired cfg (st, own, f, snd (step cfg st f)) ->
  exists out, snd (step cfg st f) = Ok out /\ map fst out = uids (f_dets f) /\
    fwq (fst (step cfg st f)) =
      match f_dets f with [] => fwq st | _ :: _ => push (window cfg) (fwq st) out end.
Proof.
  intros cfg st own f El F1 F2 Hw I H.
  assert (S1 : scene_hyp cfg (st, own, f, snd (step cfg st f))).
  { destruct H as (A & B & C). split; auto. split; auto.
    intros Ei. split; auto. apply no_quirk_repaired; auto. }
  destruct (step10 cfg st own f Hw I S1) as (Id & _ & _). cbv zeta in Id.
  destruct Id as (out & Eo & Fo & _). unfold s_out, s_frame in Eo, Fo. simpl in Eo, Fo.
  exists out. split; [exact Eo|]. split; [exact Fo|].
  assert (Shape :
    (f_dets f = [] /\ fwq (fst (step cfg st f)) = fwq st) \/
    (f_dets f <> [] /\ exists tids, length tids = length (f_dets f) /\
       snd (step cfg st f) = Ok (output cfg (f_dets f) tids) /\
       fwq (fst (step cfg st f)) = push (window cfg) (fwq st) (combine (uids (f_dets f)) tids))).
  { clear S1 out Eo Fo.
    pose proof (scene_hyp_out_irrelevant _ _ _ _ _ (Raise ValueErr) H) as H'. clear H. rename H' into H.
    pose proof I as ((Hc & Hi) & OI & H0).
    pose proof H as (SOK & CS & NR).
    destruct f as [[ds M] ans].
    change (f_dets (ds, M, ans)) with ds.
    unfold s_state, s_own, s_frame, f_dets in NR. simpl fst in NR. simpl snd in NR.
    unfold scene_step_ok, s_state, s_own, s_frame, f_dets, f_matrix in SOK.
    simpl fst in SOK. simpl snd in SOK.
    repeat rewrite andb_true_iff in SOK. destruct SOK as [[_ Ab] _].
    destruct (is_init cfg st) eqn:Ei.
    - (* first frame *)
      assert (Hm0 : cur st = []) by (apply H0; reflexivity).
      unfold step. cbv beta iota zeta. rewrite El, Ei.
      rewrite Hm0. change (@nil nat) with (seq 0 0). rewrite add_new_fill. cbv beta iota.
      simpl fst. simpl snd. simpl fwq. rewrite !seq_length.
      destruct ds as [|[u a] ds'].
      + left. split; reflexivity.
      + right. split; [discriminate|].
        simpl in Ab. apply andb_true_iff in Ab. destruct Ab as [Ea _]. subst a.
        eexists. split; [|split; [reflexivity|]].
        * rewrite fill_length. apply repeat_length.
        * simpl. reflexivity.
    - destruct (scene_answer cfg st own (ds, M, ans) _ I H Ei) as (p & Ea & Mp & _ & Ne).
      unfold f_answer, f_dets in Ea, Mp, Ne. simpl in Ea, Mp, Ne. subst ans.
      unfold step. cbv beta iota zeta. rewrite El, Ei.
      rewrite (NR eq_refl).
      rewrite (guard_fix_i _ _ F1).
      destruct p as [|rc p'].
      + assert (N0 : length ds = 0).
        { destruct (length ds) eqn:E; auto. exfalso. apply Ne; [lia | reflexivity]. }
        destruct ds; [|discriminate]. left. split; reflexivity.
      + assert (Nn : ds <> []).
        { destruct Mp as (_ & _ & Rr & _). intros E. subst ds.
          specialize (Rr (fst rc) (or_introl eq_refl)). simpl in Rr. lia. }
        right. split; [exact Nn|].
        cbn [length Nat.ltb Nat.leb].
        destruct (unmatched (length ds) (rc :: p')) eqn:Eu.
        * cbn [fst snd fwq]. eexists. split; [|split; reflexivity].
          rewrite assign_length. apply repeat_length.
        * rewrite Hc, add_new_fill. cbv beta iota. cbn [fst snd fwq].
          eexists. split; [|split; reflexivity].
          rewrite fill_length, assign_length. apply repeat_length. }
  destruct Shape as [[E1 E2]|(Ne & tids & Lt & Eo2 & Eq)].
  - rewrite E1. exact E2.
  - destruct (f_dets f) as [|d ds'] eqn:Ed; [congruence|]. rewrite Eq. f_equal.
    rewrite Eo in Eo2. inversion Eo2 as [Eout]. unfold output. rewrite El.
    symmetry. apply filter_length_id.
    unfold output in Eout. rewrite El in Eout. rewrite <- Eout.
    rewrite <- (map_length fst out), Fo, combine_length, Lt, uids_length. simpl. lia.
Qed.

Lemma fw_has_in : forall q fr u t, In fr q -> In (u, Some t) fr -> fw_has q t = true.
Proof.
  intros q fr u t Hq Hf. unfold fw_has. apply existsb_exists. exists fr. split; auto.
  apply memb_In. apply in_somes. apply (in_map snd) in Hf. exact Hf.
Qed.

Lemma scene_hyp_of_repaired : forall cfg x, fix_i cfg = true -> fix_ii cfg = true ->
  scene_hyp_repaired cfg x -> scene_hyp cfg x.
Proof.
  intros cfg x F1 F2 (A & B & C). split; auto. split; auto.
  intros Ei. split; auto. apply no_quirk_repaired; auto.
Qed.

(* generalised over the start state: L = the frames pushed so far (ghost log) *)
Lemma fw_window_gen : forall cfg,
  lq cfg = false -> fix_i cfg = true -> fix_ii cfg = true -> 1 <= window cfg ->
  forall h st own L, Inv10 cfg st own ->
  fwq st = lastn (window cfg) L ->
  (forall fr u o, In fr L -> In (u, o) fr -> exists t, o = Some t /\ In (u, t) own) ->
  Forall (scene_hyp_repaired cfg) (trace10 cfg st own h) ->
  forall pre x post, trace10 cfg st own h = pre ++ x :: post ->
  forall fr a t, In fr (lastn (window cfg) (L ++ log10 pre)) -> In a (map fst fr) ->
    own_of (s_own x) a = Some t -> has_cand cfg (s_state x) t = true.
Proof.
  intros cfg El F1 F2 Hw. induction h as [|f r IH]; intros st own L I HQ HL HS pre x post E fr a t Hfr Ha Ho.
  - destruct pre; discriminate E.
  - cbn [trace10] in E, HS.
    inversion HS as [|? ? S0 SR]; subst.
    destruct pre as [|x0 pre'].
    + (* x is this call *)
      simpl in E. inversion E as [[Ex Epost]]. clear E. subst x.
      unfold s_own, s_state in *. simpl fst in *. simpl snd in *.
      unfold log10 in Hfr. simpl in Hfr. rewrite app_nil_r, <- HQ in Hfr.
      apply in_map_iff in Ha. destruct Ha as [[u o] [Eu Hin]]. simpl in Eu. subst u.
      destruct (HL fr a o (in_lastn _ _ _ _ (eq_ind _ (fun q => In fr q) Hfr _ HQ)) Hin) as (t' & -> & Hown).
      destruct I as (_ & OI & _).
      apply (own_of_In own a t' (oi_fst _ _ OI)) in Hown. rewrite Hown in Ho. inversion Ho; subst t'.
      unfold has_cand. rewrite El. eapply fw_has_in; eauto.
    + simpl in E. inversion E as [[Ex0 Erest]]. clear E.
      destruct (fw_step_fwq cfg st own f El F1 F2 Hw I S0) as (out & Eo & Fo & Eq).
      pose proof (scene_hyp_of_repaired cfg _ F1 F2 S0) as S1.
      destruct (step10 cfg st own f Hw I S1) as (Id & I' & Inc). cbv zeta in Id, I', Inc.
      rewrite Eo in *.
      destruct Id as (out' & Eo' & _ & Io). unfold s_out in Eo'. simpl in Eo'. inversion Eo'; subst out'.
      set (own' := owners_after own (length (cur st)) (Ok out)) in *.
      set (L' := match f_dets f with [] => L | _ :: _ => L ++ [out] end).
      apply (IH (fst (step cfg st f)) own' L' I') with (pre := pre') (x := x) (post := post) (fr := fr) (a := a); auto.
      * rewrite Eq. subst L'. destruct (f_dets f); [exact HQ|].
        rewrite HQ. unfold push. apply lastn_push; auto.
      * intros fr0 u o Hin0 Hin1. subst L'.
        assert (Old : In fr0 L -> exists t0, o = Some t0 /\ In (u, t0) own').
        { intros K. destruct (HL fr0 u o K Hin1) as (t0 & Et & Hown). exists t0. split; auto. }
        destruct (f_dets f); [auto|].
        apply in_app_or in Hin0. destruct Hin0 as [K|[K|[]]]; [auto|]. subst fr0.
        apply Io; auto.
      * replace (L' ++ log10 pre') with (L ++ log10 (x0 :: pre')); [exact Hfr|].
        subst L' x0. unfold log10. simpl filter. unfold has_dets at 1, s_frame at 1. simpl fst. simpl snd.
        destruct (f_dets f); [reflexivity|].
        simpl map. unfold pushed_of at 1, s_out at 1. simpl snd. rewrite <- app_assoc. reflexivity.
Qed.

(* facts at every executed call of an in-class history *)
Lemma trace10_at : forall cfg, fix_i cfg = true -> fix_ii cfg = true -> 1 <= window cfg ->
  forall h st own, Inv10 cfg st own ->
  Forall (scene_hyp_repaired cfg) (trace10 cfg st own h) ->
  forall x, In x (trace10 cfg st own h) ->
  Inv10 cfg (s_state x) (s_own x) /\
  exists out, s_out x = Ok out /\ map fst out = uids (f_dets (s_frame x)).
Proof.
  intros cfg F1 F2 Hw. induction h as [|f r IH]; intros st own I HS x Hx; [destruct Hx|].
  cbn [trace10] in HS, Hx. inversion HS as [|? ? S0 SR]; subst.
  pose proof (scene_hyp_of_repaired cfg _ F1 F2 S0) as S1.
  destruct (step10 cfg st own f Hw I S1) as (Id & I' & _). cbv zeta in Id, I'.
  destruct Id as (out & Eo & Fo & _). unfold s_out, s_frame in Eo, Fo. simpl in Eo, Fo.
  destruct Hx as [<-|Hx].
  - split; [exact I|]. exists out. split; [exact Eo | exact Fo].
  - rewrite Eo in *. eapply IH; eauto.
Qed.

(* THE WINDOW CLAUSE.  On an in-class history: when a call is made, the track owned
   by an animal still has a candidate if (fixed window) the animal was detected in
   one of the last `window` earlier calls that had detections — i.e. its absence is
   shorter than the window, empty frames not counted —, or (local queues) always. *)
Theorem recent_animal_has_candidate : forall cfg h,
  fix_i cfg = true -> fix_ii cfg = true -> 1 <= window cfg ->
  Forall (scene_hyp_repaired cfg) (trace10 cfg init [] h) ->
  forall pre x post, trace10 cfg init [] h = pre ++ x :: post ->
  forall a t, own_of (s_own x) a = Some t ->
  lq cfg = true \/
  (exists y, In y (lastn (window cfg) (filter has_dets pre)) /\ In a (uids (f_dets (s_frame y)))) ->
  has_cand cfg (s_state x) t = true.
Proof.
  intros cfg h F1 F2 Hw HS pre x post E a t Ho Side.
  assert (Hx : In x (trace10 cfg init [] h)) by (rewrite E; apply in_or_app; right; left; reflexivity).
  destruct (trace10_at cfg F1 F2 Hw h init [] (Inv10_init cfg) HS x Hx) as (((Hc & _) & OI & _) & _).
  destruct (lq cfg) eqn:El.
  - (* local queues: never loses a candidate *)
    assert (HC : Forall (contract_step cfg) (trace cfg init h)).
    { rewrite <- (trace10_trace cfg h init []). apply Forall_map.
      eapply Forall_impl; [|exact HS]. intros y (_ & C & _). exact C. }
    pose proof (lq_tracks_keep_candidates cfg h El Hw HC) as K. rewrite Forall_forall in K.
    assert (Hx' : In (s_state x, s_frame x, s_out x) (trace cfg init h)).
    { rewrite <- (trace10_trace cfg h init []).
      apply (in_map (fun x => (s_state x, s_frame x, s_out x))). exact Hx. }
    apply (K _ Hx'). unfold t_state. simpl fst.
    apply (own_of_In _ a t (oi_fst _ _ OI)) in Ho. pose proof (oi_lt _ _ OI a t Ho) as Lt.
    rewrite Hc. apply in_seq. lia.
  - destruct Side as [K|(y & Hy & Hay)]; [discriminate|].
    assert (Hy' : In y (trace10 cfg init [] h)).
    { apply in_lastn in Hy. apply filter_In in Hy. destruct Hy as [Hy _].
      rewrite E. apply in_or_app. left. exact Hy. }
    destruct (trace10_at cfg F1 F2 Hw h init [] (Inv10_init cfg) HS y Hy') as (_ & out & Eo & Fo).
    apply (fw_window_gen cfg El F1 F2 Hw h init [] [] (Inv10_init cfg)) with
      (pre := pre) (post := post) (fr := pushed_of y) (a := a); auto.
    + intros fr u o [].
    + simpl app. unfold log10. rewrite lastn_map. apply in_map. exact Hy.
    + unfold pushed_of. rewrite Eo, Fo. exact Hay.
Qed.

(* with a NaN pattern that follows the queues (`nan_consistent`: checked by the harness on every
   recorded matrix without optical flow / missing keypoints) a candidate means a number: clause
   D1 of the dominance premise *)
Lemma nan_consistent_has_cand : forall cfg st n M r t,
  nan_consistent cfg st n M = true -> r < n -> In t (cur st) ->
  has_cand cfg st t = true -> is_some (cell M r t) = true.
Proof.
  intros cfg st n M r t H Hr Ht Hc. unfold nan_consistent in H.
  rewrite forallb_forall in H. specialize (H r (proj2 (in_seq _ _ _) (conj (Nat.le_0_l r) Hr))).
  rewrite forallb_forall in H. specialize (H t Ht). rewrite Hc in H.
  unfold is_some. destruct (is_none (cell M r t)); [discriminate H | reflexivity].
Qed.

(* the clause is sharp: fixed window 1, animal 1 absent for ONE frame (= the window): its track
   has no candidate any more when it comes back *)
Example ex_window_exceeded :
  let cfg := mkConfig false true 1 false true true true in
  let h : list frame :=
    [ ([(1,true);(2,true)], [], AFail);
      ([(2,true)], [[Some 0%Q; Some 1%Q]], APairs [(0,1)]) ] in
  has_cand cfg (final_state cfg init h) 0 = false /\ has_cand cfg (final_state cfg init h) 1 = true.
Proof. vm_compute. auto. Qed.
