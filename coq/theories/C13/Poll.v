(* Poll.v — C13: the stream model of C13/Stream.v widened by a *timed get*
   (definitions only; proofs are in C13/PollLemmas.v).

   Stream.v models `frame_buffer.get()` as a blocking operation (enabled iff the
   queue is not empty).  A consumer may instead poll:

       frame = None
       while frame is None:
           try:
               frame = frame_buffer.get(timeout=T)      -- (1) succeeds iff the queue is not empty
           except Empty:                                 -- (2) times out when the queue is empty
               <what the consumer does after a time-out>

   Rule pair: (1) is Stream.l_get_frame / l_get_sentinel unchanged; (2) is new and
   is enabled exactly when (1) is not.  Three consumers (`cmode`):

     Blocking   no time-out rule at all: Stream.lstep.  This is the ONLY consumer /repo has
                (predictors.py: `self.pipeline.frame_buffer.get()`, no timed get, no is_alive):
                everything said about Polling / GiveUp below is about harness-side wrappers of
                get() and keeps the checker able to judge seeded variants of the consumer.
     Polling    `except Empty: continue` — retry until something (finally the marker)
                arrives.  The time-out is a stutter step (the state does not change).
     GiveUp     `except Empty: if not reader.is_alive(): frame = {"image": None}` —
                the consumer looks at the reader thread and fabricates the marker when
                the thread is dead.  The time-out and the `is_alive()` call are two
                steps (the flag `chk` says the consumer is between them): a
                check-then-act race (seeded change C13_m4).

   Fairness.  With a time-out rule a schedule can starve the reader for ever
   (time-out, time-out, ...).  Such a run is not weakly fair: PollLemmas shows that in
   every reachable non-final state a step other than a time-out is enabled, that a
   time-out changes nothing, and that steps other than time-outs strictly decrease
   Stream.measure.  So "every fair run ends, and ends right" is stated (a) as AF over
   the non-time-out steps (`inev_p`), (b) for infinite runs: no run makes progress
   infinitely often, (c) for the rule used by the harness's scheduler (a failed
   timed get is not scheduled again until the shared state has changed = no two
   consecutive time-outs): an explicit bound on the run length. *)
From Coq Require Import List Arith Bool.
Import ListNotations.
From SV Require Import Base.Render C13.Stream.
Close Scope string_scope.
Open Scope nat_scope.

Inductive cmode := Blocking | Polling | GiveUp.

Definition waits_for_marker (m : cmode) : bool :=
  match m with GiveUp => false | _ => true end.

(* observable events of the widened system *)
Inductive xevent :=
| XEv (e : event)        (* an event of Stream.v *)
| XTimeout               (* get(timeout=T) raised Empty *)
| XAlive (b : bool).     (* reader.is_alive() returned b (GiveUp only) *)

(* state: the Stream.v state + whether the consumer is between `except Empty` and `is_alive()` *)
Record xst := mkX { base : st; chk : bool }.

Definition xinit (c : cfg) : xst := mkX (init c) false.

(* `frame = {"image": None}` then `if frame["image"] is None: done = True; break`:
   the consumer behaves as if it had taken the marker, but takes nothing *)
Definition fabricate (s : st) (acc : list nat) : st :=
  mkSt (pp s) (q s) (CProcess acc) true (yielded s) (taken s).

Definition xlabel (l : option event) : option xevent :=
  match l with Some e => Some (XEv e) | None => None end.

Inductive xstep (c : cfg) (m : cmode) : option xevent -> xst -> xst -> Prop :=
| x_base : forall l s s' b,
    (* a step of Stream.v; while the consumer is at the is_alive() call it takes nothing
       from the queue (so only the reader moves) *)
    lstep c l s s' -> (b = true -> taken s' = taken s) ->
    xstep c m (xlabel l) (mkX s b) (mkX s' b)
| x_timeout_retry : forall s k acc,       (* Polling: except Empty: continue *)
    m = Polling -> cc s = CCollect (S k) acc -> q s = [] ->
    xstep c m (Some XTimeout) (mkX s false) (mkX s false)
| x_timeout_check : forall s k acc,       (* GiveUp: except Empty: next is the is_alive() call *)
    m = GiveUp -> cc s = CCollect (S k) acc -> q s = [] ->
    xstep c m (Some XTimeout) (mkX s false) (mkX s true)
| x_alive : forall s,                     (* is_alive() is True: back to the timed get *)
    m = GiveUp -> pp s <> PDone ->
    xstep c m (Some (XAlive true)) (mkX s true) (mkX s false)
| x_dead : forall s k acc,                (* is_alive() is False: the marker is fabricated *)
    m = GiveUp -> pp s = PDone -> cc s = CCollect (S k) acc ->
    xstep c m (Some (XAlive false)) (mkX s true) (mkX (fabricate s acc) false).

Definition xstep1 (c : cfg) (m : cmode) (x x' : xst) : Prop := exists l, xstep c m l x x'.

Inductive xreach (c : cfg) (m : cmode) : xst -> Prop :=
| xreach_init : xreach c m (xinit c)
| xreach_step : forall x x', xreach c m x -> xstep1 c m x x' -> xreach c m x'.

Definition xfinal (x : xst) : Prop := final (base x) /\ chk x = false.

Definition is_timeout (l : option xevent) : bool :=
  match l with Some XTimeout => true | _ => false end.

(* a step that is not a time-out *)
Definition pstep (c : cfg) (m : cmode) (x x' : xst) : Prop :=
  exists l, xstep c m l x x' /\ is_timeout l = false.

(* finite paths with their labels *)
Inductive xpath (c : cfg) (m : cmode) : xst -> list (option xevent) -> xst -> Prop :=
| xp_nil : forall x, xpath c m x [] x
| xp_cons : forall x l x1 ls x2, xstep c m l x x1 -> xpath c m x1 ls x2 -> xpath c m x (l :: ls) x2.

Definition progress_count (ls : list (option xevent)) : nat :=
  length (filter (fun l => negb (is_timeout l)) ls).

(* the scheduler's fairness rule: a timed get that failed is not scheduled again until the
   shared state has changed, i.e. a path never holds two time-outs in a row *)
Fixpoint no_two_timeouts (ls : list (option xevent)) : bool :=
  match ls with
  | a :: ((b :: _) as t) => negb (is_timeout a && is_timeout b) && no_two_timeouts t
  | _ => true
  end.

Definition obs_of (ls : list (option xevent)) : list xevent :=
  flat_map (fun l => match l with Some e => [e] | None => [] end) ls.

Definition base_events (tr : list xevent) : list event :=
  flat_map (fun e => match e with XEv e => [e] | _ => [] end) tr.

(* on every path of non-time-out steps, eventually P (CTL AF over the fair runs: time-outs are
   stutter steps, so a weakly fair run is a path of pstep with finitely many stutters inserted) *)
Inductive inev_p (c : cfg) (m : cmode) (P : xst -> Prop) : xst -> Prop :=
| inev_p_now : forall x, P x -> inev_p c m P x
| inev_p_later : forall x, (exists x', pstep c m x x') ->
                           (forall x', pstep c m x x' -> inev_p c m P x') -> inev_p c m P x.

(* ------------------------------------------------------------------------ *)
(* executable trace checker for the widened system                            *)

Definition is_producer_event (e : event) : bool :=
  match e with EvReadOk _ | EvReadFail _ | EvPut _ _ | EvPutSent => true | _ => false end.

Definition at_empty_get (s : st) : bool :=
  match cc s, q s with CCollect (S _) _, [] => true | _, _ => false end.

Definition xexec1 (c : cfg) (m : cmode) (x : xst) (e : xevent) : option xst :=
  match e with
  | XEv e =>
      if chk x && negb (is_producer_event e) then None
      else match exec1 c (base x) e with Some s' => Some (mkX s' (chk x)) | None => None end
  | XTimeout =>
      if chk x then None else
      let s := tau_c c (base x) in
      if at_empty_get s then
        match m with
        | Blocking => None
        | Polling => Some (mkX s false)
        | GiveUp => Some (mkX s true)
        end
      else None
  | XAlive b =>
      match m, chk x with
      | GiveUp, true =>
          let s := base x in
          match pp s, b with
          | PDone, false =>
              match cc s with
              | CCollect (S k) acc => Some (mkX (fabricate s acc) false)
              | _ => None
              end
          | PDone, true => None
          | _, true => Some (mkX s false)
          | _, false => None
          end
      | _, _ => None
      end
  end.

Fixpoint xrun_trace (c : cfg) (m : cmode) (x : xst) (tr : list xevent) : option xst :=
  match tr with
  | [] => Some x
  | e :: t => match xexec1 c m x e with Some x' => xrun_trace c m x' t | None => None end
  end.

Definition xaccepts (c : cfg) (m : cmode) (tr : list xevent) : bool :=
  match xrun_trace c m (xinit c) tr with
  | Some x => is_final (base x) && negb (chk x)
  | None => false
  end.

(* ------------------------------------------------------------------------ *)
(* how the readers are constructed (argument defaulting)                      *)

(* VideoReader.__init__(video, frame_buffer, start_idx=None, end_idx=None) and
   VideoReader.from_filename(filename, queue_maxsize, start_idx=None, end_idx=None):
       if start_idx is None: start_idx = 0
       if end_idx is None:   end_idx = video.shape[0]
   (None and 0 are different requests: end_idx = 0 is the empty range).

   The length of the video matters also when end_idx is given: `run()` iterates over
   range(start_idx, end_idx) whatever the length, and `video[idx]` with idx >= video.shape[0]
   raises IndexError ("Frame index N out of range", sleap-io; replayed on a real sio.Video by the
   harness every run).  That exception is a read failure like any other: it is caught by
   `except Exception`, the frames before it have been delivered, the marker is put.  So a request
   whose end exceeds the video has a DERIVED fault at the first index of the range that does not
   exist, max start (vr_frames r) (review round 4, finding 1; before, the model ignored the length
   once end_idx was given).  `vr_fault` is a read failure injected by the harness (a frame that
   exists but cannot be decoded); one before the start of the range is never met.
   Arguments are natural numbers: negative start_idx / end_idx (Python indexing from the end,
   backend dependent in sleap-io) are outside the model and outside the generators. *)
Record vrequest := mkVReqS {
  vr_frames : nat;            (* video.shape[0] *)
  vr_start : option nat;
  vr_end : option nat;
  vr_cap : nat;               (* queue_maxsize *)
  vr_batch : nat;
  vr_fault : option nat;
  vr_src : nat -> payload     (* size of frame i (a VideoReader always reports video_idx 0) *)
}.
Notation mkVReq a b c d e f := (mkVReqS a b c d e f (fun _ => pl0)).

Definition opt_min (a b : option nat) : option nat :=
  match a, b with
  | Some x, Some y => Some (Nat.min x y)
  | Some x, None => Some x
  | None, y => y
  end.

Definition vr_start_ (r : vrequest) : nat := match vr_start r with Some s => s | None => 0 end.
Definition vr_end_ (r : vrequest) : nat := match vr_end r with Some e => e | None => vr_frames r end.

(* an injected failure counts only from the start of the range on *)
Definition in_range_fault (s : nat) (f : option nat) : option nat :=
  match f with Some x => if s <=? x then Some x else None | None => None end.

(* the range runs past the end of the video: the first index of the range that does not exist *)
Definition overrun_fault (r : vrequest) : option nat :=
  if vr_frames r <? vr_end_ r then Some (Nat.max (vr_start_ r) (vr_frames r)) else None.

(* the first index at which video[idx] raises *)
Definition video_fault (r : vrequest) : option nat :=
  opt_min (in_range_fault (vr_start_ r) (vr_fault r)) (overrun_fault r).

Definition video_cfg (r : vrequest) : cfg :=
  mkCfgS (vr_start_ r) (vr_end_ r) (vr_cap r) (vr_batch r) (video_fault r) (vr_src r).

(* total_len() = end_idx - start_idx, a Python int: negative for an inverted range.  It does not look
   at the video either: for a range that runs past the end it OVER-reports (c13_video_total_len_overrun) *)
Definition video_total_len (r : vrequest) : nat * nat :=     (* (positive part, negative part) *)
  let c := video_cfg r in (end_ c - start_ c, start_ c - end_ c).

(* LabelsReader(labels, frame_buffer, instances_key) / from_filename: range(len(labels)).
   With instances_key the reader also stacks the non-empty instances of the frame:
   in the PINNED tree (before fix 061a599) `np.stack([])` raises for a labelled frame that has no
   (non-empty) instance, and the exception is handled like a read failure (finding F130, now
   `fixed:` in known_findings.txt).  The CURRENT tree has the repaired reader, which pads such a
   frame with NaN rows: `lr_fixed = true` (the harness finds out which one it runs against by
   replaying the witness; `lr_fixed = false` documents the historic defect and lets the check
   report a regression). *)
Record lrequest := mkLReqS {
  lr_frames : nat;                 (* len(labels) *)
  lr_cap : nat;
  lr_batch : nat;
  lr_fault : option nat;           (* position whose labels[idx] / lf.image raises *)
  lr_instances_key : bool;
  lr_first_bare : option nat;      (* first position whose frame has no non-empty instance *)
  lr_fixed : bool;
  lr_src : nat -> payload          (* size of the image of the labelled frame at position i, index of its video *)
}.
Notation mkLReq a b c d e f g := (mkLReqS a b c d e f g (fun _ => pl0)).

(* what the code does: in the pinned tree (lr_fixed = false) a bare frame acts as a fault when instances
   are requested; in the current tree (lr_fixed = true) it does not *)
Definition labels_cfg (r : lrequest) : cfg :=
  mkCfgS 0 (lr_frames r) (lr_cap r) (lr_batch r)
         (if lr_instances_key r && negb (lr_fixed r)
          then opt_min (lr_fault r) (lr_first_bare r) else lr_fault r) (lr_src r).

(* what the property asks: only read failures end the stream early *)
Definition labels_spec_cfg (r : lrequest) : cfg :=
  mkCfgS 0 (lr_frames r) (lr_cap r) (lr_batch r) (lr_fault r) (lr_src r).

(* the selector of finding F130: instances requested, and a bare frame inside the range
   strictly before the first read failure *)
Definition bare_frame_selector (r : lrequest) : bool :=
  lr_instances_key r &&
  match lr_first_bare r with
  | Some b => b <? stop (labels_spec_cfg r)
  | None => false
  end.

(* ------------------------------------------------------------------------ *)
(* harness interface                                                          *)

Record xverdict := mkXVerdict {
  xv_accepts : bool;
  xv_consumed : nat;
  xv_yielded : list (list nat);
  xv_queue_left : nat
}.

Fixpoint xrun_diag (c : cfg) (m : cmode) (x : xst) (tr : list xevent) (n : nat) : nat * xst :=
  match tr with
  | [] => (n, x)
  | e :: t => match xexec1 c m x e with Some x' => xrun_diag c m x' t (S n) | None => (n, x) end
  end.

Record xgroup_verdict := mkXGroup {
  xg_spec : list (list nat);
  xg_verdicts : list xverdict
}.

Definition check_xgroup (k : cmode * cfg * list (list xevent)) : xgroup_verdict :=
  let '(m, c, trs) := k in
  mkXGroup (chunks (batch c) (delivered c))
           (map (fun tr => let '(n, x) := xrun_diag c m (xinit c) tr 0 in
                           mkXVerdict (xaccepts c m tr) n (yielded (base x)) (length (q (base x)))) trs).

(* requests -> what must be delivered (frame positions) and total_len *)
Record req_verdict := mkReqV {
  rq_delivered : list nat;       (* what the code delivers according to the model *)
  rq_spec : list nat;            (* what the property asks *)
  rq_total_len : nat * nat;
  rq_selected : bool             (* falls under the selector of F130 *)
}.

(* a source given as a table (the harness lists what its fake video / labels hold) *)
Definition tbl (l : list payload) : nat -> payload := fun i => nth i l pl0.

Inductive request := ReqVideo (r : vrequest) | ReqLabels (r : lrequest).

Definition check_request (r : request) : req_verdict :=
  match r with
  | ReqVideo v => mkReqV (delivered (video_cfg v)) (delivered (video_cfg v)) (video_total_len v) false
  | ReqLabels l => mkReqV (delivered (labels_cfg l)) (delivered (labels_spec_cfg l))
                          (lr_frames l, 0) (bare_frame_selector l)
  end.

From Coq Require String. Import String.StringSyntax.
Open Scope string_scope.
Definition rxverdict (v : xverdict) : rdr := fun k =>
  rstr "[" (rbool (xv_accepts v) (rstr "," (rnat (xv_consumed v) (rstr ","
       (rlist (rlist rnat) (xv_yielded v) (rstr "," (rnat (xv_queue_left v) (rstr "]" k)))))))).
Definition rxgroup (g : xgroup_verdict) : rdr := fun k =>
  rstr "{""spec"":" (rlist (rlist rnat) (xg_spec g)
  (rstr ",""verdicts"":" (rlist rxverdict (xg_verdicts g) (rstr "}" k)))).
Definition rreq (v : req_verdict) : rdr := fun k =>
  rstr "{""delivered"":" (rlist rnat (rq_delivered v)
  (rstr ",""spec"":" (rlist rnat (rq_spec v)
  (rstr ",""total_len"":[" (rnat (fst (rq_total_len v))
  (rstr "," (rnat (snd (rq_total_len v))
  (rstr "],""selected"":" (rbool (rq_selected v)
  (rstr "}" k)))))))))).
Close Scope string_scope.
