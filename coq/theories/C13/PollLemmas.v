(* PollLemmas.v (C13) — proofs about the widened stream system of C13/Poll.v
   (timed get; Blocking / Polling / GiveUp consumers; reader construction).
   Nothing is bounded: all configurations, all reachable states, all schedules. *)
From Coq Require Import List Arith Bool Lia ZifyBool Wf_nat.
Import ListNotations.
From SV Require Import C13.Stream C13.Lemmas C13.Poll.

(* ------------------------------------------------------------------------ *)
(* consumers that wait for the marker (Blocking, Polling): the widened system
   is Stream.lstep plus stutter steps                                          *)

Lemma xstep_waits : forall c m l x x',
  waits_for_marker m = true -> chk x = false -> xstep c m l x x' ->
  chk x' = false /\
  ((exists l0, l = xlabel l0 /\ lstep c l0 (base x) (base x')) \/ (is_timeout l = true /\ x' = x)).
Proof.
  intros c m l x x' Hm Hc H. inversion H; subst; simpl in *; try discriminate.
  - split; auto. left. eexists; eauto.
  - split; auto.
Qed.

Lemma xreach_waits : forall c m x, waits_for_marker m = true -> xreach c m x ->
  chk x = false /\ reach c (base x).
Proof.
  intros c m x Hm H. induction H as [|x x' _ [Hc Hr] [l Hs]].
  - split; [reflexivity | apply reach_init].
  - destruct (xstep_waits c m l x x' Hm Hc Hs) as [Hc' [(l0 & _ & Hl) | [_ E]]].
    + split; auto. eapply reach_step; eauto. eexists; eauto.
    + subst. auto.
Qed.

Lemma is_timeout_xlabel : forall l, is_timeout (xlabel l) = false.
Proof. destruct l; reflexivity. Qed.

(* the invariant of Stream.v holds in every state reachable with a polling consumer *)
Lemma poll_invariant : forall c m x, waits_for_marker m = true -> xreach c m x ->
  chk x = false /\
  concat (yielded (base x)) ++ collecting (base x) ++ frames (q (base x))
    ++ in_flight (base x) ++ unread c (base x) = delivered c
  /\ sentinel_count (base x) <= 1
  /\ (sentinel_count (base x) = 1 <-> pp (base x) = PDone).
Proof.
  intros c m x Hm H. destruct (xreach_waits c m x Hm H) as [Hc Hr].
  split; auto. apply invariant_reach; auto.
Qed.

(* the two get rules exclude each other: the time-out is enabled exactly when the consumer is
   at a get and the queue is empty, i.e. exactly when no get rule is *)
Lemma timeout_enabled_iff : forall c x,
  (exists x', xstep c Polling (Some XTimeout) x x') <->
  (chk x = false /\ (exists k acc, cc (base x) = CCollect (S k) acc) /\ q (base x) = []).
Proof.
  intros c x. split.
  - intros [x' H]. inversion H; subst; simpl; try discriminate.
    + destruct l; discriminate.
    + repeat split; eauto.
  - intros (Hc & (k & acc & E) & Hq). destruct x as [s b]. simpl in *. subst b.
    exists (mkX s false). eapply x_timeout_retry; eauto.
Qed.

Lemma timeout_excludes_get : forall c m x x' s' l,
  xstep c m (Some XTimeout) x x' -> lstep c l (base x) s' -> taken s' = taken (base x).
Proof.
  intros c m x x' s' l H Hl.
  assert (Hq : q (base x) = [] /\ exists k acc, cc (base x) = CCollect (S k) acc).
  { inversion H; subst; simpl; try discriminate; eauto. destruct l0; discriminate. }
  destruct Hq as [Hq (k & acc & Hc)].
  inversion Hl; subst; simpl; try reflexivity; congruence.
Qed.

(* deadlock freedom, strong form: in every reachable state other than the final one a step
   that is NOT a time-out is enabled *)
Lemma poll_progress_enabled : forall c m x, waits_for_marker m = true -> xreach c m x ->
  ~ xfinal x -> exists x', pstep c m x x'.
Proof.
  intros c m x Hm H Hnf. destruct (xreach_waits c m x Hm H) as [Hc Hr].
  assert (Hnf' : ~ final (base x)) by (intros F; apply Hnf; split; auto).
  destruct (deadlock_free c (base x) Hr Hnf') as [s' [l Hl]].
  destruct x as [s b]. simpl in *. subst b.
  exists (mkX s' false), (xlabel l). split; [|apply is_timeout_xlabel].
  apply x_base; auto. discriminate.
Qed.

(* a time-out changes nothing; every other step strictly decreases the measure *)
Lemma poll_step_measure : forall c m l x x',
  waits_for_marker m = true -> 0 < batch c -> chk x = false -> xstep c m l x x' ->
  if is_timeout l then x' = x else measure c (base x') < measure c (base x).
Proof.
  intros c m l x x' Hm Hb Hc H.
  destruct (xstep_waits c m l x x' Hm Hc H) as [_ [(l0 & E & Hl) | [E1 E2]]].
  - subst l. rewrite is_timeout_xlabel. eapply lstep_decreases; eauto.
  - rewrite E1. auto.
Qed.

Lemma xpath_measure : forall c m x ls x', waits_for_marker m = true -> 0 < batch c ->
  xpath c m x ls x' -> chk x = false ->
  chk x' = false /\ progress_count ls + measure c (base x') <= measure c (base x).
Proof.
  intros c m x ls x' Hm Hb H. induction H as [x | x l x1 ls x2 Hs _ IH]; intros Hc.
  - split; [auto | unfold progress_count; simpl; lia].
  - destruct (xstep_waits c m l x x1 Hm Hc Hs) as [Hc1 _].
    pose proof (poll_step_measure c m l x x1 Hm Hb Hc Hs) as Hd.
    destruct (IH Hc1) as [Hc2 Hle]. split; auto.
    unfold progress_count in *. simpl. destruct (is_timeout l); simpl.
    + subst x1. lia.
    + lia.
Qed.

(* on any path from the initial state, the number of steps other than time-outs is bounded *)
Lemma poll_progress_bound : forall c m ls x, waits_for_marker m = true -> 0 < batch c ->
  xpath c m (xinit c) ls x -> progress_count ls <= 4 * (end_ c - start_ c) + 8.
Proof.
  intros c m ls x Hm Hb H.
  destruct (xpath_measure c m _ _ _ Hm Hb H eq_refl) as [_ Hle].
  unfold measure at 2 in Hle. simpl in Hle. lia.
Qed.

(* the list fact behind the scheduler's fairness rule *)
Definition head_progress (ls : list (option xevent)) : nat :=
  match ls with a :: _ => if is_timeout a then 0 else 1 | [] => 0 end.

Lemma no_two_timeouts_length : forall ls, no_two_timeouts ls = true ->
  length ls + head_progress ls <= 2 * progress_count ls + 1.
Proof.
  induction ls as [|a t IH]; intros H.
  - unfold progress_count. simpl. lia.
  - destruct t as [|b t'].
    + unfold progress_count. simpl. destruct (is_timeout a); simpl; lia.
    + assert (Ht : no_two_timeouts (b :: t') = true).
      { change (negb (is_timeout a && is_timeout b) && no_two_timeouts (b :: t') = true) in H.
        apply andb_prop in H. tauto. }
      assert (Hab : is_timeout a && is_timeout b = false).
      { change (negb (is_timeout a && is_timeout b) && no_two_timeouts (b :: t') = true) in H.
        apply andb_prop in H. destruct H as [H _]. destruct (is_timeout a && is_timeout b); auto. }
      specialize (IH Ht). unfold progress_count in *.
      cbn [filter length head_progress] in *.
      destruct (is_timeout a), (is_timeout b); simpl in *; try discriminate; lia.
Qed.

(* under the scheduler's rule (never two time-outs in a row) every run is short *)
Lemma poll_fair_run_length : forall c m ls x, waits_for_marker m = true -> 0 < batch c ->
  xpath c m (xinit c) ls x -> no_two_timeouts ls = true ->
  length ls <= 2 * (4 * (end_ c - start_ c) + 8) + 1.
Proof.
  intros c m ls x Hm Hb H Hn.
  pose proof (poll_progress_bound c m ls x Hm Hb H).
  pose proof (no_two_timeouts_length ls Hn). lia.
Qed.

Lemma xfinal_of_final : forall x, chk x = false -> final (base x) -> xfinal x.
Proof. intros x Hc Hf. split; auto. Qed.

(* what holds whenever a final state is reached *)
Lemma poll_final_state : forall c m x, waits_for_marker m = true -> 0 < batch c ->
  xreach c m x -> xfinal x -> final_ok c (base x).
Proof.
  intros c m x Hm Hb H [Hf _]. destruct (xreach_waits c m x Hm H) as [_ Hr].
  apply final_ok_reach; auto.
Qed.

(* the final state is absorbing in every mode *)
Lemma xfinal_no_step : forall c m l x x', final (base x) -> ~ xstep c m l x x'.
Proof.
  intros c m l x x' [Hp Hc] H. inversion H; subst; simpl in *; try congruence.
  eapply final_no_step; [split; eauto | eexists; eauto].
Qed.

(* every fair schedule ends, and ends right: AF over the steps that are not time-outs *)
Lemma poll_inevitably : forall c m, waits_for_marker m = true -> 0 < batch c ->
  forall n x, measure c (base x) = n -> xreach c m x ->
  inev_p c m (fun y => xfinal y /\ final_ok c (base y)) x.
Proof.
  intros c m Hm Hb n. induction n as [n IH] using lt_wf_ind. intros x En Hr.
  destruct (xreach_waits c m x Hm Hr) as [Hc Hbr].
  destruct (final_dec (base x)) as [Hf|Hnf].
  - apply inev_p_now. split; [split; auto | apply final_ok_reach; auto].
  - apply inev_p_later.
    + apply poll_progress_enabled; auto. intros [F _]. contradiction.
    + intros x' (l & Hs & Hl).
      pose proof (poll_step_measure c m l x x' Hm Hb Hc Hs) as Hd. rewrite Hl in Hd.
      apply (IH (measure c (base x'))); auto; [lia|].
      eapply xreach_step; eauto. eexists; eauto.
Qed.

Lemma poll_every_fair_schedule_ends_ok : forall c m, waits_for_marker m = true -> 0 < batch c ->
  inev_p c m (fun y => xfinal y /\ final_ok c (base y)) (xinit c).
Proof.
  intros c m Hm Hb. eapply poll_inevitably; eauto. apply xreach_init.
Qed.

(* --- infinite runs ---------------------------------------------------------- *)

Lemma xpath_snoc : forall c m x ls x1 l x2,
  xpath c m x ls x1 -> xstep c m l x1 x2 -> xpath c m x (ls ++ [l]) x2.
Proof.
  intros c m x ls x1 l x2 H Hs. induction H; simpl.
  - eapply xp_cons; eauto. apply xp_nil.
  - eapply xp_cons; eauto.
Qed.

Definition prefix_labels (lab : nat -> option xevent) (n : nat) : list (option xevent) :=
  map lab (seq 0 n).

Lemma prefix_labels_S : forall lab n, prefix_labels lab (S n) = prefix_labels lab n ++ [lab n].
Proof. intros. unfold prefix_labels. rewrite seq_S, map_app. reflexivity. Qed.

Lemma run_prefix_path : forall c m (sigma : nat -> xst) lab,
  (forall n, xstep c m (lab n) (sigma n) (sigma (S n))) ->
  forall n, xpath c m (sigma 0) (prefix_labels lab n) (sigma n).
Proof.
  intros c m sigma lab H. induction n.
  - apply xp_nil.
  - rewrite prefix_labels_S. eapply xpath_snoc; eauto.
Qed.

Lemma progress_count_snoc : forall ls l,
  progress_count (ls ++ [l]) = progress_count ls + (if is_timeout l then 0 else 1).
Proof.
  intros. unfold progress_count. rewrite filter_app, app_length. simpl.
  destruct (is_timeout l); reflexivity.
Qed.

Lemma prefix_count_mono : forall lab n k,
  progress_count (prefix_labels lab n) <= progress_count (prefix_labels lab (n + k)).
Proof.
  intros lab n k. induction k.
  - rewrite Nat.add_0_r. lia.
  - rewrite Nat.add_succ_r, prefix_labels_S, progress_count_snoc. lia.
Qed.

(* no infinite run makes progress infinitely often: every infinite run is, from some point on,
   a single state in which the consumer times out for ever although (poll_progress_enabled)
   another step is enabled all the time — such a run is not weakly fair *)
Lemma poll_no_fair_infinite_run : forall c m (sigma : nat -> xst) (lab : nat -> option xevent),
  waits_for_marker m = true -> 0 < batch c -> sigma 0 = xinit c ->
  (forall n, xstep c m (lab n) (sigma n) (sigma (S n))) ->
  ~ (forall N, exists n, N <= n /\ is_timeout (lab n) = false).
Proof.
  intros c m sigma lab Hm Hb H0 Hrun Hinf.
  assert (Hk : forall k, exists n, k <= progress_count (prefix_labels lab n)).
  { induction k as [|k [n Hn]].
    - exists 0. lia.
    - destruct (Hinf n) as (n' & Hle & Ht).
      exists (S n'). rewrite prefix_labels_S, progress_count_snoc, Ht.
      pose proof (prefix_count_mono lab n (n' - n)) as Hmono.
      replace (n + (n' - n)) with n' in Hmono by lia. lia. }
  destruct (Hk (S (4 * (end_ c - start_ c) + 8))) as [n Hn].
  pose proof (run_prefix_path c m sigma lab Hrun n) as Hp. rewrite H0 in Hp.
  pose proof (poll_progress_bound c m _ _ Hm Hb Hp). lia.
Qed.

(* ------------------------------------------------------------------------ *)
(* the trace checker of the widened system is sound                            *)

Lemma xpath_app : forall c m x ls1 x1 ls2 x2,
  xpath c m x ls1 x1 -> xpath c m x1 ls2 x2 -> xpath c m x (ls1 ++ ls2) x2.
Proof.
  intros c m x ls1 x1 ls2 x2 H1 H2. induction H1; simpl; auto. eapply xp_cons; eauto.
Qed.

Lemma obs_of_app : forall a b, obs_of (a ++ b) = obs_of a ++ obs_of b.
Proof. intros. unfold obs_of. apply flat_map_app. Qed.

Lemma gets_of_cons_nil : forall e tr, gets_of (e :: tr) = [] -> gets_of [e] = [] /\ gets_of tr = [].
Proof.
  intros e tr H. unfold gets_of in *. simpl in *. rewrite app_nil_r.
  apply app_eq_nil in H. exact H.
Qed.

Lemma lift_ltrace : forall c m b s tr s', ltrace c s tr s' -> (b = true -> gets_of tr = []) ->
  exists ls, xpath c m (mkX s b) ls (mkX s' b) /\ obs_of ls = map XEv tr.
Proof.
  intros c m b s tr s' H. induction H as [s | s s1 s2 tr Hs _ IH | s s1 s2 e tr Hs _ IH]; intros Hg.
  - exists []. split; [apply xp_nil | reflexivity].
  - destruct (IH Hg) as (ls & Hp & Ho).
    exists (xlabel None :: ls). split; [|exact Ho].
    eapply xp_cons; eauto. apply x_base; auto.
    intros _. destruct (lstep_history _ _ _ _ Hs) as [_ E]. simpl in E. rewrite app_nil_r in E. exact E.
  - assert (Hg' : b = true -> gets_of [e] = [] /\ gets_of tr = []).
    { intros Eb. apply gets_of_cons_nil. auto. }
    destruct (IH (fun Eb => proj2 (Hg' Eb))) as (ls & Hp & Ho).
    exists (xlabel (Some e) :: ls). split.
    + eapply xp_cons; eauto. apply x_base; auto.
      intros Eb. destruct (lstep_history _ _ _ _ Hs) as [_ E]. simpl obs1 in E.
      rewrite (proj1 (Hg' Eb)), app_nil_r in E. exact E.
    + change (obs_of (xlabel (Some e) :: ls)) with (XEv e :: obs_of ls). rewrite Ho. reflexivity.
Qed.

Lemma at_empty_get_true : forall s, at_empty_get s = true ->
  (exists k acc, cc s = CCollect (S k) acc) /\ q s = [].
Proof.
  intros s H. unfold at_empty_get in H.
  destruct (cc s) as [|[|k] acc| | |]; try discriminate.
  destruct (q s); try discriminate. eauto.
Qed.

Lemma producer_event_no_get : forall e, is_producer_event e = true -> gets_of [e] = [].
Proof. destruct e; simpl; intros; try discriminate; reflexivity. Qed.

Lemma xexec1_sound : forall c m x e x', xexec1 c m x e = Some x' ->
  exists ls, xpath c m x ls x' /\ obs_of ls = [e].
Proof.
  intros c m [s b] e x' H. destruct e as [e | | a]; unfold xexec1 in H; simpl base in H; simpl chk in H.
  - destruct (b && negb (is_producer_event e)) eqn:Eg; try discriminate.
    destruct (exec1 c s e) as [s'|] eqn:E; try discriminate. inversion H; subst x'.
    apply exec1_sound in E.
    destruct (lift_ltrace c m b s [e] s' E) as (ls & Hp & Ho).
    + intros Eb. subst b. simpl in Eg. apply producer_event_no_get.
      destruct (is_producer_event e); auto; discriminate.
    + exists ls. auto.
  - destruct b; try discriminate.
    remember (tau_c c s) as t eqn:Et.
    destruct (at_empty_get t) eqn:Ea; try discriminate.
    destruct (at_empty_get_true t Ea) as [(k & acc & Ec) Eq].
    assert (Hpre : exists ls0, xpath c m (mkX s false) ls0 (mkX t false) /\ obs_of ls0 = []).
    { destruct (tau_c_sound c s) as [E|E]; rewrite <- Et in E.
      - rewrite E. exists []. split; [apply xp_nil | reflexivity].
      - exists [xlabel None]. split; [|reflexivity].
        eapply xp_cons; [|apply xp_nil]. apply x_base; auto. discriminate. }
    destruct Hpre as (ls0 & Hp0 & Ho0).
    destruct m; try discriminate; inversion H; subst x'.
    + exists (ls0 ++ [Some XTimeout]). split.
      * eapply xpath_app; eauto. eapply xp_cons; [|apply xp_nil]. eapply x_timeout_retry; eauto.
      * rewrite obs_of_app, Ho0. reflexivity.
    + exists (ls0 ++ [Some XTimeout]). split.
      * eapply xpath_app; eauto. eapply xp_cons; [|apply xp_nil]. eapply x_timeout_check; eauto.
      * rewrite obs_of_app, Ho0. reflexivity.
  - destruct m; try discriminate. destruct b; try discriminate.
    destruct (pp s) eqn:Ep; destruct a; try discriminate.
    + inversion H; subst x'. exists [Some (XAlive true)]. split; [|reflexivity].
      eapply xp_cons; [|apply xp_nil]. apply x_alive; auto. congruence.
    + inversion H; subst x'. exists [Some (XAlive true)]. split; [|reflexivity].
      eapply xp_cons; [|apply xp_nil]. apply x_alive; auto. congruence.
    + inversion H; subst x'. exists [Some (XAlive true)]. split; [|reflexivity].
      eapply xp_cons; [|apply xp_nil]. apply x_alive; auto. congruence.
    + inversion H; subst x'. exists [Some (XAlive true)]. split; [|reflexivity].
      eapply xp_cons; [|apply xp_nil]. apply x_alive; auto. congruence.
    + destruct (cc s) as [|[|k] acc| | |] eqn:Ec; try discriminate.
      inversion H; subst x'. exists [Some (XAlive false)]. split; [|reflexivity].
      eapply xp_cons; [|apply xp_nil]. eapply x_dead; eauto.
Qed.

Lemma xrun_trace_sound : forall c m tr x x', xrun_trace c m x tr = Some x' ->
  exists ls, xpath c m x ls x' /\ obs_of ls = tr.
Proof.
  intros c m tr. induction tr as [|e tr IH]; simpl; intros x x' H.
  - inversion H; subst. exists []. split; [apply xp_nil | reflexivity].
  - destruct (xexec1 c m x e) as [x1|] eqn:E; try discriminate.
    destruct (xexec1_sound _ _ _ _ _ E) as (l1 & P1 & O1).
    destruct (IH _ _ H) as (l2 & P2 & O2).
    exists (l1 ++ l2). split; [eapply xpath_app; eauto|].
    rewrite obs_of_app, O1, O2. reflexivity.
Qed.

Lemma xpath_reach : forall c m x ls x', xpath c m x ls x' -> xreach c m x -> xreach c m x'.
Proof.
  intros c m x ls x' H. induction H; intros Hr; auto.
  apply IHxpath. eapply xreach_step; eauto. eexists; eauto.
Qed.

Lemma xaccepts_sound : forall c m tr, xaccepts c m tr = true ->
  exists ls x, xpath c m (xinit c) ls x /\ obs_of ls = tr /\ xreach c m x /\ xfinal x.
Proof.
  intros c m tr H. unfold xaccepts in H.
  destruct (xrun_trace c m (xinit c) tr) as [x|] eqn:E; try discriminate.
  apply andb_prop in H. destruct H as [Hf Hc].
  destruct (xrun_trace_sound _ _ _ _ _ E) as (ls & Hp & Ho).
  exists ls, x. repeat split; auto.
  - eapply xpath_reach; eauto. apply xreach_init.
  - apply is_final_true in Hf. apply Hf.
  - apply is_final_true in Hf. apply Hf.
  - destruct (chk x); auto; discriminate.
Qed.

Lemma yields_of_app : forall a b, yields_of (a ++ b) = yields_of a ++ yields_of b.
Proof. intros. unfold yields_of. apply flat_map_app. Qed.
Lemma gets_of_app : forall a b, gets_of (a ++ b) = gets_of a ++ gets_of b.
Proof. intros. unfold gets_of. apply flat_map_app. Qed.

Lemma xpath_history : forall c m x ls x', waits_for_marker m = true ->
  xpath c m x ls x' -> chk x = false ->
  yielded (base x') = yielded (base x) ++ yields_of (base_events (obs_of ls)) /\
  taken (base x') = taken (base x) ++ gets_of (base_events (obs_of ls)).
Proof.
  intros c m x ls x' Hm H. induction H as [x | x l x1 ls x2 Hs _ IH]; intros Hc.
  - simpl. rewrite !app_nil_r. auto.
  - destruct (xstep_waits c m l x x1 Hm Hc Hs) as [Hc1 [(l0 & El & Hl) | [Et Ex]]].
    + destruct (IH Hc1) as [E1 E2]. destruct (lstep_history _ _ _ _ Hl) as [E3 E4].
      subst l. rewrite E1, E2, E3, E4. destruct l0 as [e|].
      * change (base_events (obs_of (xlabel (Some e) :: ls))) with ([e] ++ base_events (obs_of ls)).
        change (obs1 (Some e)) with [e].
        rewrite yields_of_app, gets_of_app, <- !app_assoc. auto.
      * change (base_events (obs_of (xlabel None :: ls))) with (base_events (obs_of ls)).
        change (obs1 None) with (@nil event).
        change (yields_of []) with (@nil (list nat)). change (gets_of []) with (@nil item).
        rewrite !app_nil_r. auto.
    + subst x1. destruct (IH Hc) as [E1 E2]. rewrite E1, E2.
      destruct l as [[e| |a]|]; try discriminate. simpl. auto.
Qed.

(* an accepted trace of a consumer that waits for the marker shows the specified stream *)
Lemma xaccepts_spec : forall c m tr, waits_for_marker m = true -> 0 < batch c ->
  xaccepts c m tr = true ->
  yields_of (base_events tr) = chunks (batch c) (delivered c) /\
  gets_of (base_events tr) = map (fr c) (delivered c) ++ [Sentinel].
Proof.
  intros c m tr Hm Hb H. destruct (xaccepts_sound c m tr H) as (ls & x & Hp & Ho & Hr & Hf).
  destruct (poll_final_state c m x Hm Hb Hr Hf) as (_ & _ & Htk & _ & Hy).
  destruct (xpath_history c m _ _ _ Hm Hp eq_refl) as [E1 E2]. simpl in E1, E2.
  rewrite Ho in E1, E2. rewrite <- E1, <- E2. auto.
Qed.

(* for the blocking consumer the widened checker is the checker of Stream.v *)
Lemma xrun_trace_blocking : forall c tr s,
  xrun_trace c Blocking (mkX s false) (map XEv tr) =
  match run_trace c s tr with Some s' => Some (mkX s' false) | None => None end.
Proof.
  intros c tr. induction tr as [|e tr IH]; intros s; simpl; auto.
  destruct (exec1 c s e) as [s1|]; auto.
Qed.

Lemma xaccepts_blocking : forall c tr, xaccepts c Blocking (map XEv tr) = accepts c tr.
Proof.
  intros c tr. unfold xaccepts, accepts, xinit. rewrite xrun_trace_blocking.
  destruct (run_trace c (init c) tr); simpl; auto. apply andb_true_r.
Qed.

(* ------------------------------------------------------------------------ *)
(* the consumer that gives up when the reader thread is dead (seeded C13_m4)   *)

Definition giveup_cfg := mkCfg 0 1 2 1 None.      (* one frame, capacity 2, batch 1, no read failure *)
Definition giveup_trace : list xevent :=
  [XEv EvStart; XTimeout;                                   (* the consumer finds the queue empty *)
   XEv (EvReadOk 0); XEv (EvPut 0 pl0); XEv EvPutSent;          (* the reader delivers everything and ends *)
   XAlive false;                                            (* only now the consumer looks: reader dead *)
   XEv EvJoin].
Definition giveup_end : xst :=
  mkX (mkSt PDone [Frame 0 pl0; Sentinel] CFinished true [] []) false.

Lemma giveup_run : xrun_trace giveup_cfg GiveUp (xinit giveup_cfg) giveup_trace = Some giveup_end.
Proof. vm_compute. reflexivity. Qed.

Lemma giveup_trace_accepted : xaccepts giveup_cfg GiveUp giveup_trace = true.
Proof. vm_compute. reflexivity. Qed.

(* a complete run that ends "normally" with the frame and the marker still in the queue *)
Lemma giveup_loses_frames : exists c x,
  0 < batch c /\ fault c = None /\ xreach c GiveUp x /\ xfinal x /\
  delivered c = [0] /\ yielded (base x) = [] /\ q (base x) = [Frame 0 pl0; Sentinel].
Proof.
  exists giveup_cfg, giveup_end.
  destruct (xrun_trace_sound _ _ _ _ _ giveup_run) as (ls & Hp & _).
  split; [unfold giveup_cfg; simpl; lia|]. split; [reflexivity|].
  split; [eapply xpath_reach; eauto; apply xreach_init|].
  repeat split; reflexivity.
Qed.

(* the final-state theorem, true of the consumers that wait for the marker, is false of this one *)
Lemma giveup_final_state_refuted :
  ~ (forall c x, 0 < batch c -> xreach c GiveUp x -> xfinal x -> final_ok c (base x)).
Proof.
  intros H. destruct giveup_loses_frames as (c & x & Hb & _ & Hr & Hf & Hd & Hy & Hq).
  destruct (H c x Hb Hr Hf) as (_ & Hq' & _). congruence.
Qed.

(* the same trace is not a trace of a polling consumer that waits for the marker *)
Lemma giveup_trace_not_polling : xaccepts giveup_cfg Polling giveup_trace = false.
Proof. vm_compute. reflexivity. Qed.

Definition polling_trace : list xevent :=
  [XEv EvStart; XTimeout; XEv (EvReadOk 0); XTimeout; XEv (EvPut 0 pl0); XEv (EvGet 0 pl0); XEv (EvYield [0]);
   XTimeout; XEv EvPutSent; XEv EvGetSent; XEv EvJoin].

Lemma polling_trace_accepted :
  xaccepts giveup_cfg Polling polling_trace = true /\ xaccepts giveup_cfg Blocking polling_trace = false.
Proof. vm_compute. split; reflexivity. Qed.

(* ------------------------------------------------------------------------ *)
(* reader construction                                                         *)

Lemma video_cfg_unfold : forall r,
  video_cfg r = mkCfgS (vr_start_ r) (vr_end_ r) (vr_cap r) (vr_batch r) (video_fault r) (vr_src r).
Proof. reflexivity. Qed.

Lemma video_fault_unfold : forall r,
  video_fault r =
  opt_min (match vr_fault r with Some x => if vr_start_ r <=? x then Some x else None | None => None end)
          (if vr_frames r <? vr_end_ r then Some (Nat.max (vr_start_ r) (vr_frames r)) else None).
Proof. reflexivity. Qed.

(* which frames a request delivers, in elementary terms: the frames of the requested range that
   exist in the video and lie before the first frame of the range that cannot be decoded *)
Lemma video_request_delivered : forall r i,
  In i (delivered (video_cfg r)) <->
  (vr_start_ r <= i < vr_end_ r /\ i < vr_frames r /\
   forall f, vr_fault r = Some f -> vr_start_ r <= f -> i < f).
Proof.
  intros r i. rewrite delivered_in. unfold video_cfg. cbn [start_ end_ fault].
  unfold video_fault, in_range_fault, overrun_fault.
  destruct (vr_fault r) as [f|];
    [destruct (Nat.leb_spec (vr_start_ r) f)|]; destruct (Nat.ltb_spec (vr_frames r) (vr_end_ r)); simpl;
    (split;
     [ intros [H1 H2]; try (specialize (H2 _ eq_refl)); split; [lia|]; split; [lia|];
       intros g E Hg; try discriminate; injection E as <-; lia
     | intros (H1 & H2 & H3); try (specialize (H3 _ eq_refl)); split; [lia|];
       intros g E Hg; try discriminate; injection E as <-; lia ]).
Qed.

(* a range inside the video: the length plays no role (the request model of rounds 2-3) *)
Lemma video_within_length : forall r, vr_end_ r <= vr_frames r ->
  video_fault r = in_range_fault (vr_start_ r) (vr_fault r) /\
  delivered (video_cfg r) = delivered (mkCfg (vr_start_ r) (vr_end_ r) (vr_cap r) (vr_batch r) (vr_fault r)).
Proof.
  intros r H. assert (E : video_fault r = in_range_fault (vr_start_ r) (vr_fault r)).
  { unfold video_fault, overrun_fault. destruct (Nat.ltb_spec (vr_frames r) (vr_end_ r)); [lia|].
    destruct (in_range_fault _ _); reflexivity. }
  split; auto. unfold delivered, stop, video_cfg. cbn [start_ end_ fault]. rewrite E.
  unfold in_range_fault. destruct (vr_fault r) as [f|]; auto.
  destruct (Nat.leb_spec (vr_start_ r) f) as [Hl|Hl]; auto.
  destruct (Nat.leb_spec (vr_start_ r) f); auto; lia.
Qed.

(* a range that runs past the end of the video: reading index vr_frames r fails (IndexError), the
   frames of the range that exist are delivered (when none of them fails to decode) *)
Lemma video_overrun : forall r, vr_frames r < vr_end_ r ->
  (exists g, video_fault r = Some g /\ vr_start_ r <= g <= Nat.max (vr_start_ r) (vr_frames r)) /\
  ((forall f, vr_fault r = Some f -> vr_start_ r <= f -> vr_frames r <= f) ->
   delivered (video_cfg r) = seq (vr_start_ r) (vr_frames r - vr_start_ r)).
Proof.
  intros r H. unfold delivered, stop, video_cfg. cbn [start_ end_ fault].
  unfold video_fault, in_range_fault, overrun_fault.
  destruct (Nat.ltb_spec (vr_frames r) (vr_end_ r)); [|lia].
  destruct (vr_fault r) as [f|]; [destruct (Nat.leb_spec (vr_start_ r) f)|]; simpl.
  - split; [eexists; split; [reflexivity|lia]|]. intros Hf. specialize (Hf _ eq_refl).
    destruct (Nat.leb_spec (vr_start_ r) (Nat.min f (Nat.max (vr_start_ r) (vr_frames r)))); f_equal; lia.
  - split; [eexists; split; [reflexivity|lia]|]. intros _.
    destruct (Nat.leb_spec (vr_start_ r) (Nat.max (vr_start_ r) (vr_frames r))); f_equal; lia.
  - split; [eexists; split; [reflexivity|lia]|]. intros _.
    destruct (Nat.leb_spec (vr_start_ r) (Nat.max (vr_start_ r) (vr_frames r))); f_equal; lia.
Qed.

Lemma video_fault_none_iff : forall r,
  video_fault r = None <->
  ((forall f, vr_fault r = Some f -> f < vr_start_ r) /\ vr_end_ r <= vr_frames r).
Proof.
  intros r. unfold video_fault, in_range_fault, overrun_fault.
  destruct (vr_fault r) as [f|]; [destruct (Nat.leb_spec (vr_start_ r) f)|];
    destruct (Nat.ltb_spec (vr_frames r) (vr_end_ r)); simpl; split;
    try discriminate; try (intros [H1 H2]; try specialize (H1 _ eq_refl); lia);
    intros _; split; try lia; intros g E; try discriminate; injection E as <-; lia.
Qed.

(* end_idx = 0 is the empty range, not "until the end of the video" *)
Lemma video_end_zero_empty : forall r, vr_end r = Some 0 -> delivered (video_cfg r) = [].
Proof.
  intros r H. unfold delivered. pose proof (stop_le_end (video_cfg r)) as Hle.
  assert (E : end_ (video_cfg r) = 0) by (unfold video_cfg, vr_end_; rewrite H; reflexivity).
  replace (stop _ - _) with 0 by lia. reflexivity.
Qed.

Lemma video_defaults_whole : forall n cp b,
  delivered (video_cfg (mkVReq n None None cp b None)) = seq 0 n.
Proof.
  intros. unfold delivered, stop, video_cfg, video_fault, overrun_fault, in_range_fault, vr_start_, vr_end_.
  simpl. rewrite Nat.ltb_irrefl. simpl. rewrite Nat.sub_0_r. reflexivity.
Qed.

(* total_len() counts the frames delivered when no read fails (and is negative for an inverted range);
   "no read fails" includes: the range does not run past the end of the video (video_fault_none_iff) *)
Lemma video_total_len_ok : forall r, video_fault r = None ->
  fst (video_total_len r) = length (delivered (video_cfg r)) /\
  (snd (video_total_len r) = 0 \/ delivered (video_cfg r) = []).
Proof.
  intros r H. assert (Es : stop (video_cfg r) = end_ (video_cfg r)).
  { unfold stop. replace (fault (video_cfg r)) with (video_fault r) by reflexivity. rewrite H. reflexivity. }
  unfold video_total_len, delivered. rewrite Es, seq_length. cbn [fst snd]. split; [reflexivity|].
  destruct (le_lt_dec (start_ (video_cfg r)) (end_ (video_cfg r))); [left; lia | right].
  replace (end_ (video_cfg r) - start_ (video_cfg r)) with 0 by lia. reflexivity.
Qed.

(* observation: for a range that runs past the end of the video total_len() over-reports *)
Lemma video_total_len_overrun : forall r,
  vr_fault r = None -> vr_start_ r <= vr_frames r -> vr_frames r < vr_end_ r ->
  length (delivered (video_cfg r)) = vr_frames r - vr_start_ r /\
  length (delivered (video_cfg r)) < fst (video_total_len r).
Proof.
  intros r Hf Hs He. destruct (video_overrun r He) as [_ Hd].
  rewrite Hd by (intros f E; rewrite Hf in E; discriminate).
  rewrite seq_length. split; auto. unfold video_total_len, video_cfg. cbn [fst start_ end_]. lia.
Qed.

Lemma opt_min_none_r : forall a, opt_min a None = a.
Proof. destruct a; reflexivity. Qed.

Lemma stop_labels : forall n cp b f sr, stop (mkCfgS 0 n cp b f sr) = match f with Some x => Nat.min x n | None => n end.
Proof. intros. unfold stop. simpl. destruct f; reflexivity. Qed.

(* F130: outside the selector (and always after the repair) the labels reader delivers what the
   property asks *)
Lemma labels_partial : forall r, bare_frame_selector r = false ->
  delivered (labels_cfg r) = delivered (labels_spec_cfg r).
Proof.
  intros r H. unfold bare_frame_selector in H. unfold delivered, labels_cfg, labels_spec_cfg in *.
  cbn [start_] in *. rewrite !stop_labels in *.
  destruct (lr_instances_key r); simpl in *; auto.
  destruct (lr_fixed r); simpl; auto.
  destruct (lr_first_bare r) as [bf|]; [|rewrite opt_min_none_r; auto].
  f_equal. f_equal. destruct (lr_fault r) as [f|]; simpl in *; lia.
Qed.

Lemma labels_fixed : forall r, lr_fixed r = true -> labels_cfg r = labels_spec_cfg r.
Proof.
  intros r H. unfold labels_cfg, labels_spec_cfg. rewrite H, andb_false_r. reflexivity.
Qed.

(* inside the selector the unrepaired reader loses the bare frame and every frame after it *)
Lemma labels_selected_truncated : forall r, lr_fixed r = false -> bare_frame_selector r = true ->
  exists bf, lr_first_bare r = Some bf /\ In bf (delivered (labels_spec_cfg r)) /\
             ~ In bf (delivered (labels_cfg r)).
Proof.
  intros r Hfx H. unfold bare_frame_selector in H. apply andb_prop in H. destruct H as [Hk H].
  destruct (lr_first_bare r) as [bf|] eqn:Eb; try discriminate. exists bf. split; auto.
  unfold delivered, labels_cfg, labels_spec_cfg in *. cbn [start_] in *.
  rewrite Hk, Hfx, Eb in *. simpl andb. cbv iota. rewrite !stop_labels in *. rewrite !in_seq.
  destruct (lr_fault r) as [f|]; simpl in *; lia.
Qed.

Definition bare_witness := mkLReq 3 2 1 None true (Some 1) false.

Lemma labels_full_refuted : exists r, lr_fault r = None /\
  delivered (labels_spec_cfg r) = [0; 1; 2] /\ delivered (labels_cfg r) = [0].
Proof. exists bare_witness. vm_compute. repeat split; reflexivity. Qed.

Lemma ex_requests :
  delivered (video_cfg (mkVReq 5 None (Some 0) 1 1 None)) = [] /\
  delivered (video_cfg (mkVReq 5 (Some 0) None 1 1 None)) = [0;1;2;3;4] /\
  delivered (video_cfg (mkVReq 5 (Some 2) (Some 4) 1 1 None)) = [2;3] /\
  video_total_len (mkVReq 5 (Some 4) (Some 2) 1 1 None) = (0, 2) /\
  (* a range that runs past the end of a 3-frame video: frames 0..2, total_len() = 5 *)
  delivered (video_cfg (mkVReq 3 None (Some 5) 1 1 None)) = [0;1;2] /\
  video_total_len (mkVReq 3 None (Some 5) 1 1 None) = (5, 0) /\
  delivered (video_cfg (mkVReq 3 (Some 4) (Some 6) 1 1 None)) = [] /\
  delivered (video_cfg (mkVReq 3 (Some 1) (Some 6) 1 1 (Some 0))) = [1;2] /\
  delivered (video_cfg (mkVReq 3 (Some 1) (Some 6) 1 1 (Some 2))) = [1] /\
  bare_frame_selector bare_witness = true /\
  bare_frame_selector (mkLReq 3 2 1 (Some 1) true (Some 1) false) = false /\
  bare_frame_selector (mkLReq 3 2 1 None false (Some 1) false) = false.
Proof. vm_compute. repeat split; reflexivity. Qed.

(* ------------------------------------------------------------------------ *)
(* observation (outside the property): an exception in the CONSUMER            *)

(* a reader waiting at put() on a full queue is moved by nobody but a get of the consumer:
   if the consumer loop has died (the inference callable raised) the reader thread waits for ever *)
Lemma blocked_reader_needs_get : forall c l s s',
  lstep c l s s' -> ((exists i p, pp s = PPut i p) \/ pp s = PSent) -> full c (q s) = true ->
  pp s' = pp s /\ (q s' = q s \/ exists x, taken s' = taken s ++ [x]).
Proof.
  intros c l s s' H Hp Hf.
  inversion H; subst; simpl; auto; try (destruct Hp as [(j & pj & E)|E]; congruence); eauto.
Qed.

Definition crash_cfg := mkCfg 0 3 1 1 None.
Definition crash_state : st := mkSt (PPut 2 pl0) [Frame 1 pl0] (CProcess [0]) false [] [Frame 0 pl0].

(* the consumer is about to call the inference callable on frame 0 while the reader is already
   waiting at put() on the full queue *)
Lemma crash_state_reachable :
  reach crash_cfg crash_state /\ full crash_cfg (q crash_state) = true.
Proof.
  split; [|reflexivity].
  assert (E : run_trace crash_cfg (init crash_cfg)
                [EvStart; EvReadOk 0; EvPut 0 pl0; EvGet 0 pl0; EvReadOk 1; EvPut 1 pl0; EvReadOk 2] = Some crash_state)
    by (vm_compute; reflexivity).
  apply run_trace_sound in E. eapply ltrace_reach; eauto. apply reach_init.
Qed.

(* ------------------------------------------------------------------------ *)
(* the widened checker is complete for the polling consumer (with Lemmas.lag)  *)

Lemma is_timeout_true : forall l, is_timeout l = true -> l = Some XTimeout.
Proof. intros [[e| |a]|] H; try discriminate; reflexivity. Qed.

Lemma xlag_step : forall c l t x x', 0 < batch c -> chk x = false -> lag c t (base x) ->
  xstep c Polling l x x' ->
  chk x' = false /\
  match l with
  | None => lag c t (base x')
  | Some e => exists t', xexec1 c Polling (mkX t false) e = Some (mkX t' false) /\ lag c t' (base x')
  end.
Proof.
  intros c l t x x' Hb Hc L H.
  destruct (xstep_waits c Polling l x x' eq_refl Hc H) as [Hc' [(l0 & El & Hl) | [Et Ex]]].
  - split; auto. subst l. pose proof (lag_step c l0 t (base x) (base x') Hb L Hl) as S.
    destruct l0 as [e|]; simpl; auto.
    destruct S as (t' & E & L'). exists t'. split; auto.
    unfold xexec1. simpl. rewrite E. reflexivity.
  - split; auto. apply is_timeout_true in Et. subst l x'.
    destruct (proj1 (timeout_enabled_iff c x) (ex_intro _ x H)) as (_ & (k & acc & Ec) & Eq).
    assert (Hn : cc (base x) <> CProcess []) by congruence.
    destruct L as [Lq Ld Lt Ly Lp Lc].
    destruct (tau_c_catch_up c t (base x) Hb Lc Hn) as (U1 & U2 & U3 & U4 & U5 & U6).
    exists (tau_c c t). split.
    + unfold xexec1. simpl. unfold at_empty_get. rewrite U1, U3, <- Lq, Ec, Eq. reflexivity.
    + constructor; try congruence.
      * eapply lag_p_eq; eauto.
      * left. congruence.
Qed.

Lemma xrun_trace_complete : forall c x ls x', 0 < batch c -> xpath c Polling x ls x' ->
  forall t, chk x = false -> lag c t (base x) ->
  exists t', xrun_trace c Polling (mkX t false) (obs_of ls) = Some (mkX t' false) /\ lag c t' (base x')
             /\ chk x' = false.
Proof.
  intros c x ls x' Hb H. induction H as [x | x l x1 ls x2 Hs _ IH]; intros t Hc L.
  - exists t. simpl. auto.
  - destruct (xlag_step c l t x x1 Hb Hc L Hs) as [Hc1 S]. destruct l as [e|].
    + destruct S as (t1 & E & L1). destruct (IH t1 Hc1 L1) as (t' & E' & L' & Hc').
      exists t'. change (obs_of (Some e :: ls)) with (e :: obs_of ls). simpl. rewrite E. auto.
    + apply IH; auto.
Qed.

Lemma xaccepts_complete_polling : forall c ls x, 0 < batch c ->
  xpath c Polling (xinit c) ls x -> xfinal x -> xaccepts c Polling (obs_of ls) = true.
Proof.
  intros c ls x Hb Hp [Hf _].
  destruct (xrun_trace_complete c _ _ _ Hb Hp (init c) eq_refl (lag_refl c (init c))) as (t' & E & L & _).
  unfold xaccepts, xinit. rewrite E. simpl. rewrite (lag_final c t' (base x) Hb L Hf). reflexivity.
Qed.

(* exactness for the polling consumer: accepted = observable trace of a complete run *)
Lemma xaccepts_exact_polling : forall c tr, 0 < batch c ->
  (xaccepts c Polling tr = true <->
   exists ls x, xpath c Polling (xinit c) ls x /\ obs_of ls = tr /\ xfinal x).
Proof.
  intros c tr Hb. split.
  - intros H. destruct (xaccepts_sound c Polling tr H) as (ls & x & Hp & Ho & _ & Hf). eauto.
  - intros (ls & x & Hp & Ho & Hf). subst tr. eapply xaccepts_complete_polling; eauto.
Qed.

(* ------------------------------------------------------------------------ *)
(* why giving up is never right with this reader                               *)

(* whenever the reader thread is dead and the consumer is still collecting, the marker is in the
   queue: a timed get cannot time out after the reader's death, so `is_alive() = False` observed
   after a time-out always means that the queue has been filled in between (the race), and a
   consumer that samples is_alive() BEFORE its timed get never has a reason to give up *)
Lemma dead_reader_marker_queued : forall c s k acc,
  reach c s -> pp s = PDone -> cc s = CCollect k acc -> sentinels (q s) = 1 /\ q s <> [].
Proof.
  intros c s k acc Hr Hp Hc. pose proof (reach_inv c s Hr) as Hi.
  pose proof (inv_sentinels c s Hi) as E. pose proof (inv_pc c s Hi) as Hpc.
  rewrite Hc in Hpc. destruct Hpc as [Hd _].
  unfold sentinel_count in E. rewrite Hd, Hp in E. simpl in E.
  split; [lia|]. intros Eq. rewrite Eq in E. simpl in E. lia.
Qed.

(* the statement for Stream-reachable states (round 2); the bridge to the widened system is below *)
Lemma no_timeout_after_death_stream : forall c m x x',
  reach c (base x) -> pp (base x) = PDone -> ~ xstep c m (Some XTimeout) x x'.
Proof.
  intros c m x x' Hr Hp H.
  assert (Hq : q (base x) = [] /\ exists k acc, cc (base x) = CCollect (S k) acc).
  { inversion H; subst; simpl; try discriminate; eauto. destruct l; discriminate. }
  destruct Hq as [Hq (k & acc & Hc)].
  destruct (dead_reader_marker_queued c (base x) (S k) acc Hr Hp Hc) as [_ Hn]. contradiction.
Qed.

(* --- bridge: which states of the widened system are Stream-reachable (review round 4, finding 3).
   With a consumer that waits for the marker every xreach state is (xreach_waits).  With GiveUp it
   is so until the consumer fabricates the marker (x_dead); from then on the consumer has left its
   collect loop for good: done, and at `if imgs` / join / finished. *)
Definition gave_up_shape (s : st) : Prop :=
  done_ s = true /\ match cc s with CProcess _ | CJoin | CFinished => True | _ => False end.

Lemma lstep_gave_up_shape : forall c l s s', lstep c l s s' -> gave_up_shape s -> gave_up_shape s'.
Proof.
  intros c l s s' H [Hd Hc]. unfold gave_up_shape.
  inversion H; subst; simpl; try (split; [exact Hd | exact Hc]);
    try (match goal with E : cc s = _ |- _ => rewrite E in Hc; contradiction end).
  - split; auto. unfold after_process. rewrite Hd. exact I.
  - split; auto.
Qed.

Lemma xreach_base : forall c m x, xreach c m x -> reach c (base x) \/ gave_up_shape (base x).
Proof.
  intros c m x H. induction H as [|x x' _ IH [l Hs]].
  - left. apply reach_init.
  - inversion Hs; subst; simpl in *; auto.
    + destruct IH as [Hr|Hg].
      * left. eapply reach_step; eauto. eexists; eauto.
      * right. eapply lstep_gave_up_shape; eauto.
    + right. split; simpl; auto.
Qed.

(* before the consumer has seen or fabricated a marker, the state is one of Stream.v *)
Lemma xreach_not_done_reach : forall c m x, xreach c m x -> done_ (base x) = false -> reach c (base x).
Proof.
  intros c m x H Hd. destruct (xreach_base c m x H) as [Hr|[Hg _]]; auto. congruence.
Qed.

Lemma no_timeout_after_death : forall c m x x',
  xreach c m x -> pp (base x) = PDone -> ~ xstep c m (Some XTimeout) x x'.
Proof.
  intros c m x x' Hx Hp H. destruct (xreach_base c m x Hx) as [Hr|[_ Hc]].
  - eapply no_timeout_after_death_stream; eauto.
  - assert (Hq : exists k acc, cc (base x) = CCollect (S k) acc).
    { inversion H; subst; simpl; try discriminate; eauto. destruct l; discriminate. }
    destruct Hq as (k & acc & E). rewrite E in Hc. contradiction.
Qed.

(* non-vacuity in the mode the statement is about: the give-up consumer between its time-out and its
   is_alive() look, the reader already dead, frame and marker queued (the state of the race) *)
Definition giveup_mid : xst := mkX (mkSt PDone [Frame 0 pl0; Sentinel] (CCollect 1 []) false [] []) true.

Lemma giveup_mid_reachable :
  xreach giveup_cfg GiveUp giveup_mid /\ pp (base giveup_mid) = PDone /\ reach giveup_cfg (base giveup_mid) /\
  (exists x', xstep giveup_cfg GiveUp (Some (XAlive false)) giveup_mid x') /\
  xreach giveup_cfg GiveUp giveup_end /\ ~ reach giveup_cfg (base giveup_end).
Proof.
  assert (E : xrun_trace giveup_cfg GiveUp (xinit giveup_cfg)
                [XEv EvStart; XTimeout; XEv (EvReadOk 0); XEv (EvPut 0 pl0); XEv EvPutSent] = Some giveup_mid)
    by (vm_compute; reflexivity).
  destruct (xrun_trace_sound _ _ _ _ _ E) as (ls & Hp & _).
  assert (Hx : xreach giveup_cfg GiveUp giveup_mid) by (eapply xpath_reach; eauto; apply xreach_init).
  split; auto. split; [reflexivity|]. split; [apply xreach_not_done_reach with (m := GiveUp); auto|].
  split; [eexists; apply (x_dead giveup_cfg GiveUp (base giveup_mid) 0 []); reflexivity|].
  destruct (xrun_trace_sound _ _ _ _ _ giveup_run) as (ls' & Hp' & _).
  split; [eapply xpath_reach; eauto; apply xreach_init|].
  intros Hr. destruct (nothing_behind_marker _ _ Hr eq_refl) as [_ Hq]. discriminate.
Qed.

(* ------------------------------------------------------------------------ *)
(* non-vacuity examples beside implications that had none (review round 4, finding 9) *)

Lemma ex_marker_seen_state : exists s, reach ex_cfg s /\ done_ s = true /\ pp s = PDone /\ q s = [].
Proof.
  destruct (accepts_sound _ _ ex_trace_accepted) as (s & _ & Hr & Hf).
  exists s. destruct (final_spec_inv ex_cfg s (reach_inv _ _ Hr) Hf) as (Hq & Hd & _).
  repeat split; auto. apply Hf.
Qed.

Lemma ex_dead_reader_collecting :
  reach giveup_cfg (base giveup_mid) /\ pp (base giveup_mid) = PDone /\
  cc (base giveup_mid) = CCollect 1 [] /\ sentinels (q (base giveup_mid)) = 1.
Proof. destruct giveup_mid_reachable as (_ & _ & Hr & _). repeat split; auto. Qed.

Lemma ex_labels_outside_selector :
  bare_frame_selector (mkLReq 3 2 1 (Some 1) true (Some 1) false) = false /\
  delivered (labels_cfg (mkLReq 3 2 1 (Some 1) true (Some 1) false)) = [0] /\
  delivered (labels_spec_cfg (mkLReq 3 2 1 (Some 1) true (Some 1) false)) = [0].
Proof. vm_compute. repeat split; reflexivity. Qed.

Lemma ex_fair_path_with_timeout : exists ls x,
  xpath giveup_cfg Polling (xinit giveup_cfg) ls x /\ no_two_timeouts ls = true /\
  In (Some XTimeout) ls /\ length ls = 2.
Proof.
  exists [xlabel (Some EvStart); Some XTimeout], (mkX (do_start giveup_cfg (init giveup_cfg)) false).
  split; [|repeat split; simpl; auto].
  eapply xp_cons.
  - apply (x_base giveup_cfg Polling (Some EvStart) (init giveup_cfg) (do_start giveup_cfg (init giveup_cfg)) false).
    + apply l_start; reflexivity.
    + discriminate.
  - eapply xp_cons; [|apply xp_nil].
    apply (x_timeout_retry giveup_cfg Polling (do_start giveup_cfg (init giveup_cfg)) 0 []); reflexivity.
Qed.
