(* Props.v (C13) — statements only; proofs live in C13/Lemmas.v.

   C13: "Frame readers deliver each frame once, in order, and always end the
   stream."  The model (C13/Stream.v) is a transition system whose paths are
   all interleavings of the reader thread (VideoReader.run / LabelsReader.run),
   the consumer loop (Predictor._predict_generator) and the bounded queue
   between them.  Every theorem below quantifies over ALL configurations
   c = (start, end, capacity, batch size, fault position, source)
     - any start / end, including empty and inverted ranges,
     - any capacity (0 = unbounded, as in queue.Queue),
     - any fault position (or none),
     - any source `src c : nat -> payload` (size of frame i, index of its video): a queue item is
       `Frame i p`, the reader builds p from the frame it has just read, and "each with its own index and
       original size" is the theorem that every item taken / queued is `fr c i = Frame i (src c i)`
       (c13_invariant_items, c13_items_carry_own_payload, c13_final_state; round 4),
   and over ALL reachable states, i.e. all schedules, with no size bound.  The
   only hypothesis that appears is 0 < batch c (batch size 0 is outside the
   property: ex_batch0_livelock shows that the consumer then spins forever).

   The tie of this model to /repo is made on every run by the harness
   (harness/props/c13.py): the control skeleton of the three functions is
   re-extracted from the source and compared with `modelled_*` (Gen/C13_Skel.v,
   Gen/C13_SkelCheck.v), and traces of the real threads under prescribed
   schedules are replayed through `accepts`.

   What is NOT a theorem here: the payloads of the YIELDED batches (orig_size / video_idx / instances the
   consumer hands to the inference model) are compared by the harness's oracle only; `yielded` holds
   indices.  Statements whose name ends in _def and the request-model statements (c13_video_..., c13_labels_...)
   restate definitions; they are labelled where they occur. *)
From Coq Require Import List Arith Bool Wf_nat.
Import ListNotations.
From SV Require Import C13.Stream C13.Lemmas C13.Poll C13.PollLemmas.

(* --- the specification, restated ---------------------------------------- *)

(* the frames that must be delivered: start, start+1, ... up to the end of the
   range or the first index of the range whose read fails, whichever is first *)
Lemma delivered_def : forall c,
  delivered c =
  seq (start_ c)
      (match fault c with
       | Some f => if start_ c <=? f then Nat.min f (end_ c) else end_ c
       | None => end_ c
       end - start_ c).
Proof. exact delivered_unfold. Qed.
Print Assumptions delivered_def.

Theorem delivered_characterised : forall c i,
  In i (delivered c) <->
  (start_ c <= i < end_ c /\ forall f, fault c = Some f -> start_ c <= f -> i < f).
Proof. exact delivered_in. Qed.
Print Assumptions delivered_characterised.

(* `chunks b l` cuts l into consecutive batches of size b, the last one shorter
   but never empty *)
Theorem chunks_characterised : forall b l, 1 <= b ->
  concat (chunks b l) = l /\ Forall (fun y => 1 <= length y <= b) (chunks b l).
Proof. exact chunks_char. Qed.
Print Assumptions chunks_characterised.

Lemma final_def : forall s, final s = (pp s = PDone /\ cc s = CFinished).
Proof. exact final_unfold. Qed.
Print Assumptions final_def.

(* the final state is right: reader thread dead, consumer past join(), queue
   empty, the consumer took exactly the specified frames in order followed by
   exactly one marker, and yielded them in order in batches of the configured
   size (last one partial) *)
Lemma final_ok_def : forall c s,
  final_ok c s =
  (final s /\ q s = [] /\
   taken s = map (fr c) (delivered c) ++ [Sentinel] /\
   concat (yielded s) = delivered c /\
   yielded s = chunks (batch c) (delivered c)).
Proof. exact final_ok_unfold. Qed.
Print Assumptions final_ok_def.

Example ex_delivered_and_chunks :
  delivered (mkCfg 3 6 1 1 (Some 1)) = [3;4;5] /\
  delivered (mkCfg 3 6 1 1 (Some 4)) = [3] /\
  delivered (mkCfg 3 6 1 1 (Some 3)) = [] /\
  delivered (mkCfg 3 3 1 1 None) = [] /\
  chunks 2 [0;1;2;3;4] = [[0;1];[2;3];[4]] /\
  chunks 3 [] = [].
Proof. exact ex_delivered. Qed.

Lemma fr_def : forall c i, fr c i = Frame i (src c i).
Proof. reflexivity. Qed.
Print Assumptions fr_def.

(* --- (a) safety: no loss, no duplication, no reordering, one marker --------- *)

(* In every reachable state, the frames already yielded, those being collected
   for the current batch, those in the queue, the one read but not yet put and
   those not yet read are, in this order, exactly the specified frames; there
   is at most one marker in the system (seen or queued), and there is one iff
   the reader thread has ended. *)
Theorem c13_invariant : forall c s, reach c s ->
  concat (yielded s) ++ collecting s ++ frames (q s) ++ in_flight s ++ unread c s = delivered c
  /\ sentinel_count s <= 1
  /\ (sentinel_count s = 1 <-> pp s = PDone).
Proof. exact invariant_reach. Qed.
Print Assumptions c13_invariant.

(* the same on the level of ITEMS, payloads included: what the consumer took, what is queued, what is in
   flight or unread and the marker not yet put are, in this order, the specified items (each frame with
   the size / video index of its own index) followed by one marker *)
Theorem c13_invariant_items : forall c s, reach c s ->
  taken s ++ q s ++ map (fr c) (in_flight s ++ unread c s) ++ (match pp s with PDone => [] | _ => [Sentinel] end)
  = map (fr c) (delivered c) ++ [Sentinel].
Proof. exact invariant_items. Qed.
Print Assumptions c13_invariant_items.

(* "each with its own index and original size": in every reachable state, every frame item taken by the
   consumer, waiting in the queue or about to be put carries the payload the source gives for its index *)
Theorem c13_items_carry_own_payload : forall c s i p, reach c s ->
  (In (Frame i p) (taken s ++ q s) \/ pp s = PPut i p) -> p = src c i.
Proof. exact reach_items_own. Qed.
Print Assumptions c13_items_carry_own_payload.

(* the trace checker compares the payloads seen at put and get with the source: a size computed once for
   all frames, a wrong video index, an item that changed between put and get are rejected *)
Example ex_payloads_checked :
  accepts ex_pcfg [EvStart; EvReadOk 1; EvPut 1 (3,5,1); EvReadOk 2; EvGet 1 (3,5,1); EvPut 2 (4,5,0);
                   EvReadFail 3; EvGet 2 (4,5,0); EvYield [1;2]; EvPutSent; EvGetSent; EvJoin] = true /\
  accepts ex_pcfg [EvStart; EvReadOk 1; EvPut 1 (3,5,1); EvReadOk 2; EvGet 1 (3,5,1); EvPut 2 (3,5,0);
                   EvReadFail 3; EvGet 2 (3,5,0); EvYield [1;2]; EvPutSent; EvGetSent; EvJoin] = false /\
  accepts ex_pcfg [EvStart; EvReadOk 1; EvPut 1 (3,5,0); EvReadOk 2; EvGet 1 (3,5,0); EvPut 2 (4,5,0);
                   EvReadFail 3; EvGet 2 (4,5,0); EvYield [1;2]; EvPutSent; EvGetSent; EvJoin] = false /\
  accepts ex_pcfg [EvStart; EvReadOk 1; EvPut 1 (3,5,1); EvReadOk 2; EvPut 2 (4,5,0); EvGet 1 (4,5,0);
                   EvReadFail 3; EvGet 2 (4,5,0); EvYield [1;2]; EvPutSent; EvGetSent; EvJoin] = false.
Proof. exact ex_payload_traces. Qed.

(* nothing is ever queued behind the marker: when the consumer has seen it,
   the reader has ended and the queue is empty *)
Theorem c13_nothing_behind_marker : forall c s, reach c s -> done_ s = true ->
  pp s = PDone /\ q s = [].
Proof. exact nothing_behind_marker. Qed.
Print Assumptions c13_nothing_behind_marker.

Example ex_marker_seen : exists s, reach ex_cfg s /\ done_ s = true /\ pp s = PDone /\ q s = [].
Proof. exact ex_marker_seen_state. Qed.

(* --- (b) deadlock freedom ---------------------------------------------------- *)

(* every reachable state other than the final one has an enabled transition:
   neither thread can block for ever on a full or an empty queue, with or
   without a read failure *)
Theorem c13_deadlock_free : forall c s, reach c s -> ~ final s -> exists s', step c s s'.
Proof. exact deadlock_free. Qed.
Print Assumptions c13_deadlock_free.

(* (the contrapositive of c13_deadlock_free, kept for the reading "every maximal run ends in the final state") *)
Theorem c13_stuck_is_final : forall c s, reach c s -> (forall s', ~ step c s s') -> final s.
Proof. exact stuck_is_final. Qed.
Print Assumptions c13_stuck_is_final.

(* --- (c) termination ----------------------------------------------------------- *)

Theorem c13_measure_decreases : forall c s s', 0 < batch c -> step c s s' ->
  measure c s' < measure c s.
Proof. exact step_decreases. Qed.
Print Assumptions c13_measure_decreases.

(* there is no infinite schedule *)
Theorem c13_no_infinite_schedule : forall c, 0 < batch c ->
  well_founded (fun s' s => step c s s').
Proof. exact step_wf. Qed.
Print Assumptions c13_no_infinite_schedule.

(* explicit bound on the length of any run *)
Theorem c13_run_length_bound : forall c n s, 0 < batch c -> stepn c n (init c) s ->
  n <= 4 * (end_ c - start_ c) + 8.
Proof. exact run_length_bound. Qed.
Print Assumptions c13_run_length_bound.

(* what holds whenever the final state is reached *)
Theorem c13_final_state : forall c s, 0 < batch c -> reach c s -> final s -> final_ok c s.
Proof. exact final_ok_reach. Qed.
Print Assumptions c13_final_state.

(* the main theorem: on EVERY path from the initial state (every schedule,
   every fault position) the final state is eventually reached, and it is right.
   `inevitably c P s` is the least predicate with: P s, or s has a successor
   and every successor is inevitably P (CTL: AF P). *)
Theorem c13_every_schedule_ends_ok : forall c, 0 < batch c ->
  inevitably c (final_ok c) (init c).
Proof. exact every_schedule_ends_ok. Qed.
Print Assumptions c13_every_schedule_ends_ok.

(* the hypothesis 0 < batch c is needed and satisfiable *)
Example ex_batch0_livelock : exists c s, batch c = 0 /\ reach c s /\ step c s s.
Proof. exact batch0_livelock. Qed.

Example ex_final_state_reachable :
  exists s, reach (mkCfg 1 4 2 2 (Some 3)) s /\ final s /\ yielded s = [[1;2]].
Proof. exact ex_final_reachable. Qed.

(* --- the trace checker used by the harness ------------------------------------- *)

(* an accepted trace is the observable trace of a path of the transition system
   from the initial to the final state *)
Theorem c13_accepts_sound : forall c tr, accepts c tr = true ->
  exists s, ltrace c (init c) tr s /\ reach c s /\ final s.
Proof. exact accepts_sound. Qed.
Print Assumptions c13_accepts_sound.

(* hence its get events are exactly the specified frames followed by one marker
   and its yield events are exactly the specified batches *)
Theorem c13_accepts_spec : forall c tr, 0 < batch c -> accepts c tr = true ->
  yields_of tr = chunks (batch c) (delivered c) /\
  gets_of tr = map (fr c) (delivered c) ++ [Sentinel].
Proof. exact accepts_spec. Qed.
Print Assumptions c13_accepts_spec.

(* the checker is exact (no false alarms, nothing missed): a trace is accepted
   iff it is the observable trace of a complete run of the transition system *)
Theorem c13_accepts_exact : forall c tr, 0 < batch c ->
  (accepts c tr = true <-> exists s, ltrace c (init c) tr s /\ final s).
Proof. exact accepts_exact. Qed.
Print Assumptions c13_accepts_exact.

Example ex_accepts :
  accepts (mkCfg 1 4 2 2 (Some 3))
    [EvStart; EvReadOk 1; EvPut 1 pl0; EvReadOk 2; EvGet 1 pl0; EvPut 2 pl0; EvReadFail 3; EvGet 2 pl0;
     EvYield [1;2]; EvPutSent; EvGetSent; EvJoin] = true.
Proof. exact ex_trace_accepted. Qed.

(* lost frame / repeated frame / stream never closed / consumer stops early *)
Example ex_rejects :
  accepts ex_cfg [EvStart; EvReadOk 1; EvPut 1 pl0; EvReadOk 2; EvGet 1 pl0; EvReadFail 3; EvPutSent;
                  EvGetSent; EvYield [1]; EvJoin] = false /\
  accepts ex_cfg [EvStart; EvReadOk 1; EvPut 1 pl0; EvGet 1 pl0; EvReadOk 1; EvPut 1 pl0; EvGet 1 pl0] = false /\
  accepts ex_cfg [EvStart; EvReadOk 1; EvPut 1 pl0; EvReadOk 2; EvGet 1 pl0; EvPut 2 pl0; EvReadFail 3; EvGet 2 pl0;
                  EvYield [1;2]] = false /\
  accepts (mkCfg 0 2 1 2 None)
          [EvStart; EvReadOk 0; EvPut 0 pl0; EvGet 0 pl0; EvReadOk 1; EvPut 1 pl0; EvGet 1 pl0; EvYield [0;1]; EvJoin] = false.
Proof. exact ex_bad_traces_rejected. Qed.

(* --- the static tie ---------------------------------------------------------------- *)

(* the per-run obligation `skeletons_match generated` (Gen/C13_SkelCheck.v) is
   satisfiable: it holds of the skeletons the model was written from.  It is syntactic equality with
   constants; `sk` has no semantics and the skeleton -> rule correspondence is documented in Stream.v,
   not proved (trusted, with the translator). *)
Example ex_skeletons_match :
  skeletons_match (mkSkeletons modelled_video_run modelled_labels_run true modelled_consumer true).
Proof. exact ex_skeletons_match_satisfiable. Qed.

(* ================================================================================== *)
(* --- widened model (C13/Poll.v): timed get, polling consumers, reader construction --- *)

(* SCOPE (review round 4, finding 5): /repo has ONE consumer, the blocking get of
   Predictor._predict_generator; it is m = Blocking, where xstep = lstep and xaccepts = accepts
   (c13_xaccepts_blocking), so the theorems of the first half are the ones that cover C13 for /repo.
   Polling and GiveUp are harness-side wrappers of get(); the theorems about them add no coverage of
   the property for /repo: they make the checker exact on, and able to refute, seeded variants of the
   consumer (C13_m4).
   `xstep c m` = Stream.lstep plus, for m = Polling, the rule "get(timeout) raises Empty when the
   queue is empty" (the consumer retries), and for m = GiveUp the time-out followed by an
   `is_alive()` look at the reader thread.  `waits_for_marker m` holds for Blocking and Polling.
   Fairness: a schedule may let the timed get expire for ever while the reader is starved; the
   theorems below say that this is the ONLY way not to finish, and that it is unfair. *)

Lemma xstep_rules : forall c m l x x', waits_for_marker m = true -> chk x = false -> xstep c m l x x' ->
  chk x' = false /\ ((exists l0, l = xlabel l0 /\ lstep c l0 (base x) (base x')) \/ (is_timeout l = true /\ x' = x)).
Proof. exact xstep_waits. Qed.
Print Assumptions xstep_rules.

(* the rule pair is exclusive: the time-out is enabled exactly when the consumer is at a get and
   the queue is empty, and then no step of the system takes anything from the queue *)
Theorem c13_timeout_enabled_iff : forall c x,
  (exists x', xstep c Polling (Some XTimeout) x x') <->
  (chk x = false /\ (exists k acc, cc (base x) = CCollect (S k) acc) /\ q (base x) = []).
Proof. exact timeout_enabled_iff. Qed.
Print Assumptions c13_timeout_enabled_iff.

Theorem c13_timeout_excludes_get : forall c m x x' s' l,
  xstep c m (Some XTimeout) x x' -> lstep c l (base x) s' -> taken s' = taken (base x).
Proof. exact timeout_excludes_get. Qed.
Print Assumptions c13_timeout_excludes_get.

(* (a) safety with a polling consumer: the stream invariant in every reachable state *)
Theorem c13_poll_invariant : forall c m x, waits_for_marker m = true -> xreach c m x ->
  chk x = false /\
  concat (yielded (base x)) ++ collecting (base x) ++ frames (q (base x))
    ++ in_flight (base x) ++ unread c (base x) = delivered c
  /\ sentinel_count (base x) <= 1
  /\ (sentinel_count (base x) = 1 <-> pp (base x) = PDone).
Proof. exact poll_invariant. Qed.
Print Assumptions c13_poll_invariant.

(* (b) deadlock freedom, strong form: in every reachable non-final state a step OTHER than a
   time-out is enabled (so a run that only times out from some point on starves an enabled thread) *)
Theorem c13_poll_progress_enabled : forall c m x, waits_for_marker m = true -> xreach c m x ->
  ~ xfinal x -> exists x', pstep c m x x'.
Proof. exact poll_progress_enabled. Qed.
Print Assumptions c13_poll_progress_enabled.

(* (c) termination under fairness.  A time-out changes nothing, every other step decreases the
   measure of Stream.v; *)
Theorem c13_poll_step_measure : forall c m l x x',
  waits_for_marker m = true -> 0 < batch c -> chk x = false -> xstep c m l x x' ->
  if is_timeout l then x' = x else measure c (base x') < measure c (base x).
Proof. exact poll_step_measure. Qed.
Print Assumptions c13_poll_step_measure.

(* hence any run holds at most 4(end-start)+8 steps that are not time-outs; *)
Theorem c13_poll_progress_bound : forall c m ls x, waits_for_marker m = true -> 0 < batch c ->
  xpath c m (xinit c) ls x -> progress_count ls <= 4 * (end_ c - start_ c) + 8.
Proof. exact poll_progress_bound. Qed.
Print Assumptions c13_poll_progress_bound.

(* no infinite run makes progress infinitely often (every infinite run is eventually the consumer
   timing out for ever in one state, with another step enabled all the time: not weakly fair); *)
Theorem c13_poll_no_fair_infinite_run : forall c m (sigma : nat -> xst) (lab : nat -> option xevent),
  waits_for_marker m = true -> 0 < batch c -> sigma 0 = xinit c ->
  (forall n, xstep c m (lab n) (sigma n) (sigma (S n))) ->
  ~ (forall N, exists n, N <= n /\ is_timeout (lab n) = false).
Proof. exact poll_no_fair_infinite_run. Qed.
Print Assumptions c13_poll_no_fair_infinite_run.

(* under the rule of the harness's scheduler (a failed timed get is not scheduled again before the
   shared state has changed = never two time-outs in a row) every run has at most 8(end-start)+17 steps *)
Theorem c13_poll_fair_run_length : forall c m ls x, waits_for_marker m = true -> 0 < batch c ->
  xpath c m (xinit c) ls x -> no_two_timeouts ls = true ->
  length ls <= 2 * (4 * (end_ c - start_ c) + 8) + 1.
Proof. exact poll_fair_run_length. Qed.
Print Assumptions c13_poll_fair_run_length.

Example ex_fair_path : exists ls x,
  xpath giveup_cfg Polling (xinit giveup_cfg) ls x /\ no_two_timeouts ls = true /\
  In (Some XTimeout) ls /\ length ls = 2.
Proof. exact ex_fair_path_with_timeout. Qed.

(* the final state is right whenever it is reached, *)
Theorem c13_poll_final_state : forall c m x, waits_for_marker m = true -> 0 < batch c ->
  xreach c m x -> xfinal x -> final_ok c (base x).
Proof. exact poll_final_state. Qed.
Print Assumptions c13_poll_final_state.

(* and it is reached, and right, on EVERY fair schedule: AF over the steps that are not time-outs
   (`inev_p`: P holds, or a non-time-out step exists and after every such step inev_p again) *)
Theorem c13_poll_every_fair_schedule_ends_ok : forall c m, waits_for_marker m = true -> 0 < batch c ->
  inev_p c m (fun y => xfinal y /\ final_ok c (base y)) (xinit c).
Proof. exact poll_every_fair_schedule_ends_ok. Qed.
Print Assumptions c13_poll_every_fair_schedule_ends_ok.

(* the widened trace checker: sound for every mode; an accepted trace of a consumer that waits for
   the marker shows the specified stream; on traces without time-outs it is the checker of Stream.v;
   it is exact (sound and complete) for the blocking (c13_accepts_exact) and the polling consumer. *)
Theorem c13_xaccepts_sound : forall c m tr, xaccepts c m tr = true ->
  exists ls x, xpath c m (xinit c) ls x /\ obs_of ls = tr /\ xreach c m x /\ xfinal x.
Proof. exact xaccepts_sound. Qed.
Print Assumptions c13_xaccepts_sound.

Theorem c13_xaccepts_spec : forall c m tr, waits_for_marker m = true -> 0 < batch c ->
  xaccepts c m tr = true ->
  yields_of (base_events tr) = chunks (batch c) (delivered c) /\
  gets_of (base_events tr) = map (fr c) (delivered c) ++ [Sentinel].
Proof. exact xaccepts_spec. Qed.
Print Assumptions c13_xaccepts_spec.

Theorem c13_xaccepts_blocking : forall c tr, xaccepts c Blocking (map XEv tr) = accepts c tr.
Proof. exact xaccepts_blocking. Qed.
Print Assumptions c13_xaccepts_blocking.

Theorem c13_xaccepts_exact_polling : forall c tr, 0 < batch c ->
  (xaccepts c Polling tr = true <->
   exists ls x, xpath c Polling (xinit c) ls x /\ obs_of ls = tr /\ xfinal x).
Proof. exact xaccepts_exact_polling. Qed.
Print Assumptions c13_xaccepts_exact_polling.

Example ex_polling_trace :
  xaccepts giveup_cfg Polling
    [XEv EvStart; XTimeout; XEv (EvReadOk 0); XTimeout; XEv (EvPut 0 pl0); XEv (EvGet 0 pl0); XEv (EvYield [0]);
     XTimeout; XEv EvPutSent; XEv EvGetSent; XEv EvJoin] = true /\
  xaccepts giveup_cfg Blocking polling_trace = false.
Proof. exact polling_trace_accepted. Qed.

(* --- the consumer that gives up when the reader thread is dead (seeded change C13_m4) ------- *)

(* `get(timeout)` raised Empty; the reader then delivers everything and ends; only now the consumer
   calls is_alive(), sees a dead reader and fabricates the marker: the run ends "normally" with
   frame 0 and the real marker still in the queue and nothing yielded. *)
Theorem c13_giveup_loses_frames : exists c x,
  0 < batch c /\ fault c = None /\ xreach c GiveUp x /\ xfinal x /\
  delivered c = [0] /\ yielded (base x) = [] /\ q (base x) = [Frame 0 pl0; Sentinel].
Proof. exact giveup_loses_frames. Qed.
Print Assumptions c13_giveup_loses_frames.

(* c13_poll_final_state with GiveUp in place of a consumer that waits for the marker is false *)
Theorem c13_giveup_final_state_refuted :
  ~ (forall c x, 0 < batch c -> xreach c GiveUp x -> xfinal x -> final_ok c (base x)).
Proof. exact giveup_final_state_refuted. Qed.
Print Assumptions c13_giveup_final_state_refuted.

(* why giving up is never right with this reader: whenever the reader thread is dead and the consumer
   is still collecting, the marker is in the queue, so a timed get cannot time out after the reader's
   death.  `is_alive() = False` seen after a time-out therefore always means that the queue was filled
   in between (the race above).
   REMARK (no theorem, review round 4 finding 4): it follows informally that a consumer sampling
   is_alive() BEFORE its timed get would never see a reason to give up; there is no `cmode` for such a
   consumer and nothing is proved about it. *)
Theorem c13_dead_reader_marker_queued : forall c s k acc,
  reach c s -> pp s = PDone -> cc s = CCollect k acc -> sentinels (q s) = 1 /\ q s <> [].
Proof. exact dead_reader_marker_queued. Qed.
Print Assumptions c13_dead_reader_marker_queued.

Example ex_dead_reader :
  reach giveup_cfg (base giveup_mid) /\ pp (base giveup_mid) = PDone /\
  cc (base giveup_mid) = CCollect 1 [] /\ sentinels (q (base giveup_mid)) = 1.
Proof. exact ex_dead_reader_collecting. Qed.

(* bridge between the two systems (review round 4, finding 3): a state of the widened system, in ANY
   mode, is a reachable state of Stream.v until the consumer has seen or fabricated a marker; after a
   fabrication (GiveUp only) it is not in general (ex_giveup_bridge), but then the consumer has left
   its collect loop for good *)
Theorem c13_xreach_is_stream_reach_until_done : forall c m x,
  xreach c m x -> done_ (base x) = false -> reach c (base x).
Proof. exact xreach_not_done_reach. Qed.
Print Assumptions c13_xreach_is_stream_reach_until_done.

Theorem c13_xreach_base : forall c m x, xreach c m x ->
  reach c (base x) \/
  (done_ (base x) = true /\ match cc (base x) with CProcess _ | CJoin | CFinished => True | _ => False end).
Proof. exact xreach_base. Qed.
Print Assumptions c13_xreach_base.

(* stated on the states of the widened system itself (all modes, GiveUp included; until round 4 the
   hypothesis was Stream-reachability of the base state, which nothing provided for GiveUp) *)
Theorem c13_no_timeout_after_death : forall c m x x',
  xreach c m x -> pp (base x) = PDone -> ~ xstep c m (Some XTimeout) x x'.
Proof. exact no_timeout_after_death. Qed.
Print Assumptions c13_no_timeout_after_death.

(* the hypotheses are met in mode GiveUp (the race state: reader dead, consumer between time-out and
   is_alive(), frame and marker queued); the end state of the race is xreach but not Stream-reachable *)
Example ex_giveup_bridge :
  xreach giveup_cfg GiveUp giveup_mid /\ pp (base giveup_mid) = PDone /\ reach giveup_cfg (base giveup_mid) /\
  (exists x', xstep giveup_cfg GiveUp (Some (XAlive false)) giveup_mid x') /\
  xreach giveup_cfg GiveUp giveup_end /\ ~ reach giveup_cfg (base giveup_end).
Proof. exact giveup_mid_reachable. Qed.

Example ex_giveup_trace :
  xaccepts giveup_cfg GiveUp
    [XEv EvStart; XTimeout; XEv (EvReadOk 0); XEv (EvPut 0 pl0); XEv EvPutSent; XAlive false; XEv EvJoin] = true /\
  xaccepts giveup_cfg Polling giveup_trace = false.
Proof. split; [exact giveup_trace_accepted | exact giveup_trace_not_polling]. Qed.

(* --- how the readers are constructed ------------------------------------------------------ *)

(* VideoReader(video, buffer, start_idx, end_idx) / VideoReader.from_filename: None means 0 resp.
   the length of the video; 0 means 0.  The reader iterates over range(start, end) whatever the length
   of the video; video[idx] with idx >= len(video) raises IndexError, which is a read failure like any
   other (caught, earlier frames delivered, marker put): a request that runs past the end of the video
   has a derived fault at the first index of the range that does not exist (review round 4, finding 1:
   until then `video_cfg` ignored the length once end_idx was given, and c13_video_request_delivered /
   c13_video_total_len misdescribed the code for end_idx > len(video); both statements are corrected
   here).  Decision: this is NOT a violation of "delivers every frame of the requested range": the
   frames of the range that exist are delivered, the first non-existing one is a failed read, the stream
   is closed (second sentence of the property).  total_len() over-reporting is an observation.
   These statements restate the request MODEL; that the code behaves like `video_cfg` is what the
   harness checks on every run (check_request, FakeVideo bounds-checks like sio.Video, real-video replay). *)
Lemma video_cfg_def : forall r,
  video_cfg r = mkCfgS (vr_start_ r) (vr_end_ r) (vr_cap r) (vr_batch r) (video_fault r) (vr_src r).
Proof. exact video_cfg_unfold. Qed.
Print Assumptions video_cfg_def.

Lemma video_fault_def : forall r,
  video_fault r =
  opt_min (match vr_fault r with Some x => if vr_start_ r <=? x then Some x else None | None => None end)
          (if vr_frames r <? vr_end_ r then Some (Nat.max (vr_start_ r) (vr_frames r)) else None).
Proof. exact video_fault_unfold. Qed.
Print Assumptions video_fault_def.

(* delivered = the frames of the requested range that exist in the video and precede the first
   frame of the range that cannot be decoded *)
Theorem c13_video_request_delivered : forall r i,
  In i (delivered (video_cfg r)) <->
  (vr_start_ r <= i < vr_end_ r /\ i < vr_frames r /\
   forall f, vr_fault r = Some f -> vr_start_ r <= f -> i < f).
Proof. exact video_request_delivered. Qed.
Print Assumptions c13_video_request_delivered.

(* inside the video the length plays no role (the model of rounds 2-3 is the special case) *)
Theorem c13_video_within_length : forall r, vr_end_ r <= vr_frames r ->
  video_fault r = in_range_fault (vr_start_ r) (vr_fault r) /\
  delivered (video_cfg r) = delivered (mkCfg (vr_start_ r) (vr_end_ r) (vr_cap r) (vr_batch r) (vr_fault r)).
Proof. exact video_within_length. Qed.
Print Assumptions c13_video_within_length.

(* past the end: a read fails for sure, and (no undecodable frame among the existing ones) exactly the
   existing frames of the range are delivered; by c13_every_schedule_ends_ok at `video_cfg r` the
   marker follows and the consumer stops, on every schedule *)
Theorem c13_video_overrun : forall r, vr_frames r < vr_end_ r ->
  (exists g, video_fault r = Some g /\ vr_start_ r <= g <= Nat.max (vr_start_ r) (vr_frames r)) /\
  ((forall f, vr_fault r = Some f -> vr_start_ r <= f -> vr_frames r <= f) ->
   delivered (video_cfg r) = seq (vr_start_ r) (vr_frames r - vr_start_ r)).
Proof. exact video_overrun. Qed.
Print Assumptions c13_video_overrun.

Theorem c13_video_no_read_fails_iff : forall r,
  video_fault r = None <->
  ((forall f, vr_fault r = Some f -> f < vr_start_ r) /\ vr_end_ r <= vr_frames r).
Proof. exact video_fault_none_iff. Qed.
Print Assumptions c13_video_no_read_fails_iff.

Theorem c13_video_end_zero_empty : forall r, vr_end r = Some 0 -> delivered (video_cfg r) = [].
Proof. exact video_end_zero_empty. Qed.
Print Assumptions c13_video_end_zero_empty.

Theorem c13_video_defaults_whole : forall n cp b,
  delivered (video_cfg (mkVReq n None None cp b None)) = seq 0 n.
Proof. exact video_defaults_whole. Qed.
Print Assumptions c13_video_defaults_whole.

(* total_len() = end - start: the number of frames delivered when no read fails -- which includes that
   the range does not run past the end of the video (c13_video_no_read_fails_iff); negative only
   for an inverted range, which delivers nothing *)
Theorem c13_video_total_len : forall r, video_fault r = None ->
  fst (video_total_len r) = length (delivered (video_cfg r)) /\
  (snd (video_total_len r) = 0 \/ delivered (video_cfg r) = []).
Proof. exact video_total_len_ok. Qed.
Print Assumptions c13_video_total_len.

(* observation (outside the property): past the end total_len() over-reports *)
Theorem c13_video_total_len_overrun : forall r,
  vr_fault r = None -> vr_start_ r <= vr_frames r -> vr_frames r < vr_end_ r ->
  length (delivered (video_cfg r)) = vr_frames r - vr_start_ r /\
  length (delivered (video_cfg r)) < fst (video_total_len r).
Proof. exact video_total_len_overrun. Qed.
Print Assumptions c13_video_total_len_overrun.

(* LabelsReader with instances_key (finding F130, FIXED in /repo by commit 061a599): in the pinned tree a
   labelled frame without a non-empty instance makes `np.stack([])` raise inside the reader's try block,
   so that reader handles it like a read failure: that frame and every later one are lost although all
   of them can be read.  `labels_cfg` is the code (lr_fixed = false: pinned tree, no code implements it
   any more; true: current tree), `labels_spec_cfg` the property (only read failures end the stream
   early).  The four statements below are about the request MODEL and are near-definitional (they unfold
   `labels_cfg`, which is defined to treat a bare frame as a fault; c13_labels_fixed is `if true`): that
   the code behaves like `labels_cfg` is the harness's evidence (check_request, witness replay).  The
   lr_fixed = false ones document the historic defect and keep the check able to report a regression. *)
Theorem c13_labels_full_refuted : exists r, lr_fault r = None /\
  delivered (labels_spec_cfg r) = [0; 1; 2] /\ delivered (labels_cfg r) = [0].
Proof. exact labels_full_refuted. Qed.
Print Assumptions c13_labels_full_refuted.

Theorem c13_labels_partial : forall r, bare_frame_selector r = false ->
  delivered (labels_cfg r) = delivered (labels_spec_cfg r).
Proof. exact labels_partial. Qed.
Print Assumptions c13_labels_partial.

Example ex_labels_partial :
  bare_frame_selector (mkLReq 3 2 1 (Some 1) true (Some 1) false) = false /\
  delivered (labels_cfg (mkLReq 3 2 1 (Some 1) true (Some 1) false)) = [0] /\
  delivered (labels_spec_cfg (mkLReq 3 2 1 (Some 1) true (Some 1) false)) = [0].
Proof. exact ex_labels_outside_selector. Qed.

Theorem c13_labels_fixed : forall r, lr_fixed r = true -> labels_cfg r = labels_spec_cfg r.
Proof. exact labels_fixed. Qed.
Print Assumptions c13_labels_fixed.

(* the selector is exact: inside it the unrepaired reader does lose the bare frame *)
Theorem c13_labels_selector_exact : forall r, lr_fixed r = false -> bare_frame_selector r = true ->
  exists bf, lr_first_bare r = Some bf /\ In bf (delivered (labels_spec_cfg r)) /\
             ~ In bf (delivered (labels_cfg r)).
Proof. exact labels_selected_truncated. Qed.
Print Assumptions c13_labels_selector_exact.

Example ex_reader_requests :
  delivered (video_cfg (mkVReq 5 None (Some 0) 1 1 None)) = [] /\
  delivered (video_cfg (mkVReq 5 (Some 0) None 1 1 None)) = [0;1;2;3;4] /\
  delivered (video_cfg (mkVReq 5 (Some 2) (Some 4) 1 1 None)) = [2;3] /\
  video_total_len (mkVReq 5 (Some 4) (Some 2) 1 1 None) = (0, 2) /\
  (* a range that runs past the end of a 3-frame video: frames 0..2, total_len() = 5 *)
  delivered (video_cfg (mkVReq 3 None (Some 5) 1 1 None)) = [0;1;2] /\
  video_total_len (mkVReq 3 None (Some 5) 1 1 None) = (5, 0) /\
  delivered (video_cfg (mkVReq 3 (Some 4) (Some 6) 1 1 None)) = [] /\
  delivered (video_cfg (mkVReq 3 (Some 1) (Some 6) 1 1 (Some 0))) = [1;2] /\
  delivered (video_cfg (mkVReq 3 (Some 1) (Some 6) 1 1 (Some 2))) = [1] /\
  bare_frame_selector bare_witness = true /\
  bare_frame_selector (mkLReq 3 2 1 (Some 1) true (Some 1) false) = false /\
  bare_frame_selector (mkLReq 3 2 1 None false (Some 1) false) = false.
Proof. exact ex_requests. Qed.

(* --- observation outside the property: an exception in the consumer --------------------------- *)

(* a reader waiting at put() on a full queue is moved only by a get of the consumer; the state in
   which the consumer is about to call the inference callable while the reader waits there is
   reachable.  So when the inference callable raises, the (non-daemon) reader thread waits for ever.
   The property speaks about READ failures only; this is recorded, not reported. *)
Theorem c13_blocked_reader_needs_get : forall c l s s',
  lstep c l s s' -> ((exists i p, pp s = PPut i p) \/ pp s = PSent) -> full c (q s) = true ->
  pp s' = pp s /\ (q s' = q s \/ exists x, taken s' = taken s ++ [x]).
Proof. exact blocked_reader_needs_get. Qed.
Print Assumptions c13_blocked_reader_needs_get.

Example ex_reader_blocked_while_inferring :
  reach crash_cfg crash_state /\ full crash_cfg (q crash_state) = true.
Proof. exact crash_state_reachable. Qed.
