(* Props.v (C13) — statements only; proofs live in C13/Lemmas.v.

   C13: "Frame readers deliver each frame once, in order, and always end the
   stream."  The model (C13/Stream.v) is a transition system whose paths are
   all interleavings of the reader thread (VideoReader.run / LabelsReader.run),
   the consumer loop (Predictor._predict_generator) and the bounded queue
   between them.  Every theorem below quantifies over ALL configurations
   c = (start, end, capacity, batch size, fault position)
     - any start / end, including empty and inverted ranges,
     - any capacity (0 = unbounded, as in queue.Queue),
     - any fault position (or none),
   and over ALL reachable states, i.e. all schedules, with no size bound.  The
   only hypothesis that appears is 0 < batch c (batch size 0 is outside the
   property: ex_batch0_livelock shows that the consumer then spins forever).

   The tie of this model to /repo is made on every run by the harness
   (harness/props/c13.py): the control skeleton of the three functions is
   re-extracted from the source and compared with `modelled_*` (Gen/C13_Skel.v,
   Gen/C13_SkelCheck.v), and traces of the real threads under prescribed
   schedules are replayed through `accepts`. *)
From Coq Require Import List Arith Bool Wf_nat.
Import ListNotations.
From SV Require Import C13.Stream C13.Lemmas.

(* --- the specification, restated ---------------------------------------- *)

(* the frames that must be delivered: start, start+1, ... up to the end of the
   range or the first index of the range whose read fails, whichever is first *)
Lemma delivered_def : forall c,
  delivered c =
  seq (start_ c)
      (match fault c with
       | Some f => if start_ c <=? f then Nat.min f (end_ c) else end_ c
       | None => end_ c
       end - start_ c).
Proof. exact delivered_unfold. Qed.
Print Assumptions delivered_def.

Theorem delivered_characterised : forall c i,
  In i (delivered c) <->
  (start_ c <= i < end_ c /\ forall f, fault c = Some f -> start_ c <= f -> i < f).
Proof. exact delivered_in. Qed.
Print Assumptions delivered_characterised.

(* `chunks b l` cuts l into consecutive batches of size b, the last one shorter
   but never empty *)
Theorem chunks_characterised : forall b l, 1 <= b ->
  concat (chunks b l) = l /\ Forall (fun y => 1 <= length y <= b) (chunks b l).
Proof. exact chunks_char. Qed.
Print Assumptions chunks_characterised.

Lemma final_def : forall s, final s = (pp s = PDone /\ cc s = CFinished).
Proof. exact final_unfold. Qed.
Print Assumptions final_def.

(* the final state is right: reader thread dead, consumer past join(), queue
   empty, the consumer took exactly the specified frames in order followed by
   exactly one marker, and yielded them in order in batches of the configured
   size (last one partial) *)
Lemma final_ok_def : forall c s,
  final_ok c s =
  (final s /\ q s = [] /\
   taken s = map Frame (delivered c) ++ [Sentinel] /\
   concat (yielded s) = delivered c /\
   yielded s = chunks (batch c) (delivered c)).
Proof. exact final_ok_unfold. Qed.
Print Assumptions final_ok_def.

Example ex_delivered_and_chunks :
  delivered (mkCfg 3 6 1 1 (Some 1)) = [3;4;5] /\
  delivered (mkCfg 3 6 1 1 (Some 4)) = [3] /\
  delivered (mkCfg 3 6 1 1 (Some 3)) = [] /\
  delivered (mkCfg 3 3 1 1 None) = [] /\
  chunks 2 [0;1;2;3;4] = [[0;1];[2;3];[4]] /\
  chunks 3 [] = [].
Proof. exact ex_delivered. Qed.

(* --- (a) safety: no loss, no duplication, no reordering, one marker --------- *)

(* In every reachable state, the frames already yielded, those being collected
   for the current batch, those in the queue, the one read but not yet put and
   those not yet read are, in this order, exactly the specified frames; there
   is at most one marker in the system (seen or queued), and there is one iff
   the reader thread has ended. *)
Theorem c13_invariant : forall c s, reach c s ->
  concat (yielded s) ++ collecting s ++ frames (q s) ++ in_flight s ++ unread c s = delivered c
  /\ sentinel_count s <= 1
  /\ (sentinel_count s = 1 <-> pp s = PDone).
Proof. exact invariant_reach. Qed.
Print Assumptions c13_invariant.

(* nothing is ever queued behind the marker: when the consumer has seen it,
   the reader has ended and the queue is empty *)
Theorem c13_nothing_behind_marker : forall c s, reach c s -> done_ s = true ->
  pp s = PDone /\ q s = [].
Proof. exact nothing_behind_marker. Qed.
Print Assumptions c13_nothing_behind_marker.

(* --- (b) deadlock freedom ---------------------------------------------------- *)

(* every reachable state other than the final one has an enabled transition:
   neither thread can block for ever on a full or an empty queue, with or
   without a read failure *)
Theorem c13_deadlock_free : forall c s, reach c s -> ~ final s -> exists s', step c s s'.
Proof. exact deadlock_free. Qed.
Print Assumptions c13_deadlock_free.

Theorem c13_stuck_is_final : forall c s, reach c s -> (forall s', ~ step c s s') -> final s.
Proof. exact stuck_is_final. Qed.
Print Assumptions c13_stuck_is_final.

(* --- (c) termination ----------------------------------------------------------- *)

Theorem c13_measure_decreases : forall c s s', 0 < batch c -> step c s s' ->
  measure c s' < measure c s.
Proof. exact step_decreases. Qed.
Print Assumptions c13_measure_decreases.

(* there is no infinite schedule *)
Theorem c13_no_infinite_schedule : forall c, 0 < batch c ->
  well_founded (fun s' s => step c s s').
Proof. exact step_wf. Qed.
Print Assumptions c13_no_infinite_schedule.

(* explicit bound on the length of any run *)
Theorem c13_run_length_bound : forall c n s, 0 < batch c -> stepn c n (init c) s ->
  n <= 4 * (end_ c - start_ c) + 8.
Proof. exact run_length_bound. Qed.
Print Assumptions c13_run_length_bound.

(* what holds whenever the final state is reached *)
Theorem c13_final_state : forall c s, 0 < batch c -> reach c s -> final s -> final_ok c s.
Proof. exact final_ok_reach. Qed.
Print Assumptions c13_final_state.

(* the main theorem: on EVERY path from the initial state (every schedule,
   every fault position) the final state is eventually reached, and it is right.
   `inevitably c P s` is the least predicate with: P s, or s has a successor
   and every successor is inevitably P (CTL: AF P). *)
Theorem c13_every_schedule_ends_ok : forall c, 0 < batch c ->
  inevitably c (final_ok c) (init c).
Proof. exact every_schedule_ends_ok. Qed.
Print Assumptions c13_every_schedule_ends_ok.

(* the hypothesis 0 < batch c is needed and satisfiable *)
Example ex_batch0_livelock : exists c s, batch c = 0 /\ reach c s /\ step c s s.
Proof. exact batch0_livelock. Qed.

Example ex_final_state_reachable :
  exists s, reach (mkCfg 1 4 2 2 (Some 3)) s /\ final s /\ yielded s = [[1;2]].
Proof. exact ex_final_reachable. Qed.

(* --- the trace checker used by the harness ------------------------------------- *)

(* an accepted trace is the observable trace of a path of the transition system
   from the initial to the final state *)
Theorem c13_accepts_sound : forall c tr, accepts c tr = true ->
  exists s, ltrace c (init c) tr s /\ reach c s /\ final s.
Proof. exact accepts_sound. Qed.
Print Assumptions c13_accepts_sound.

(* hence its get events are exactly the specified frames followed by one marker
   and its yield events are exactly the specified batches *)
Theorem c13_accepts_spec : forall c tr, 0 < batch c -> accepts c tr = true ->
  yields_of tr = chunks (batch c) (delivered c) /\
  gets_of tr = map Frame (delivered c) ++ [Sentinel].
Proof. exact accepts_spec. Qed.
Print Assumptions c13_accepts_spec.

(* the checker is exact (no false alarms, nothing missed): a trace is accepted
   iff it is the observable trace of a complete run of the transition system *)
Theorem c13_accepts_exact : forall c tr, 0 < batch c ->
  (accepts c tr = true <-> exists s, ltrace c (init c) tr s /\ final s).
Proof. exact accepts_exact. Qed.
Print Assumptions c13_accepts_exact.

Example ex_accepts :
  accepts (mkCfg 1 4 2 2 (Some 3))
    [EvStart; EvReadOk 1; EvPut 1; EvReadOk 2; EvGet 1; EvPut 2; EvReadFail 3; EvGet 2;
     EvYield [1;2]; EvPutSent; EvGetSent; EvJoin] = true.
Proof. exact ex_trace_accepted. Qed.

(* lost frame / repeated frame / stream never closed / consumer stops early *)
Example ex_rejects :
  accepts ex_cfg [EvStart; EvReadOk 1; EvPut 1; EvReadOk 2; EvGet 1; EvReadFail 3; EvPutSent;
                  EvGetSent; EvYield [1]; EvJoin] = false /\
  accepts ex_cfg [EvStart; EvReadOk 1; EvPut 1; EvGet 1; EvReadOk 1; EvPut 1; EvGet 1] = false /\
  accepts ex_cfg [EvStart; EvReadOk 1; EvPut 1; EvReadOk 2; EvGet 1; EvPut 2; EvReadFail 3; EvGet 2;
                  EvYield [1;2]] = false /\
  accepts (mkCfg 0 2 1 2 None)
          [EvStart; EvReadOk 0; EvPut 0; EvGet 0; EvReadOk 1; EvPut 1; EvGet 1; EvYield [0;1]; EvJoin] = false.
Proof. exact ex_bad_traces_rejected. Qed.

(* --- the static tie ---------------------------------------------------------------- *)

(* the per-run obligation `skeletons_match generated` (Gen/C13_SkelCheck.v) is
   satisfiable: it holds of the skeletons the model was written from *)
Example ex_skeletons_match :
  skeletons_match (mkSkeletons modelled_video_run modelled_labels_run true modelled_consumer true).
Proof. exact ex_skeletons_match_satisfiable. Qed.
